#!/usr/bin/env python3
"""regenerates MANIFEST.json from the property modules present under lib/props"""
import importlib, json, os, sys
V = os.path.dirname(os.path.dirname(os.path.abspath(__file__)))
sys.path.insert(0, os.path.join(V, "lib"))
props = [json.loads(l) for l in open(V + "/properties.jsonl")]
checks, na = [], []
PENDING = {}
pend_file = os.path.join(V, "lib", "pending.json")
if os.path.exists(pend_file):
    PENDING = json.load(open(pend_file))
import subprocess
tracked = set(subprocess.run(["git", "-C", V, "ls-files", "lib/props"], capture_output=True, text=True).stdout.split())
for p in props:
    pid = p["id"]
    path = os.path.join(V, "lib", "props", pid.lower() + ".py")
    # a property is claimed once its module is committed (work in progress is not claimed)
    if not os.path.exists(path) or ("lib/props/%s.py" % pid.lower()) not in tracked:
        na.append({"property_id": pid, "reason": PENDING.get(pid, "check not built yet in this round; planned as described in DESIGN.md section 6 (%s)" % pid)})
        continue
    mod = importlib.import_module("props." + pid.lower())
    checks.append({
        "property_id": pid,
        "quick_cmd": "./check %s --tier quick" % pid,
        "thorough_cmd": "./check %s --tier thorough" % pid,
        "evidence_file": "/verif/evidence/%s.json" % pid,
        "replay_cmd_template": "./check %s --replay {path}" % pid,
        "engine": "coq-proof+correspondence",
        "level_claimed": {"category": "proof", "text": mod.LEVEL_TEXT, "design_ref": "DESIGN.md section 6, %s" % pid},
        "level_note": mod.LEVEL_NOTE,
        "technique": mod.TECHNIQUE,
    })
m = {
    "version": 1,
    "setup_cmd": "./setup.sh",
    "hooks": {
        "guard": "verif",
        "enable": "go build -tags verif (the harness module replaces github.com/zalf-rpm/Hermes2Go/hermes by /repo/hermes)",
        "baseline_off_cmd": "for m in hermes src/calcHermesBatch src/calcSoil src/climatefileconverter src/cropfileconverter src/hermes2go src/hermes_service src/hermes_service/capnp/hermes_service_capnp src/producer_consumer src/ptf_testing src/renderservice src/verify_project; do (cd /repo/$m && gw=$(go env GOWORK 2>/dev/null); if [ -z \"$gw\" ] || [ \"$gw\" = off ]; then MF=-mod=mod; else MF=; fi; GOPROXY=off GOSUMDB=off go test $MF -json -vet=off -count=1 -timeout 25m ./...); done",
        "source_commits": json.load(open(V + "/lib/hook_commits.json")) if os.path.exists(V + "/lib/hook_commits.json") else [],
        "add_only": True,
    },
    "engines": [{"name": "coq-proof+correspondence", "path": "/verif/check",
                 "serves_properties": [c["property_id"] for c in checks],
                 "kind_free_text": "Coq 8.16.1 theorems about executable Gallina models (coq/theories), tied to /repo on every run by bit-exact/extensional correspondence (Go harness built from the working tree, model evaluated by vm_compute) and by regenerated model parts; property oracle on the real code for the failing-input search"}],
    "checks": checks,
    "notes": "See DESIGN.md. Known findings: known_findings.json. Seeded changes used to test the checks: seeded/.",
    "not_applicable": na,
}
json.dump(m, open(V + "/MANIFEST.json", "w"), indent=1)
print("claimed:", [c["property_id"] for c in checks]); print("not claimed:", [n["property_id"] for n in na])
