#!/usr/bin/env python3
"""validate MANIFEST.json and evidence files against the schemas (uses the tooling venv's jsonschema when present)"""
import json, sys, os, glob
try:
    import jsonschema
except ImportError:
    sys.path.insert(0, glob.glob("/opt/veriftools/pyvenv/lib/python3*/site-packages")[0])
    import jsonschema
V = os.path.dirname(os.path.dirname(os.path.abspath(__file__)))
ok = True
m = json.load(open(V + "/MANIFEST.json"))
jsonschema.validate(m, json.load(open("/root/.vp/MANIFEST.schema.json")))
props = [json.loads(l)["id"] for l in open(V + "/properties.jsonl")]
claimed = [c["property_id"] for c in m["checks"]]
na = [n["property_id"] for n in m.get("not_applicable", [])]
for p in props:
    if (p in claimed) == (p in na):
        print("property", p, "must be either claimed or not_applicable"); ok = False
es = json.load(open("/root/.vp/EVIDENCE.schema.json"))
for f in sorted(glob.glob(V + "/evidence/C*.json")):
    try:
        jsonschema.validate(json.load(open(f)), es)
    except Exception as e:
        print(f, "INVALID", str(e)[:300]); ok = False
print("ok" if ok else "PROBLEMS")
sys.exit(0 if ok else 1)
