#!/usr/bin/env python3
"""usage: seedall.py <PROP> [--checks C01,C06]  — confirms /tmp/mut/<PROP>.out/patch{1,2}.diff, runs the checks, stores
/verif/seeded/<PROP>-<k>/{patch.diff, demo/, meta.json}"""
import glob, json, os, re, shutil, subprocess, sys
V = os.path.dirname(os.path.dirname(os.path.abspath(__file__)))
import argparse
ap = argparse.ArgumentParser()
ap.add_argument("prop"); ap.add_argument("--checks"); ap.add_argument("--src"); ap.add_argument("--offset", type=int, default=0)
A = ap.parse_args()
prop = A.prop
checks = A.checks or prop
src = A.src or "/tmp/mut/%s.out" % prop
notes = []
try:
    notes = json.load(open(src + "/notes.json"))
except Exception as e:
    print("no notes.json:", e)
for k in (1, 2):
    patch = "%s/patch%d.diff" % (src, k)
    if not os.path.exists(patch):
        continue
    demo = "%s/demo%d" % (src, k)
    tests = glob.glob(demo + "/*_test.go")
    args = [sys.executable, V + "/lib/seedtest.py", prop, patch, "--checks", checks]
    if tests:
        names = [n for t in tests for n in re.findall(r"func (Test\w+)\(", open(t).read())]
        args += ["--demo-test", tests[0], "--demo-run", "^(" + "|".join(names) + ")$"]
        if any("VerifProbe" in open(t).read() or "go:build verif" in open(t).read() for t in tests):
            args += ["--demo-tags", "verif"]
    else:
        note = notes[k - 1] if len(notes) >= k else {}
        print("non-test demo for", prop, k, ":", note.get("demo"))
        args += ["--demo-dir", demo]
        runsh = glob.glob(demo + "/run.sh")
        if runsh:
            args += ["--demo-cmd", "sh seed_demo/run.sh"]
    p = subprocess.run(args, capture_output=True, text=True)
    try:
        res = json.loads(p.stdout[p.stdout.index("{"):])
    except Exception:
        print("seedtest failed:", p.stdout[-1500:], p.stderr[-1500:]); continue
    dst = "%s/seeded/%s-%d" % (V, prop, k + A.offset)
    shutil.rmtree(dst, ignore_errors=True)
    os.makedirs(dst)
    shutil.copy(patch, dst + "/patch.diff")
    if os.path.isdir(demo):
        shutil.copytree(demo, dst + "/demo")
    note = notes[k - 1] if len(notes) >= k else {}
    meta = {"property": prop, "breaks": note.get("breaks"), "needs_to_manifest": note.get("needs"), "demo": note.get("demo"),
            "author_verified": note.get("verified"),
            "confirmed_by_lead": {kk: res.get(kk) for kk in ("applies", "compiles", "suite_still_passes", "suite",
                                                            "demo_passes_without_change", "demo_fails_with_change")},
            "what_was_run": "lib/seedtest.py in a scratch worktree of /repo HEAD: git apply, go build of hermes + src/{hermes2go,calcHermesBatch,cropfileconverter}, "
                            "lib/baseline.py (pinned suite), the demonstration without and with the change, then VERIF_REPO=<worktree> ./check <id> --tier quick",
            "checks": res.get("checks")}
    json.dump(meta, open(dst + "/meta.json", "w"), indent=1)
    c = res.get("checks", {})
    print(prop, k + A.offset, {kk: res.get(kk) for kk in ("compiles", "suite_still_passes", "demo_passes_without_change", "demo_fails_with_change")},
          {cc: (c[cc]["exit"], c[cc].get("replay_kind")) for cc in c})
