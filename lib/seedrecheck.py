#!/usr/bin/env python3
"""usage: seedrecheck.py <seed-id> [<seed-id> ...] | --missed   — re-runs the CURRENT checks against stored seeded changes
(scratch worktree via lib/seedtest.py, no suite / demo re-run) and updates seeded/<id>/meta.json:
 "checks" = the new result, "check_history" = the earlier results (so that a miss that led to a stronger check stays visible)."""
import glob, json, os, subprocess, sys, time
V = os.path.dirname(os.path.dirname(os.path.abspath(__file__)))


def ids():
    a = sys.argv[1:]
    if a == ["--missed"]:
        out = []
        for f in sorted(glob.glob(V + "/seeded/*/meta.json")):
            m = json.load(open(f))
            if any(v.get("exit") == 0 for v in (m.get("checks") or {}).values()):
                out.append(f.split("/")[-2])
        return out
    return a


for sid in ids():
    d = os.path.join(V, "seeded", sid)
    m = json.load(open(d + "/meta.json"))
    checks = ",".join((m.get("checks") or {m["property"]: 0}).keys())
    p = subprocess.run([sys.executable, V + "/lib/seedtest.py", m["property"], d + "/patch.diff", "--checks", checks, "--skip-baseline"],
                       capture_output=True, text=True)
    try:
        res = json.loads(p.stdout[p.stdout.index("{"):])
    except Exception:
        print(sid, "seedtest failed", p.stdout[-500:], p.stderr[-500:]); continue
    old = m.get("checks")
    if old:
        m.setdefault("check_history", []).append({"replaced_at": time.strftime("%Y-%m-%d %H:%M"), "checks": old})
    m["checks"] = res.get("checks")
    json.dump(m, open(d + "/meta.json", "w"), indent=1)
    print(sid, {c: (v["exit"], v.get("replay_kind")) for c, v in (res.get("checks") or {}).items()})
