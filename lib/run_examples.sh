#!/bin/sh
# usage: run_examples.sh <repo> <outdir>  — builds hermes2go from <repo>, runs every shipped example batch in a copy
set -e
REPO=$1; OUT=$2
rm -rf "$OUT"; mkdir -p "$OUT"
(cd $REPO/src/hermes2go && GOPROXY=off GOSUMDB=off go build -o "$OUT/hermes2go" .)
cp -r $REPO/examples "$OUT/ex"
cd "$OUT/ex"
for b in *_batch.txt muencheberg_batch_et_haude_tmax.txt; do
  [ -f "$b" ] || continue
  echo "== $b"
  timeout 600 "$OUT/hermes2go" -module batch -concurrent 8 -batch $b 2>&1 | grep -v "^Execution time\|^Batch File\|^Working Dir" | tail -5
done
