#!/usr/bin/env python3
"""collects the harmless-refactoring round: /tmp/mut/ref{A,B}.out/patch*.diff + notes.json and the results of running ALL
checks against each (lib/seedtest.py REF <patch> --checks C01..C20 --skip-baseline > /tmp/ref_results/<S><k>.json)
into seeded/harmless/ (patches, notes, RESULTS.md)"""
import glob, json, os, shutil
V = os.path.dirname(os.path.dirname(os.path.abspath(__file__)))
rows = []
for S in ("A", "B", "C", "D"):
    src = "/tmp/mut/ref%s.out" % S
    try:
        notes = json.load(open(src + "/notes.json"))
    except Exception:
        notes = []
    for k in range(1, 7):
        pf = "%s/patch%d.diff" % (src, k)
        rf = "/tmp/ref_results/%s%d.json" % (S, k)
        if not (os.path.exists(pf) and os.path.exists(rf)):
            continue
        t = open(rf).read()
        try:
            r = json.loads(t[t.index("{"):])
        except Exception:
            continue
        # checks that were re-run because another work package was rebuilding the shared tree during the first run
        rr = "/tmp/ref_results/%s%d_rerun.json" % (S, k)
        rerun = []
        if os.path.exists(rr):
            try:
                t2 = open(rr).read(); r2 = json.loads(t2[t2.index("{"):])
                for c, v in r2["checks"].items():
                    if r["checks"].get(c, {}).get("exit") != 0:
                        rerun.append(c)
                    r["checks"][c] = v
            except Exception:
                pass
        shutil.copy(pf, "%s/seeded/harmless/%s%d.diff" % (V, S, k))
        n = notes[k - 1] if len(notes) >= k else {}
        bad = {c: v["exit"] for c, v in r["checks"].items() if v["exit"] != 0}
        rows.append("| %s%d | %s | %s | %s | %d checks run, %s |" % (
            S, k, n.get("kind", ""), ", ".join(n.get("files", [])), (n.get("what") or "").replace("|", "/")[:200],
            len(r["checks"]), ("all silent" if not bad else "ALARM: %s" % bad) +
            ((" (%s re-run: the first run was disturbed by concurrent work on the shared tree (a theory file being edited, or the harness already using a hook the scratch worktree did not have yet))" % ", ".join(rerun)) if rerun else "")))
if not rows:
    raise SystemExit("no source results under /tmp/mut/ref*.out and /tmp/ref_results: seeded/harmless/RESULTS.md left as it is")
open(V + "/seeded/harmless/RESULTS.md", "w").write(
    "# Behaviour-preserving refactorings run through every check\n\nWritten by fresh sub-agents given only a scratch worktree (no access to /verif), "
    "verified by them byte-identical on the shipped example batches; each patch was applied to a scratch worktree of /repo HEAD and ALL twenty quick "
    "checks were run against it (`lib/seedtest.py REF <patch> --checks C01,...,C20 --skip-baseline`).  A check that exits non-zero here raises an "
    "alarm on code where the property holds.\n\n| id | kind | files | what | result |\n|---|---|---|---|---|\n" + "\n".join(rows) + "\n")
print(len(rows), "patches;", sum(1 for r in rows if "ALARM" in r), "alarms")
