"""shared by C02 and C07: Coq case emission for the nitrogen kernels (nmove, mineral, denitr)"""
import re
from props.waterlib import fl, fls, b, run_harness

HDR = ["From Coq Require Import ZArith List Bool Floats.", "From Hermes Require Import Num NitroModel HarvestModel C01Corr C02Corr HarvestCorr.",
       "Import ListNotations.", "Open Scope float_scope."]


def nmove_record(i, o):
    return ("({| ni_subd1 := %s; ni_wdt := %s; ni_after_sow := %s; ni_growing := %s; ni_fluss0 := %s; ni_dv := %s; "
            "ni_draidep := %d; ni_qdrain := %s; ni_outn := %d; ni_stab := %s; ni_schnorr := %s; ni_ad := %s; ni_expo := %s; "
            "ni_wg0 := %s; ni_w := %s; ni_pe := %s; ni_c1 := %s; ni_dn := %s; ni_q1 := %s; ni_pesum := %s; "
            "ni_aufnasum := %s; ni_outsum := %s; ni_nleag := %s; ni_drainloss := %s |}, "
            "{| nb_pe := %s; nb_c1 := %s; nb_q10 := %s; nb_d := %s; nb_v := %s; nb_db := %s; nb_disp := %s; nb_konv := %s; "
            "nb_unstable := %s; nb_cnt := %s |})"
            % (b(i["subd1"]), fl(i["wdt"]), b(i["after_sow"]), b(i["growing"]), fl(i["fluss0"]), fl(i["dv"]), max(i["draidep"], 0),
               fl(i["qdrain"]), i["outn"], fl(i["stab"]), fl(i["schnorr"]), fls(i["ad"]), fls(i["expo"]), fls(i["wg0"]),
               fls(i["w"]), fls(i["pe"]), fls(i["c1"]), fls(i["dn"]), fls(i["q1"]),
               fl(i["cnt"][0]), fl(i["cnt"][1]), fl(i["cnt"][2]), fl(i["cnt"][3]), fl(i["cnt"][4]),
               fls(o["pe"]), fls(o["c1"]), fl(o["q10"]), fls(o["d"]), fls(o["v"]), fls(o["db"]), fls(o["disp"]), fls(o["konv"]),
               b(o["unstable"]), fls(o["cnt"])))


def lls(ll):
    return "[" + "; ".join(fls(l) for l in ll) + "]"


def mineral_record(c):
    return "(%s, %s, (%s, %s))" % (lls(c["layers"]), fls(c["glob"]), lls(c["out_layers"]), fls(c["out_glob"]))


def denit_record(c):
    i, o = c["in"], c["out"]
    return "(%s, %s, %s, %s, %s, (%s, %s))" % (fls(i["c1"]), fl(i["nq"]), fl(i["fth"]), fl(i["fte"]), fl(i["cum"]), fls(o["c1"]), fl(o["cum"]))


def denitmo_record(c):
    i, o = c["in"], c["out"]
    return "(%s, %s, %s, %s, %s, (%s, %s))" % (fls(i["c1"]), fls(i["nq"]), fls(i["fth"]), fls(i["fte"]), fl(i["cum"]), fls(o["c1"]), fl(o["cum"]))


def till_record(c):
    full = nmove_record(c["in"], {"pe": [], "c1": [], "q10": "0x0p+00", "d": [], "v": [], "db": [], "disp": [], "konv": [],
                                  "unstable": False, "cnt": []})
    nin = full[1:full.index(", {| nb_pe")]
    p, o = c["pre"], c["out"]
    return ("(%s, {| tl_eint := %s; tl_tilart := %d%%Z; tl_nfos := %s; tl_naos := %s; tl_minfos := %s; tl_minaos := %s; "
            "tl_o_nfos := %s; tl_o_naos := %s; tl_o_minfos := %s; tl_o_minaos := %s; tl_o_c1 := %s |})"
            % (nin, fl(p["eint"]), p["tilart"], fls(p["nfos"]), fls(p["naos"]), fls(p["minfos"]), fls(p["minaos"]),
               fls(o["nfos"]), fls(o["naos"]), fls(o["minfos"]), fls(o["minaos"]), fls(o["c1"])))


def harv_record(c):
    i, o = c["in"], c["out"]
    return ("({| hi_resid := {| ri_jn := %s; ri_dauer := %s; ri_aa := %s; ri_pesum := %s; ri_obmas := %s; ri_gehob := %s; "
            "ri_kostro := %s; ri_nernt := %s; ri_nkopp := %s; ri_nwura := %s; ri_nfast := %s |}; hi_first := %s; hi_wuant := %s; "
            "hi_nfos := %s; hi_naos := %s; hi_dsumm := %s |}, "
            "{| hv_nfos := %s; hv_naos := %s; hv_dsumm := %s; hv_nresid := %s; hv_nagb := %s; hv_pesum_kept := %s; hv_pesum := %s |})"
            % (fl(i["jn"]), b(i["dauer"]), b(i["aa"]), fl(i["pesum"]), fl(i["obmas"]), fl(i["gehob"]), fl(i["kostro"]),
               fl(i["nernt"]), fl(i["nkopp"]), fl(i["nwura"]), fl(i["nfast"]), b(i["first"]), fls(i["wuant"]), fls(i["nfos"]),
               fls(i["naos"]), fl(i["dsumm"]), fls(o["nfos"]), fls(o["naos"]), fl(o["dsumm"]), fl(o["nresid"]), fl(o["nagb"]),
               b(o["pesum_kept"]), fl(o["pesum"])))


KINDS = {
    "nmove": ("(nmove_in (T:=float) * nmove_obs)", "nmove_check", lambda c: nmove_record(c["in"], c["out"]),
              ["PE", "C1", "Q1[0]", "D/V/DB", "DISP", "KONV", "instability flag", "counters"], 60),
    "mineral": ("(list (list float) * list float * (list (list float) * list float))", "mineral_check", mineral_record,
                ["layer pools/DN/DUMS", "scalars"], 200),
    "denit": ("(list float * float * float * float * float * (list float * float))", "denit_check", denit_record,
              ["C1", "CUMDENIT"], 400),
    "denitmo": ("(list float * list float * list float * list float * float * (list float * float))", "denitmo_check",
                denitmo_record, ["C1", "CUMDENIT"], 400),
    "harv": ("(harvest_in (T:=float) * harv_obs)", "harvest_check", harv_record,
             ["NFOS/NAOS after the harvest", "DSUMM", "residue N / above-ground N of the crop record", "crop N kept by a permanent crop"], 300),
    "prog": ("(float * float * float * float * float * float * (float * float))", "prog_check",
             lambda c: "(%s, %s, %s, %s, %s, %s, (%s, %s))" % (fl(c["in"]["c10"]), fl(c["in"]["dtgesn"]), fl(c["in"]["angebot"]), fl(c["in"]["wg0"]),
                                                             fl(c["in"]["dz"]), fl(c["in"]["dungbed"]), fl(c["out"]["c1"]), fl(c["out"]["dungbed"])),
             ["C1[0] after the dressing", "DUNGBED"], 400),
    "till": ("(nmove_in (T:=float) * till_obs)", "till_check", till_record,
             ["NFOS/NAOS", "MINFOS/MINAOS", "C1 after the transport step"], 100),
}


def eval_cases(ctx, corr, cases, prefix="Cases_n"):
    items, index = [], {}
    for kind, (ty, chk, rec, names, shard) in KINDS.items():
        sel = [c for c in cases if c["k"] == kind]
        recs = [rec(c) for c in sel]
        for k in range(0, len(recs), shard):
            nm = "%s_%s_%d" % (prefix, kind, k // shard)
            body = HDR + ["Definition cases : list %s := [\n%s\n]." % (ty, ";\n".join(recs[k:k + shard])),
                          "Definition M := Eval vm_compute in mismatches %s %d%%nat cases." % (chk, k), "Print M."]
            items.append((nm, "\n".join(body) + "\n"))
            index[nm] = (kind, sel, names)
        corr.cases += len(recs)
        corr.dist[kind] = corr.dist.get(kind, 0) + len(recs)
    for nm, rc, o in ctx.coq_eval_many(items, timeout=900):
        kind, sel, names = index[nm]
        m = re.search(r"M\s*=\s*(.*?)\s*:\s*list \(nat \* nat\)", o, re.S)
        if rc != 0 or not m:
            corr.mismatches.append({"kind": "coq-eval", "shard": nm, "output": o[-1200:]})
            continue
        pairs = re.findall(r"\(\s*(\d+)(?:%nat)?\s*,\s*(\d+)(?:%nat)?\s*\)", m.group(1))
        if m.group(1).strip() != "[]" and not pairs:
            corr.mismatches.append({"kind": "coq-eval", "shard": nm, "output": o[-1200:]})
        for idx, mask in pairs:
            idx, mask = int(idx), int(mask)
            corr.mismatches.append({"kind": kind + "-kernel", "case": idx,
                                    "differs": [names[j] for j in range(len(names)) if mask >> j & 1],
                                    "input": sel[idx].get("in", {k: v for k, v in sel[idx].items() if k in ("layers", "glob")})})
    return corr
