"""C12 — date conversion is a calendar-correct, order-preserving bijection.

proof:           Prop_C12.v (finite sweeps over the whole stated domain + structural text proof)
correspondence:  DateModel (kalender_date, masdat_num, kalender_converter, date_converter) evaluated in
                 Coq on every day number 1..72684 and on sampled/complete text cases, compared with what
                 hermes.KalenderDate / KalenderConverter / DateConverter returned
oracle:          exhaustive on the real code against Go's time package (all days x 4 formats x {"", "."}
                 x the extreme and one random century split)
"""
import subprocess, os
from core import Corr, Fail, chunked_list, sh, REPO

PROP_FILES = ["Prop_C12"]
RULE = ("numeric: every day number 1..72684 (exhaustive); text: day numbers sampled 1/N plus all month/year/leap "
        "boundaries, x 4 formats x separators {'', '.'} x century split (random valid, plus random ambiguous ones); "
        "a case is non-trivial when distinct (n, format, separator, split)")
TRUSTED = ["Go time package as the civil-calendar reference of the oracle"]
ASSUMPTIONS = ["Go int arithmetic modelled on unbounded Z (all values < 2^31)",
               "strconv.ParseInt / fmt %02d,%d modelled for the digit strings the converters produce"]

_cache = {}


def _run(ctx):
    if "out" in _cache:
        return _cache["out"]
    vh = ctx.harness()
    every = 4 if ctx.thorough else 40
    import os, shutil
    ex = os.path.join(ctx.work, "ex")
    if not os.path.isdir(ex):
        shutil.copytree(os.path.join(REPO, "examples"), ex)
    p = subprocess.run([vh, "c12", "-seed", str(ctx.seed), "-text-every", str(every), "-work", ex],
                       stdout=subprocess.PIPE, stderr=subprocess.PIPE, text=True, timeout=600)
    _cache["out"] = (p.returncode, p.stdout, p.stderr)
    return _cache["out"]


def _nib(text):
    v, sh_ = 0, 0
    for ch in text:
        d = 10 if ch == "." else int(ch)
        v |= d << sh_; sh_ += 4
    v |= 15 << sh_
    return v


def correspond(ctx):
    c = Corr()
    rc, out, err = _run(ctx)
    if rc != 0:
        c.mismatches.append({"kind": "harness-crash", "stderr": err[-1500:], "last": out[-300:]})
        return c
    nums, texts = [], []
    expect_n = 1
    seen = set()
    for line in out.split("\n"):
        if line.startswith("N "):
            _, n, y, m, d, zt, mas = line.split()[:7]
            n, y, m, d, zt, mas = map(int, (n, y, m, d, zt, mas))
            assert n == expect_n; expect_n += 1
            ok = 0 <= mas < 100000 and 0 <= zt < 1000 and 0 <= d < 100 and 0 <= m < 100 and 0 <= y < 9000
            if not ok:      # unpackable observation: certainly not what the model computes
                c.mismatches.append({"kind": "numeric", "n": n, "observed": line}); continue
            nums.append(str(y * 10**12 + m * 10**10 + d * 10**8 + zt * 10**5 + mas))
        elif line.startswith("T "):
            _, f, s, cent, n, text, zt, mas = line.split()
            f, s, cent, n, zt, mas = map(int, (f, s, cent, n, zt, mas))
            if not (all(ch in "0123456789." for ch in text) and len(text) <= 10 and 0 <= zt < 1000 and 0 <= mas < 100000):
                c.mismatches.append({"kind": "text", "case": line}); continue
            a = ((f * 2 + s) * 1000 + cent) * 100000 + n
            texts.append(("(%d, %d, %d)" % (a, _nib(text), zt * 100000 + mas), line))
            seen.add((f, s, cent, n))
            c.bump("fmt%d" % f)
    if len(nums) != 72684:
        c.mismatches.append({"kind": "numeric", "what": "only %d packable numeric cases" % len(nums)})
    hdr = ["From Coq Require Import ZArith List Uint63.", "From Hermes Require Import DateModel C12Corr.",
           "Import ListNotations.", "Open Scope uint63_scope."]
    items = []
    NSH = 12
    per = (len(nums) + NSH - 1) // NSH
    for k in range(NSH):
        part = nums[k * per:(k + 1) * per]
        if not part:
            continue
        items.append(("Cases_C12_num%d" % k, "\n".join(hdr + [
            "Definition nums : list int := %s." % chunked_list(part, "int"),
            "Definition NM := Eval vm_compute in num_mismatches %d%%Z nums." % (k * per + 1), "Print NM."]) + "\n"))
    TSH = 4
    tper = (len(texts) + TSH - 1) // TSH
    for k in range(TSH):
        part = texts[k * tper:(k + 1) * tper]
        if not part:
            continue
        items.append(("Cases_C12_text%d" % k, "\n".join(hdr + [
            "Definition texts : list (int * int * int) := %s." % chunked_list([t[0] for t in part], "(int * int * int)"),
            "Definition TM := Eval vm_compute in text_mismatches %d%%Z texts." % (k * tper), "Print TM."]) + "\n"))
    c.cases = len(nums) + len(texts)
    c.nontrivial = len(nums) + len(seen)
    c.samples = ["N 36219 -> 2000-02-29 doy 60"] + [t[1] for t in texts[:3]] + [t[1] for t in texts[-2:]]
    c.dist["numeric"] = len(nums); c.dist["text"] = len(texts)
    import re
    for name, rc, o in ctx.coq_eval_many(items, timeout=1500):
        m = re.search(r"[NT]M\s*=\s*(.*?)\s*:\s*list Z", o, re.S)
        if rc != 0 or not m:
            c.mismatches.append({"kind": "coq-eval", "shard": name, "output": o[-1500:]})
            continue
        if m.group(1).strip() != "[]":
            idx = [int(x) for x in re.findall(r"\d+", m.group(1))]
            if "num" in name:
                c.mismatches.append({"kind": "numeric", "what": "model and KalenderDate/DateConverter differ",
                                     "day_numbers": idx[:20]})
            else:
                c.mismatches.append({"kind": "text", "what": "model and Kalender/Datum differ",
                                     "cases": [texts[i][1] for i in idx[:20]]})
    return c


def _input_glue(ctx):
    """the converters inside the input readers: ONE abstract project (rotation, fertiliser, tillage, irrigation,
    measurement dates; the automatic-management table with its day+month windows) written in each of the four date
    formats; the real Input runs on each (harness command inputstate) under fixed dates, automatic sowing, automatic
    harvest and both: the day numbers it leaves in the rotation arrays (sowing, harvest, latest harvest, both ends of
    the sowing window, start of the simulation) must be the same whatever the format, and the fixed sowing / harvest
    day numbers must be those of the calendar dates"""
    import random, datetime
    from props import fmtlib as F, c13
    env = F.setup(ctx, sharpen=False)
    rnd = random.Random(ctx.seed)
    P = F.base_project(rnd, crops=(("SM", ""), ("SOY", "000")), years=(1980, 1983))
    fmts = ["DateDEshort", "DateDElong", "DateENshort", "DateENlong"]
    variants = ["", "AutoSowingHarvest=1", "AutoHarvest=1", "AutoSowingHarvest=1 AutoHarvest=1"]
    lines, idx = [], {}
    for f in fmts:
        nm = "c12_" + f
        F.write_project(env, nm, P, datefmt=f)       # compact dates: Input builds the window texts as <4 digits> + <year part of the rotation date>
        for v in variants:
            idx[(f, v)] = len(lines)
            lines.append(F.line_for(nm, P, extra=v))
    st = c13.input_states(ctx, env, lines)
    fails, compared = [], 0
    base = datetime.date(1900, 12, 31)
    for v in variants:
        ref = st.get(idx[("DateDElong", v)])
        for f in fmts:
            o = st.get(idx[(f, v)])
            if not o or not o.get("success") or "saat" not in o:
                fails.append(Fail(key="input-glue:run-failed:%s:%s" % (f, v or "fixed"), what="Input on the %s project (%s): %s" % (f, v or "fixed dates", (o or {}).get("err")),
                                  replay={"line": lines[idx[(f, v)]], "project": "written by lib/props/fmtlib.write_project"}))
                continue
            for k in ("saat", "ernte", "ernte2", "saat1", "saat2", "itag", "beginn"):
                compared += 1
                if ref and ref.get("success") and o[k] != ref.get(k):
                    fails.append(Fail(key="input-glue:%s:%s:%s" % (f, v or "fixed", k),
                                      what="day numbers left by Input differ between date formats: %s under %s gives %s = %s, DateDElong gives %s" % (f, v or "fixed dates", k, o[k], ref.get(k)),
                                      replay={"line": lines[idx[(f, v)]], "reference_line": lines[idx[("DateDElong", v)]]}))
                    break
            if v == "":
                # (the first entry is the crop standing at the start: its sowing date is not read)
                want_s = [(r[1] - base).days for r in P.rot][1:]
                want_h = [(r[2] - base).days for r in P.rot]
                if o["saat"][1:len(P.rot)] != want_s or o["ernte"][:len(want_h)] != want_h:
                    fails.append(Fail(key="input-glue:%s:fixed:calendar" % f, what="fixed sowing / harvest day numbers %s / %s, the calendar dates of the rotation are %s / %s" % (o["saat"][1:len(P.rot)], o["ernte"][:len(want_h)], want_s, want_h),
                                      replay={"line": lines[idx[(f, v)]]}))
    ctx.extra["input_glue_arrays_compared_across_date_formats"] = compared
    return fails


def oracle(ctx, search):
    rc, out, err = _run(ctx)
    fails = []
    if rc != 0:
        fails.append(Fail(key="harness-crash", what="converter aborted (log.Fatal/panic) on a date of the range",
                          stderr=err[-800:], last_output=out[-300:]))
        return fails
    for line in out.split("\n"):
        if line.startswith("ORACLE "):
            fails.append(Fail(key=line[7:60], what=line[7:]))
        if line.startswith("RUNDAYS "):
            ctx.extra["days_of_the_run_crossing_2000_checked_for_day_of_year_and_year_length"] = int(line.split()[1])
        if line.startswith("CONFIGURED "):
            ctx.extra["conversions_through_configured_converters_interleaved"] = int(line.split()[1])
    if "conversions_through_configured_converters_interleaved" not in ctx.extra:
        fails.append(Fail(key="configured-converters-not-exercised", what="readConfig did not install the converters for the four formats"))
    for line in out.split("\n"):
        if line.startswith("LANGTAG "):
            ctx.extra["conversions_through_the_configured_prediction_date_converter"] = int(line.split()[1])
    fails += _input_glue(ctx)
    ctx.extra["oracle_conversions"] = 72684 * (1 + 4 * 2 * 2)
    ctx.extra["exhaustive"] = True
    return fails

LEVEL_TEXT = ("Machine-checked proof (Coq) over the whole stated domain: every day number 1..72684, every valid date "
              "1901-2099, all four formats, any separator of length <= 1, every century split 0..100; the model is run "
              "against the real converters on every day number and on sampled text cases each run, and the real "
              "converters are compared exhaustively with Go's time package.")
LEVEL_NOTE = ("Trusted: Coq kernel + vm_compute; the model of strconv.ParseInt/fmt for digit strings; Go's time package "
              "as oracle reference; harness/driver. No axioms (Print Assumptions: closed under the global context).")
TECHNIQUE = "Coq proof (finite-domain sweeps lifted by forallb/iteration lemmas + structural text proof) + exhaustive model/code correspondence"
