"""C05: translator output -> Coq obligations (gen/OutFmtConfigs.v), configurations with exact-value twin columns,
and the expected rendering of a field (format string semantics shared by Go's fmt and python's % for the verbs the
configurations use)."""
import json, math, os, re, subprocess
from core import BuildError, REPO

_cache = {}


def translate(ctx):
    """runs the translator on the working tree: {name: config dict}"""
    if "cfgs" in _cache:
        return _cache["cfgs"]
    vh = ctx.harness()
    p = subprocess.run([vh, "c05fmt", "-examples", os.path.join(REPO, "examples", "project")], stdout=subprocess.PIPE,
                       stderr=subprocess.PIPE, text=True, timeout=300)
    if p.returncode != 0:
        raise BuildError("vh c05fmt failed: " + p.stderr[-800:])
    line = [l for l in p.stdout.split("\n") if l.startswith("{")]
    if not line:
        raise BuildError("vh c05fmt printed nothing")
    _cache["cfgs"] = json.loads(line[0])
    return _cache["cfgs"]


def coq_type(t, sub):
    """(Coq term of type option gotype, sub-field number)"""
    def term(d):
        if d == "float":
            return "TFloat"
        if d == "int":
            return "TInt"
        if d == "string":
            return "TString"
        if d == "bool":
            return "TBool"
        if d == "slicefloat":
            return "TSliceFloat"
        if d == "slice":
            return "TSliceOther"
        if isinstance(d, dict) and "array" in d:
            return "(TArray %d %s)" % (d["array"], term(d["elem"]))
        if isinstance(d, dict) and "struct" in d:
            return "(TStruct [%s])" % "; ".join("(%d%%nat, %s)" % (i, term(x[1])) for i, x in enumerate(d["struct"]))
        return "TNamed"
    if t is None:
        return "None", 0
    subn = 0
    if isinstance(t, dict) and "struct" in t:
        names = [x[0] for x in t["struct"]]
        subn = names.index(sub) if sub in names else len(names) + 7
    return "(Some %s)" % term(t), subn


def _q(s):
    return '"%s"' % s.replace('"', '""')


def coq_config(cfg):
    cols = []
    for c in cfg["cols"]:
        ty, subn = coq_type(c["type"], c["sub"])
        cols.append("(%s, %d%%nat, %d%%nat, %d%%nat, %s%%string, %d)" % (ty, subn, max(c["i1"], 0), max(c["i2"], 0), _q(c["fmt"]), c["width"]))
    sep = (cfg.get("sep") or ",")[:1]
    heads = []
    sepfree = True
    for k in sorted(cfg["heads"], key=int):
        cells = []
        for h in cfg["heads"][k]:
            cells.append("(mkhc %d %d %d %d)" % (len(h["text"]), h["align"], h["start"], h["end"]))
            if sep in h["text"] or "\n" in h["text"]:
                sepfree = False
        heads.append("[%s]" % "; ".join(cells))
    return "(mkoc [\n   %s]\n  [%s]\n  %s)" % (";\n   ".join(cols), ";\n   ".join(heads), "true" if sepfree else "false")


def ident(name):
    return "cfg_" + re.sub(r"[^A-Za-z0-9]", "_", name)


def write_gen(ctx, cfgs):
    """gen/OutFmtConfigs.v (the configurations of the current source) and gen/OutFmtCheck.v (the obligations)"""
    names = [k for k in cfgs if "error" not in cfgs[k]]
    with open(os.path.join(ctx.gen, "OutFmtConfigs.v"), "w") as f:
        f.write("(* generated on every run by `vh c05fmt` from %s: the built-in output configurations of output_fmt.go and every\n"
                "   shipped *out_conf.yml as the real LoadHermesOutputConfig reads it; Go types by reflection *)\n"
                "From Coq Require Import ZArith List String.\nFrom Hermes Require Import CtrlModel OutFmtModel.\nImport ListNotations.\nOpen Scope Z_scope.\n\n" % REPO)
        for k in names:
            f.write("Definition %s : oconfig :=\n  %s.\n\n" % (ident(k), coq_config(cfgs[k])))
        f.write("Definition all_configs : list (string * oconfig) := [\n  %s].\n" % ";\n  ".join("(%s%%string, %s)" % (_q(k), ident(k)) for k in names))
    with open(os.path.join(ctx.gen, "OutFmtCheck.v"), "w") as f:
        f.write("""(* generated: obligations over the output configurations of the current source *)
From Coq Require Import ZArith List Bool String.
From Hermes Require Import CtrlModel CtrlProofs OutFmtModel OutFmtProofs.
From HermesGen Require Import OutFmtConfigs.
Import ListNotations.
Open Scope Z_scope.

(* every column of every configuration is of a supported kind, its format string is one fmt directive whose verb
   accepts the column's type, every header line has between 1 and #columns cells, in order, inside the columns *)
Theorem all_configs_ok : forallb (fun p => oconfig_ok (snd p)) all_configs = true.
Proof. vm_compute. reflexivity. Qed.

(* hence (OutFmtProofs.csv_counts_lemma): in the CSV style every header line and EVERY record of every
   configuration has exactly as many fields as the configuration has columns *)
Theorem all_configs_counts : forall name o, In (name, o) all_configs ->
  let cols := map col_of (o_cols o) in
  (forall cells, In cells (o_heads o) -> csv_header_fields (Z.of_nat (List.length cells)) (Z.of_nat (List.length cols)) = Z.of_nat (List.length cols)) /\\
  (forall (A : Type) (render : vref -> A), exists fs, write_line true render (map c_ref cols) = Some fs /\\ List.length fs = List.length cols) /\\
  (forall (A : Type) (render : vref -> A), exists fs, write_line false render (map c_ref cols) = Some fs /\\ List.length fs = List.length cols).
Proof.
  intros name o Hin.
  assert (K : oconfig_ok o = true).
  { pose proof all_configs_ok as H. rewrite forallb_forall in H. exact (H (name, o) Hin). }
  destruct (csv_counts_lemma o K) as [A B]. split; [exact A|]. split; [exact B|].
  intros T render. unfold oconfig_ok in K. apply andb_true_iff in K as [K _]. apply andb_true_iff in K as [Kc _].
  destruct (field_count_lemma render _ (col_ok_supported _ Kc)) as [_ F]. destruct (F false) as (fs & E & L).
  exists fs. split; [exact E|]. rewrite L. apply map_length.
Qed.

(* fixed-width style: every header cell of every configuration starts exactly above its first data column *)
Theorem all_configs_headers_aligned : forall name o cells, In (name, o) all_configs -> In cells (o_heads o) ->
  let widths := map (fun c => c_width (col_of c)) (o_cols o) in
  snd (hermes_header widths cells) = map (fun c => arr widths (Z.to_nat (h_start c - 1))) cells /\\
  fst (hermes_header widths cells) <= record_width widths.
Proof.
  intros name o cells Hin Hc widths.
  assert (K : forallb (fun p => forallb (fun cells => let widths := map (fun c => c_width (col_of c)) (o_cols (snd p)) in
                 (forallb (fun w => 0 <=? w) widths) && negb (match cells with [] => true | _ => false end)
                 && hcells_ok (Z.of_nat (List.length widths)) 0 cells) (o_heads (snd p))) all_configs = true)
    by (vm_compute; reflexivity).
  rewrite forallb_forall in K. specialize (K (name, o) Hin). cbn [snd] in K.
  rewrite forallb_forall in K. specialize (K cells Hc). cbv zeta in K. fold widths in K.
  apply andb_true_iff in K as [K H3]. apply andb_true_iff in K as [H1 H2].
  assert (F : Forall (fun w => 0 <= w) widths).
  { apply Forall_forall. intros w Hw. rewrite forallb_forall in H1. apply Z.leb_le. exact (H1 w Hw). }
  assert (Hne : cells <> []) by (destruct cells; [discriminate | discriminate]).
  destruct (hermes_header_aligned_lemma widths cells F Hne H3) as [E L]. split; [rewrite E; reflexivity | exact L].
Qed.

Print Assumptions all_configs_ok.
Print Assumptions all_configs_counts.
Print Assumptions all_configs_headers_aligned.
""")
    return names


GEN_THEOREMS = ["all_configs_ok", "all_configs_counts", "all_configs_headers_aligned"]


# ---------------------------------------------------------------------------------------------
# expected rendering

FMT_RE = re.compile(r"^%([+\-0 ]*)(\d*)(?:\.(\d*))?([a-zA-Z])$")


def parse_fmt(f):
    m = FMT_RE.match(f)
    if not m:
        return None
    flags, w, p, v = m.groups()
    return {"flags": flags, "width": int(w) if w else None, "prec": (int(p) if p else 0) if p is not None else None, "verb": v}


def render(fmt, value):
    """what Go's fmt.Sprintf(fmt, value) prints, for the verbs d s f e g with flags + - 0 space and for non-finite floats"""
    sp = parse_fmt(fmt)
    if sp is None:
        return None
    v = sp["verb"]
    if isinstance(value, float) and (math.isnan(value) or math.isinf(value)):
        txt = "NaN" if math.isnan(value) else ("+Inf" if value > 0 else "-Inf")
        if math.isinf(value) and value > 0 and "+" not in sp["flags"]:
            txt = "+Inf"
        w = sp["width"] or 0
        return txt.ljust(w) if "-" in sp["flags"] else txt.rjust(w)
    if v in "dsfeEgG":
        try:
            return fmt % value
        except (TypeError, ValueError):
            return None
    return None


# ---------------------------------------------------------------------------------------------
# a configuration of the source as yml, followed by exact-value twin columns

ALIGN = {0: "left", 1: "right", 2: "center", 3: "none"}
TWIN_WIDTH = 30


def kind_of(c):
    """'float' | 'int' | 'string' | 'na' | None (unsupported) for a dumped column"""
    t = c["type"]
    if t is None:
        return "na"
    if isinstance(t, dict) and "struct" in t:
        d = dict((x[0], x[1]) for x in t["struct"]).get(c["sub"])
        if d is None:
            return "na"
        t = d
    if isinstance(t, dict) and "array" in t:
        if c["i1"] >= t["array"]:
            return "na"
        t = t["elem"]
        if isinstance(t, dict) and "array" in t:
            if c["i2"] >= t["array"]:
                return "na"
            t = t["elem"]
    if t == "slicefloat":
        return "float"
    return t if t in ("float", "int", "string") else None


def twin_fmt(kind):
    return {"float": "%x", "int": "%d", "string": "%s", "na": "%s"}[kind]


def conf_text(cfg):
    """yml text of the configuration plus one twin column per column (same variable, exact rendering, no modifier)"""
    out = ["FillCharacter: %s" % json.dumps(cfg.get("fillchar") or " "), "SeperatorCharacter: %s" % json.dumps((cfg.get("sep") or ",")),
           "NaValue: %s" % json.dumps(cfg.get("na") or "n.a."), "DataColumns:"]

    def col(c, fmt, width, mod, align):
        out.append("- Format: %s" % json.dumps(fmt))
        out.append("  DataAlignment: %s" % ALIGN.get(align, "left"))
        out.append("  Width: %d" % width)
        if mod:
            out.append("  Modifier: %r" % mod)
        out.append("  VariableName: %s" % json.dumps(c["var"]))
        if c["i1"]:
            out.append("  VarIndex1: %d" % c["i1"])
        if c["i2"]:
            out.append("  VarIndex2: %d" % c["i2"])
    for c in cfg["cols"]:
        col(c, c["fmt"], c["width"], c["mod"], c["align"])
    for c in cfg["cols"]:
        k = kind_of(c)
        col(c, twin_fmt(k) if k else "%v", TWIN_WIDTH, 0, 0)
    out.append("Headlines:")
    for k in sorted(cfg["heads"], key=int):
        out.append("  %d:" % int(k))
        for h in cfg["heads"][k]:
            out.append("  - ColumnName: %s" % json.dumps(h["text"]))
            out.append("    TextAlignment: %s" % ALIGN.get(h["align"], "left"))
            out.append("    StartColumn: %d" % h["start"])
            out.append("    EndColumn: %d" % h["end"])
            if h.get("fill"):
                out.append("    FillCharacter: %s" % json.dumps(h["fill"]))
    return "\n".join(out) + "\n"


# ---------------------------------------------------------------------------------------------
# texts that can reach a text output column (go/ast scan of the source, harness c05strings)

def scan_strings(ctx):
    if "strings" in _cache:
        return _cache["strings"]
    vh = ctx.harness()
    p = subprocess.run([vh, "c05strings", "-src", os.path.join(REPO, "hermes")], stdout=subprocess.PIPE, stderr=subprocess.PIPE, text=True, timeout=300)
    if p.returncode != 0:
        raise BuildError("vh c05strings failed: " + p.stderr[-800:])
    rows = [json.loads(l) for l in p.stdout.split("\n") if l.startswith("{")]
    _cache["strings"] = rows
    return rows


def text_columns(cfgs):
    """names of the text variables some configuration of the source shows (struct field names)"""
    names = set()
    for k, v in cfgs.items():
        if "error" in v:
            continue
        for c in v["cols"]:
            if kind_of(c) == "string":
                names.add(c["sub"] if (isinstance(c["type"], dict) and "struct" in c["type"]) else c["name"])
    return names


def write_strings_gen(ctx, cfgs, rows):
    cols = text_columns(cfgs)
    items, dynamic = [], []
    for r in rows:
        if "field" not in r or r["field"] not in cols:
            continue
        for t in r["texts"]:
            items.append((r["field"], t, "%s:%d" % (r["file"], r["line"])))
        if r["kind"] in ("dynamic", "mixed"):
            dynamic.append("%s <- %s (%s:%d)" % (r["field"], r["expr"][:60], r["file"], r["line"]))
    with open(os.path.join(ctx.gen, "OutFmtStrings.v"), "w") as f:
        f.write("(* generated on every run by `vh c05strings` (go/ast over %s/hermes): every string literal / literal format string that is\n"
                "   assigned — directly, through a local variable or through another struct field — to a text variable an output column of\n"
                "   the source's configurations shows *)\n"
                "From Coq Require Import List Bool String.\nFrom Hermes Require Import OutFmtModel.\nImport ListNotations.\nOpen Scope string_scope.\n\n"
                "Definition text_sources : list (string * string) := [\n  %s].\n\n"
                "(* none of them contains a separator of the CSV style or a line break: with OutFmtProofs.csv_fields_exact such a text stays\n"
                "   one field of one record *)\n"
                "Theorem text_sources_sepfree : forallb (fun p => sepfree_text (snd p)) text_sources = true.\n"
                "Proof. vm_compute. reflexivity. Qed.\n\nPrint Assumptions text_sources_sepfree.\n"
                % (REPO, ";\n  ".join("(%s, %s)" % (_q(a), _q(b)) for a, b, c in items)))
    return items, dynamic


def unstable_text_records(ctx, outdir):
    """harness c05text: the instability flag of the real nmove on a crafted state, one CSV record per configuration"""
    vh = ctx.harness()
    os.makedirs(outdir, exist_ok=True)
    p = subprocess.run([vh, "c05text", "-examples", os.path.join(REPO, "examples"), "-out", outdir], stdout=subprocess.PIPE,
                       stderr=subprocess.PIPE, text=True, timeout=300)
    line = [l for l in p.stdout.split("\n") if l.startswith("{")]
    if p.returncode != 0 or not line:
        raise BuildError("vh c05text failed: " + p.stderr[-800:])
    return json.loads(line[0])
