"""C18 — a crop-parameter override on the batch line equals the same edit in the crop parameter file;
an out-of-range override is rejected as a whole (DESIGN.md §6 C18).

proof:           Prop_C18.v over OverrideModel / CropParamModel (any number type, any set of overrides)
correspondence:  the REAL ReadCropParamClassic / ReadCropParamYml + ParseCropOverwrites + OverwriteCropParameters
                 vs the models, every field of the loaded crop state bit for bit, for every overridable
                 parameter x stage x organ of the chosen shipped files; python's edit of the classic file is
                 checked against the Coq renderer edit_lines
oracle:          the property itself on the real binary: paired whole runs (override on the batch line vs a
                 parameter folder with the edited file), result folders compared as bytes
"""
import copy, os, random, shutil
import yaml
from core import Corr, Fail, REPO
from props import fmtlib as F, cropcorr as CC

PROP_FILES = ["Prop_C18"]
RULE = ("shipped crop parameter files (quick: 3 chosen by seed incl. a perennial or N-function-5 crop; thorough: all 28) x "
        "every overridable base / per-stage / per-organ parameter x one or two valid values (range ends included) and "
        "some out-of-range values, classic and YAML file, zero / junk prior state, with and without the perennial "
        "continuation; a case is non-trivial when distinct (file, key, value, prior)")
TRUSTED = ["gopkg.in/yaml.v3 decoding and python yaml encoding of the edited YAML crop file",
           "whole-run equality rests on: the run depends on the loaded state only (C13 reduction), checked by the paired runs"]
ASSUMPTIONS = ["decimal text of <= 15 significant digits is one correctly rounded division m/10^k (strconv.ParseFloat)",
               "two batch keys for the same target (c_TSUM_1 and c_TSUM_01) are excluded: Go's map order decides",
               "per-organ values are edited in the classic file only when their text fits the 5 columns"]
LEVEL_TEXT = ("Machine-checked proof (Coq) that applying any valid set of overrides to the loaded crop state equals "
              "loading the edited record, on the full crop state incl. the derived total temperature sum, VELOC/200 and "
              "the initial N concentrations, for every record / prior state / number type; invalid sets change nothing. "
              "The models are run against the real readers and the real override code on every overridable parameter "
              "of the chosen shipped files each run (bit-exact), and the property is evaluated on the real binary by "
              "paired whole runs compared as bytes.")
LEVEL_NOTE = ("YAML crop file: complete (any set of overrides). Classic fixed-column file: proved end to end (text "
              "written into the file by edit_lines, read back by the character-level reader) for one override entry of "
              "every per-stage parameter and of the base parameters MAXAMAX, MINTMP, WUMAXPF, VELOC, INITCONCNBIOM, "
              "INITCONCNROOT; partial for the yield fraction (column 66) and the per-organ PRO/DEAD values (5-column "
              "fields): there the theorem C18_override_commutes_classic assumes that the edited file parses to the "
              "edited record, which the correspondence checks for every parameter x stage x organ (edit_lines = the "
              "edit made on disk; model reader = real reader on the edited file). Trusted: Coq kernel/vm_compute, "
              "YAML codecs, harness/driver. All theorems are closed under the global context (no axioms).")
TECHNIQUE = "Coq proof (pointwise array semantics, list extensionality) + bit-exact loaded-state correspondence + paired whole runs"

_cache = {}


def _files(ctx):
    par = os.path.join(REPO, "examples", "parameter")
    allf = [fn for fn, _, _ in F.classic_files(par)]
    if ctx.thorough:
        return allf
    rnd = random.Random(ctx.seed * 7 + 1)
    special = rnd.choice(["PARAM.AA", "PARAM.GR"])          # a perennial crop is always in (re-sown stand rule)
    nlimit = rnd.choice(["PARAM.SM", "PARAM.ZR"])           # ... and a crop whose N uptake limit reads the total temperature sum
    others = rnd.sample([f for f in allf if f not in (special, nlimit)], 1)
    return [special, nlimit] + others


def _plan(ctx):
    """[(file, entries [(name, i, j, text)], valid)] — every target of the chosen files alone, every parameter
    once out of range, mixed sets (a valid entry next to an invalid one) and sets of several valid entries"""
    if "plan" in _cache:
        return _cache["plan"]
    rnd = random.Random(ctx.seed * 13 + 5)
    par = os.path.join(REPO, "examples", "parameter")
    plan = []
    for fn in _files(ctx):
        nk, ne = F.classic_dims(F.read_lines(os.path.join(par, fn)))
        targets = F.all_targets(nk, ne)
        for (n, i, j) in targets:
            for t in rnd.sample(F.VALID[n], 2 if ctx.thorough else 1):
                plan.append((fn, [(n, i, j, t)], True))
        first = {}
        for (n, i, j) in targets:
            first.setdefault(n, (n, i, j))
        for n, (_, i, j) in first.items():
            bad = (n, i, j, rnd.choice(F.INVALID[n]))
            plan.append((fn, [bad], False))
            m, mi, mj = rnd.choice([t for t in targets if t[0] != n])
            plan.append((fn, [(m, mi, mj, rnd.choice(F.VALID[m])), bad], False))     # rejected as a whole
        # F29: a temperature sum of 0 is out of range (alone and next to a valid entry); the smallest decimal above 0 is valid
        st = rnd.randrange(1, ne + 1)
        plan.append((fn, [("TSUM", st, 0, "0")], False))
        plan.append((fn, [("TSUM", 1 + st % ne, 0, "0"), ("MAXAMAX", 0, 0, "30")], False))
        plan.append((fn, [("TSUM", st, 0, "0.000000001")], True))
        for _ in range(12 if ctx.thorough else 4):                                  # several valid entries at once
            ts = rnd.sample(targets, rnd.randrange(2, 5)) + [("TSUM", rnd.randrange(1, ne + 1), 0)]
            ts = list(dict.fromkeys(ts))
            plan.append((fn, [(n, i, j, rnd.choice(F.VALID[n])) for n, i, j in ts], True))
        # stage / organ beyond the file's counts: invalid as a whole
        if ne < 9:
            plan.append((fn, [("TSUM", ne + 1, 0, "300")], False))
            plan.append((fn, [("TSUM", ne + 1, 0, "100"), ("MAXAMAX", 0, 0, "30")], False))
            plan.append((fn, [("KC", ne + 1, 0, "0.9"), ("TSUM", 1, 0, "90"), ("WUMAXPF", 0, 0, "4.5")], False))
        if nk < 5:
            plan.append((fn, [("PRO", 1, nk + 1, "0.5"), ("MAXAMAX", 0, 0, "44")], False))
    _cache["plan"] = plan
    return plan


def _edits(lines0, doc0, entries):
    ed, doc = lines0, copy.deepcopy(doc0)
    for n, i, j, t in entries:
        ed = F.edit_classic(ed, n, i, j, t)
        doc = F.edit_yaml(doc, n, i, j, t)
    return ed, doc


def _label(entries):
    return " ".join("%s=%s" % (F.override_key(n, i, j), t) for n, i, j, t in entries)


def correspond(ctx):
    c = Corr()
    rnd = random.Random(ctx.seed * 17 + 3)
    par = os.path.join(REPO, "examples", "parameter")
    wd = os.path.join(ctx.work, "edits")
    os.makedirs(wd, exist_ok=True)
    jobs, rows = [], []

    def job(kind, file, prior=0, cont=False, args=None, cropfile=""):
        jobs.append({"id": len(jobs), "kind": kind, "file": file, "prior": prior, "cont": cont, "cropfile": cropfile, "args": args})
        return len(jobs) - 1

    base = {}
    for k, (fn, entries, valid) in enumerate(_plan(ctx)):
        p = os.path.join(par, fn)
        if fn not in base:
            base[fn] = (open(p, "rb").read(), F.read_lines(p), yaml.safe_load(open(p + ".yml", encoding="utf-8")), job("record", p + ".yml"))
        data, lines0, doc0, rid0 = base[fn]
        args = [[F.override_key(n, i, j), t] for n, i, j, t in entries]
        prior, cont = rnd.choice([(0, False), (1, False), (1, True)])
        r = {"fn": fn, "entries": entries, "valid": valid, "label": _label(entries), "args": args, "prior": prior, "cont": cont,
             "data": data, "rid0": rid0}
        r["a"] = job("classic", p, prior, cont, args, fn)
        r["ya"] = job("yaml", p + ".yml", prior, cont, args, fn + ".yml")
        if valid:
            ed, doc = _edits(lines0, doc0, entries)
            r["edata"] = b"\n".join(ed) + b"\n"
            ep = os.path.join(wd, "e%d" % k)
            open(ep, "wb").write(r["edata"])
            r["b"] = job("classic", ep, prior, cont)
            open(ep + ".yml", "wb").write(yaml.safe_dump(doc, sort_keys=False, allow_unicode=True).encode())
            r["yr"] = job("record", ep + ".yml")
            r["yb"] = job("yaml", ep + ".yml", prior, cont)
        else:
            r["b"] = job("classic", p, prior, cont)           # no override at all
            r["yb"] = job("yaml", p + ".yml", prior, cont)
        rows.append(r)
    # the address of an override: CropFile must EQUAL the name of the file read (not a prefix, not the twin of the other format)
    addr = []
    eff = [["c_MAXAMAX", "30"], ["c_TSUM_1", "90"], ["c_PRO_1_1", "0.35"]]
    pairs_addr = [(os.path.join(par, "PARAM.WRA"), False, "PARAM.WR"), (os.path.join(par, "PARAM.WRC.yml"), True, "PARAM.WR"),
                  (os.path.join(par, "PARAM.WRA"), False, "PARAM.WRA")]
    for fn in base:
        p = os.path.join(par, fn)
        sib = os.path.join(wd, fn + "X")
        shutil.copy(p, sib); shutil.copy(p + ".yml", sib + ".yml")
        pairs_addr += [(sib, False, fn), (sib + ".yml", True, fn + ".yml"), (sib + ".yml", True, fn), (p + ".yml", True, fn), (p, False, fn + ".yml"),
                       (p, False, "PARAM"), (p, False, fn[:-1]), (p, False, fn), (p + ".yml", True, fn + ".yml")]
    for (path, yml, target) in pairs_addr:
        prior, cont = rnd.choice([(0, False), (1, False), (1, True)])
        a = {"path": path, "yml": yml, "target": target, "prior": prior, "cont": cont, "fname": os.path.basename(path)}
        a["j"] = job("yaml" if yml else "classic", path, prior, cont, eff, target)
        a["j0"] = job("yaml" if yml else "classic", path, prior, cont)
        a["rid"] = job("record", path) if yml else None
        addr.append(a)
    res = CC.run_jobs(ctx, jobs)
    _cache["state_rows"] = (rows, res)
    _cache["addr_rows"] = (addr, res)
    cs = CC.CaseSet(per_shard=45 if not ctx.thorough else 120)
    seen = set()
    for a in addr:
        d = "file %s addressed as CropFile=%s" % (a["fname"], a["target"])
        targs = "[%s]" % "; ".join('("%s", "%s")' % (k_, v_) for k_, v_ in eff)
        if a["yml"]:
            cs.add(lambda file, a=a: 'CYamlTo %s "%s" "%s" %s %s %s %s' % (CC.rec_term(res[a["rid"]]), a["fname"], a["target"], CC.b(a["prior"]),
                                                                          CC.b(a["cont"]), targs, CC.obs_term(res[a["j"]])), "address " + d)
        else:
            data = open(a["path"], "rb").read()
            cs.add(lambda file, a=a, data=data: 'CClassicTo %d%%nat "%s" "%s" %s %s %s %s' % (file(data), a["fname"], a["target"], CC.b(a["prior"]),
                                                                                             CC.b(a["cont"]), targs, CC.obs_term(res[a["j"]])), "address " + d)
        c.bump("address=" + ("same" if a["fname"] == a["target"] else "other"))
    for k, r in enumerate(rows):
        d = "%s %s prior=%d cont=%s" % (r["fn"], r["label"], r["prior"], r["cont"])
        args = [tuple(x) for x in r["args"]]
        pb, cb = CC.b(r["prior"]), CC.b(r["cont"])
        cs.add(lambda file, r=r: "CClassic %d%%nat %s %s %s %s" % (file(r["data"]), pb, cb, CC.args_term(args), CC.obs_term(res[r["a"]])),
               "override " + d)
        cs.add(lambda file, r=r: "CYaml %s %s %s %s %s" % (CC.rec_term(res[r["rid0"]]), pb, cb, CC.args_term(args), CC.obs_term(res[r["ya"]])),
               "override-yaml " + d)
        if r["valid"]:
            if len(r["entries"]) == 1:
                n, i, j, text = r["entries"][0]
                cs.add(lambda file, r=r: 'CEdit %d%%nat "%s" %d%%nat %d%%nat "%s" %d%%nat' % (file(r["data"]), n, i, j, text, file(r["edata"], r["data"])),
                       "edit " + d)
            if ctx.thorough or k % 2 == 0:
                cs.add(lambda file, r=r: "CClassic %d%%nat %s %s None %s" % (file(r["edata"], r["data"]), pb, cb, CC.obs_term(res[r["b"]])), "edited " + d)
                cs.add(lambda file, r=r: "CYaml %s %s %s None %s" % (CC.rec_term(res[r["yr"]]), pb, cb, CC.obs_term(res[r["yb"]])), "edited-yaml " + d)
        seen.add((r["fn"], r["label"], r["prior"], r["cont"]))
        c.bump("file=" + r["fn"])
        c.bump("kind=" + ("set-of-%d" % len(r["entries"]) if len(r["entries"]) > 1 else
                          "base" if not r["entries"][0][1] else "stage" if not r["entries"][0][2] else "organ"))
        c.bump("valid" if r["valid"] else "invalid"); c.bump("prior=%s%s" % ("junk" if r["prior"] else "zero", "+perennial-continuation" if r["cont"] else ""))
    CC.evaluate(ctx, c, cs, "Cases_C18")
    c.nontrivial = len(seen)
    c.samples = ["%s %s (%s)" % (r["fn"], r["label"], "valid" if r["valid"] else "out of range") for r in rows[:3] + rows[-3:]]
    c.notes.append("compared per case: the 369 floats and 25+ integers of the crop state (flat_state), bit for bit")
    return c


def _dims(par):
    return {fn: F.classic_dims(F.read_lines(os.path.join(par, fn))) + (ab, var) for fn, ab, var in F.classic_files(par)}


def _project_variants(env, rnd, par, fn, tag):
    """[(project name, P, kind, partner stage count)]: the target crop after itself on rotation positions 2, 3, 4
    (a perennial stand continues from position 3 on) and the target crop sown AFTER a crop with more / fewer
    development stages (the validation must use the target crop's own counts)"""
    dims = _dims(par)
    nk, ne, abbr, var = dims[fn]
    out = []
    P = F.base_project(rnd, crops=((abbr, var), (abbr, var)), years=(1980, 1983))
    F.write_project(env, tag + "s", P)
    out.append((tag + "s", P, "self", ne, ""))
    for kind, pick in (("after-more-stages", lambda e: e > ne), ("after-fewer-stages", lambda e: e < ne)):
        cands = sorted(f for f, d in dims.items() if pick(d[1]) and d[2] != abbr)
        if not cands:
            continue
        pf = rnd.choice(cands)
        pab, pvar = dims[pf][2], dims[pf][3]
        Q = F.base_project(rnd, crops=((pab, pvar), (pab, pvar)), years=(1980, 1983))
        # pre-crop + first sown crop = the partner, then the target crop twice
        Q.rot = [Q.rot[0], Q.rot[1]] + [(abbr,) + r[1:5] + (r[5] if r[5] is not None else "0", var) for r in Q.rot[2:]]
        nm = tag + ("m" if kind == "after-more-stages" else "f")
        F.write_project(env, nm, Q)
        out.append((nm, Q, kind, dims[pf][1], ""))
    # ... and the target crop FOLLOWED by a crop whose parameter file name starts with the target's name (a copy of the
    # target file under the crop name <abbr>X): the override is addressed to one file name, not to a prefix
    sibname = "PARAM_%s.%sX" % (var, abbr) if var else "PARAM.%sX" % abbr
    sibs = {sibname: open(os.path.join(par, fn), "rb").read(), sibname + ".yml": open(os.path.join(par, fn + ".yml"), "rb").read()}
    sibpar = F.param_folder(env, tag + "sibpar", sibs)
    S = F.base_project(rnd, crops=((abbr, var), (abbr, var)), years=(1980, 1983))
    S.rot = S.rot[:2] + [(abbr + "X",) + r[1:] for r in S.rot[2:]]
    F.write_project(env, tag + "x", S)
    out.append((tag + "x", S, "before-name-sibling", ne, "parameter=%s" % sibpar))
    return out, sibs


def oracle(ctx, search):
    env = F.setup(ctx)
    try:
        return _oracle(ctx, search, env)
    finally:
        shutil.rmtree(env.ex, ignore_errors=True)      # the scratch tree (generated projects, parameter folders) does not stay behind


def _oracle(ctx, search, env):
    rnd = random.Random(ctx.seed * 19 + 11)
    par = os.path.join(env.ex, "parameter")
    fails = []
    # 1. the property on the loaded state of the real code (from the correspondence jobs)
    if "state_rows" in _cache:
        rows, res = _cache["state_rows"]
        for r in rows:
            for x, y, w in ((r["a"], r["b"], "classic"), (r["ya"], r["yb"], "yaml")):
                ox, oy = res.get(x, {}), res.get(y, {})
                if ox.get("f") != oy.get("f") or ox.get("z") != oy.get("z") or ("err" in ox) != ("err" in oy):
                    fails.append(Fail(key="loaded-state:%s:%s:%s" % (w, r["fn"], r["label"]),
                                      what="crop state after %s differs from the state read from the %s file" %
                                           ("the override" if r["valid"] else "the rejected override", "edited" if r["valid"] else "unchanged"),
                                      prior=r["prior"], perennial_continuation=r["cont"]))
    if "addr_rows" in _cache:
        addr, res = _cache["addr_rows"]
        for a in addr:
            if a["fname"] != a["target"]:
                ox, oy = res.get(a["j"], {}), res.get(a["j0"], {})
                if ox.get("f") != oy.get("f") or ox.get("z") != oy.get("z"):
                    fails.append(Fail(key="other-file-touched:loaded-state:%s:CropFile=%s" % (a["fname"], a["target"]),
                                      what="an override addressed to %s changes the crop read from %s" % (a["target"], a["fname"])))
    # 2. paired whole runs
    plan = _plan(ctx)
    if search:      # every value of every target of the chosen files
        plan = [(fn, [(n, i, j, t)], True) for fn in _files(ctx)
                for (n, i, j) in F.all_targets(*F.classic_dims(F.read_lines(os.path.join(par, fn)))) for t in F.VALID[n]] + \
               [p for p in plan if not p[2] or len(p[1]) > 1]
    projects, lines, pairs, others, sweep_base = {}, [], [], [], []
    full = set(_files(ctx)[:3])
    soak = bool(os.environ.get("VERIF_SOAK")) or search      # VERIF_SOAK=1: whole runs for every row (not a registered tier)
    for k, (fn, entries, valid) in enumerate(plan):
        single = valid and len(entries) == 1
        if ctx.thorough and not soak and fn not in full and single and k % 6:
            continue                    # thorough: whole runs for every 6th single override of the files beyond the first three
        if fn not in projects:
            vs = []
            variants, sibs = _project_variants(env, rnd, par, fn, "ov%d" % len(projects))
            for (name, P, kind, pne, pex) in variants:
                bi = len(lines); lines.append(F.line_for(name, P, extra=pex))
                byi = len(lines); lines.append(F.line_for(name, P, extra="CropParameterFormat=yml " + pex))
                vs.append((name, P, kind, pne, bi, byi, pex))
                if kind == "self":
                    # an override addressed to another name (the twin of the other format, a prefix of the name) changes nothing
                    e_ = "c_MAXAMAX=30 c_TSUM_1=90"
                    for extra, bidx in (("CropParameterFormat=yml CropFile=%s %s" % (fn, e_), byi), ("CropFile=%s.yml %s" % (fn, e_), bi),
                                        ("CropFile=%s %s" % (fn[:-1], e_), bi), ("CropFile=PARAM %s" % e_, bi)):
                        x = len(lines); lines.append(F.line_for(name, P, extra=extra))
                        others.append((fn, extra, x, bidx))
            projects[fn] = (vs, F.read_lines(os.path.join(par, fn)), yaml.safe_load(open(os.path.join(par, fn + ".yml"), encoding="utf-8")),
                            F.classic_dims(F.read_lines(os.path.join(par, fn)))[1], sibs)
        vs, lines0, doc0, ne, sibs = projects[fn]
        key = _label(entries)
        pf = None
        if valid:
            ed, doc = _edits(lines0, doc0, entries)
            pf = F.param_folder(env, "pe%d" % k, dict(sibs, **{fn: b"\n".join(ed) + b"\n",
                                                  fn + ".yml": yaml.safe_dump(doc, sort_keys=False, allow_unicode=True).encode()}))
        top = max([e[1] for e in entries] + [0])
        for (name, P, kind, pne, bi, byi, pex) in vs:
            if kind != "self" and not soak:
                # next to another crop: everything that is invalid or a set, the stages only one of the two crops has, a sample of the rest
                if single and not (top > min(ne, pne)) and k % 6:
                    continue
            # the YAML crop file: every row that is invalid or a set, TSUM, and every 2nd of the other single overrides
            with_yaml = soak or not single or entries[0][0] == "TSUM" or (k + (kind != "self")) % 2 == 0
            a = len(lines); lines.append(F.line_for(name, P, extra="%s CropFile=%s %s" % (pex, fn, key)))
            ya = yb = None
            if with_yaml:
                ya = len(lines); lines.append(F.line_for(name, P, extra="%s CropParameterFormat=yml CropFile=%s.yml %s" % (pex, fn, key)))
            if valid:
                b_ = len(lines); lines.append(F.line_for(name, P, extra="parameter=%s" % pf))
                if with_yaml:
                    yb = len(lines); lines.append(F.line_for(name, P, extra="CropParameterFormat=yml parameter=%s" % pf))
            else:
                b_, yb = bi, (byi if with_yaml else None)
            pairs.append((fn + ":" + kind, key, "", valid, a, b_, ya, yb, bi))
    # CONFIGURATION SWEEP: override vs edited file for one target crop, with ONE configuration key away from the project's own
    sweep_n = 0
    fn0 = _files(ctx)[0]
    dims0 = _dims(par)[fn0]
    S = F.base_project(rnd, crops=((dims0[2], dims0[3]), (dims0[2], dims0[3])), years=(1980, 1981 if not ctx.thorough else 1982))
    F.sweep_endit(S)
    ser = F.read_weather_csv(os.path.join(env.ex, "weather", "historical", "109_120.csv"), 1980, S.end.year)
    wke = F.render_weather(env.ex, "swo_we", 0, "X", ser, et0=True)
    wke["WeatherFolder"] = '"swo_we"'
    for nm, cfgw in (("swoa", None), ("swoe", wke)):
        F.write_project(env, nm, S, cfg=cfgw)
        F.sweep_ready(env, nm, S)
    lines00 = F.read_lines(os.path.join(par, fn0))
    doc00 = yaml.safe_load(open(os.path.join(par, fn0 + ".yml"), encoding="utf-8"))
    sw_rows = ([([("MAXAMAX", 0, 0, "37.5")], True)] if ctx.thorough else []) + [([("TSUM", 1, 0, "90"), ("KC", 2, 0, "1.3"), ("PRO", 1, 1, "0.35"), ("VELOC", 0, 0, "0.35")], True),
               ([("WUMAXPF", 0, 0, "7.5"), ("TSUM", 2, 0, "0")], False)]
    sw_pf = []
    for q, (entries, valid) in enumerate(sw_rows):
        if valid:
            ed, doc = _edits(lines00, doc00, entries)
            sw_pf.append(F.param_folder(env, "pswo%d" % q, {fn0: b"\n".join(ed) + b"\n",
                                                           fn0 + ".yml": yaml.safe_dump(doc, sort_keys=False, allow_unicode=True).encode()}))
        else:
            sw_pf.append(None)
    for iname, extra, et0 in [("own configuration", "", False)] + F.sweep_items(ctx.thorough):
        nm, fc = ("swoe", "X") if et0 else ("swoa", "109_120")
        bi = len(lines); lines.append(F.line_for(nm, S, fcode=fc, extra=extra))
        byi = len(lines); lines.append(F.line_for(nm, S, fcode=fc, extra=extra + " CropParameterFormat=yml"))
        for q, (entries, valid) in enumerate(sw_rows):
            key = _label(entries)
            a = len(lines); lines.append(F.line_for(nm, S, fcode=fc, extra="%s CropFile=%s %s" % (extra, fn0, key)))
            ya = len(lines); lines.append(F.line_for(nm, S, fcode=fc, extra="%s CropParameterFormat=yml CropFile=%s.yml %s" % (extra, fn0, key)))
            if valid:
                b_ = len(lines); lines.append(F.line_for(nm, S, fcode=fc, extra="%s parameter=%s" % (extra, sw_pf[q])))
                yb = len(lines); lines.append(F.line_for(nm, S, fcode=fc, extra="%s CropParameterFormat=yml parameter=%s" % (extra, sw_pf[q])))
            else:
                b_, yb = bi, byi
            pairs.append(("%s:sweep[%s]" % (fn0, iname), key, "", valid, a, b_, ya, yb, bi))
            sweep_n += 2
        sweep_base.append((iname, bi, byi))
    ctx.extra["configuration_sweep"] = ("%d pairs: override on the line vs edit in the file (classic and YAML; a base parameter, a set of stage/organ "
                                        "parameters, a set rejected as a whole) for %s under the project's own configuration and under %d settings with one "
                                        "key changed (%s)" % (sweep_n, fn0, len(F.sweep_items(ctx.thorough)), ", ".join(i_[0] for i_ in F.sweep_items(ctx.thorough))))
    runs = F.run_lines(env, "C18", lines, timeout=1800)
    sweep_errors = ["%s: %s" % (iname, runs[x].err[:120]) for iname, bi, byi in sweep_base for x in (bi, byi) if runs[x].err]
    effective = both_failed = 0
    base_errors = []
    for fn, pr in projects.items():
        for (name, P, kind, pne, bi, byi, pex) in pr[0]:
            for x in (bi, byi):
                if runs[x].err:
                    base_errors.append("%s:%s: %s" % (fn, kind, runs[x].err[:120]))
    for fn, key, text, valid, a, b_, ya, yb, base_i in pairs:
        for x, y, w in ((a, b_, "classic"), (ya, yb, "yaml")):
            if x is None or y is None:
                continue
            rx, ry = runs[x], runs[y]
            if rx.err and ry.err:
                both_failed += 1          # e.g. a value the model itself cannot run with: same failure on both paths
                continue
            if not F.same(rx, ry):
                kind = "override-differs" if valid else "invalid-not-rejected"
                fails.append(Fail(key="%s:%s:%s:%s" % (kind, w, fn, key),
                                  what=("override on the batch line vs the same edit in the crop file: " if valid else
                                        "out-of-range override vs no override: ") + F.diff_what(rx, ry),
                                  first_difference=F.first_diff(env, "C18", x, y),
                                  replay={"cwd": "scratch copy of /repo/examples", "line_a": rx.line, "line_b": ry.line,
                                          "edit": "file %s: %s" % (fn, key)}))
        if valid and not F.same(runs[a], runs[base_i]):
            effective += 1
    for fn, extra, x, bidx in others:
        if not F.same(runs[x], runs[bidx]):
            fails.append(Fail(key="other-file-touched:%s:%s" % (fn, extra.replace(" ", "_")),
                              what="an override addressed to another file name changes the run: " + F.diff_what(runs[x], runs[bidx]),
                              first_difference=F.first_diff(env, "C18", x, bidx),
                              replay={"cwd": "scratch copy of /repo/examples", "line_a": runs[x].line, "line_b": runs[bidx].line}))
    ctx.extra["address_mismatch_runs"] = len(others)
    ctx.extra["paired_runs"] = len(lines)
    ctx.extra["pairs"] = sum(1 for p_ in pairs for q in ((p_[4], p_[5]), (p_[6], p_[7])) if q[0] is not None and q[1] is not None)
    ctx.extra["valid_overrides_that_change_the_results"] = effective
    ctx.extra["pairs_where_both_runs_fail_alike"] = both_failed
    ctx.extra["runs_without_override_that_end_in_a_run_error"] = base_errors + sweep_errors
    if pairs and both_failed * 2 > ctx.extra["pairs"]:
        fails.append(Fail(key="oracle-vacuous", what="more than half of the pairs end in run errors on both sides: the run sets do not exercise the property"))
    ctx.extra["run_wall_s"] = round(env.run_wall, 1)
    ctx.extra["rotations"] = {fn: [v[2] for v in pr[0]] for fn, pr in projects.items()}
    return fails
