"""C01 — soil water mass balance closes on every simulated day (DESIGN.md §6 C01)."""
from core import Corr, Fail
from props import waterlib, daywlib

PROP_FILES = ["Prop_C01", "Prop_C01b"]
RULE = ("synthetic Water states (1-20 layers, horizons, stones, drain depth/fraction, groundwater depth, five moisture "
        "regimes, infiltration 0-25 cm/d, evaporation, zero flux, sub-step lengths 1..1/93, first and later sub-steps) "
        "and traced transitions of real runs; a case is non-trivial when distinct (inputs hash) and some flux is non-zero")
TRUSTED = ["binary64 semantics of Go on amd64 (no fused multiply-add) = Coq primitive floats",
           "R->F gap: balance proved in exact real arithmetic; at binary64 observed residual <= 1e-9*(1+scale) on every trace row"]
ASSUMPTIONS = ["ET0 formulas and crop code are not modelled: FLUSS0, TP, EV, NFK enter as the values the real code computed",
               "measurement-overwrite days are excluded (as the property says)"]
LEVEL_TEXT = ("Coq proof over the reals of the sub-step and day water balance of the Water kernel model for every number of "
              "layers, every state and every sub-step count (induction), plus a finite binary64 sweep of the sub-step "
              "count (n = 1..65536); the model is the same Gallina definition that is executed on binary64 and compared "
              "bit for bit with hermes.Water on synthetic and traced states every run; the balance itself is evaluated "
              "on the real code's trace as the failing-input search.")
LEVEL_NOTE = ("Trusted: Coq kernel/vm_compute, Reals axioms of the standard library (sig_forall_dec, sig_not_dec, "
              "functional_extensionality_dep), primitive floats; no rounding-error bound is proved between the real and "
              "binary64 semantics (oracle tolerance 1e-9); Evatra's ET formulas are inputs.")
TECHNIQUE = "Coq proof (telescoping sums by induction over layers and sub-steps, lra) + bit-exact kernel correspondence + trace oracle"


def _args(ctx):
    n = 3000 if ctx.thorough else 250
    return ["-seed", str(ctx.seed), "-synth", str(n)]


def correspond(ctx):
    c = Corr()
    rc, cases, oracle, other, err = waterlib.run_harness(ctx, "c01", _args(ctx))
    if rc != 0:
        c.mismatches.append({"kind": "harness-crash", "stderr": err[-1500:]})
        return c
    trc, tcases, torc, terr = waterlib.run_trace(ctx)
    if trc != 0:
        c.mismatches.append({"kind": "trace-crash", "stderr": terr[-1500:]})
    runs = [x for x in tcases if x["k"] == "run"]
    for r_ in runs:
        if not r_["success"]:
            c.mismatches.append({"kind": "traced-run-failed", "run": r_})
    days = [x for x in tcases if x["k"] == "day"]
    cases = [x for x in cases if x["k"] == "water"] + [x for x in tcases if x["k"] == "water"]
    waterlib.eval_water_cases(ctx, c, cases)
    waterlib.eval_steps_cases(ctx, c, [x for x in tcases if x["k"] == "steps"])
    ctx.extra["traced_runs"] = len(runs)
    ctx.extra["traced_days"] = len(days)
    ctx.extra["traced_days_excluded_measurement"] = sum(1 for d in days if d["excluded"])
    hist = {}
    for d in days:
        hist[d["steps"]] = hist.get(d["steps"], 0) + 1
    ctx.extra["substep_histogram"] = {str(k): hist[k] for k in sorted(hist)}
    ctx.extra["max_abs_day_residual"] = max([abs(d["res"]) for d in days if not d["excluded"]] or [0.0])
    # whole-day tie: run.go's glue + Evatra's structural part + sub-step choice + k Water sub-steps composed (DayWaterModel)
    if ctx.id == "C01":
        daywlib.correspond_day(ctx, c)
    seen = set()
    for cs in cases:
        i = cs["in"]
        key = (i["fluss0"], tuple(i["wg0"]), i["wdt"], i["subd1"])
        nz = i["fluss0"] not in ("0x0p+00", "-0x0p+00") or any(t != "0x0p+00" for t in i["tp"])
        if nz and key not in seen:
            seen.add(key)
        c.bump("layers=%d" % i["n"])
        c.bump("surface=" + ("infiltration" if not i["fluss0"].startswith("-") and i["fluss0"] != "0x0p+00" else
                             "evaporation" if i["fluss0"].startswith("-") else "zero"))
        c.bump("substep=" + ("first" if i["subd1"] else "later"))
        c.bump("tag=" + i["tag"])
    c.nontrivial = len(seen)
    c.samples = [{k: (v if not isinstance(v, list) else v[:4]) for k, v in cases[j]["in"].items() if k != "caps"}
                 for j in (0, len(cases) // 2)] if cases else []
    return c


def oracle(ctx, search):
    rc, cases, oracle_lines, other, err = waterlib.run_harness(ctx, "c01", _args(ctx))
    fails = []
    if rc != 0:
        fails.append(Fail(key="harness-crash", what="Water aborted", stderr=err[-800:]))
    trc, tcases, torc, terr = waterlib.run_trace(ctx)
    if trc != 0:
        fails.append(Fail(key="trace-crash", what="traced run aborted", stderr=terr[-800:]))
    for l in oracle_lines + [t for t in torc if t.startswith(("day-water-balance", "substeps-cover-day", "water-balance", "day-boundary-storage"))]:
        fails.append(Fail(key=l.split(" residual=")[0][:90], what=l))
    if ctx.id == "C01":
        fails += daywlib.oracle_day(ctx) or []
    return fails
