"""Shared by C03 and C11: running the REAL batch binary on generated batch files inside a private
copy of /repo/examples, digesting result folders, and turning executions into DCase records of
coq/theories/C03Corr.v (DispatchModel correspondence)."""
import hashlib, os, random, re, shutil, subprocess, time
from concurrent.futures import ThreadPoolExecutor
import core

# ---- short valid lines taken from the shipped example batches (resultfolder removed, EndDate /
# StartYear overrides keep a run at ~50 ms; date layout follows the project's Dateformat) ----
_EN = "EndDate=1231%d"
_DE = "EndDate=3112%d"
VALID = {
    "ex1a": "project=ex1 WeatherFolder=historical soilId=075 fcode=109_120 plotNr=10001 Altitude=73 Latitude=52.6732 poligonID=29872 " + _EN % 1982,
    "ex1b": "project=ex1 WeatherFolder=historical soilId=075 fcode=109_120 plotNr=10002 Altitude=73 Latitude=52.6732 poligonID=29872 " + _EN % 1983,
    "ex1c": "project=ex1 WeatherFolder=historical soilId=160 fcode=109_121 plotNr=10001 Altitude=46 Latitude=52.6431 poligonID=30169 " + _EN % 1981,
    "ex1h": "project=ex1 WeatherFolder=historical soilId=075 fcode=109_121_haude_tmax plotNr=10001 Altitude=46 Latitude=52.6431 poligonID=30169 " + _EN % 1982,
    "ex3a": "project=ex3 WeatherFolder=historical soilId=075 fcode=109_120 plotNr=10001 Altitude=73 Latitude=52.6732 poligonID=29872 " + _EN % 1982,
    "ex3b": "project=ex3 WeatherFolder=historical soilId=075 fcode=109_121 plotNr=10002 Altitude=46 Latitude=52.6431 poligonID=30169 " + _EN % 1981,
    "rue1": "project=rue WeatherFolder=historical fcode=109_120 plotNr=10001 soilId=001 Altitude=73 Latitude=52.6732 poligonID=29872 " + _DE % 1982,
    "rue2": "project=rue WeatherFolder=historical fcode=109_121 plotNr=10002 soilId=001 Altitude=46 Latitude=52.6431 poligonID=30169 " + _DE % 1981,
    "zuc1": "project=zuc WeatherFolder=historical fcode=109_120 plotNr=10001 soilId=001 Altitude=73 Latitude=52.6732 poligonID=29872 " + _DE % 1982,
    "zuc3": "project=zuc WeatherFolder=historical fcode=109_120 plotNr=10003 soilId=001 Altitude=73 Latitude=52.6732 poligonID=29872 " + _DE % 1981,
    "bulk": "project=bulk WeatherFolder=historical soilId=002 fcode=109_120 plotNr=10001 Altitude=73 Latitude=52.6732 poligonID=29872 " + _EN % 1982,
    "bulk5": "project=bulk WeatherFolder=historical soilId=005 fcode=109_120 plotNr=10002 Altitude=73 Latitude=52.6732 poligonID=29872 " + _EN % 1981,
    "myP": "project=myP WeatherFolder=historical soilId=075 plotNr=10001 Altitude=73 Latitude=52.6732 poligonID=29872 " + _EN % 1982,
    "mun": "project=MUN WeatherFolder=MUN soilId=001 fcode=NEU plotNr=00001 Altitude=55 Latitude=54.00 poligonID=MUN parameter=./parameter StartYear=2009 EndDate=31052011",
    # fertiliser prediction at a latitude where it works (g.ENDE is reassigned inside the day loop)
    "pred": "project=ex1 WeatherFolder=historical soilId=075 fcode=109_120 plotNr=10001 Altitude=73 Latitude=52.6732 poligonID=29872 VirtualDateFertilizerPrediction=04011981 " + _EN % 1983,
}
# full-length variants for the thorough tier (shipped lines as they are)
LONG = {
    "ex1a_long": "project=ex1 WeatherFolder=historical soilId=075 fcode=109_120 plotNr=10001 Altitude=73 Latitude=52.6732 poligonID=29872",
    "rue1_long": "project=rue WeatherFolder=historical fcode=109_120 plotNr=10001 soilId=001 Altitude=73 Latitude=52.6732 poligonID=29872",
    "ex3a_long": "project=ex3 WeatherFolder=historical soilId=075 fcode=109_120 plotNr=10001 Altitude=73 Latitude=52.6732 poligonID=29872",
    "mun_long": "project=MUN WeatherFolder=MUN soilId=001 fcode=NEU plotNr=00001 Altitude=55 Latitude=54.00 poligonID=MUN parameter=./parameter StartYear=2009 EndDate=31052019",
}

_B = "WeatherFolder=historical fcode=109_120 Altitude=73 Latitude=52.6732 poligonID=29872 EndDate=12311983"
# one failing line per error class C11 lists (class -> line); projects b* / weather folders gap* are
# made by make_failing_inputs()
FAILING = {
    "unknown-soil-id": "project=ex1 %s soilId=999 plotNr=10001" % _B,
    "unknown-field-id": "project=bfld %s soilId=075 plotNr=10001" % _B,
    "unknown-plotnr": "project=ex1 %s soilId=075 plotNr=77777" % _B,
    "texture-not-in-tables": "project=btex %s soilId=075 plotNr=10001" % _B,
    "texture-fractions": "project=bfrc %s soilId=075 plotNr=10001 PTF=1" % _B,
    "weather-gap-first-year": "project=ex1 %s soilId=075 plotNr=10001 WeatherFolder=gap0" % _B,
    "weather-gap-later-year": "project=ex1 %s soilId=075 plotNr=10001 WeatherFolder=gap" % _B,
    "tillage-before-harvest": "project=btil %s soilId=075 plotNr=10001" % _B,
    "start-year": "project=ex1 %s soilId=075 plotNr=10001 StartYear=1981" % _B,
    "fert-prediction-lat40": "project=ex1 %s soilId=075 plotNr=10001 VirtualDateFertilizerPrediction=04011981 Latitude=40" % _B,
    # layout 0 (one weather file per year): defect F9, recorded as known finding
    "weather-gap-layout0-first-year": "project=MUN soilId=001 fcode=NEU plotNr=00001 Altitude=55 Latitude=54.00 poligonID=MUN parameter=./parameter StartYear=2009 EndDate=31052011 WeatherFolder=MUNgap0",
    "weather-gap-layout0-later-year": "project=MUN soilId=001 fcode=NEU plotNr=00001 Altitude=55 Latitude=54.00 poligonID=MUN parameter=./parameter StartYear=2009 EndDate=31052011 WeatherFolder=MUNgap",
}


# ---- error class "soil texture not in the parameter tables" in several spellings (C11) ----
_TXT2 = ["%s 0.90 %s 03 3 00 10      00 13 02   22 09 38 73 21 06 00  20   00 99 01",
         "%s 0.30 %s 20 3 00 10      00         22 12 43 61 27 12 00  20   00       "]
_TXT1 = "%s 1.14 %s 03 2 00 10      00 03 01   31 16 45 26 63 11 00  20   00 99 01"
_CSV2 = ["%s,1.14,%s,03,2,1.36,00,10,00,05,02,31,16,45,26,63,11,20,00,99",
         "%s,0.40,%s,20,2,1.4,00,10,00,,,29,19,45,26,63,11,20,00,   "]
_TXL = "project=ttx WeatherFolder=historical fcode=109_120 Altitude=73 Latitude=52.6732 poligonID=29872 EndDate=12311981 plotNr=10001 soilId=%s"
_TCL = "project=tcs WeatherFolder=historical fcode=109_120 Altitude=73 Latitude=52.6732 poligonID=29872 EndDate=12311981 plotNr=10001 soilId=%s"
# name -> (project, soil id, raw codes of the horizons top to bottom); fixed ids so that the batch lines are static
TEXTURE_NAMED = {
    "texture-right-aligned":        ("ttx", "901", [" SU", "SL4"]),
    "texture-right-aligned-deep":   ("ttx", "902", ["SL2", " SU"]),
    "texture-blank-deep":           ("ttx", "903", ["SL2", "   "]),
    "texture-table-header-key":     ("ttx", "904", ["BDA", "SL4"]),
    "texture-truncated-deep":       ("ttx", "906", ["SL2", "SL "]),
    "texture-right-aligned-single": ("ttx", "907", [" SS"]),
    "texture-csv-leading-blank":    ("tcs", "911", [" SU", "ULS"]),
    "texture-csv-too-long":         ("tcs", "912", ["SL2x", "ULS"]),
    "texture-csv-empty-deep":       ("tcs", "913", ["ULS", ""]),
    "texture-csv-leading-blank-deep": ("tcs", "916", ["ULS", " SL2"[:3]]),
}
TEXTURE_VALID_NAMED = {      # spellings the code accepts (normalised to a table key): valid lines
    "tx-lowercase":      ("ttx", "905", ["sl2", "Sl4"]),
    "tx-csv-short":      ("tcs", "914", ["SU", "ULS"]),
    "tx-csv-lower-deep": ("tcs", "915", ["ULS", "su"]),
}
TEXTURE_FAILING = {k: (_TXL if v[0] == "ttx" else _TCL) % v[1] for k, v in TEXTURE_NAMED.items()}
TEXTURE_VALID = {k: (_TXL if v[0] == "ttx" else _TCL) % v[1] for k, v in TEXTURE_VALID_NAMED.items()}


def table_keys(ex):
    keys = []
    for i, l in enumerate(open(os.path.join(ex, "parameter", "PARCAP.TRU")).read().split("\n")):
        if i % 2 == 0 and len(l) >= 3 and l[:3].strip():
            keys.append(l[:3].upper())
    return keys


def _mutate(rng, k, csv):
    alnum = "ABCDEFGHIJKLMNOPQRSTUVWXYZabcdefghijklmnopqrstuvwxyz0123456789"
    m = rng.randint(0, 8 if csv else 5)
    if m == 0:
        return k.lower()
    if m == 1:
        i = rng.randrange(3); return k[:i] + k[i].lower() + k[i + 1:]
    if m == 2:
        return " " + k[:2]
    if m == 3:
        i = rng.randrange(3); return k[:i] + rng.choice(alnum) + k[i + 1:]
    if m == 4:
        return k[1] + k[0] + k[2]
    if m == 5:
        return k
    if m == 6:
        return k.rstrip()                    # csv: unpadded
    if m == 7:
        return k.rstrip() + rng.choice(alnum + " ")
    return " " + k.rstrip()


def make_texture_inputs(ex, rng, nrandom):
    """projects ttx (txt soil file, clone of ex1) and tcs (csv soil file, clone of bulk) with one soil id per
    spelling; returns the cases [{name, project, sid, raws, line}] (named ones first)"""
    keys = table_keys(ex)
    cases = []
    for name, (proj, sid, raws) in list(TEXTURE_NAMED.items()) + list(TEXTURE_VALID_NAMED.items()):
        cases.append({"name": name, "project": proj, "sid": sid, "raws": raws})
    fixed_txt = ["QQ9", "XXX", " SS", "su ", "S U", "SU ", "SS ", "TS3", "UU ", "  S", "ss ", "Ts3", "0SU", "SL2", keys[-1], keys[0]]
    fixed_csv = ["SL2", "sl2", "SU ", "S", "QQ9", " sl", "SL2 ", "ss", "  SU", "SS  ", "UU", "uu ", "U", "SU\t", keys[-1].rstrip()]
    n = 0
    def sid():
        nonlocal n
        n += 1
        return "%03d" % (100 + n)            # ids 101.. (no clash with the shipped ids used by the lines above)
    for c in fixed_txt:
        for deep in (False, True):
            cases.append({"name": "txt:%r:%s" % (c, "deep" if deep else "top"), "project": "ttx", "sid": None,
                          "raws": ["SL2", c] if deep else [c, "SL4"]})
    for c in fixed_txt[:6]:
        cases.append({"name": "txt:%r:single" % c, "project": "ttx", "sid": None, "raws": [c]})
    for c in fixed_csv:
        for deep in (False, True):
            cases.append({"name": "csv:%r:%s" % (c, "deep" if deep else "top"), "project": "tcs", "sid": None,
                          "raws": ["ULS", c] if deep else [c, "ULS"]})
    for _ in range(nrandom):
        csv = rng.random() < 0.5
        c = _mutate(rng, rng.choice(keys), csv)
        if not csv:
            c = (c + "   ")[:3]
        deep = rng.random() < 0.5
        other = rng.choice(keys) if csv else rng.choice(keys)
        cases.append({"name": "%s:%r:%s:random" % ("csv" if csv else "txt", c, "deep" if deep else "top"),
                      "project": "tcs" if csv else "ttx", "sid": None,
                      "raws": [other.rstrip() if csv else other, c] if deep else [c, other.rstrip() if csv else other]})
    used = {c["sid"] for c in cases if c["sid"]}
    for c in cases:
        if c["sid"] is None:
            s = sid()
            while s in used:
                s = sid()
            c["sid"] = s
    # write the projects
    d = _clone(ex, "ex1", "ttx")
    with open(d + "/soil_ttx.txt", "a") as f:
        for c in cases:
            if c["project"] != "ttx":
                continue
            if len(c["raws"]) == 1:
                f.write((_TXT1 % (c["sid"], c["raws"][0])) + "\n")
            else:
                for tpl, code in zip(_TXT2, c["raws"]):
                    f.write((tpl % (c["sid"], code)) + "\n")
    d = _clone(ex, "bulk", "tcs")
    with open(d + "/soil_tcs.csv", "a") as f:
        for c in cases:
            if c["project"] == "tcs":
                for tpl, code in zip(_CSV2, c["raws"]):
                    f.write((tpl % (c["sid"], code)) + "\n")
    for c in cases:
        c["line"] = (_TXL if c["project"] == "ttx" else _TCL) % c["sid"]
    return cases


def setup_examples(ctx, name="ex"):
    """private copy of REPO/examples (results are written inside the tree; never into REPO)"""
    ex = os.path.join(ctx.work, name)
    if not os.path.isdir(ex):
        shutil.copytree(os.path.join(core.REPO, "examples"), ex)
        for root, dirs, _ in os.walk(ex):          # results shipped/left in the tree play no role
            for d in list(dirs):
                if d.startswith("RESULT") or d == "MUN_RESULT":
                    shutil.rmtree(os.path.join(root, d)); dirs.remove(d)
    return ex


def _clone(ex, src, dst):
    d = os.path.join(ex, "project", dst)
    shutil.rmtree(d, ignore_errors=True)
    shutil.copytree(os.path.join(ex, "project", src), d)
    for fn in os.listdir(d):
        m = re.match(r"(.*)_%s\.(\w+)$" % re.escape(src), fn)
        if m:
            os.rename(os.path.join(d, fn), os.path.join(d, "%s_%s.%s" % (m.group(1), dst, m.group(2))))
    return d


def _sub(path, old, new):
    t = open(path).read()
    assert old in t, (path, old)
    open(path, "w").write(t.replace(old, new, 1))


def make_failing_inputs(ex):
    d = _clone(ex, "ex1", "bfld"); _sub(d + "/poly_bfld.txt", "10001 001 SOYSM1", "10001 001 NOFELD")
    d = _clone(ex, "ex1", "btex"); _sub(d + "/soil_btex.txt", "075 0.90 SL2", "075 0.90 QQ9")
    d = _clone(ex, "ex1", "bfrc"); _sub(d + "/soil_bfrc.txt", "22 09 38 73 21 06", "22 09 38 73 41 06")
    d = _clone(ex, "ex1", "btil"); _sub(d + "/til_btil.txt", "SOYSM1     5 1   02151982", "SOYSM1     5 1   07151981")
    lines = open(ex + "/weather/historical/109_120.csv").read().split("\n")
    for folder, gap in (("gap0", "1980-07-1"), ("gap", "1981-07-1")):
        w = os.path.join(ex, "weather", folder); os.makedirs(w, exist_ok=True)
        open(w + "/109_120.csv", "w").write("\n".join(l for l in lines if not l.startswith(gap)))
    for folder, ext in (("MUNgap0", "009"), ("MUNgap", "010")):
        w = os.path.join(ex, "weather", folder)
        shutil.rmtree(w, ignore_errors=True); shutil.copytree(os.path.join(ex, "weather", "MUN"), w)
        p = os.path.join(w, "MET_NEU." + ext)
        L = open(p).read().split("\n"); open(p, "w").write("\n".join(L[:185]))


# ---- the listed error classes crossed with the configurations that change the code path they travel (C11):
# GroundWaterFrom soilfile (ex1, bulk) / polygonfile (rue, zuc, MUN) / gwTimeSeries (ex3); soil file txt (rue, zuc, MUN) / csv
# (ex3, bulk); crop file csv (rue, zuc) / txt (ex3, bulk, MUN); weather layout 1 (ex3, bulk, zuc) / 2 (rue) / 0 (MUN);
# automatic management on (ex3, rue, zuc, bulk) / off (MUN, ex1).  ex1 itself is covered by FAILING above.
VARIANT_BASES = {
    "ex3":  dict(valid="ex3a", soil=("csv", "075"), plot="10001", field="SOYSM1", til="07151981", pred="04011981", startyear="1981"),
    "rue":  dict(valid="rue1", soil=("txt", "001"), plot="10001", field="L2F3R1", til="15051981", pred="04011981", startyear="1981"),
    "zuc":  dict(valid="zuc1", soil=("txt", "001"), plot="10001", field=None, til=None, pred="04011981", startyear="1981"),
    "bulk": dict(valid="bulk", soil=("csv", "002"), plot="10001", field="SOYSM1", til="07151981", pred="04011981", startyear="1981"),
    "MUN":  dict(valid="mun", soil=("txt", "001"), plot="00001", field="NEU000001", til="15052010", pred="04012010", startyear="2010"),
}


def _tok(line, key, value):
    if re.search(r"(^| )%s=" % key, line):
        return re.sub(r"(^| )%s=\S*" % key, lambda m: "%s%s=%s" % (m.group(1), key, value), line)
    return line + " %s=%s" % (key, value)


def variant_lines():
    """name '<class>@<project>' -> batch line (projects v*_<P> are made by make_variant_inputs)"""
    out = {}
    for P, b in VARIANT_BASES.items():
        base = VALID[b["valid"]]
        out["unknown-soil-id@" + P] = _tok(base, "soilId", "999")
        out["unknown-plotnr@" + P] = _tok(base, "plotNr", "77777")
        out["start-year@" + P] = _tok(base, "StartYear", b["startyear"])
        out["fert-prediction-lat40@" + P] = _tok(_tok(base, "VirtualDateFertilizerPrediction", b["pred"]), "Latitude", "40")
        out["texture-not-in-tables@" + P] = _tok(base, "project", "vx_" + P)
        if b["field"]:
            out["unknown-field-id@" + P] = _tok(base, "project", "vf_" + P)
        if b["til"] and P not in ("ex3", "rue", "bulk"):
            # with AutoHarvest on (ex3, rue, bulk) a tillage inside the growing period waits for the harvest (fix F35): a valid line there
            out["tillage-before-harvest@" + P] = _tok(base, "project", "vt_" + P)
    out["unknown-gw-id@ex3"] = _tok(VALID["ex3a"], "gwId", "zzz")
    out["soil-without-gw-series@ex3"] = _tok(VALID["ex3a"], "soilId", "001")
    out["weather-gap-layout2@rue"] = _tok(VALID["rue1"], "WeatherFolder", "gapcz")
    out["texture-fractions@bulk"] = _tok(_tok(VALID["bulk"], "project", "vs_bulk"), "PTF", "1")
    return out


VARIANTS = variant_lines()
VARIANTS_VALID = {"tillage-waits-for-auto-harvest@" + P: _tok(VALID[VARIANT_BASES[P]["valid"]], "project", "vt_" + P) for P in ("ex3", "rue", "bulk")}


def make_variant_inputs(ex):
    for P, b in VARIANT_BASES.items():
        kind, sid = b["soil"]
        d = _clone(ex, P, "vx_" + P)
        sp = os.path.join(d, "soil_vx_%s.%s" % (P, kind))
        L = open(sp).read().split("\n")
        if kind == "txt":
            i = next(i for i, l in enumerate(L) if l.startswith(sid + " "))
            L[i] = L[i][:9] + "QQ9" + L[i][12:]
        else:
            col = L[0].split(",").index("Texture")
            i = next(i for i, l in enumerate(L) if l.startswith(sid + ","))
            t = L[i].split(","); t[col] = "QQ9"; L[i] = ",".join(t)
        open(sp, "w").write("\n".join(L))
        if b["field"]:
            d = _clone(ex, P, "vf_" + P)
            pp = os.path.join(d, "poly_vf_%s.txt" % P)
            L = open(pp).read().split("\n")
            i = next(i for i, l in enumerate(L) if l.split()[:1] == [b["plot"]])
            L[i] = L[i].replace(b["field"], ("NOFELD" + " " * 12)[:len(b["field"])], 1)
            open(pp, "w").write("\n".join(L))
        if b["til"]:
            d = _clone(ex, P, "vt_" + P)
            tp = os.path.join(d, "til_vt_%s.txt" % P)
            L = open(tp).read().rstrip("\n").split("\n")
            L = L[:2] + ["%-9s 30 1   %s" % (b["field"], b["til"])] + [l for l in L[2:] if l.split()[:1] == [b["field"]]]
            open(tp, "w").write("\n".join(L) + "\n")
    d = _clone(ex, "bulk", "vs_bulk")
    sp = os.path.join(d, "soil_vs_bulk.csv")
    L = open(sp).read().split("\n")
    col = L[0].split(",").index("Silt")
    i = next(i for i, l in enumerate(L) if l.startswith("002,"))
    t = L[i].split(","); t[col] = str(int(t[col]) + 25); L[i] = ",".join(t)
    open(sp, "w").write("\n".join(L))
    w = os.path.join(ex, "weather", "gapcz"); os.makedirs(w, exist_ok=True)
    lines = open(os.path.join(ex, "weather", "historical", "109_120.w6d")).read().split("\n")
    open(os.path.join(w, "109_120.w6d"), "w").write("\n".join(l for l in lines if not l.startswith(" 198119")))


# ---- weather with explicitly handled oddities in the 2nd and later simulation years (C03): tmin > tmax + 0.5 (swapped by
# LoadYear, same value pair on several days and different pairs), the edge tmin = tmax + 0.5, tmin slightly above tmax,
# a missing-value sentinel; the same file is read by several lines of one process
_ODD = "project=ex1 WeatherFolder=odd fcode=109_120 Altitude=73 Latitude=52.6732 EndDate=12311983 "
ODD = {
    "odd1": _ODD + "soilId=075 plotNr=10001 poligonID=29872",
    "odd2": _ODD + "soilId=160 plotNr=10002 poligonID=29873",
    "odd3": _ODD + "soilId=075 plotNr=10002 poligonID=30169",
}


def make_odd_weather(ex):
    w = os.path.join(ex, "weather", "odd"); os.makedirs(w, exist_ok=True)
    L = open(os.path.join(ex, "weather", "historical", "109_120.csv")).read().split("\n")
    edits = {"1981-05-10": (2.0, None), "1981-05-11": (2.0, None), "1981-08-01": (0.5, None), "1981-08-02": (0.6, None),
             "1982-06-15": (3.5, None), "1982-06-16": (0.3, None), "1982-12-31": (1.0, None), "1983-01-01": (1.0, None),
             "1983-07-07": (2.0, None)}
    for i, l in enumerate(L):
        t = l.split(",")
        if t and t[0] in edits:
            tmax = float(t[3]) if t[0] not in ("1981-05-10", "1981-05-11", "1983-07-07") else 21.3   # the same pair on three days
            d = edits[t[0]][0]
            t[3] = "%.1f" % tmax; t[1] = "%.1f" % (tmax + d); t[2] = "%.1f" % (tmax + d / 2)
            L[i] = ",".join(t)
        elif t and t[0] == "1982-03-03":
            t[5] = "999.9"; L[i] = ",".join(t)       # global radiation missing
    open(os.path.join(w, "109_120.csv"), "w").write("\n".join(L))


# ---- lines that share input FILES AND IDS (same project, soil id, polygon, weather file, crop file) and differ from the
# group's base line in exactly one configuration key that changes how those inputs are interpreted (C03, C11): an incomplete
# cache key of any session-level pool shows as a difference between a line inside the group batch and the same line alone
INTERP_BASES = {
    "ex3":  "project=ex3 WeatherFolder=historical soilId=075 fcode=109_120 plotNr=10001 Altitude=73 Latitude=52.6732 poligonID=29872 EndDate=12311982",
    "bulk": "project=bulk WeatherFolder=historical soilId=002 fcode=109_120 plotNr=10001 Altitude=73 Latitude=52.6732 poligonID=29872 EndDate=12311982",
    "ex1":  "project=ex1 WeatherFolder=historical soilId=075 fcode=109_120 plotNr=10001 Altitude=73 Latitude=52.6732 poligonID=29872 EndDate=12311982",
    "ex2":  "project=ex2 WeatherFolder=historical soilId=002 plotNr=10001 Altitude=73 Latitude=52.6732 poligonID=29872 EndDate=12311982",
    "rue":  "project=rue WeatherFolder=historical fcode=109_120 plotNr=10001 soilId=001 Altitude=73 Latitude=52.6732 poligonID=29872 EndDate=31121982",
    # crop parameters read from yml, parameter folder given on the line: lines of one session using DIFFERENT parameter folders
    "ex1yml": "project=ex1 WeatherFolder=historical soilId=075 fcode=109_120 plotNr=10001 Altitude=73 Latitude=52.6732 poligonID=29872 EndDate=12311982 CropParameterFormat=yml parameter=./parameter",
    "zucyml": "project=zuc WeatherFolder=historical fcode=109_120 plotNr=10001 soilId=001 Altitude=73 Latitude=52.6732 poligonID=29872 EndDate=31121982 CropParameterFormat=yml parameter=./parameter",
}
INTERP_KEYS = {
    "ex1yml": ["parameter=./parameter_b", "parameter=./parameter_c"],
    "zucyml": ["parameter=./parameter_c", "parameter=./parameter_b"],   # project -> [(key=value[ key=value]) ...]; GroundWaterFrom: 0 polygonfile, 1 soilfile, 2 gwTimeSeries
    "ex3":  ["GroundWaterFrom=1", "GroundWaterFrom=0", "PTF=1", "PTF=3", "LeachingDepth=9", "EndDate=12311981", "AutoIrrigation=0", "Fertilization=50"],
    "bulk": ["GroundWaterFrom=0", "PTF=2", "PTF=4", "LeachingDepth=9", "EndDate=12311983", "ETpot=1", "InitSelection=1", "AutoFertilization=0"],
    "ex1":  ["GroundWaterFrom=0", "CropFileFormat=txt", "WeatherFileFormat=2 WeatherFile=%s.w6d", "PTF=1", "CO2method=1", "EndDate=12311983", "KcFactorBareSoil=0.8"],
    "ex2":  ["SoilFileExtension=txt", "GroundWaterFrom=0", "LeachingDepth=12"],
    "rue":  ["LeachingDepth=9", "NDeposition=40", "OrganicMatterMineralProportion=0.2", "AutoIrrigation=0"],
}


def interp_lines():
    out, groups = {}, {}
    for P, base in INTERP_BASES.items():
        out["ik:%s:base" % P] = base
        groups[P] = ["ik:%s:base" % P]
        for kv in INTERP_KEYS[P]:
            line = base
            for tok in kv.split():
                k, v = tok.split("=", 1)
                line = _tok(line, k, v)
            name = "ik:%s:%s" % (P, kv.replace(" ", "+"))
            out[name] = line; groups[P].append(name)
    return out, groups


INTERP, INTERP_GROUPS = interp_lines()


def make_param_variants(ex):
    """parameter_b / parameter_c: copies of the parameter folder with edited yml crop parameters (scenario study)"""
    for name, fac in (("parameter_b", 0.7), ("parameter_c", 1.25)):
        d = os.path.join(ex, name)
        if os.path.isdir(d):
            continue
        shutil.copytree(os.path.join(ex, "parameter"), d)
        for fn in os.listdir(d):
            if fn.endswith(".yml"):
                p = os.path.join(d, fn)
                t = open(p).read()
                t = re.sub(r"^MAXAMAX: ([0-9.]+)", lambda m: "MAXAMAX: %g" % (float(m.group(1)) * fac), t, flags=re.M)
                open(p, "w").write(t)


def run_interp_groups(binary, ex, rng, concs=(1, 3), timeout=120):
    """solo run of every line + every group batch forwards and backwards at concurrency 1 and shuffled at the others.
    Returns (solo: name -> (Exec, digest), runs: [(Exec, [digest per line])])"""
    make_param_variants(ex)
    jobs = [lambda k=k: (k, run_batch(binary, ex, "iks_" + re.sub(r"\W", "_", k), [k], INTERP, 1, 4, timeout=timeout)) for k in INTERP]
    solo = {}
    for k, e in parallel(jobs, 6):
        solo[k] = (e, folder_digest(os.path.join(e.root, "l0")))
        shutil.rmtree(e.root, ignore_errors=True)
    jobs = []
    for P, names in INTERP_GROUPS.items():
        ok = [n for n in names if not solo[n][0].died() and solo[n][0].count == 0]
        orders = [("f", list(ok), 1), ("r", list(reversed(ok)), 1)]
        for c in concs:
            if c > 1:
                o = list(ok); rng.shuffle(o); orders.append(("s%d" % c, o, c))
        for tag, order, c in orders:
            jobs.append(lambda P=P, tag=tag, order=order, c=c: run_batch(binary, ex, "ikg_%s_%s" % (P, tag), order, INTERP, c, 4, timeout=timeout))
    runs = []
    for e in parallel(jobs, 6):
        runs.append((e, [folder_digest(os.path.join(e.root, "l%d" % i)) for i in range(len(e.contents))]))
        shutil.rmtree(e.root, ignore_errors=True)
    return solo, runs


def interp_fails(Fail, solo, runs):
    fails = []
    for k, (e, d) in solo.items():
        if e.died():
            fails.append(Fail(key="interpretation-key:%s:solo-died" % k, what="a line with one configuration key changed kills the process when run alone",
                              line=INTERP[k], rc=e.rc, stderr=e.stderr[-500:]))
    for e, digs in runs:
        replay = ("cd <copy of /repo/examples>; batch: " + " || ".join("%s resultfolder=G/l%d" % (INTERP[k], i) for i, k in enumerate(e.contents)) +
                  " ; hermes2go -module batch -concurrent %d -batch <file>; compare G/l<i> with the result folder of line i run alone" % e.c)
        if e.died():
            fails.append(Fail(key="interpretation-key:%s:batch-died" % e.tag, what="group batch did not finish normally", rc=e.rc, stderr=e.stderr[-500:], replay=replay))
            continue
        if e.count != 0:
            fails.append(Fail(key="interpretation-key:%s:errors" % e.tag, what="lines that succeed alone fail inside the group batch", summary=e.summary, replay=replay))
        for i, k in enumerate(e.contents):
            if digs[i] != solo[k][1]:
                diff = sorted(f for f in set(digs[i]) | set(solo[k][1]) if digs[i].get(f) != solo[k][1].get(f))
                P, kv = k.split(":", 2)[1:]
                fails.append(Fail(key="interpretation-key:%s:%s" % (P, kv.split("=")[0]),
                                  what="a line differs from its solo run when it shares a session with lines that use the same input files and ids "
                                       "under another value of one configuration key (state cached under an incomplete key?)",
                                  line=INTERP[k], position=i, concurrency=e.c, files=diff[:6], earlier_lines=[INTERP[x] for x in e.contents[:i]][:8], replay=replay))
    return fails


# ---- weather gaps on the boundaries (C11): first / last record of a year, of the file, single and multi-day, at the turn of a
# year, in the first / a middle / the last simulated year; layout 1 (csv, project ex1) and layout 2 (w6d, project rue).
# (layout 0 = known finding F9, see FAILING)
GAP_SPECS = {   # name -> (dates removed, keep only the years up to)
    "jan1-middle-year":     (["1981-01-01"], None),
    "jan1-3days":           (["1982-01-01", "1982-01-02", "1982-01-03"], None),
    "jan1-last-year":       (["1983-01-01"], None),
    "dec31-first-year":     (["1980-12-31"], None),
    "dec31-middle-year":    (["1981-12-31"], None),
    "turn-of-year":         (["1981-12-31", "1982-01-01"], None),
    "last-record-of-file":  (["1983-12-31"], 1983),
    "last-2-records-of-file": (["1983-12-30", "1983-12-31"], 1983),
    "jan2-only":            (["1982-01-02"], None),
}
GAPS = {}
for _n in GAP_SPECS:
    GAPS["weather-gap:%s@layout1" % _n] = ("project=ex1 WeatherFolder=g1_%s fcode=109_120 Altitude=73 Latitude=52.6732 poligonID=29872 "
                                           "EndDate=12311983 soilId=075 plotNr=10001" % _n)
    GAPS["weather-gap:%s@layout2" % _n] = ("project=rue WeatherFolder=g2_%s fcode=109_120 plotNr=10001 soilId=001 Altitude=73 Latitude=52.6732 "
                                           "poligonID=29872 EndDate=31121983" % _n)


def make_gap_weather(ex):
    import datetime
    src = os.path.join(ex, "weather", "historical")
    csv = open(os.path.join(src, "109_120.csv")).read().split("\n")
    w6d = open(os.path.join(src, "109_120.w6d")).read().split("\n")
    for name, (dates, lastyear) in GAP_SPECS.items():
        d1 = os.path.join(ex, "weather", "g1_" + name); os.makedirs(d1, exist_ok=True)
        keep = [l for l in csv if l[:10] not in dates and not (lastyear and l[:4].isdigit() and int(l[:4]) > lastyear)]
        open(os.path.join(d1, "109_120.csv"), "w").write("\n".join(keep) + ("" if keep[-1] == "" else "\n"))
        codes = set()
        for ds in dates:
            dt = datetime.date.fromisoformat(ds)
            codes.add("%d%03d" % (dt.year, dt.timetuple().tm_yday))
        d2 = os.path.join(ex, "weather", "g2_" + name); os.makedirs(d2, exist_ok=True)
        keep = [l for l in w6d if l.strip()[:7] not in codes and not (lastyear and l.strip()[:4].isdigit() and int(l.strip()[:4]) > lastyear)]
        open(os.path.join(d2, "109_120.w6d"), "w").write("\n".join(keep) + ("" if keep[-1] == "" else "\n"))


# ---- a valid line that books more automatic irrigation events than the initial length (1200) of the irrigation slices
# (types.go NewGlobalVarsMain BREG/BRKZ/ZTBR, grown by setIrrigation): many small applications, 31 years
LONG_IRRIGATION = {"long-irrigation": "project=lirr WeatherFolder=historical soilId=075 fcode=109_120 plotNr=10001 Altitude=73 Latitude=52.6732 poligonID=29872"}


def make_long_irrigation(ex):
    d = _clone(ex, "ex1", "lirr")
    p = os.path.join(d, "automan.txt")
    out = []
    for i, l in enumerate(open(p).read().split("\n")):
        if i > 0 and len(l.strip()) >= 3:
            l = l.rstrip("\r").ljust(180)
            l = l[:80] + "1" + l[81:]          # Irrdv1: from stage 1
            l = l[:87] + "9" + l[88:]          # Irrdv2: to stage 9
            l = l[:163] + "99 " + l[166:]      # Irrlow 99 %
            l = l[:177] + "1  " + l[180:]      # irrmax 1 mm
        out.append(l)
    open(p, "w").write("\n".join(out))
    shutil.copy(os.path.join(ex, "project", "ex3", "managementout_conf.yml"), os.path.join(d, "managementout_conf.yml"))
    cfg = os.path.join(d, "config.yml")
    t = open(cfg).read()
    if re.search(r"^ManagementEvents:", t, re.M):
        t = re.sub(r"^ManagementEvents:.*$", "ManagementEvents: 1", t, flags=re.M)
    else:
        t += "\nManagementEvents: 1\n"
    open(cfg, "w").write(t)


# ---- texture / fraction errors by POSITION in the profile (C11): first / middle / last horizon of three, last of two, single
# horizon; the fraction classes under PTF=1..4 (command-line override), the texture-code class under PTF=0
_H3 = ["%s 0.90 SL2 03 3 00 10      00 13 03   22 09 38 %s 00  20   00 99 01",
       "%s 0.50 SL3 10 3 00 10      00         22 10 40 %s 00  20   00       ",
       "%s 0.30 SL4 20 3 00 10      00         22 12 43 %s 00  20   00       "]
_H2 = ["%s 0.90 SL2 03 3 00 10      00 13 02   22 09 38 %s 00  20   00 99 01",
       "%s 0.30 SL4 20 3 00 10      00         22 12 43 %s 00  20   00       "]
_H1 = ["%s 1.14 SL2 03 2 00 10      00 03 01   31 16 45 %s 00  20   00 99 01"]
_GOODF = ["73 21 06", "70 22 08", "61 27 12"]
_FRL = "project=vfr WeatherFolder=historical fcode=109_120 Altitude=73 Latitude=52.6732 poligonID=29872 EndDate=12311981 plotNr=10001 soilId=%s PTF=%d"
# name -> (soil id, horizons template, index of the bad horizon, bad fraction triple or texture code, PTF)
FRACTION_SPECS = {
    "fractions-sum:first-of-3@ptf1":   ("701", _H3, 0, "73 41 06", 1),
    "fractions-sum:middle-of-3@ptf2":  ("702", _H3, 1, "70 42 08", 2),
    "fractions-sum:last-of-3@ptf1":    ("703", _H3, 2, "61 47 12", 1),
    "fractions-sum:last-of-3@ptf2":    ("703", _H3, 2, "61 47 12", 2),
    "fractions-sum:last-of-3@ptf3":    ("703", _H3, 2, "61 47 12", 3),
    "fractions-sum:last-of-3@ptf4":    ("703", _H3, 2, "61 47 12", 4),
    "fractions-sum:last-of-2@ptf3":    ("704", _H2, 1, "31 27 12", 3),
    "fractions-sum:single@ptf4":       ("705", _H1, 0, "26 93 11", 4),
    "fractions-zero-clay:last-of-3@ptf1": ("706", _H3, 2, "70 30 00", 1),
    "fractions-zero-silt:last-of-2@ptf2": ("707", _H2, 1, "88 00 12", 2),
    "fractions-zero-sand:single@ptf1": ("708", _H1, 0, "00 89 11", 1),
    "fractions-zero-clay:first-of-3@ptf4": ("709", _H3, 0, "79 21 00", 4),
    "texture-code:middle-of-3@ptf0":   ("711", _H3, 1, "QQ9", 0),
    "texture-code:last-of-3@ptf0":     ("712", _H3, 2, "QQ9", 0),
    "texture-code:last-of-3@ptf2":     ("712", _H3, 2, "QQ9", 2),
}
FRACTIONS = {k: _FRL % (v[0], v[4]) for k, v in FRACTION_SPECS.items()}
# the same profiles where nothing looks at the broken part: valid lines
FRACTIONS_VALID = {"tx-fractions-ignored-ptf0": _FRL % ("703", 0), "tx-3-horizons-ptf1": _FRL % ("700", 1)}


def make_fraction_inputs(ex):
    d = _clone(ex, "ex1", "vfr")
    done = set()
    with open(os.path.join(d, "soil_vfr.txt"), "a") as f:
        for i, tpl in enumerate(_H3):
            f.write((tpl % ("700", _GOODF[i])) + "\n")
        for name, (sid, tpls, bad, val, ptf) in FRACTION_SPECS.items():
            if sid in done:
                continue
            done.add(sid)
            for i, tpl in enumerate(tpls):
                good = _GOODF[i] if len(tpls) > 1 else "26 63 11"
                line = tpl % (sid, val if (i == bad and " " in val) else good)
                if i == bad and " " not in val:
                    line = line[:9] + val + line[12:]
                f.write(line + "\n")


# ---- several interacting command-line overrides on ONE batch line (C03): the override code must give the same configuration
# every time, whatever order it meets the keys in (Go map iteration is random)
OVERRIDES = {
    "ov_zuc_sow0_harv1": VALID["zuc1"] + " AutoSowingHarvest=0 AutoHarvest=1",
    "ov_rue_sow0_harv1": VALID["rue1"] + " AutoSowingHarvest=0 AutoHarvest=1 AutoIrrigation=0",
    "ov_zuc_sow1_harv0": VALID["zuc1"] + " AutoSowingHarvest=1 AutoHarvest=0 AutoFertilization=0",
    "ov_bulk_mix":       VALID["bulk"] + " AutoIrrigation=0 AutoFertilization=1 PTF=2 ETpot=1 AutoSowingHarvest=1 AutoHarvest=0",
    "ov_ex3_gw":         VALID["ex3a"] + " GroundWaterFrom=2 gwId=075 CO2method=1 AutoIrrigation=0 AutoHarvest=0 AutoSowingHarvest=1",
    "ov_ex1_soil":       VALID["ex1a"] + " PTF=1 ETpot=2 CO2method=1 KcFactorBareSoil=0.8 LeachingDepth=9 AutoIrrigation=0",
}


# ---- CONFIGURATION SWEEP (C03, C11): batch lines with ONE configuration key (or one pair of interacting switches) away from
# the project's own configuration
SWEEP_BASES = {"ex1": VALID["ex1a"], "ex3": VALID["ex3a"], "rue": VALID["rue1"], "zuc": VALID["zuc1"], "bulk": VALID["bulk"], "MUN": VALID["mun"]}
_SW_ALL = (["ETpot=%d" % i for i in (1, 2, 3, 4, 5)] + ["CO2method=%d" % i for i in (1, 2, 3)] + ["PTF=%d" % i for i in (1, 2, 3, 4)] +
           ["PotMineralisation=1", "PotMineralisation=2", "GroundWaterFrom=0", "GroundWaterFrom=1", "GroundWaterPhase=0", "GroundWaterPhase=40",
            "LeachingDepth=9", "LeachingDepth=20", "Fertilization=50", "Fertilization=0", "InitSelection=1", "InitSelection=2", "InitSelection=3",
            "CropParameterFormat=yml", "ResultFileFormat=1 ResultFileExt=csv", "ResultFileFormat=0 ResultFileExt=RES", "OutputIntervall=0",
            "OutputIntervall=7", "OutputIntervall=30", "ManagementEvents=0", "ManagementEvents=1", "CorrectionPrecipitation=1", "CO2StomataInfluence=0",
            "CO2concentration=500", "CoastDistance=10", "NDeposition=0", "KcFactorBareSoil=0.8", "OrganicMatterMineralProportion=0.3",
            "AnnualAverageTemperature=11", "AnnualOutputDate=@0630"] +
           ["%s=%d" % (k, v) for k in ("AutoSowingHarvest", "AutoFertilization", "AutoIrrigation", "AutoHarvest") for v in (0, 1)] +
           ["AutoSowingHarvest=%d AutoHarvest=%d" % (a, b) for a in (0, 1) for b in (0, 1)] +
           ["AutoIrrigation=%d AutoFertilization=%d" % (a, b) for a in (0, 1) for b in (0, 1)] +
           ["AutoSowingHarvest=1 AutoIrrigation=0", "AutoHarvest=1 AutoFertilization=0"])
_SW_ONLY = {   # keys that need particular files
    "ex1": ["CropFileFormat=txt", "WeatherFileFormat=2 WeatherFile=%s.w6d", "project=swpf", "project=swfe fileExtension=v2"],
    "ex3": ["GroundWaterFrom=2 gwId=075", "GroundWaterFrom=2 gwId=any", "MeasurementFileFormat=txt", "WeatherFileFormat=2 WeatherFile=%s.w6d"],
    "rue": ["WeatherFileFormat=1 WeatherFile=%s.csv"],
    "zuc": ["WeatherFileFormat=2 WeatherFile=%s.w6d"],
    "bulk": ["WeatherFileFormat=2 WeatherFile=%s.w6d"],
    "MUN": [],
}


def sweep_lines():
    out = {}
    for P, base in SWEEP_BASES.items():
        for kv in _SW_ALL + _SW_ONLY[P]:
            line = base
            same = True
            for tok in kv.split():
                k, v = tok.split("=", 1)
                if v.startswith("@"):           # mmdd, written in the project's date layout
                    v = v[1:] if P in ("ex1", "ex3", "bulk") else v[3:5] + v[1:3]
                line = _tok(line, k, v)
            out["sw:%s:%s" % (P, kv.replace(" ", "+").replace("@", ""))] = line
    return out


SWEEP = sweep_lines()
# sweep lines that are NOT valid for the project's files (the reason is what the unchanged tree answers); everything else must run
_NV = {"soil file without fractions: run error 'does not sum up to 100 percent'": ["sw:%s:PTF=%d" % (P, i) for P in ("rue", "zuc", "MUN") for i in (1, 2, 3, 4)],
       "soil file without groundwater column: the reader panics (configuration does not fit the file)": ["sw:%s:GroundWaterFrom=1" % P for P in ("rue", "zuc", "MUN")],
       "no managementout_conf.yml in the project: the program writes a default one and stops (log.Fatal by design)": ["sw:ex1:ManagementEvents=1", "sw:MUN:ManagementEvents=1"],
       "no preco.txt in the weather folder: log.Fatal": ["sw:%s:CorrectionPrecipitation=1" % P for P in ("ex1", "ex3", "rue", "zuc", "bulk")]}
SWEEP_NOT_VALID = {n: why for why, names in _NV.items() for n in names}

# C11: every ex1-based error class also under the non-default routes (error class x input variant)
SWEEP_ROUTES = ["CropParameterFormat=yml", "PTF=1", "ResultFileFormat=1 ResultFileExt=csv", "ETpot=1", "WeatherFileFormat=2 WeatherFile=%s.w6d",
                "CropFileFormat=txt", "AutoFertilization=1", "OutputIntervall=0", "GroundWaterFrom=0"]
_ROUTE_CLASSES = ["unknown-soil-id", "unknown-field-id", "unknown-plotnr", "texture-not-in-tables", "tillage-before-harvest", "start-year",
                  "fert-prediction-lat40", "texture-right-aligned-deep", "weather-gap-later-year"]


def route_lines():
    out = {}
    src = dict(FAILING); src.update(TEXTURE_FAILING)
    for cl in _ROUTE_CLASSES:
        for rt in SWEEP_ROUTES:
            if cl.startswith("weather-gap") and rt.startswith("WeatherFileFormat"):
                continue
            line = src[cl]
            for tok in rt.split():
                k, v = tok.split("=", 1)
                line = _tok(line, k, v)
            out["%s+%s" % (cl, rt.replace(" ", "+"))] = line
    return out


ROUTED = route_lines()


def make_sweep_inputs(ex):
    d = _clone(ex, "ex1", "swpf")       # pre-harvest output configuration present
    shutil.copy(os.path.join(d, "dailyout_conf.yml"), os.path.join(d, "pfout_conf.yml"))
    d = _clone(ex, "ex1", "swfe")       # fileExtension: crop_<p>.<ext>, automan.<ext>, poly_<p>.<ext>
    shutil.copy(os.path.join(d, "crop_swfe.csv"), os.path.join(d, "crop_swfe.v2"))
    shutil.copy(os.path.join(d, "automan.txt"), os.path.join(d, "automan.v2"))
    shutil.copy(os.path.join(d, "poly_swfe.txt"), os.path.join(d, "poly_swfe.v2"))


# ---- crop parameter overrides (CropFile=... c_<KEY>[_stage[_part]]=v) AT and next to their bounds (C11): a value the override
# check rejects is a run error of that line (first / last in a mixed batch); a value it accepts must run
_OVB = "project=ex1 WeatherFolder=historical soilId=075 fcode=109_120 plotNr=10001 Altitude=73 Latitude=52.6732 poligonID=29872 EndDate=12311982 CropFile=PARAM.SM "
_OV_REJ = ["c_TSUM_1=0", "c_TSUM_2=0", "c_TSUM_4=0", "c_KC_1=0", "c_KC_3=0", "c_MAXAMAX=0", "c_MAXAMAX=100.5", "c_MINTMP=-30", "c_MINTMP=50",
           "c_WUMAXPF=0", "c_WUMAXPF=20.5", "c_VELOC=0", "c_VELOC=1.01", "c_YIFAK=-0.01", "c_YIFAK=1.01", "c_TSUM_2=10001", "c_TSUM_1=-5",
           "c_BAS_1=-10.5", "c_BAS_2=40.5", "c_KC_2=-1", "c_LUKRIT_1=1.01", "c_DRYSWELL_2=-0.01", "c_PRO_1_1=1.01", "c_DEAD_2_1=-0.01",
           "c_INITCONCNBIOM=100.5"]
_OV_PARSE = ["c_TSUM_0=100", "c_TSUM_99=100", "c_NOSUCHKEY=1", "c_PRO_1_99=0.5"]
_OV_ACC = ["c_MAXAMAX=100", "c_WUMAXPF=20", "c_VELOC=1", "c_YIFAK=0", "c_YIFAK=1", "c_TSUM_2=10000", "c_TSUM_1=0.5", "c_BAS_1=-10", "c_BAS_2=40",
           "c_KC_1=0.01", "c_LUKRIT_1=0", "c_LUKRIT_1=1", "c_DRYSWELL_2=0", "c_DRYSWELL_2=1", "c_MINTMP=-29.9", "c_MINTMP=49.9", "c_INITCONCNBIOM=0"]
# a value outside its range is NOT a run error by design (crop_calibration.go:68-80): the message goes to the log channel and ALL
# overrides of the line are ignored -> the line must run and give the bytes of the line without the c_ keys
OVR_IGNORED = {"ovb-ignored:" + x: _OVB + x for x in _OV_REJ}
OVR_ACCEPTED = {"ovb:" + x: _OVB + x for x in _OV_ACC}
OVR_ACCEPTED["ovb:none"] = _OVB.strip()
OVR_PARSE_ERRORS = {"crop-override-malformed:" + x: _OVB + x for x in _OV_PARSE}     # these ARE run errors (ParseCropOverwrites)

# ---- automatic sowing on the first days of a year (C11): AutoSowingHarvest on, a crop still waiting for its sowing day on
# day-of-year == the sliding-mean window: (a) the rotation of the field ends years before EndDate (the placeholder crop keeps
# searching), (b) a crop whose earliest sowing date is 1 January
AUTOSOW = {"autosow-rotation-ends-early": "project=vrot WeatherFolder=historical soilId=075 fcode=109_120 plotNr=10002 Altitude=73 Latitude=52.6732 poligonID=29873 EndDate=12311985",
           "autosow-window-from-1-jan": "project=vjan WeatherFolder=historical soilId=075 fcode=109_120 plotNr=10001 Altitude=73 Latitude=52.6732 poligonID=29872 EndDate=12311983"}


def make_autosow_inputs(ex):
    d = _clone(ex, "ex3", "vrot")
    p = os.path.join(d, "crop_vrot.txt")
    L = []
    for l in open(p).read().split("\n"):
        f = l.split()
        if len(f) > 2 and f[0] == "SMSOY2" and len(f[2]) == 8 and f[2][4:] > "1982":
            continue
        L.append(l)
    open(p, "w").write("\n".join(L))
    d = _clone(ex, "ex3", "vjan")
    p = os.path.join(d, "automan.txt")
    L = open(p).read().split("\n")
    for i, l in enumerate(L):
        if l.startswith("SOY "):
            L[i] = l.replace("SOY 0315", "SOY 0101", 1)
    open(p, "w").write("\n".join(L))


class Exec:
    """one execution of the batch binary"""
    def __init__(self):
        self.rc = None; self.timed_out = False; self.stdout = ""; self.stderr = ""; self.wall = 0.0
        self.summary = None; self.count = None; self.root = ""; self.contents = []; self.c = 0; self.gmp = 0
        self.lines_opt = None; self.tag = ""; self.race_reports = 0

    def died(self):
        if self.rc == 66 and self.race_reports and self.count is not None:   # race detector's exit code
            return False
        return self.timed_out or self.rc != 0 or self.count is None


def run_batch(binary, ex, tag, contents, pool, c, gmp=4, lines_opt=None, timeout=120, extra_env=None,
              keep_root=False, folders=None, batch_name=None):
    """contents: list of content keys (into pool: key -> line text).  Every line gets its own
    resultfolder <tag>/l<index> (or <tag>/l<folders[index]>: lines sharing a folder on purpose).
    keep_root: do not empty <tag> first (run into a USED result folder).  Returns Exec."""
    e = Exec(); e.contents = list(contents); e.c = c; e.gmp = gmp; e.lines_opt = lines_opt; e.tag = tag
    e.root = os.path.join(ex, tag)
    if not keep_root:
        shutil.rmtree(e.root, ignore_errors=True)
    bf = os.path.join(ex, (batch_name or tag) + "_batch.txt")
    with open(bf, "w") as f:
        for i, k in enumerate(contents):
            f.write("%s resultfolder=%s/l%d\n" % (pool[k], tag, folders[i] if folders else i))
    cmd = [binary, "-module", "batch", "-concurrent", str(c), "-batch", bf]
    if lines_opt:
        cmd += ["-lines", lines_opt]
    env = dict(os.environ, GOMAXPROCS=str(gmp))
    env.update(extra_env or {})
    t0 = time.time()
    try:
        p = subprocess.run(cmd, cwd=ex, env=env, stdout=subprocess.PIPE, stderr=subprocess.PIPE, text=True,
                           timeout=timeout, errors="replace")
        e.rc, e.stdout, e.stderr = p.returncode, p.stdout, p.stderr
    except subprocess.TimeoutExpired as te:
        e.timed_out = True
        e.stdout = (te.stdout or b"").decode(errors="replace") if isinstance(te.stdout, bytes) else (te.stdout or "")
        e.stderr = (te.stderr or b"").decode(errors="replace") if isinstance(te.stderr, bytes) else (te.stderr or "")
    e.wall = time.time() - t0
    e.race_reports = e.stderr.count("WARNING: DATA RACE")
    m = re.search(r"^Number of errors: (-?\d+)", e.stdout, re.M)
    if m:
        e.count = int(m.group(1))
        e.summary = []
        if "Error Summary:" in e.stdout:
            tail = e.stdout.split("Error Summary:", 1)[1]
            e.summary = [int(x) for x in re.findall(r"^\[(\d+)\] Error:", tail, re.M)]
    return e


def folder_digest(path):
    """relative file name -> sha256, for one result folder ({} when it does not exist)"""
    out = {}
    if not os.path.isdir(path):
        return out
    for root, _, files in os.walk(path):
        for fn in files:
            p = os.path.join(root, fn)
            out[os.path.relpath(p, path)] = hashlib.sha256(open(p, "rb").read()).hexdigest()
    return out


def ran_indices(e):
    """indices whose result folder exists (the run was started and reached MakeDir, run.go:148)"""
    if not os.path.isdir(e.root):
        return []
    r = []
    for d in os.listdir(e.root):
        m = re.match(r"l(\d+)$", d)
        if m:
            r.append(int(m.group(1)))
    return sorted(r)


def window(e):
    """(startLine, numberOfLines) as hermes_main.go:99-130 parses -lines"""
    if not e.lines_opt:
        return 0, -1
    if "-" in e.lines_opt:
        a, b = e.lines_opt.split("-")
        return int(a) - 1, (-1 if b == "end" else int(b))
    return 0, int(e.lines_opt)


def tree_snapshot(ex):
    s = set()
    for root, _, files in os.walk(ex):
        for fn in files:
            s.add(os.path.relpath(os.path.join(root, fn), ex))
    return s


def parallel(jobs, workers):
    with ThreadPoolExecutor(max_workers=workers) as pool:
        return list(pool.map(lambda j: j(), jobs))


def dcase_term(e, ids, seed):
    s, n = window(e)
    zl = lambda xs: "[" + "; ".join("%d" % x for x in xs) + "]%Z"
    return "(DCase %d (%d) (%d) %d%%N %s %s (%d) %s)" % (
        e.c, s, n, seed, zl([ids[k] for k in e.contents]), zl(e.summary or []),
        e.count if e.count is not None else -99, zl(getattr(e, "ran", None) if getattr(e, "ran", None) is not None else ran_indices(e)))


def coq_dispatch_mismatches(ctx, name, execs, errs, seed):
    """execs: finished Exec list; errs: content key -> bool (failed when run alone).
    Returns (indices of mismatching executions, raw output or None)."""
    keys = sorted({k for e in execs for k in e.contents})
    ids = {k: i for i, k in enumerate(keys)}
    errtab = "[" + "; ".join("true" if errs[k] else "false" for k in keys) + "]"
    cases = [dcase_term(e, ids, (seed * 7919 + 104729 * i) % (2 ** 62)) for i, e in enumerate(execs)]
    text = "\n".join([
        "From stdpp Require Import gmap.",
        "From Hermes Require Import PoolModel DispatchModel C03Corr.",
        "Definition errtab : list bool := %s." % errtab,
        "Definition cases : list dcase := [\n  %s]." % ";\n  ".join(cases),
        "Definition DM := Eval vm_compute in mismatches errtab 0 cases.", "Print DM."]) + "\n"
    rc, out = ctx.coq_eval(name, text, timeout=600)
    m = re.search(r"DM\s*=\s*(.*?)\s*:\s*list Z", out, re.S)
    if rc != 0 or not m:
        return None, out
    body = m.group(1).strip()
    return ([] if body == "[]" else [int(x) for x in re.findall(r"-?\d+", body)]), out


def ensure_coqproject():
    """new theories files must be listed in _CoqProject before `make` knows their dependencies"""
    with core.Lock("coqmake"):
        p = os.path.join(core.COQ, "_CoqProject")
        have = open(p).read() if os.path.exists(p) else ""
        want = sorted(f for f in os.listdir(core.THEORIES) if f.endswith(".v"))
        if any(("theories/%s\n" % f) not in have for f in want):
            core.write_coqproject()
