"""C15 — soil hydraulic parameters are physically ordered for every parameter source (DESIGN.md §6 C15).

proof:           Prop_C15.v over PtfModel.v / HydroModel.v (+ WaterModel.set_fc_gw): the four pedotransfer functions on the
                 whole continuous domain (lra / Coq-Interval with bisection), the explicit route, stone scaling, the
                 top-layer threshold on every route, field capacity = pore volume below the table, order preserved by the
                 groundwater adjustment, parameters after a groundwater change depend on the current level only
tie 3:           gen/C15Tables.v = the shipped HYPAR.TRU rows (parsed with Hydro's column positions), the textures present
                 in both tables and the recorded not-ordered classes (c15_known_classes.json); gen/C15TablesCheck.v proves
                 by vm_compute + the soundness lemma that EVERY other (texture, density 1-5, Corg class, GW class) is
                 ordered for all real Corg / levels / stone fractions, and the threshold lies between WP and FC
correspondence:  hermes.PTF1-4, calcWRed, hermes.Hydro on every class of the shipped tables and at/around every threshold,
                 bit for bit; whole runs under moving groundwater (time series and sinusoid, all routes): first day and a
                 sample of update days vs initial_params / gw_update_table / gw_update_restore
oracle:          the property itself on the real code: grid scan of PTF1-4, every table class, and every day and layer of
                 the whole runs (order, threshold, FC = PS below the table, equal level -> equal parameters)
"""
import json, os, re, subprocess
from core import Corr, Fail, chunked_list, BuildError, REPO, VERIF
from props import waterlib, c15_projects

PROP_FILES = ["Prop_C15"]
# thorough tier: coqchk re-checks Prop_C15 and everything below it; the Coq-Interval / Flocq / Coquelicot libraries the two
# interval proofs pull in take > 50 min there (timeout), with them admitted (they are opam-installed libraries, listed in
# TRUSTED) the re-check of all of Hermes.* + the standard library takes ~4 min.  Honoured by core.py as `-admit <module>`.
COQCHK_ADMIT = ["Interval.Tactic"]
RULE = ("PTF1-4: random points of the domain (clay, silt, sand >= 5, sand <= 85, Corg 0-6; half of them integers) plus points "
        "outside; calcWRed: percent pairs as the three call sites hand them over; Hydro: every texture of both tables x "
        "density 1-5 x 7 Corg classes x 6 groundwater classes, values at / next to every threshold, and a sweep of Corg 0-7 % "
        "and level 0-45 dm per texture; whole runs of "
        "generated projects (table, explicit and PTF routes; daily groundwater series with fast steps, exact returns and slow "
        "drifts of 1e-4..0.02 dm per day across several layers; sinusoid): first day and "
        "sampled groundwater-update days; a case is non-trivial when its inputs are distinct")
TRUSTED = ["binary64 semantics of Go on amd64 (no fused multiply-add) = Coq primitive floats",
           "math.Pow(x,2|3) = x*x, x*(x*x): not assumed, compared bit for bit on every PTF4 case",
           "R->F gap: the order theorems are over the reals; the margins (>= 0.002 for PTF1, >= 0.5 vol-% for the table) exceed binary64 "
           "round-off by 1e10; the oracle evaluates the order on the real code with tolerance 1e-12 on '<=' only",
           "fixed-column parsing of HYPAR.TRU is repeated in python (same columns); the result is compared with the real Hydro on every row x class",
           "Coq-Interval 4.6.1 (reflexive interval arithmetic, checked by the kernel)"]
ASSUMPTIONS = ["PTF routes: pore volume comes from the soil file (GPV/100); FC <= PS < 1 is an input condition there, not a theorem",
               "explicit route: the soil file gives 0 < WP < FC <= PS < 100 (percent)",
               "profiles are not mixed (a soil uses one route for all horizons); UKT of the last horizon >= N",
               "HYPAR.TRU values are two-digit integers (checked by the translator); FELDW != 0 (follows from the generated check)",
               "texture table rows whose field capacity exceeds the pore volume are a recorded finding (F13, listed by class)",
               "return to a level is proved and observed between days after the first groundwater change; relative to the initial state it is a recorded finding (F7)",
               "the distinct (texture, stone) top horizons of the runs include the former counterexample ULS / 30 % stones (soil T5), judged by the normal oracle"]
LEVEL_TEXT = ("Coq proofs over the reals for the four transfer functions on the whole domain, the explicit route, stone scaling, "
              "the threshold, the groundwater adjustment; generated obligation over the shipped tables for every class "
              "(vm_compute + soundness lemma for all real Corg/level/stone values); the same Gallina definitions run on binary64 "
              "and are compared bit for bit with the Go kernels and with whole runs; the property is evaluated on the real code.")
LEVEL_NOTE = ("Trusted: Coq kernel/vm_compute, Coq-Interval, Reals axioms of the standard library, primitive floats. Findings on the "
              "unchanged tree: F13 (listed table classes with FC > PS), F7 (initial state differs from the state after returning to "
              "the initial level). The threshold not scaled by the stone factor on the table route (found here) was repaired in /repo d7a6e7d; "
              "the model follows the repaired code and the theorem covers every stone fraction in [0,1).")
TECHNIQUE = "Coq proof (lra/nra, Coq-Interval bisection, vm_compute over generated tables) + bit-exact kernel and trace correspondence + oracle"

KNOWN_FILE = os.path.join(VERIF, "lib", "props", "c15_known_classes.json")
GEN_THEOREMS = ["C15_table_ordered", "C15_table_wred_between"]
_cache = {}


# ---------------------------------------------------------------- tables (tie 3)
def _tex(t):
    t = (t + "   ")[:3]
    return '("%s", "%s", "%s")' % tuple(t)


def parse_tables(root):
    """HYPAR.TRU with Hydro's column positions (input.go:1191-1208); PARCAP.TRU textures (every other line, input.go:1159-1164)"""
    hy = open(os.path.join(root, "parameter", "HYPAR.TRU"), encoding="latin-1").read().split("\n")
    rows, skipped = [], []
    cols = [(4, 6), (7, 9), (10, 12), (13, 15), (16, 18), (19, 21), (22, 24), (25, 27), (28, 30)]
    for i, wa in enumerate(hy):
        wa = wa.rstrip("\r")
        if len(wa) < 3:
            continue
        tex = wa[0:3].upper()
        try:
            vals = []
            for a, b in cols:
                s = wa[a:b].strip()
                if not re.fullmatch(r"\d+", s):
                    raise ValueError(s)
                vals.append(int(s))
            float(wa[31:33].strip())
        except (ValueError, IndexError):
            skipped.append(tex)
            continue
        rows.append((tex, vals))
    pc = open(os.path.join(root, "parameter", "PARCAP.TRU"), encoding="latin-1").read().split("\n")
    pct = [l[0:3].upper() for l in pc[0::2] if len(l) >= 3]
    both, seen = [], set()
    for tex, _ in rows:
        if tex in pct and tex not in seen:
            seen.add(tex); both.append(tex)
    return rows, both, skipped


def known_classes():
    return json.load(open(KNOWN_FILE))["classes"]


def generate(ctx):
    root = os.path.join(REPO, "examples")
    rows, both, skipped = parse_tables(root)
    _cache["tables"] = (rows, both, skipped)
    if any(t in both for t in skipped):
        raise BuildError("HYPAR.TRU: a row of a texture present in both tables does not hold two-digit integers")
    names = "h_fk1 h_fk3 h_fk4 h_nfk1 h_nfk3 h_nfk4 h_pv1 h_pv3 h_pv4".split()
    rr = ["(%s, {| %s |})" % (_tex(t), "; ".join("%s := %d" % (n, v) for n, v in zip(names, vals))) for t, vals in rows]
    bad = []
    for c in known_classes():
        m = re.fullmatch(r"(.{1,3}):LD(\d):corgclass(\d):gwclass(\d)", c)
        bad.append("(%s, %s%%Z, %s%%nat, %s%%nat)" % (_tex(m.group(1)), m.group(2), m.group(3), m.group(4)))
    with open(os.path.join(ctx.gen, "C15Tables.v"), "w") as f:
        f.write("(* generated on every run from %s/examples/parameter/{HYPAR,PARCAP}.TRU and lib/props/c15_known_classes.json *)\n"
                "From Coq Require Import ZArith List Ascii.\nFrom Hermes Require Import HydroModel.\nImport ListNotations.\n"
                "Local Open Scope char_scope.\n"
                "Definition hypar_rows : tables := [\n  %s].\n"
                "Definition both : list texture := [%s].\n"
                "Definition known_bad : list (texture * Z * nat * nat) := %s.\n"
                % (REPO, ";\n  ".join(rr), "; ".join(_tex(t) for t in both),
                   chunked_list(bad, "(texture * Z * nat * nat)", 200)))
    with open(os.path.join(ctx.gen, "C15TablesCheck.v"), "w") as f:
        f.write("""(* generated: the obligations over the shipped tables *)
From Coq Require Import ZArith Reals List Bool.
From Hermes Require Import Num RUtil PtfModel HydroModel HydroProofs.
From HermesGen Require Import C15Tables.
Import ListNotations.
Local Open Scope R_scope.

Lemma tables_ok : table_check hypar_rows both known_bad = true.
Proof. vm_cast_no_check (eq_refl true). Qed.

(* every texture of both tables, density class 1-5, every real Corg, level and stone fraction in [0,1): ordered,
   unless the class is one of the recorded ones *)
Theorem C15_table_ordered : forall t ld (grw c s : R),
  In t both -> (1 <= ld <= 5)%Z -> 0 <= s < 1 ->
  is_bad known_bad (t, ld, corg_class c, gw_class grw) = false ->
  exists fk nfk pv, triple_of hypar_rows t ld = Some (fk, nfk, pv) /\\
    ordered_lpar (route_table (hydro t fk nfk pv grw c s) s).
Proof. exact (table_check_ordered _ _ _ tables_ok). Qed.

(* the threshold Hydro computes for the first horizon lies strictly between WMIN and W of its layers, for every stone fraction *)
Theorem C15_table_wred_between : forall t ld (grw c s : R),
  In t both -> (1 <= ld <= 5)%Z -> 0 <= s < 1 ->
  exists fk nfk pv, triple_of hypar_rows t ld = Some (fk, nfk, pv) /\\
    let h := hydro t fk nfk pv grw c s in
    let p := route_table h s in l_wmin p < ho_wred h < l_w p.
Proof. exact (table_check_wred _ _ _ tables_ok). Qed.

Definition stale := Eval vm_compute in length (stale_bad hypar_rows known_bad).
Print stale.
Print Assumptions C15_table_ordered.
Print Assumptions C15_table_wred_between.
""")


def gen_proofs(ctx):
    broken = []
    n = len(GEN_THEOREMS)
    if not os.path.exists(os.path.join(ctx.gen, "C15TablesCheck.v")):
        return n, 0, [{"stage": "generate", "what": "C15Tables.v was not generated"}], GEN_THEOREMS
    rc, out = ctx.coqc(os.path.join(ctx.gen, "C15Tables.v"), timeout=600)
    if rc:
        return n, 0, [{"stage": "generated-proof", "what": "C15Tables.v does not compile: " + out[-1500:]}], GEN_THEOREMS
    rc, out = ctx.coqc(os.path.join(ctx.gen, "C15TablesCheck.v"), timeout=900)
    blocks = [b for b in re.split(r"(?m)^(?=Closed under the global context|Axioms:)", out) if b.startswith(("Closed", "Axioms:"))]
    if rc or len(blocks) != n:
        broken.append({"stage": "generated-proof",
                       "what": "C15TablesCheck.v: a (texture, density, Corg class, GW class) of the shipped tables that is not in the recorded "
                               "list is no longer ordered, or the threshold leaves (WP, FC): " + out[-1500:]})
        return n, 0, broken, GEN_THEOREMS
    from core import ALLOWED_AXIOMS, ALLOWED_PREFIXES
    for b in blocks:
        for nm in re.findall(r"(?m)^([A-Za-z_][\w.']*)\s*:", b[len("Axioms:"):]) if b.startswith("Axioms:") else []:
            if not (nm in ALLOWED_AXIOMS or nm.startswith(ALLOWED_PREFIXES)):
                broken.append({"stage": "generated-proof", "what": "C15TablesCheck.v depends on non-allowed axiom " + nm})
    m = re.search(r"stale\s*=\s*(\d+)", out)
    if m and int(m.group(1)):
        ctx.extra["recorded_classes_that_are_ordered_now"] = int(m.group(1))
    rows, both, skipped = _cache.get("tables", ([], [], []))
    ctx.extra["table_textures_in_both"] = len(both)
    ctx.extra["table_classes_proved"] = len(both) * 5 * 7 * 6
    ctx.extra["table_classes_recorded_not_ordered"] = len(known_classes())
    return n, (0 if broken else n), broken, GEN_THEOREMS


# ---------------------------------------------------------------- harness runs
def _kargs(ctx):
    root = os.path.join(REPO, "examples")
    if ctx.thorough:
        return ["kernels", "-seed", str(ctx.seed), "-n", "20000", "-root", root, "-boundary", "-1", "-grid", "200"]
    return ["kernels", "-seed", str(ctx.seed), "-n", "400", "-root", root, "-boundary", "400", "-grid", "50"]


def _trace(ctx):
    if "trace" in _cache:
        return _cache["trace"]
    ex = waterlib.prepare_examples(ctx, extreme_rain=False)
    info = c15_projects.make_projects(ex, ctx.seed, ctx.thorough)
    lines = c15_projects.batch_lines(ctx.thorough, ctx.seed)
    lf = os.path.join(ctx.work, "c15_lines.txt")
    with open(lf, "w") as f:
        f.write("\n".join(l for l, _ in lines) + "\n")
    r = waterlib.run_harness(ctx, "c15", ["trace", "-work", ex, "-lines", lf, "-seed", str(ctx.seed),
                                          "-cases", "400" if ctx.thorough else "60", "-session-pairs", "12" if ctx.thorough else "3"], timeout=3000)
    _cache["trace"] = (r, lines, info)
    return _cache["trace"]


fl, fls = waterlib.fl, waterlib.fls
HDR = ["From Coq Require Import ZArith List Bool Floats Ascii.", "From Hermes Require Import Num PtfModel HydroModel C15Corr.",
       "From HermesGen Require Import C15Tables.", "Import ListNotations.", "Open Scope float_scope."]


def _eval(ctx, corr, name, ty, chk, recs, shard, describe):
    items = []
    for k in range(0, len(recs), shard):
        body = HDR + ["Definition cases : list (%s) := %s." % (ty, chunked_list(recs[k:k + shard], "(%s)" % ty, 100)),
                      "Definition M := Eval vm_compute in mismatches (%s) %d%%nat cases." % (chk, k), "Print M."]
        items.append(("%s_%d" % (name, k // shard), "\n".join(body) + "\n"))
    for nm, rc, o in ctx.coq_eval_many(items, timeout=1200):
        m = re.search(r"M\s*=\s*(.*?)\s*:\s*list \(nat \* nat\)", o, re.S)
        if rc != 0 or not m:
            corr.mismatches.append({"kind": "coq-eval", "shard": nm, "output": o[-1200:]}); continue
        pairs = re.findall(r"\(\s*(\d+)(?:%nat)?\s*,\s*(\d+)(?:%nat)?\s*\)", m.group(1))
        if m.group(1).strip() != "[]" and not pairs:
            corr.mismatches.append({"kind": "coq-eval", "shard": nm, "output": o[-1200:]})
        for idx, mask in pairs[:6]:
            corr.mismatches.append(describe(int(idx), int(mask)))
    corr.cases += len(recs)


def correspond(ctx):
    c = Corr()
    if not os.path.exists(os.path.join(ctx.gen, "C15Tables.vo")):
        rc, out = ctx.coqc(os.path.join(ctx.gen, "C15Tables.v"), timeout=600)
        if rc:
            c.mismatches.append({"kind": "tables", "output": out[-800:]}); return c
    rc, cases, orc, other, err = waterlib.run_harness(ctx, "c15", _kargs(ctx))
    if rc != 0:
        c.mismatches.append({"kind": "harness-crash", "stderr": err[-1500:]}); return c
    # --- PTF
    pt = [x for x in cases if x["k"] == "ptf"]
    _eval(ctx, c, "Cases_ptf", "Z * float * float * float * float * float", "ptf_check",
          ["(%d%%Z, %s, %s, %s, %s, %s)" % (x["w"], fl(x["c"]), fl(x["ton"]), fl(x["x"]), fl(x["fc"]), fl(x["wm"])) for x in pt], 1500,
          lambda i, m: {"kind": "ptf-kernel", "ptf": pt[i]["w"], "differs": [n for j, n in enumerate(["fc", "wmin"]) if m >> j & 1], "case": pt[i]})
    for x in pt:
        c.bump("ptf%d-%s" % (x["w"], x["tag"]))
    # --- calcWRed
    wr = [x for x in cases if x["k"] == "wred"]
    _eval(ctx, c, "Cases_wred", "bool * float * float * float", "wred_check",
          ["(%s, %s, %s, %s)" % (waterlib.b(x["sand"]), fl(x["wp"]), fl(x["fc"]), fl(x["out"])) for x in wr], 2000,
          lambda i, m: {"kind": "calcWRed-kernel", "case": wr[i]})
    c.bump("calcWRed", len(wr))
    # --- Hydro
    hy = [x for x in cases if x["k"] == "hydro"]
    _eval(ctx, c, "Cases_hydro", "texture * Z * float * float * float * (float * float * float * float * float)", "hydro_check hypar_rows",
          ["(%s%%char, %d%%Z, %s, %s, %s, (%s, %s, %s, %s, %s))" % (_tex(x["tex"]), x["ld"], fl(x["c"]), fl(x["grw"]), fl(x["stein"]), fl(x["feldw"]), fl(x["lim"]),
                                                             fl(x["prges"]), fl(x["normfk"]), fl(x["wred"])) for x in hy], 1500,
          lambda i, m: {"kind": "hydro-kernel", "differs": [n for j, n in enumerate(["FELDW", "LIM", "PRGES", "NORMFK", "WRED", "", "row-missing"]) if m >> j & 1],
                        "case": hy[i]})
    c.bump("hydro-class", sum(1 for x in hy if x["tag"] == "class"))
    c.bump("hydro-threshold", sum(1 for x in hy if x["tag"] != "class"))
    # the harness reads the table textures itself: same set as the translator's
    tb = [x for x in cases if x["k"] == "tables"]
    rows, both, skipped = _cache.get("tables") or parse_tables(os.path.join(REPO, "examples"))
    if not tb or tb[0]["both"] != both:
        c.mismatches.append({"kind": "table-textures", "harness": tb[0]["both"] if tb else None, "translator": both})
    distinct = set((x["w"], x["c"], x["ton"], x["x"]) for x in pt) | set((x["wp"], x["fc"], x["sand"]) for x in wr) | \
        set((x["tex"], x["ld"], x["c"], x["grw"]) for x in hy)
    # --- whole runs
    (trc, tcases, torc, tother, terr), lines, info = _trace(ctx)
    if trc != 0:
        c.mismatches.append({"kind": "trace-crash", "stderr": terr[-1500:]})
    runs = [x for x in tcases if x["k"] == "run"]
    for r_ in runs:
        if not r_["success"]:
            c.mismatches.append({"kind": "traced-run-failed", "run": r_, "line": lines[r_["line"]][0]})
    if len(runs) != len(lines):
        c.mismatches.append({"kind": "traced-runs-missing", "runs": len(runs), "lines": len(lines)})
    statics = {x["line"]: x for x in tcases if x["k"] == "static"}
    expected = c15_projects.expected_horizons(ctx.seed)
    fractions = c15_projects.expected_fractions(ctx.seed)
    items, meta = [], []
    for ln, st in sorted(statics.items()):
        days = [x for x in tcases if x["k"] == "gwday" and x["line"] == ln]
        route = 2 if st["ptf"] else 0
        # tie the soil file readers to the model's inputs: what the probe shows per horizon = the generated file's values
        # (stone content: file percentage / 100, one binary64 division)
        msid = re.search(r"soilId=(\S+)", lines[ln][0])
        want = expected.get(msid.group(1)) if msid else None
        got = [(h["tex"], h["ld"], float.fromhex(h["c"]), float.fromhex(h["stein"]), h["ukt"], float.fromhex(h["fka"]),
                float.fromhex(h["wp"]), float.fromhex(h["gpv"])) for h in st["hz"]]
        if want is None or got != want:
            c.mismatches.append({"kind": "soil-file-reader", "line": lines[ln][0], "reader": st.get("soilext", "?"),
                                 "fields": "(texture, LD, Corg, stone fraction, UKT, FKA, WP, GPV) per horizon",
                                 "read": got, "file": want})
        c.cases += len(got)
        for h in st["hz"]:
            c.bump("stone-fraction=%g" % float.fromhex(h["stein"]))
        kinds = ["explicit" if float.fromhex(h["fka"]) > 0 else "table" for h in st["hz"]]
        rname = "ptf%s" % st["ptf"] if st["ptf"] else (kinds[0] if len(set(kinds)) == 1 else "mixed-" + kinds[0] + "-top")
        hz = ["(%s%%char, %d%%Z, %s, %s, %d%%Z, (%s, %s, %s))" % (_tex(h["tex"]), h["ld"], fl(h["c"]), fl(h["stein"]), h["ukt"],
                                                               fl(h["fka"]), fl(h["wp"]), fl(h["gpv"])) for h in st["hz"]]
        sdef = ("Definition S : c15_static := {| cs_route := %d%%nat; cs_cappar := %s; cs_sand := %s; cs_n := %d%%nat; cs_gw := %s; cs_grw0 := %s;\n"
                "  cs_hz := [%s];\n  cs_ptf := %d%%Z; cs_frac := [%s];\n  cs_wb := %s; cs_wmb := %s; cs_pb := %s; cs_wnb := %s |}."
                % (route, waterlib.b(st["cappar"] == 1), waterlib.b(st["sand"]), st["n"], fl(st["gw"]), fl(st["initgrw"]), "; ".join(hz),
                   st["ptf"], "; ".join("(%s, %s, %s)" % tuple(fl(float(v).hex()) for v in t) for t in (fractions.get(msid.group(1)) if msid else None) or []),
                   fls(st["wb"]), fls(st["wmb"]), fls(st["pb"]), fls(st["wnb"])))
        recs = ["(S, (%s, %s, %s, %s, %s, %s, %s))" % (waterlib.b(d["initial"]), fl(d["grw"]), fls(d["w"]), fls(d["wmin"]), fls(d["porges"]),
                                                        fls(d["wnor"]), fl(d["wred"])) for d in days]
        ty = "c15_static * (bool * float * list float * list float * list float * list float * float)"
        body = HDR + [sdef, "Definition cases : list (%s) := %s." % (ty, chunked_list(recs, "(%s)" % ty, 50)),
                      "Definition M := Eval vm_compute in mismatches (gwday_check hypar_rows) 0%nat cases.", "Print M."]
        items.append(("Cases_gwday_%d" % ln, "\n".join(body) + "\n"))
        meta.append((ln, st, days))
        c.bump("run-route-%s" % rname)
        if any(float.fromhex(h["stein"]) > 0 for h in st["hz"]):
            c.bump("run-with-stones-%s" % rname)
        c.bump("run-groundwater-%s" % st.get("gwfrom", "?"))
        c.bump("run-autoirrigation-%s" % ("on" if st.get("autoirri") else "off"))
        if st.get("gwfrom") == "polygonfile":
            c.bump("run-groundwater-phase-%s" % st.get("gwphase"))
        c.bump("gwday-initial", sum(1 for d in days if d["initial"]))
        c.bump("gwday-update", sum(1 for d in days if not d["initial"]))
        for d in days:
            distinct.add((ln, d["zeit"]))
    names = ["W", "WMIN", "PORGES", "WNOR", "WRED", "backup-vs-route", "row-missing", "CAPPAR"]
    for (nm, rc2, o), (ln, st, days) in zip(ctx.coq_eval_many(items, timeout=1200), meta):
        m = re.search(r"M\s*=\s*(.*?)\s*:\s*list \(nat \* nat\)", o, re.S)
        if rc2 != 0 or not m:
            c.mismatches.append({"kind": "coq-eval", "shard": nm, "output": o[-1200:]}); continue
        pairs = re.findall(r"\(\s*(\d+)(?:%nat)?\s*,\s*(\d+)(?:%nat)?\s*\)", m.group(1))
        if m.group(1).strip() != "[]" and not pairs:
            c.mismatches.append({"kind": "coq-eval", "shard": nm, "output": o[-1200:]})
        for idx, mask in pairs[:4]:
            d = days[int(idx)]
            c.mismatches.append({"kind": "groundwater-update" if not d["initial"] else "initial-parameters", "line": lines[ln][0],
                                 "differs": [n for j, n in enumerate(names) if int(mask) >> j & 1],
                                 "zeit": d["zeit"], "grw": d["grw"], "route": st["route"]})
        c.cases += len(days)
    c.nontrivial = len(distinct)
    c.samples = [{k: v for k, v in x.items() if k != "k"} for x in (pt[:1] + wr[:1] + hy[:1])]
    sw = [t for _, t in lines if t.startswith("sweep:")]
    ctx.extra["configuration_sweep"] = {
        "what": "pairwise cover of " + " x ".join("%s{%s}" % (n, ",".join(map(str, l))) for n, l in c15_projects.SWEEP_FACTORS) +
                " (PTF > 0 without pore volume in the file excluded: FC <= PS is an input condition there); every line with the order/threshold/"
                "FC=PS-below-table/table-layer-mix/route (run-params-not-from-route)/return-to-level oracles and the day-1 + update-day model comparison",
        "lines": len(sw), "configurations": sw,
        "shared_session_pairs": [{k: v for k, v in x.items() if k != "k"} for x in tcases if x["k"] == "sessionpair"]}
    ctx.extra["traced_runs"] = len(runs)
    ctx.extra["traced_days"] = sum(r_["days"] for r_ in runs)
    ctx.extra["groundwater_changes_observed"] = sum(r_["gw_changes"] for r_ in runs)
    ctx.extra["groundwater_changes_of_at_most_0.01_dm"] = sum(r_.get("gw_slow_changes", 0) for r_ in runs)
    ctx.extra["return_to_level_pairs_compared"] = sum(r_["return_pairs"] for r_ in runs)
    ctx.extra["ptf_grid_scan"] = [{k: v for k, v in x.items() if k != "k"} for x in cases if x["k"] == "ptfscan"]
    return c


# ---------------------------------------------------------------- oracle
def _key_of(line):
    return line.split(" ", 1)[0]


def oracle(ctx, search):
    fails = []
    rc, cases, orc, other, err = waterlib.run_harness(ctx, "c15", _kargs(ctx))
    if rc != 0:
        fails.append(Fail(key="harness-crash", what="kernel harness aborted", stderr=err[-800:]))
    (trc, tcases, torc, tother, terr), lines, info = _trace(ctx)
    if trc != 0:
        fails.append(Fail(key="trace-crash", what="traced run aborted", stderr=terr[-800:]))
    known = set(known_classes())
    seen = set()
    f13_known, f13_new = set(), set()
    for l, from_run in [(x, False) for x in orc] + [(x, True) for x in torc]:
        key = _key_of(l)
        if key.startswith("table-fc-above-pore-volume:"):
            cls = key.split(":", 1)[1]
            (f13_known if cls in known else f13_new).add(cls)
            key = "table-fc-above-pore-volume:%s:%s" % ("recorded" if cls in known else "NEW", cls)
        if key in seen:
            continue
        seen.add(key)
        m = re.search(r"line=(\d+)", l) if from_run else None
        bl = lines[int(m.group(1))][0] if m and int(m.group(1)) < len(lines) else None
        fails.append(Fail(key=key, what=l, batch_line=bl, seed=ctx.seed))
    ctx.extra["f13_classes_failing_recorded"] = len(f13_known)
    ctx.extra["f13_classes_failing_new"] = sorted(f13_new)
    ctx.extra["f13_recorded_classes_not_failing_now"] = len(known - f13_known)
    ctx.extra["f13_failing_classes_sample"] = sorted(f13_known)[:12]
    return fails
