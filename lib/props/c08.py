"""C08 — actual ET never exceeds potential ET; uptake only from rooted layers above the groundwater
(DESIGN.md §6 C08)."""
import json, os, re
from core import Corr, Fail
from props import waterlib
from props.waterlib import fl, fls, b

PROP_FILES = ["Prop_C08"]
RULE = ("synthetic Evatra states (3-20 layers, six moisture regimes incl. dryness limit / NFK break points / nearly "
        "saturated top soil, crop and bare-soil branch, root depth 0..N, integral and fractional groundwater levels, "
        "LAI 0-8, rain 0-12 cm) x the five ET methods x latitudes -89.5..89.9 (polar day/night: day length clamps) x "
        "missing radiation with sunshine hours x crops with LUKRIT = 0 on a top soil above its pore volume (F27), plus Evatra replayed on the pre-state of sampled days of traced real "
        "runs (ETpot=1..5) and of a potato run on a soil with field capacity above pore volume; a case is non-trivial when distinct and the potential ET is positive")
TRUSTED = ["binary64 semantics of Go on amd64 (no fused multiply-add) = Coq primitive floats",
           "ET0 formulas (Haude, Turc-Wendling, Penman-Monteith, Priestley-Taylor, file), stomat and the day-length "
           "routine are oracles: the model starts from the potential ET after the cap/floor step, obtained exactly by "
           "replaying hermes.Evatra on a copy of the state with VERDUNST = 0; exp(-0.5*LAI) and the exp-weights of the "
           "evaporation profile are computed by the harness with the source expressions",
           "the harness mirrors the crop-branch condition of water.go:132/523 and the method-5 product ETNULL*FKC*0.1",
           "R->F gap: theorems are about exact real arithmetic; at binary64 the oracle allows 1e-12 on ETA >= 0, "
           "ETREL >= 0 and ETA + sum TP <= VERDU, and 1e-9 on TRREL <= 1 (TRREL = TPAKT/TRAMAX is not clamped by the "
           "code: 1.0000000000000002 observed; REDEV is -0x1p-57 at PROZ = 0, proved: redev_binary64_at_0, so ETA down "
           "to -4.5e-18 and ETREL down to -6.9e-18 occur when the top layer sits at its dryness limit without rain)"]
ASSUMPTIONS = ["DT = 1, DZ = 10, N >= 3 and WURZ <= N (checked on every case; other cases are reported, not modelled)",
               "theorem hypotheses: W[0] > WMIN[0]/3, WUDICH >= 0 (crop.go:640 takes an absolute value), 0 <= LUMDAY (observed on every traced day)",
               "measurement-overwrite days are not excluded: Evatra runs before the overwrite"]
LEVEL_TEXT = ("Coq proof over the reals, for every layer count and every state in the stated class, of: cap/floor of the "
              "potential ET (also exact at binary64), range of PROZ and REDEV (four segments), initial uptake distribution "
              "<= TRAMAX*LURED <= TRAMAX, the downward redistribution loop never increases the summed uptake and keeps "
              "every layer non-negative (induction over layers), ETA + TPAKT <= VERDU, uptake zero outside "
              "min(root depth, groundwater), the Water clamp bounds the uptake by the plant-available water, and the "
              "ranges of ETREL/TRREL; the model is the same Gallina definition executed at binary64 and compared bit for "
              "bit with hermes.Evatra (all five ET methods) every run; the property itself is evaluated on the real code "
              "on every synthetic case and every traced day.")
LEVEL_NOTE = ("Partial: the ET0 formulas, stomat and the Haude factors are oracles (inputs of the model). Reals axioms of "
              "the standard library; primitive floats; no rounding-error bound between the real and the binary64 "
              "semantics (oracle tolerances above).")
TECHNIQUE = ("Coq proof (per-phase lemmas, induction over the layer list with a weight-sum invariant, lra/nra) + bit-exact "
             "kernel correspondence + property oracle on synthetic and traced states")

GROUPS = ["NFK", "EVA/ETA/FLUSS0", "EV", "LUMDAY/LURED", "TP", "GWAUF", "ETREL", "TRREL", "WURZ"]
HDR = ["From Coq Require Import ZArith List Bool Floats.", "From Hermes Require Import Num WaterModel EvatraModel C01Corr C08Corr.",
       "Import ListNotations.", "Open Scope float_scope."]


def _z(n):
    return "(%d)%%Z" % n


def record(i, o):
    return ("({| ei_crop := %s; ei_verdu := %s; ei_elai := %s; ei_expw := %s; ei_regen := %s; ei_wg0 := %s; ei_wmin := %s; "
            "ei_w := %s; ei_wnor := %s; ei_porges := %s; ei_wurz := %d%%nat; ei_wudich := %s; ei_grw := %s; ei_lukrit := %s; "
            "ei_lumday := %s; ei_lured := %s; ei_etrel := %s; ei_trrel := %s |}, "
            "{| eb_nfk := %s; eb_eva := %s; eb_eta := %s; eb_ev := %s; eb_fluss0 := %s; eb_lumday := %s; eb_lured := %s; "
            "eb_tp := %s; eb_gwauf := %s; eb_etrel := %s; eb_trrel := %s; eb_wurz := %d%%nat |})"
            % (b(i["crop"]), fl(i["verdu"]), fl(i["elai"]), fls(i["expw"]), fl(i["regen"]), fls(i["wg0"]), fls(i["wmin"]),
               fls(i["w"]), fls(i["wnor"]), fls(i["porges"]), max(i["wurz"], 0), fls(i["wudich"]), fl(i["grw"]), fl(i["lukrit"]),
               _z(i["lumday"]), fl(i["lured"]), fl(i["etrel"]), fl(i["trrel"]),
               fls(o["nfk"]), fl(o["eva"]), fl(o["eta"]), fls(o["ev"]), fl(o["fluss0"]), _z(o["lumday"]), fl(o["lured"]),
               fls(o["tp"]), fl(o["gwauf"]), fl(o["etrel"]), fl(o["trrel"]), max(o["wurz"], 0)))


def _parse(o):
    """-> (ok, pairs): any printed M other than [] must parse into pairs"""
    m = re.search(r"M\s*=\s*(.*?)\s*:\s*list \(nat \* nat\)", o, re.S)
    if not m:
        return False, []
    body = m.group(1).strip()
    pairs = [(int(a), int(c)) for a, c in re.findall(r"\(\s*(\d+)(?:%nat)?\s*,\s*(\d+)(?:%nat)?\s*\)", body)]
    if body != "[]" and not pairs:
        return False, []
    return True, pairs


def eval_cases(ctx, corr, cases, caps, shard=40):
    recs = [record(c["in"], c["out"]) for c in cases]
    items = []
    for k in range(0, len(recs), shard):
        body = HDR + ["Definition cases : list (evatra_in (T:=float) * evatra_obs) := [\n%s\n]." % ";\n".join(recs[k:k + shard]),
                      "Definition M := Eval vm_compute in mismatches evatra_check %d%%nat cases." % k, "Print M."]
        items.append(("Cases_evatra_%d" % (k // shard), "\n".join(body) + "\n"))
    if caps:
        crecs = ["(%s, %s, %s)" % (b(c["crop"]), fl(c["v"]), fl(c["r"])) for c in caps]
        body = HDR + ["Definition cases : list (bool * float * float) := [\n%s\n]." % ";\n".join(crecs),
                      "Definition M := Eval vm_compute in mismatches cap_check 0%nat cases.", "Print M."]
        items.append(("Cases_cap", "\n".join(body) + "\n"))
    for nm, rc, o in ctx.coq_eval_many(items, timeout=900):
        ok, pairs = _parse(o)
        if rc != 0 or not ok:
            corr.mismatches.append({"kind": "coq-eval", "shard": nm, "output": o[-1200:]})
            continue
        for idx, mask in pairs:
            if nm == "Cases_cap":
                corr.mismatches.append({"kind": "pot-cap-step", "case": caps[idx]})
            else:
                ci = cases[idx]["in"]
                corr.mismatches.append({"kind": "evatra-structure", "case": idx, "tag": ci["tag"], "method": ci["meth"],
                                        "differs": [GROUPS[j] for j in range(len(GROUPS)) if mask >> j & 1],
                                        "input": ci, "observed": cases[idx]["out"]})
    corr.cases += len(recs) + len(caps)
    return corr


def _lines(ctx):
    """traced batch lines: the shipped examples with every ET method"""
    nl, endy = (15, 1995) if ctx.thorough else (5, 1985)
    out = []
    for i in range(nl):
        ln, fmt = waterlib.TRACE_LINES[i % len(waterlib.TRACE_LINES)]
        ln = " ".join(t for t in ln.split() if not t.startswith("ETpot="))
        end = ("1231%d" if fmt == "EN" else "3112%d") % endy
        out.append("%s ETpot=%d EndDate=%s resultfolder=R/c08_%d" % (ln, 1 + (i + i // 5) % 5, end, i))
    return out


def _potato_project(ex):
    """regression F27: project c08k = ex3 with potato instead of maize on a soil whose table field capacity lies above its
    pore volume (UU, bulk density class 1, 5 % Corg: F13) - the shipped potato has LUKRIT = 0, LURMAX was 0/0 = NaN"""
    import shutil
    src, dst = os.path.join(ex, "project", "ex3"), os.path.join(ex, "project", "c08k")
    if os.path.isdir(dst):
        return
    shutil.copytree(src, dst, ignore=shutil.ignore_patterns("RESULT*"))
    for fn in os.listdir(dst):
        if "ex3" in fn:
            os.rename(os.path.join(dst, fn), os.path.join(dst, fn.replace("ex3", "c08k")))
    cfgp = os.path.join(dst, "config.yml")
    cfg = open(cfgp).read()
    for k, v in (("GroundWaterFrom", "soilfile"), ("AutoSowingHarvest", "0"), ("AutoFertilization", "0"),
                 ("AutoIrrigation", "0"), ("AutoHarvest", "0")):
        cfg, n = re.subn(r"(?m)^%s:.*$" % k, "%s: %s" % (k, v), cfg)
        assert n == 1, k
    open(cfgp, "w").write(cfg)
    hdr = ("SID,C_org,Texture,LayerDepth,BulkDensityClass,Stone,C/N,C/S,RootDepth,NumberHorizon,FieldCapacity,WiltingPoint,"
           "PoreVolume,Sand,Silt,Clay,DrainageDepth,Drainage%,GroundWaterLevel")
    open(os.path.join(dst, "soil_c08k.csv"), "w").write("\n".join([
        hdr, "T4,5.00,UU,03,1,00,10,00,12,02,0,0,0,5,85,10,20,00,99", "T4,1.00,UU,20,3,00,10,00,,,0,0,0,5,85,10,20,00,   "]) + "\n")
    cp = os.path.join(dst, "crop_c08k.txt")
    crop = open(cp).read()
    assert " SM  " in crop
    open(cp, "w").write(crop.replace(" SM  ", " K   "))
    open(os.path.join(dst, "poly_c08k.txt"), "w").write("Polyg SID  Field_ID  GH GL Ir comment\n10001 T4  SOYSM1    10 30 0 potato_soy\nend\n")


POTATO_LINE = ("project=c08k WeatherFolder=historical soilId=T4 fcode=109_120 plotNr=10001 Altitude=73 Latitude=52.6732 "
               "poligonID=29872 ETpot=3 EndDate=1231%d resultfolder=R/c08_potato")


def _run(ctx):
    ex = waterlib.prepare_examples(ctx)
    _potato_project(ex)
    lf = os.path.join(ctx.work, "c08_lines.txt")
    with open(lf, "w") as f:
        f.write("\n".join(_lines(ctx) + [POTATO_LINE % (1990 if ctx.thorough else 1984)]) + "\n")
    n = 20000 if ctx.thorough else 300
    every = 6 if ctx.thorough else 12
    return waterlib.run_harness(ctx, "c08", ["-seed", str(ctx.seed), "-synth", str(n), "-work", ex, "-lines", lf,
                                              "-every", str(every)])


def correspond(ctx):
    c = Corr()
    ok, out = ctx.coq_make(["C08Corr"])
    if not ok:
        c.mismatches.append({"kind": "coq-build", "what": out[-1500:]})
        return c
    rc, rows, orc, other, err = _run(ctx)
    if rc != 0:
        c.mismatches.append({"kind": "harness-crash", "stderr": err[-1500:]})
        return c
    for ln in other:
        c.mismatches.append({"kind": "harness-note", "what": ln[:300]})
    runs = [x for x in rows if x["k"] == "c08run"]
    for r_ in runs:
        if not r_["success"]:
            c.mismatches.append({"kind": "traced-run-failed", "run": r_})
    cases = [x for x in rows if x["k"] == "evatra"]
    caps = [x for x in rows if x["k"] == "cap"]
    eval_cases(ctx, c, cases, caps)
    seen = set()
    for cs in cases:
        i = cs["in"]
        c.bump("tag=" + i["tag"]); c.bump("%s-method=%d" % (i["tag"], i["meth"])); c.bump("branch=" + ("crop" if i["crop"] else "bare"))
        c.bump("layers=%d" % i["n"])
        if i["tag"] == "synth":
            c.bump("latitude=" + ("polar" if abs(i["lat"]) > 66.5 else "mid/low"))
            if i["rad0"]:
                c.bump("radiation=missing(sunshine hours)")
        if i["crop"]:
            c.bump("groundwater=" + ("within roots" if float.fromhex(i["grw"]) < i["wurz"] else "below roots"))
            if any(t not in ("0x0p+00", "-0x0p+00") for t in cs["out"]["tp"]):
                c.bump("uptake>0")
        if cs["out"]["eva"] not in ("0x0p+00",) and not cs["out"]["eva"].startswith("-"):
            c.bump("EVA>0")
        if i["verdu"] not in ("0x0p+00", "-0x0p+00"):
            seen.add((i["verdu"], i["elai"], tuple(i["wg0"]), i["crop"]))
    c.nontrivial = len(seen)
    ctx.extra["traced_runs"] = len(runs)
    ctx.extra["traced_days"] = sum(r_["days"] for r_ in runs)
    ctx.extra["traced_days_replayed_and_checked"] = sum(r_["replayed"] for r_ in runs)
    ctx.extra["traced_crop_days"] = sum(r_["crop_days"] for r_ in runs)
    ctx.extra["traced_days_skipped(sowing day with Haude file)"] = sum(r_["skipped"] for r_ in runs)
    ctx.extra["cap_step_cases"] = len(caps)
    hyp = {}
    for r_ in runs:
        for k, v in r_.get("hyp", {}).items():
            hyp[k] = hyp.get(k, 0) + v
    ctx.extra["theorem_hypotheses_violated_on_traced_days"] = hyp
    ctx.extra["traced_crop_days_with_LUKRIT_0"] = sum(r_.get("lukrit_zero_days", 0) for r_ in runs)
    ctx.extra["traced_crop_days_with_LUKRIT_0_and_topsoil_above_pore_volume(F27)"] = sum(
        r_.get("lukrit_zero_topsoil_above_pore_volume_days", 0) for r_ in runs)
    lup = [r_["min_lupor"] for r_ in runs if isinstance(r_.get("min_lupor"), (int, float))]
    ctx.extra["min_air_filled_pore_volume_top30cm_on_crop_days"] = min(lup) if lup else None
    if any(hyp.values()):
        c.notes.append("a hypothesis of Prop_C08.evatra_wf does not hold on a traced state: %s (the oracle decides whether "
                       "the property itself fails there)" % hyp)
    c.samples = [{k: (v if not isinstance(v, list) else v[:3]) for k, v in cases[j]["in"].items()}
                 for j in (0, len(cases) // 2)] if cases else []
    return c


def oracle(ctx, search):
    rc, rows, orc, other, err = _run(ctx)
    fails = []
    if rc != 0:
        fails.append(Fail(key="harness-crash", what="Evatra / traced run aborted", stderr=err[-800:]))
    for ln in orc:
        kind = ln.split(" ")[0]
        m = re.search(r"(synth idx=\d+ meth=\d+|trace line=\d+ zeit=\d+(?: meth=\d+)?)", ln)
        fails.append(Fail(key="%s:%s" % (kind, m.group(1) if m else ""), what=ln, seed=ctx.seed, tier=ctx.tier,
                          rerun="./check C08 --replay <this file>  (re-runs the synthetic case / the traced lines with the recorded seed)"))
    return fails[:200]


def replay(ctx, r):
    """re-evaluates the property on the real code for the recorded failing inputs (same seed, same case index / day)"""
    shown = 0
    for f in r.get("failing_inputs", []):
        ctx.seed = f.get("seed", ctx.seed)
        ctx.thorough = f.get("tier") == "thorough"
        ctx.tier = f.get("tier", ctx.tier)
        m = re.search(r"(synth idx=\d+ meth=\d+|trace line=\d+ zeit=\d+)", f.get("what", ""))
        if not m:
            continue
        rc, rows, orc, other, err = _run(ctx)
        hits = [ln for ln in orc if m.group(1) in ln]
        print("%s -> %s" % (m.group(1), "property fails again:" if hits else "no failure now"))
        for h in hits[:10]:
            print("  ORACLE " + h)
        shown += 1 if hits else 0
        if shown >= 5:
            break
    if not r.get("failing_inputs"):
        print(json.dumps(r, indent=1)[:4000])
    return 1 if shown else 0
