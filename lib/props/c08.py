"""C08 — actual ET never exceeds potential ET; uptake only from rooted layers above the groundwater
(DESIGN.md §6 C08)."""
import json, os, re
from core import Corr, Fail
from props import waterlib
from props.waterlib import fl, fls, b

PROP_FILES = ["Prop_C08"]
RULE = ("synthetic Evatra states (3-20 layers, six moisture regimes incl. dryness limit / NFK break points / nearly "
        "saturated top soil, crop and bare-soil branch, root depth 0..N, integral and fractional groundwater levels, "
        "LAI 0-8, rain 0-12 cm) x the five ET methods x latitudes -89.5..89.9 (polar day/night: day length clamps) x "
        "missing radiation with sunshine hours x crops with LUKRIT = 0 on a top soil above its pore volume (F27), plus Evatra replayed on the pre-state of sampled days of traced real "
        "runs (ETpot=1..5) and of a potato run on a soil with field capacity above pore volume; a case is non-trivial when distinct and the potential ET is positive")
TRUSTED = ["binary64 semantics of Go on amd64 (no fused multiply-add) = Coq primitive floats",
           "math.Exp/Log/Sin/Cos/Tan/Asin/Acos/Pow are oracles: Et0Model takes them as a record of functions; at binary64 the "
           "record is the table of the values Go computed, keyed by kind and argument bits (a key the model asks for that is not "
           "in the table is reported); over R each theorem names the facts it uses (exp > 0, pow > 0) and real_orc_ok / "
           "C08_ext_nonneg discharge them for the true functions",
           "harness/c08_et0.go is a verbatim SHADOW of water.go:36-61,132-468, stomat and solar.go with the math calls routed "
           "through a recorder; it supplies the oracle table and the potential ET before the cap (a local of Evatra) and is "
           "compared with the real hermes.Evatra on every case (capped value, ET0, SATDEF, RSTOM, WIND, SUND, FKC, RADSUM)",
           "the day's capped potential ET is obtained exactly by replaying hermes.Evatra on a copy of the state with VERDUNST = 0; "
           "exp(-0.5*LAI) and the exp-weights of the evaporation profile are computed by the harness with the source expressions",
           "the harness mirrors the crop-branch condition of water.go:132/523; Go constant expressions (2*math.Pi/365, ...) are "
           "literals of C08Corr.constsF compared with the values the Go compiler produced on every run",
           "R->F gap: theorems are about exact real arithmetic; at binary64 the oracle allows 1e-12 on ETA >= 0, "
           "ETREL >= 0 and ETA + sum TP <= VERDU, and 1e-9 on TRREL <= 1 (TRREL = TPAKT/TRAMAX is not clamped by the "
           "code: 1.0000000000000002 observed; REDEV is -0x1p-57 at PROZ = 0, proved: redev_binary64_at_0, so ETA down "
           "to -4.5e-18 and ETREL down to -6.9e-18 occur when the top layer sits at its dryness limit without rain)"]
ASSUMPTIONS = ["DT = 1, DZ = 10, N >= 3 and WURZ <= N (checked on every case; other cases are reported, not modelled)",
               "theorem hypotheses (structure): W[0] > WMIN[0]/3, WUDICH >= 0 (crop.go:640 takes an absolute value), 0 <= LUMDAY "
               "(observed on every traced day)",
               "theorem hypotheses (potential ET, et0_domain): crop coefficients FKC, FKB >= 0; Haude: saturation deficit and monthly "
               "factors >= 0; file method: ETNULL >= 0; Turc-Wendling: TEMP >= -22 degC, KCOA >= 0, sunshine hours >= 0, |LAT| < 90; "
               "divisor lemmas: TEMP <> -237.3 degC, altitude < 45077 m; with CO2 response (CTRANS) RSTOM >= 0 is a hypothesis of "
               "C08_pm_divisor_pos (stomat's result is tied bit-exactly but its sign is not proved)",
               "measurement-overwrite days are not excluded: Evatra runs before the overwrite"]
LEVEL_TEXT = ("Coq proof over the reals, for every layer count and every state in the stated class, of: the potential ET of all "
              "five ETpot methods (Haude, Turc-Wendling, Penman-Monteith with stomatal CO2 response, Priestley-Taylor, reference ET "
              "from the weather file) is non-negative in the documented physical domain already before the floor (witness at "
              "-30 degC for Turc-Wendling outside it: F8), extraterrestrial radiation >= 0 for the true trigonometric functions, "
              "positive divisors of the combination formulas, cap/floor of the potential ET (also exact at binary64), range of "
              "PROZ and REDEV, initial uptake distribution <= TRAMAX*LURED <= TRAMAX, the downward redistribution loop never "
              "increases the summed uptake and keeps every layer non-negative (induction over layers), ETA + TPAKT <= VERDU, "
              "uptake zero outside min(root depth, groundwater), the Water clamp bounds the uptake by the plant-available water, "
              "ranges of ETREL/TRREL; both models are the Gallina definitions executed at binary64 and compared bit for bit with "
              "hermes.Evatra every run; the property itself is evaluated on the real code on every synthetic case and every "
              "traced day, the potential ET for all five methods on every traced day, and the actual ET booked by the Water sub-steps "
              "(PFTRANS, ETAG, TRAY gains) against the day's potential ET on every traced day, the theorems' hypotheses on every traced "
              "day, and the per-crop sums TraG <= ETaG <= ETcG at every harvest and in every crop record.")
LEVEL_NOTE = ("Transcendental functions are oracle inputs (table of Go's values at the argument bits the model computes). Not proved: "
              "sign and finiteness of stomat's RSTOM, day length facts other than EXT >= 0. Reals axioms of the standard library; "
              "primitive floats; no rounding-error bound between the real and the binary64 semantics (oracle tolerances above).")
TECHNIQUE = ("Coq proof (per-phase lemmas, induction over the layer list with a weight-sum invariant, monotonicity by the derivative "
             "for EXT >= 0, lra/nra) + bit-exact kernel correspondence with oracle tables + property oracle on synthetic and traced states")

GROUPS = ["NFK", "EVA/ETA/FLUSS0", "EV", "LUMDAY/LURED", "TP", "GWAUF", "ETREL", "TRREL", "WURZ"]
HDR = ["From Coq Require Import ZArith List Bool Floats.", "From Hermes Require Import Num WaterModel EvatraModel Et0Model C01Corr C08Corr.",
       "Import ListNotations.", "Open Scope float_scope."]


def _z(n):
    return "(%d)%%Z" % n


def record(i, o):
    return ("({| ei_crop := %s; ei_verdu := %s; ei_elai := %s; ei_expw := %s; ei_regen := %s; ei_wg0 := %s; ei_wmin := %s; "
            "ei_w := %s; ei_wnor := %s; ei_porges := %s; ei_wurz := %d%%nat; ei_wudich := %s; ei_grw := %s; ei_lukrit := %s; "
            "ei_lumday := %s; ei_lured := %s; ei_etrel := %s; ei_trrel := %s |}, "
            "{| eb_nfk := %s; eb_eva := %s; eb_eta := %s; eb_ev := %s; eb_fluss0 := %s; eb_lumday := %s; eb_lured := %s; "
            "eb_tp := %s; eb_gwauf := %s; eb_etrel := %s; eb_trrel := %s; eb_wurz := %d%%nat |})"
            % (b(i["crop"]), fl(i["verdu"]), fl(i["elai"]), fls(i["expw"]), fl(i["regen"]), fls(i["wg0"]), fls(i["wmin"]),
               fls(i["w"]), fls(i["wnor"]), fls(i["porges"]), max(i["wurz"], 0), fls(i["wudich"]), fl(i["grw"]), fl(i["lukrit"]),
               _z(i["lumday"]), fl(i["lured"]), fl(i["etrel"]), fl(i["trrel"]),
               fls(o["nfk"]), fl(o["eva"]), fl(o["eta"]), fls(o["ev"]), fl(o["fluss0"]), _z(o["lumday"]), fl(o["lured"]),
               fls(o["tp"]), fl(o["gwauf"]), fl(o["etrel"]), fl(o["trrel"]), max(o["wurz"], 0)))


ET0_GROUPS = ["pre-cap potential ET", "ET0", "SATDEF", "RSTOM", "WIND", "SUND", "FKC", "RADSUM", "capped potential ET",
              "oracle argument not in the table"]


def et0_record(c):
    i, o = c["in"], c["out"]
    tab = "[" + "; ".join("(%d%%nat, %s, %s, %s)" % (k, fl(a), fl(bb), fl(v)) for k, a, bb, v in c["tab"]) + "]"
    return ("({| ti_crop := %s; ti_meth := %s; ti_tag := %s; ti_lat := %s; ti_alti := %s; ti_kcoa := %s; ti_fkc := %s; ti_fkb := %s; "
            "ti_fkf := %s; ti_fku := %s; ti_verd := %s; ti_temp := %s; ti_tmin := %s; ti_tmax := %s; ti_rad := %s; ti_sund := %s; "
            "ti_rh := %s; ti_wind := %s; ti_windhi := %s; ti_etnull := %s; ti_ctrans := %s; ti_co2meth := %s; ti_co2konz := %s; "
            "ti_mintmp := %s; ti_alph := %s; ti_satbeta := %s; ti_radsum := %s; ti_rstom := %s; ti_et0 := %s; ti_satdef := %s |}, "
            "%s, {| tb_precap := %s; tb_et0 := %s; tb_satdef := %s; tb_rstom := %s; tb_wind := %s; tb_sund := %s; tb_fkc := %s; "
            "tb_radsum := %s; tb_capped := %s |})"
            % (b(i["crop"]), _z(i["meth"]), _z(i["day"]), fl(i["lat"]), fl(i["alti"]), fl(i["kcoa"]), fl(i["fkc"]), fl(i["fkb"]),
               fls(i["fkf"]), fls(i["fku"]), fl(i["verd"]), fl(i["temp"]), fl(i["tmin"]), fl(i["tmax"]), fl(i["rad"]), fl(i["sund"]),
               fl(i["rh"]), fl(i["wind"]), fl(i["windhi"]), fl(i["etnull"]), b(i["ctrans"]), _z(i["co2meth"]), fl(i["co2konz"]),
               fl(i["mintmp"]), fl(i["alph"]), fl(i["satbeta"]), fl(i["radsum"]), fl(i["rstom"]), fl(i["et0"]), fl(i["satdef"]),
               tab, fl(o["precap"]), fl(o["et0"]), fl(o["satdef"]), fl(o["rstom"]), fl(o["wind"]), fl(o["sund"]), fl(o["fkc"]),
               fl(o["radsum"]), fl(o["capped"])))


def _parse(o):
    """-> (ok, pairs): any printed M other than [] must parse into pairs"""
    m = re.search(r"M\s*=\s*(.*?)\s*:\s*list \(nat \* nat\)", o, re.S)
    if not m:
        return False, []
    body = m.group(1).strip()
    pairs = [(int(a), int(c)) for a, c in re.findall(r"\(\s*(\d+)(?:%nat)?\s*,\s*(\d+)(?:%nat)?\s*\)", body)]
    if body != "[]" and not pairs:
        return False, []
    return True, pairs


def eval_cases(ctx, corr, cases, caps, et0=(), consts=None, shard=130):
    recs = [record(c["in"], c["out"]) for c in cases]
    items = []
    erecs = [et0_record(c) for c in et0]
    for k in range(0, len(erecs), shard):
        body = HDR + ["Definition cases : list (et0_in (T:=float) * otab * et0_obs) := [\n%s\n]." % ";\n".join(erecs[k:k + shard]),
                      "Definition M := Eval vm_compute in mismatches et0_check %d%%nat cases." % k, "Print M."]
        items.append(("Cases_et0_%d" % (k // shard), "\n".join(body) + "\n"))
    if consts is not None:
        body = HDR + ["Definition M := Eval vm_compute in mismatches consts_check 0%%nat [%s]." % fls(consts), "Print M."]
        items.append(("Cases_et0consts", "\n".join(body) + "\n"))
    for k in range(0, len(recs), shard):
        body = HDR + ["Definition cases : list (evatra_in (T:=float) * evatra_obs) := [\n%s\n]." % ";\n".join(recs[k:k + shard]),
                      "Definition M := Eval vm_compute in mismatches evatra_check %d%%nat cases." % k, "Print M."]
        items.append(("Cases_evatra_%d" % (k // shard), "\n".join(body) + "\n"))
    if caps:
        crecs = ["(%s, %s, %s)" % (b(c["crop"]), fl(c["v"]), fl(c["r"])) for c in caps]
        body = HDR + ["Definition cases : list (bool * float * float) := [\n%s\n]." % ";\n".join(crecs),
                      "Definition M := Eval vm_compute in mismatches cap_check 0%nat cases.", "Print M."]
        items.append(("Cases_cap", "\n".join(body) + "\n"))
    for nm, rc, o in ctx.coq_eval_many(items, timeout=900):
        ok, pairs = _parse(o)
        if rc != 0 or not ok:
            corr.mismatches.append({"kind": "coq-eval", "shard": nm, "output": o[-1200:]})
            continue
        for idx, mask in pairs:
            if nm == "Cases_cap":
                corr.mismatches.append({"kind": "pot-cap-step", "case": caps[idx]})
            elif nm == "Cases_et0consts":
                corr.mismatches.append({"kind": "go-constant-expressions", "observed": consts})
            elif nm.startswith("Cases_et0_"):
                ci = et0[idx]["in"]
                corr.mismatches.append({"kind": "potential-et-formula", "case": idx, "tag": ci["tag"], "method": ci["meth"],
                                        "crop": ci["crop"],
                                        "differs": [ET0_GROUPS[j] for j in range(len(ET0_GROUPS)) if mask >> j & 1],
                                        "input": ci, "observed": et0[idx]["out"]})
            else:
                ci = cases[idx]["in"]
                corr.mismatches.append({"kind": "evatra-structure", "case": idx, "tag": ci["tag"], "method": ci["meth"],
                                        "differs": [GROUPS[j] for j in range(len(GROUPS)) if mask >> j & 1],
                                        "input": ci, "observed": cases[idx]["out"]})
    corr.cases += len(recs) + len(caps) + len(erecs)
    return corr


# ETpot=1 (Haude) needs the 14 h saturation deficit column (only 109_121_haude_tmax.csv has one) and ETpot=5 needs a
# reference-ET column, which only the one-file-per-year layout of project MUN can carry: with the other weather files
# both methods run with a potential ET of 0 on every day (no error is reported)
HAUDE_LINE = ("project=ex1 WeatherFolder=historical soilId=%s fcode=109_121_haude_tmax plotNr=%d Altitude=46 Latitude=52.6431 "
              "poligonID=30169 ETpot=1", "EN")
MUN_LINE = ("project=MUN WeatherFolder=MUN soilId=001 fcode=NEU plotNr=00001 Altitude=55 Latitude=54.00 poligonID=MUN "
            "parameter=./parameter StartYear=2009 ETpot=%d", "DE")


def _pick(sub):
    """the waterlib trace line that contains every word of [sub]"""
    for ln, fmt in waterlib.common_period_lines():
        if all(w in ln.split() for w in sub.split()):
            return ln, fmt
    raise KeyError(sub)


def _lines(ctx):
    """traced batch lines: the shipped examples under every ET method; among them a stand rooted down to layer 20 (myP, winter
    wheat, RootDepth 20) and runs with automatic sowing/harvest and fallow periods (ex3)"""
    endy = 1995 if ctx.thorough else 1985
    plan = [(HAUDE_LINE[0] % ("075", 10001), "EN", None, endy)]
    for sub, m in (("project=ex3 WeatherFolder=extreme soilId=075", 2), ("project=zuc WeatherFolder=extreme", 3),
                   ("project=myP WeatherFolder=extreme", 4)):
        ln, fmt = _pick(sub)
        plan.append((ln, fmt, m, endy))
    plan.append((MUN_LINE[0] % 5, "DE", None, 2018 if ctx.thorough else 2013))
    if ctx.thorough:
        for i, (ln, fmt) in enumerate(waterlib.common_period_lines()):
            if "soilId=902" in ln:      # a two-layer profile: outside the model (water.go:567 reads layers 0..2)
                continue
            plan.append((ln, fmt, 2 + (i % 3), endy))
        plan.append((HAUDE_LINE[0] % ("160", 10002), "EN", None, endy))
        for m in (2, 3, 4):      # real weather without global radiation: sunshine hours
            plan.append((MUN_LINE[0] % m, "DE", None, 2018))
    out = []
    for i, (ln, fmt, m, ey) in enumerate(plan):
        if m is not None:
            ln = " ".join(t for t in ln.split() if not t.startswith("ETpot=")) + " ETpot=%d" % m
        end = ("1231%d" if fmt == "EN" else "3112%d") % ey
        out.append("%s EndDate=%s resultfolder=R/c08_%d" % (ln, end, i))
    return out


def _potato_project(ex):
    """regression F27: project c08k = ex3 with potato instead of maize on a soil whose table field capacity lies above its
    pore volume (UU, bulk density class 1, 5 % Corg: F13) - the shipped potato has LUKRIT = 0, LURMAX was 0/0 = NaN"""
    import shutil
    src, dst = os.path.join(ex, "project", "ex3"), os.path.join(ex, "project", "c08k")
    if os.path.isdir(dst):
        return
    shutil.copytree(src, dst, ignore=shutil.ignore_patterns("RESULT*"))
    for fn in os.listdir(dst):
        if "ex3" in fn:
            os.rename(os.path.join(dst, fn), os.path.join(dst, fn.replace("ex3", "c08k")))
    cfgp = os.path.join(dst, "config.yml")
    cfg = open(cfgp).read()
    for k, v in (("GroundWaterFrom", "soilfile"), ("AutoSowingHarvest", "0"), ("AutoFertilization", "0"),
                 ("AutoIrrigation", "0"), ("AutoHarvest", "0")):
        cfg, n = re.subn(r"(?m)^%s:.*$" % k, "%s: %s" % (k, v), cfg)
        assert n == 1, k
    open(cfgp, "w").write(cfg)
    hdr = ("SID,C_org,Texture,LayerDepth,BulkDensityClass,Stone,C/N,C/S,RootDepth,NumberHorizon,FieldCapacity,WiltingPoint,"
           "PoreVolume,Sand,Silt,Clay,DrainageDepth,Drainage%,GroundWaterLevel")
    open(os.path.join(dst, "soil_c08k.csv"), "w").write("\n".join([
        hdr, "T4,5.00,UU,03,1,00,10,00,12,02,0,0,0,5,85,10,20,00,99", "T4,1.00,UU,20,3,00,10,00,,,0,0,0,5,85,10,20,00,   "]) + "\n")
    cp = os.path.join(dst, "crop_c08k.txt")
    crop = open(cp).read()
    assert " SM  " in crop
    open(cp, "w").write(crop.replace(" SM  ", " K   "))
    open(os.path.join(dst, "poly_c08k.txt"), "w").write("Polyg SID  Field_ID  GH GL Ir comment\n10001 T4  SOYSM1    10 30 0 potato_soy\nend\n")


POTATO_LINE = ("project=c08k WeatherFolder=historical soilId=T4 fcode=109_120 plotNr=10001 Altitude=73 Latitude=52.6732 "
               "poligonID=29872 ETpot=3 EndDate=1231%d resultfolder=R/c08_potato")


# configuration sweep: waterlib.SWEEP_* (one key away from the projects' own configuration, shared with C01/C02/C06/C07) plus
# the keys Evatra / stomat / the ET0 methods read that it does not vary: ETpot 1..5 on weather that feeds the method,
# CO2method x CO2StomataInfluence x CO2concentration, KcFactorBareSoil, CoastDistance, Latitude (polar circle, equator) and
# Altitude, groundwater in the root zone with irrigation, reference ET with sentinels and negative values (layout 0)
_A = waterlib._A
_H = HAUDE_LINE[0] % ("075", 10001)
_M = "project=MUN WeatherFolder=%s soilId=001 fcode=NEU plotNr=00001 Altitude=55 Latitude=%s poligonID=MUN parameter=./parameter StartYear=2009"
C08_SWEEP_QUICK = (
    [(_A + " " + o, "EN") for o in ("ETpot=2 CoastDistance=10", "ETpot=3 CO2StomataInfluence=0", "ETpot=3 CO2method=1 CO2concentration=700",
                                     "ETpot=4 KcFactorBareSoil=2.0", "ETpot=3 KcFactorBareSoil=1.2 Altitude=2500 Latitude=0.5",
                                     "ETpot=4 Latitude=69.5")]
    + [(_H + " KcFactorBareSoil=2.0", "EN"),
       ("project=ex1 WeatherFolder=historical soilId=160 fcode=109_120 plotNr=10002 Altitude=73 Latitude=52.6728 poligonID=29873 "
        "ETpot=4 AutoIrrigation=1", "EN")]
    + [((_M % ("MUN", "69.5")) + " ETpot=3", "DE"), ((_M % ("MUN", "0.5")) + " ETpot=4 KcFactorBareSoil=1.2", "DE"),
       ((_M % ("MUNx", "54.00")) + " ETpot=5", "DE"), ((_M % ("MUNx", "-66")) + " ETpot=5 KcFactorBareSoil=2.0", "DE")])
C08_SWEEP_MORE = (
    [(_A + " " + o, "EN") for o in ("ETpot=2 KcFactorBareSoil=0.4 CoastDistance=200", "ETpot=3 CO2method=2 CO2concentration=280",
                                     "ETpot=3 CO2method=3 CO2StomataInfluence=0", "ETpot=4 Altitude=3500", "ETpot=3 Latitude=-60")]
    + [((_M % ("MUN", "-69.5")) + " ETpot=2", "DE"), ((_M % ("MUN", "80")) + " ETpot=4", "DE"),
       ((_M % ("MUNx", "54.00")) + " ETpot=5 AutoIrrigation=1", "DE")])


def _mun_gaps(ex, seed):
    """weather folder MUNx = MUN with reference-ET sentinels (-99, the configured none value) and negative values away from
    the first and last days of a year (layout 0: the only layout that carries an ET0 column)"""
    import random, shutil
    src, dst = os.path.join(ex, "weather", "MUN"), os.path.join(ex, "weather", "MUNx")
    if os.path.isdir(dst):
        return
    shutil.copytree(src, dst)
    rnd = random.Random(seed + 77)
    for fn in sorted(os.listdir(dst)):
        p = os.path.join(dst, fn)
        rows = open(p, errors="replace").read().split("\n")
        for i in range(8, len(rows) - 8):
            t = rows[i].split(";")
            if len(t) < 11:
                continue
            u = rnd.random()
            if u < 0.03:
                t[3] = "-99"
            elif u < 0.05:
                t[3] = "-1.2"
            rows[i] = ";".join(t)
        open(p, "w").write("\n".join(rows))


# missing rain values: multi-year weather files (layout 1 = csv of ex1, layout 2 = '@YYYYJJJ' table of rue) with isolated and
# consecutive missing precipitation days under the none values -99.9, -99 and 999.9 (the mm -> cm conversion must not touch the marker)
GAP_MARKERS = (("gap_m999", "-99.9"), ("gap_m99", "-99"), ("gap_p999", "999.9"))
_R = "project=rue WeatherFolder=%s fcode=109_121 plotNr=10002 soilId=001 Altitude=46 Latitude=52.6431 poligonID=30169 WeatherNoneValue=%s"
_G = "project=ex1 WeatherFolder=%s soilId=075 fcode=109_120 plotNr=10001 Altitude=73 Latitude=52.6732 poligonID=29872 WeatherNoneValue=%s"
C08_GAP_LINES = ([(_G % g, "EN") for g in GAP_MARKERS] + [(_R % g, "DE") for g in GAP_MARKERS[:2]])


def _rain_gaps(ex, seed):
    import random
    src = os.path.join(ex, "weather", "historical")
    for folder, marker in GAP_MARKERS:
        dst = os.path.join(ex, "weather", folder)
        if os.path.isdir(dst):
            continue
        os.makedirs(dst)
        rnd = random.Random(seed * 31 + len(marker))
        for fn, sep in (("109_120.csv", ","), ("109_121.w6d", None)):
            rows = open(os.path.join(src, fn)).read().split("\n")
            hdr = rows[0].split(sep)
            pi = hdr.index("precip" if sep else "PREC")
            first = 2 if sep else 1
            i = first + 40
            while i < len(rows) - 40:
                run = rnd.choice([1, 1, 2, 3])          # isolated and consecutive gaps, never on the first/last days of the file
                for k in range(run):
                    t = rows[i + k].split(sep)
                    if len(t) > pi:
                        t[pi] = marker
                        rows[i + k] = (sep.join(t) if sep else " " + "  ".join(t))
                i += run + rnd.randint(5, 45)
            open(os.path.join(dst, fn), "w").write("\n".join(rows))


def _sweep_lines(ctx):
    lines = list(waterlib.SWEEP_QUICK) + list(C08_SWEEP_QUICK) + list(C08_GAP_LINES)
    if ctx.thorough:
        lines += list(waterlib.SWEEP_MORE) + list(C08_SWEEP_MORE)
    out = []
    for i, (ln, fmt) in enumerate(lines):
        if "project=MUN" in ln:
            end = "3112%d" % (2012 if ctx.thorough else 2010)
        else:
            end = ("1231%d" if fmt == "EN" else "3112%d") % (1984 if ctx.thorough else 1981)
        out.append("%s EndDate=%s resultfolder=R/c08_s%d" % (ln, end, i))
    return out


SWEEP_FIRST = 100


def _run(ctx):
    ex = waterlib.prepare_examples(ctx)
    _potato_project(ex)
    _mun_gaps(ex, ctx.seed)
    _rain_gaps(ex, ctx.seed)
    lf = os.path.join(ctx.work, "c08_lines.txt")
    with open(lf, "w") as f:
        f.write("\n".join(_lines(ctx) + [POTATO_LINE % (1990 if ctx.thorough else 1984)]) + "\n")
    n = 20000 if ctx.thorough else 300
    every = 6 if ctx.thorough else 12
    rc, rows, orc, other, err = waterlib.run_harness(ctx, "c08", ["-seed", str(ctx.seed), "-synth", str(n), "-work", ex, "-lines", lf,
                                                                  "-every", str(every)])
    sf = os.path.join(ctx.work, "c08_sweep_lines.txt")
    with open(sf, "w") as f:
        f.write("\n".join(_sweep_lines(ctx)) + "\n")
    rc2, rows2, orc2, other2, err2 = waterlib.run_harness(ctx, "c08", ["-seed", str(ctx.seed + 1), "-synth", "0", "-work", ex, "-lines", sf,
                                                                       "-every", "60" if not ctx.thorough else "40",
                                                                       "-first-line", str(SWEEP_FIRST)])
    rows2 = [x for x in rows2 if x["k"] != "et0consts"]
    return rc or rc2, rows + rows2, orc + orc2, other + other2, err + err2


def correspond(ctx):
    c = Corr()
    ok, out = ctx.coq_make(["C08Corr"])
    if not ok:
        c.mismatches.append({"kind": "coq-build", "what": out[-1500:]})
        return c
    rc, rows, orc, other, err = _run(ctx)
    if rc != 0:
        c.mismatches.append({"kind": "harness-crash", "stderr": err[-1500:]})
        return c
    for ln in other[:10]:
        c.mismatches.append({"kind": "harness-note", "what": ln[:300], "of": len(other)})
    runs = [x for x in rows if x["k"] == "c08run"]
    for r_ in runs:
        if not r_["success"]:
            c.mismatches.append({"kind": "traced-run-failed", "run": r_})
    cases = [x for x in rows if x["k"] == "evatra"]
    caps = [x for x in rows if x["k"] == "cap"]
    et0 = [x for x in rows if x["k"] == "et0"]
    consts = [x for x in rows if x["k"] == "et0consts"]
    if not consts:
        c.mismatches.append({"kind": "harness-note", "what": "no et0consts row"})
    eval_cases(ctx, c, cases, caps, et0, consts[0]["c"] if consts else None)
    for cs in et0:
        i = cs["in"]
        c.bump("et0 %s method=%d %s" % (i["tag"], i["meth"], "crop" if i["crop"] else "bare"))
        f = float.fromhex
        if i["meth"] in (2, 3, 4) and f(i["rad"]) == 0:
            c.bump("et0 radiation from sunshine hours")
        if f(i["temp"]) < 0:
            c.bump("et0 frost")
        if i["meth"] == 3 and f(i["wind"]) < 0.5:
            c.bump("et0 wind below the 0.5 floor")
        if i["meth"] == 3 and f(i["rh"]) >= 100:
            c.bump("et0 saturation deficit 0")
        if f(cs["out"]["precap"]) < 0:
            c.bump("et0 negative before the floor")
        if f(cs["out"]["precap"]) > (0.65 if i["crop"] else 0.6):
            c.bump("et0 above the cap")
    ctx.extra["et0_cases"] = len(et0)
    ctx.extra["oracle_table_entries"] = sum(len(x["tab"]) for x in et0)
    seen = set()
    for cs in cases:
        i = cs["in"]
        c.bump("tag=" + i["tag"]); c.bump("%s-method=%d" % (i["tag"], i["meth"])); c.bump("branch=" + ("crop" if i["crop"] else "bare"))
        c.bump("layers=%d" % i["n"])
        if i["tag"] == "synth":
            c.bump("latitude=" + ("polar" if abs(i["lat"]) > 66.5 else "mid/low"))
            if i["rad0"]:
                c.bump("radiation=missing(sunshine hours)")
        if i["crop"]:
            c.bump("groundwater=" + ("within roots" if float.fromhex(i["grw"]) < i["wurz"] else "below roots"))
            if any(t not in ("0x0p+00", "-0x0p+00") for t in cs["out"]["tp"]):
                c.bump("uptake>0")
        if cs["out"]["eva"] not in ("0x0p+00",) and not cs["out"]["eva"].startswith("-"):
            c.bump("EVA>0")
        if i["verdu"] not in ("0x0p+00", "-0x0p+00"):
            seen.add((i["verdu"], i["elai"], tuple(i["wg0"]), i["crop"]))
    c.nontrivial = len(seen)
    ctx.extra["traced_runs"] = len(runs)
    sw = [r_ for r_ in runs if r_["line"] >= SWEEP_FIRST]
    ctx.extra["configuration_sweep"] = ("%d short runs with one or two keys away from the projects' own configuration (waterlib.SWEEP_* "
                                        "+ C08_SWEEP_*: ETpot 1-5, CO2method x CO2StomataInfluence x CO2concentration, KcFactorBareSoil "
                                        "0.4/1.2/2.0, CoastDistance, Latitude polar/equator, Altitude, groundwater in the root zone with "
                                        "irrigation, reference ET with sentinels and negative values, missing rain days under the none values -99.9 / -99 / "
                                        "999.9 in weather layouts 1 and 2): %d days, %d crop days, %d days with "
                                        "a negative reference ET, every day judged by the same oracles, sampled days in the bit-exact tie"
                                        % (len(sw), sum(r_["days"] for r_ in sw), sum(r_["crop_days"] for r_ in sw),
                                           sum(r_.get("negative_reference_et_days", 0) for r_ in sw)))
    ctx.extra["traced_days"] = sum(r_["days"] for r_ in runs)
    ctx.extra["traced_days_replayed_and_checked"] = sum(r_["replayed"] for r_ in runs)
    ctx.extra["traced_crop_days"] = sum(r_["crop_days"] for r_ in runs)
    ctx.extra["traced_days_skipped(sowing day with Haude file)"] = sum(r_["skipped"] for r_ in runs)
    ctx.extra["cap_step_cases"] = len(caps)
    for k in ("day_checked", "multi_step_days", "rain_overflow_days", "rain_overflow_fractional_zsr_days",
              "rain_overflow_zsr_fraction_ge_half_days"):
        ctx.extra["traced_days:" + k] = sum(r_.get(k, 0) for r_ in runs)
    shares = [r_["max_booked_share_of_pet"] for r_ in runs if isinstance(r_.get("max_booked_share_of_pet"), (int, float))]
    ctx.extra["max_booked_actual_ET_share_of_potential_ET"] = max(shares) if shares else None
    if ctx.extra["traced_days:rain_overflow_zsr_fraction_ge_half_days"] == 0:
        c.mismatches.append({"kind": "coverage", "what": "no traced day whose sub-step count comes from the rain-overflow branch "
                             "with a ZSR fraction >= 0.5 (the day-level booked-ET oracle needs them)"})
    ctx.extra["theorem_hypotheses_violated_on_traced_days"] = sum(r_.get("hyp_violations", 0) for r_ in runs)
    ctx.extra["traced_harvests"] = sum(r_.get("harvests", 0) for r_ in runs)
    ctx.extra["traced_harvests_after_a_fallow"] = sum(r_.get("harvests_after_a_fallow", 0) for r_ in runs)
    ctx.extra["max_root_depth_in_20_layer_profiles"] = max([r_.get("max_wurz_20_layer_profiles", 0) for r_ in runs] or [0])
    if ctx.extra["max_root_depth_in_20_layer_profiles"] < 20:
        c.mismatches.append({"kind": "coverage", "what": "no traced stand whose roots reach layer 20 of a 20-layer profile"})
    if ctx.extra["traced_harvests_after_a_fallow"] == 0:
        c.mismatches.append({"kind": "coverage", "what": "no traced harvest of a crop sown after a fallow period"})
    ctx.extra["traced_crop_days_with_LUKRIT_0"] = sum(r_.get("lukrit_zero_days", 0) for r_ in runs)
    ctx.extra["traced_crop_days_with_LUKRIT_0_and_topsoil_above_pore_volume(F27)"] = sum(
        r_.get("lukrit_zero_topsoil_above_pore_volume_days", 0) for r_ in runs)
    lup = [r_["min_lupor"] for r_ in runs if isinstance(r_.get("min_lupor"), (int, float))]
    ctx.extra["min_air_filled_pore_volume_top30cm_on_crop_days"] = min(lup) if lup else None
    c.samples = [{k: (v if not isinstance(v, list) else v[:3]) for k, v in cases[j]["in"].items()}
                 for j in (0, len(cases) // 2)] if cases else []
    return c


def crop_records(ctx):
    """the crop result files of the traced runs: (file, row number, crop, TraG, ETaG, ETcG) in mm as printed"""
    import glob
    out = []
    for fn in sorted(glob.glob(os.path.join(ctx.work, "R", "c08_*", "C*"))):
        txt = open(fn, errors="replace").read().split("\n")
        if not txt:
            continue
        csv = "," in txt[0]
        split = (lambda l: [t.strip() for t in l.split(",")]) if csv else (lambda l: l.split())
        hdr = split(txt[0])
        if "ETcG" not in hdr:
            continue
        ic = hdr.index("ETcG")
        for k, ln in enumerate(txt[2:]):
            t = split(ln)
            if len(t) <= ic + 2 or not t[0]:
                continue
            try:
                etc, eta, tra = float(t[ic]), float(t[ic + 1]), float(t[ic + 2])
            except ValueError:
                out.append((os.path.relpath(fn, ctx.work), k, t[7] if len(t) > 7 else "?", None, None, None))
                continue
            out.append((os.path.relpath(fn, ctx.work), k, t[7], tra, eta, etc))
    return out


def oracle(ctx, search):
    rc, rows, orc, other, err = _run(ctx)
    fails = []
    recs = crop_records(ctx)
    ctx.extra["crop_records_checked"] = len(recs)
    for fn, k, crop, tra, eta, etc in recs:
        # whole millimetres as printed: rounding is monotone, so the order of the counters survives it
        if tra is None or not (0 <= tra <= eta <= etc):
            fails.append(Fail(key="season-aet-above-pet:crop-record:%s:row=%d" % (fn, k), seed=ctx.seed, tier=ctx.tier,
                              what="crop record %s row %d (%s): TraG=%s ETaG=%s ETcG=%s mm violates 0 <= TraG <= ETaG <= ETcG"
                                   % (fn, k, crop, tra, eta, etc)))
    if rc != 0:
        fails.append(Fail(key="harness-crash", what="Evatra / traced run aborted", stderr=err[-800:]))
    for ln in orc:
        kind = ln.split(" ")[0]
        m = re.search(r"(synth idx=\d+ meth=\d+|trace line=\d+ zeit=\d+(?: meth=\d+)?)", ln)
        fails.append(Fail(key="%s:%s" % (kind, m.group(1) if m else ""), what=ln, seed=ctx.seed, tier=ctx.tier,
                          rerun="./check C08 --replay <this file>  (re-runs the synthetic case / the traced lines with the recorded seed)"))
    return fails[:200]


def replay(ctx, r):
    """re-evaluates the property on the real code for the recorded failing inputs (same seed, same case index / day)"""
    shown = 0
    for f in r.get("failing_inputs", []):
        ctx.seed = f.get("seed", ctx.seed)
        ctx.thorough = f.get("tier") == "thorough"
        ctx.tier = f.get("tier", ctx.tier)
        m = re.search(r"(synth idx=\d+ meth=\d+|trace line=\d+ zeit=\d+)", f.get("what", ""))
        if not m:
            continue
        rc, rows, orc, other, err = _run(ctx)
        hits = [ln for ln in orc if m.group(1) in ln]
        print("%s -> %s" % (m.group(1), "property fails again:" if hits else "no failure now"))
        for h in hits[:10]:
            print("  ORACLE " + h)
        shown += 1 if hits else 0
        if shown >= 5:
            break
    if not r.get("failing_inputs"):
        print(json.dumps(r, indent=1)[:4000])
    return 1 if shown else 0
