"""C16 — crop rotation is followed and automatic management respects its windows.

proof:           Prop_C16.v over RotationModel (rotation cursor with sowing/harvest tests, automatic sowing / harvest /
                 irrigation / N decision rules with the weather- and state-dependent conditions as boolean oracles):
                 closed form of the event sequence by induction over the day loop, window theorems for all trigger
                 sequences (= all weather)
correspondence:  whole runs of the REAL simulator (in-process, day-loop probe) on generated rotations of shipped crops x the
                 16 combinations of the four automation switches x generated automan tables x 4 date formats: every
                 decision of the automatic sowing and harvest blocks on the days around their windows, every automatic
                 irrigation (deficit recomputed from the probed state, amount bit-exact), every automatic N amount
                 (bit-exact), and the whole sowing/harvest event sequence against the rotation cursor run on the final
                 date arrays — all evaluated in Coq; window arrays after Input against the generated tables
oracle:          the property itself on the crop result file, the management log and the probe
"""
import os, re, json, shutil, random, datetime
from core import Corr, Fail, REPO, chunked_list
from props import waterlib
from props.c10 import daynum, numday, fmt_date, log_date, FMTS, MGMT_CONF, go_hex

PROP_FILES = ["Prop_C16"]
RULE = ("one case = one whole run (2-3 years) of a generated project: rotation of 2-3 shipped crops (spring and winter crops), "
        "one of the 16 switch combinations, generated automan rows (sowing window, latest harvest date, trigger thresholds "
        "from 'fires on the first day' to 'never fires', irrigation stages/depth/maximum, N demands and stages), 4 date formats; "
        "non-trivial = distinct (switch combination, crop sequence, date format)")
TRUSTED = ["python calendar (datetime) for day numbers of generated dates",
           "the harness recomputes the irrigation deficit DEFZSUM (run.go:419-440) from the probed state — an oracle input of the model"]
ASSUMPTIONS = ["trigger conditions (weather, soil moisture, temperature sums, development stage reached) are oracles: a decision must "
               "equal the model's decision for some trigger value; sharp where the model does not depend on the trigger",
               "rotations whose sowing windows open after the latest harvest date of the preceding crop (the property's quantifier); "
               "no organic fertiliser in the rotation (autorg = 0): the crop-skip branch of nitro.go:463-528 is not modelled",
               "Go int arithmetic modelled on unbounded Z"]

_cache = {}
SPRING = ["SM", "SOY", "ZR", "K", "SW"]
WINTER = ["WW", "WG", "WR"]

CROPOUT = """FillCharacter: ' '
SeperatorCharacter: ','
NaValue: n.a.
DataColumns:
- Format: '%s'
  DataAlignment: left
  Width: 12
  VariableName: SowDate
- Format: '%4d'
  DataAlignment: left
  Width: 5
  VariableName: HarvestYear
- Format: '%3d'
  DataAlignment: left
  Width: 4
  VariableName: HarvestDOY
- Format: '%3s'
  DataAlignment: left
  Width: 5
  VariableName: Crop
"""


def dm(d, f):
    """4-digit day/month in the order of the date format"""
    return "%02d%02d" % ((d.day, d.month) if f < 2 else (d.month, d.day))


def automan_row(rnd, f, code, sow, har, har_latest, fixed_sow, fixed_har, off1=None):
    buf = [" "] * 185
    def put(pos, text):
        for i, ch in enumerate(text):
            buf[pos + i] = ch
    w1 = sow - datetime.timedelta(days=rnd.choice([0, 3, 10, 25]) if off1 is None else off1)
    w2 = sow + datetime.timedelta(days=rnd.choice([0, 1, 5, 14, 30]))
    put(0, "%-3s" % code)
    put(4, "0000" if fixed_sow else dm(w1, f)); put(9, "0000" if fixed_sow else dm(w2, f))
    put(14, "0000" if fixed_har else dm(har_latest, f))
    put(19, "%-5s" % rnd.choice(["0.0", "5.0", "9.1", "12.0", "30.0"]))
    if rnd.random() < 0.2:
        put(19, "%-5s" % rnd.choice(["12.0", "25.0", "2.0"])); put(24, "x")
    put(25, "%5s" % rnd.choice(["0.0", "0.0", "30.0"])); put(32, "%5s" % rnd.choice(["97.0", "99.0", "60.0", "150.0"]))
    put(39, "%5s" % "0.0"); put(46, "%5s" % rnd.choice(["99.0", "150.0", "70.0"]))
    put(53, "%4s" % rnd.choice(["5.0", "2.0", "0.1", "20.0"])); put(60, "%4s" % rnd.choice(["0.5", "0.1", "0.0", "9.0"]))
    put(68, "%3d" % rnd.choice([0, 100, 380])); put(74, "%2d" % rnd.choice([0, 0, 5]))
    s1 = rnd.choice([1, 2, 3, 4]); s2 = rnd.choice([x for x in (2, 3, 4, 5, 6) if x >= s1])
    put(80, "%d" % s1); put(87, "%d" % s2)
    put(94, "%3d" % rnd.choice([0, 60, 120, 200])); put(100, "%3d" % rnd.choice([0, 80, 120])); put(106, "%3d" % rnd.choice([0, 0, 60]))
    put(112, rnd.choice(["S0 ", "S1 ", "S2 ", "100", "0  "])); put(119, rnd.choice(["S3 ", "S2 ", "140", "0  "])); put(127, rnd.choice(["S4 ", "0  ", "160"]))
    put(135, "%2d" % rnd.choice([5, 3, 7]))
    put(143, "---"); put(149, "  0"); put(156, "000")
    put(163, "%3d" % rnd.choice([40, 60, 80, 95])); put(170, "%3d" % rnd.choice([30, 60, 90])); put(177, "%3d" % rnd.choice([5, 10, 20, 50]))
    return "".join(buf).rstrip() + " ", (w1, w2)


def make_case(rnd, idx):
    f = idx % 4
    sw = (idx // 4) % 16 if idx < 64 else rnd.randrange(16)
    automan, autofert, autoirri, autohar = bool(sw & 1), bool(sw & 2), bool(sw & 4), bool(sw & 8)
    y0 = rnd.randrange(1980, 1988)
    nyears = 2 if rnd.random() < 0.6 else 3
    begin = datetime.date(y0, rnd.choice([7, 8]), rnd.randrange(1, 29))
    end = datetime.date(y0 + nyears, rnd.choice([11, 12]), rnd.randrange(2, 29))
    crops = [(rnd.choice(["SM", "WW", "SOY", "WG"]), None, begin, None)]
    rows = {}
    last_free = begin                      # day after which the next sowing window may open
    y = y0                                 # year of the last harvest
    margin = datetime.timedelta(days=27)
    while len(crops) <= 3:
        cand = []
        off1 = None
        ws = datetime.date(y, rnd.choice([9, 10]), rnd.randrange(5, 26))
        if last_free.year == y and last_free.month in (8, 9, 10) and rnd.random() < 0.6:
            # tight: the window opens 1..5 days after the latest harvest date of the preceding crop
            off1 = rnd.choice([0, 2, 6])
            ws = last_free + datetime.timedelta(days=rnd.randrange(1, 6) + off1)
            cand.append((rnd.choice(WINTER), ws, datetime.date(y + 1, rnd.choice([7, 8]), rnd.randrange(1, 25))))
            cand.append(cand[0])
        elif ws - margin > last_free:
            cand.append((rnd.choice(WINTER), ws, datetime.date(y + 1, rnd.choice([7, 8]), rnd.randrange(1, 25))))
        ss = datetime.date(y + 1, rnd.choice([4, 5]), rnd.randrange(1, 26))
        cand.append((rnd.choice(SPRING), ss, datetime.date(y + 1, rnd.choice([9, 10]), rnd.randrange(1, 25))))
        code, sow, har = cand[0] if len(cand) >= 2 and (off1 is not None or rnd.random() < 0.5) else cand[-1]
        if code == "ZR" and off1 is not None:
            off1 = None
        if har > end - datetime.timedelta(days=45) or code in rows:
            break
        fixed_sow = automan and rnd.random() < 0.15
        fixed_har = autohar and rnd.random() < 0.2
        latest = har if fixed_har else har + datetime.timedelta(days=rnd.choice([0, 5, 20, 35]))
        row, (w1, w2) = automan_row(rnd, f, code, sow, har, latest, fixed_sow, fixed_har, off1)
        rows[code] = row
        crops.append((code, sow, har, {"w1": w1, "w2": w2, "latest": latest, "fixed_sow": fixed_sow, "fixed_har": fixed_har}))
        last_free = latest if autohar else har
        y = har.year
    if crops[0][0] not in rows:
        rows[crops[0][0]], _ = automan_row(rnd, f, crops[0][0], begin, begin, begin, True, True)
    return {"idx": idx, "fmt": f, "begin": begin, "end": end, "B": daynum(begin), "E": daynum(end), "crops": crops, "rows": rows,
            "sw": (automan, autofert, autoirri, autohar), "fid": "R%d" % rnd.randrange(1, 9),
            "soil": rnd.choice(["001", "041", "075", "160"]), "fcode": rnd.choice(["109_120", "109_121"])}


def write_project(ex, case):
    name = "c16_%d" % case["idx"]
    src, dst = os.path.join(ex, "project", "ex1"), os.path.join(ex, "project", name)
    shutil.rmtree(dst, ignore_errors=True)
    shutil.copytree(src, dst)
    for fn in os.listdir(dst):
        if "_ex1" in fn:
            os.rename(os.path.join(dst, fn), os.path.join(dst, fn.replace("_ex1", "_" + name)))
    f, fid = case["fmt"], case["fid"]
    open(os.path.join(dst, "managementout_conf.yml"), "w").write(MGMT_CONF)
    open(os.path.join(dst, "cropout_conf.yml"), "w").write(CROPOUT)
    open(os.path.join(dst, "fert_%s.txt" % name), "w").write("Field_ID  N   Frt date\nend\n")
    open(os.path.join(dst, "til_%s.txt" % name), "w").write("Field_ID  Ti Typ date\n          cm\nend\n")
    open(os.path.join(dst, "irr_%s.txt" % name), "w").write("Field_ID  Ir N03 date\n          mm mg/l\nend\n")
    open(os.path.join(dst, "poly_%s.txt" % name), "w").write("Polyg SID  Field_ID  GH GL Ir comment\n10001 001 %s    99 99 0 own\nend\n" % fid)
    rows = []
    for k, (code, sow, har, _) in enumerate(case["crops"]):
        sw = fmt_date(sow, f) if sow else fmt_date(har - datetime.timedelta(days=120), f)
        rows.append("%-9s %-3s %s %s %s 0" % (fid, code, sw, fmt_date(har, f), "080 050" if k == 0 else "000 000"))
    open(os.path.join(dst, "crop_%s.txt" % name), "w").write(
        "Field_ID    crp  sowing harvst Rex yld autorg variety comment\n" + "".join(r + "\n" for r in rows) + "end\n")
    hdr = open(os.path.join(src, "automan.txt")).read().split("\n")[0]
    open(os.path.join(dst, "automan.txt"), "w").write(hdr + "\n" + "".join(r + "\n" for r in case["rows"].values()))
    annual = "3110" if f < 2 else "1031"
    a, b, c, d = case["sw"]
    return ("project=%s WeatherFolder=historical soilId=%s fcode=%s plotNr=10001 Altitude=73 Latitude=52.6 poligonID=1 "
            "CropFileFormat=txt AutoSowingHarvest=%d AutoFertilization=%d AutoIrrigation=%d AutoHarvest=%d ManagementEvents=1 "
            "OutputIntervall=0 Dateformat=%d StartYear=%d EndDate=%s AnnualOutputDate=%s resultfolder=%s"
            % (name, case["soil"], case["fcode"], a, b, c, d, f, case["begin"].year, fmt_date(case["end"], f), annual,
               os.path.join(ex, "R", name)))


def parse_log_date(tok, f):
    a, b, y = tok.split(".")
    y = int(y) + (1900 if len(y) == 2 else 0)
    d, m = (int(a), int(b)) if f < 2 else (int(b), int(a))
    return daynum(datetime.date(y, m, d))


def _run(ctx):
    if "run" in _cache:
        return _cache["run"]
    ex = waterlib.prepare_examples(ctx, extreme_rain=False)
    rnd = random.Random(ctx.seed * 104729 + 16)
    n = 3000 if ctx.thorough else 64
    cases = [make_case(rnd, i) for i in range(n)]
    lines = [write_project(ex, c) for c in cases]
    lf = os.path.join(ctx.work, "c16_lines.txt")
    open(lf, "w").write("\n".join(lines) + "\n")
    rc, recs, orc, other, err = waterlib.run_harness(ctx, "c16", ["-work", ex, "-lines", lf, "-slots", "8"])
    for c in cases:
        c.update(init=None, final=None, run=None, sow=[], hdec=[], harv=[], airr=[], an=[], log=None, crec=None)
    for r in recs:
        c = cases[r["line"]]
        if r["k"] in ("init", "final", "run"):
            c[r["k"]] = r
        else:
            c[r["k"]].append(r)
    for c in cases:
        d = os.path.join(ex, "R", "c16_%d" % c["idx"])
        if os.path.isdir(d):
            for fn in os.listdir(d):
                if fn.startswith("M") and fn.endswith(".txt"):
                    c["log"] = [(parse_log_date(t[0], c["fmt"]), t[1], dict(re.findall(r"(\w+): (\S*)", ln)))
                                for ln in open(os.path.join(d, fn)).read().split("\n") if ln.strip() for t in [ln.split(" ")]]
                if fn.startswith("C"):
                    rows = [ln.split() for ln in open(os.path.join(d, fn)).read().split("\n") if ln.strip()]
                    c["crec"] = [(r[0], int(r[1]), int(r[2]), r[3]) for r in rows if len(r) >= 4 and r[1].isdigit() and r[2].isdigit()]
    _cache["run"] = (rc, cases, err, ex)
    return _cache["run"]


def _events(cs):
    """observed sowing (management log) and harvest (cursor advance) events, in day order, sowing before harvest"""
    ev = [(z, 0, None) for (z, k, p) in cs["log"] if k == "sowing"]
    ev += [(h["zeit"], 1, h["akf"] + j) for h in cs["harv"] for j in range(max(1, h["adv"]))]
    ev.sort(key=lambda e: (e[0], e[1]))
    out, k = [], 0
    for z, kind, akf in ev:
        if kind == 1:
            out.append((z, 1, akf)); k = akf + 1
        else:
            out.append((z, 0, k))
    return out


HDR = ["From Coq Require Import ZArith List Bool Floats Uint63.", "From Hermes Require Import Num RotationModel C16Corr.",
       "Import ListNotations.", "Open Scope float_scope."]


def u(x):
    return "%d%%uint63" % x


def correspond(ctx):
    c = Corr()
    rc, cases, err, ex = _run(ctx)
    if rc != 0:
        c.mismatches.append({"kind": "harness-crash", "stderr": err[-1500:]})
        return c
    sow, hdec, airr, an, rot = [], [], [], [], []
    for cs in cases:
        sws = "".join("MFIH"[i] if cs["sw"][i] else "-" for i in range(4))
        if cs["init"] is None or cs["run"] is None or not cs["run"]["success"] or cs["log"] is None or cs["final"] is None:
            c.mismatches.append({"kind": "run-failed", "case": cs["idx"], "switches": sws, "err": (cs["run"] or {}).get("err", "no run record"),
                                 "crops": [(a, str(s), str(h)) for a, s, h, _ in cs["crops"]]})
            continue
        c.bump("switches " + sws); c.bump(FMTS[cs["fmt"]])
        ini = cs["init"]
        # window arrays after Input against the generated tables (python twin of the automan reader)
        for k, (code, s, h, w) in enumerate(cs["crops"]):
            if k == 0:
                continue
            automan, _, _, autohar = cs["sw"]
            exp_s = (daynum(s) if (not automan or w["fixed_sow"]) else 0)
            exp_s1 = daynum(s) - 1 if w["fixed_sow"] else daynum(w["w1"])
            exp_s2 = daynum(s) if w["fixed_sow"] else daynum(w["w2"])
            exp_e = 0 if (autohar and not w["fixed_har"]) else daynum(h)
            exp_e2 = daynum(w["latest"]) if autohar else daynum(h)
            got = (ini["saat"][k], ini["ernte"][k], ini["ernte2"][k]) + ((ini["saat1"][k], ini["saat2"][k]) if automan else ())
            want = (exp_s, exp_e if not (autohar and w["fixed_har"]) else ini["ernte"][k], exp_e2) + ((exp_s1, exp_s2) if automan else ())
            if got != want:
                c.mismatches.append({"kind": "window-arrays", "case": cs["idx"], "switches": sws, "entry": k, "crop": code,
                                     "observed (SAAT, ERNTE, ERNTE2[, SAAT1, SAAT2])": got, "expected": want, "automan_row": cs["rows"][code]})
        for r in cs["sow"]:
            sow.append(("(%s, %s, %s, %s, %s, %s)" % (u(r["zeit"]), u(r["before"]), u(r["saat1"]), u(r["saat2"]), u(r["prev"]), u(r["after"])), cs, r))
        for r in cs["hdec"]:
            hdec.append(("(%s, %s, (%s, %s, %s, %s), (%s, %s, %s, %s))" % ((u(r["zeit"]), waterlib.b(r["called"])) + tuple(u(x) for x in r["e"]) + tuple(u(x) for x in r["next"])), cs, r))
        for r in cs["airr"]:
            airr.append(("(%s, %s, (%s, %s, %s), (%s, %s, %s))" % (u(r["zeit"]), u(r["saat"]), waterlib.fl(r["intwick"]), waterlib.fl(r["irrst1"]), waterlib.fl(r["irrst2"]),
                                                                     waterlib.fl(r["defzsum"]), waterlib.fl(r["irrmax"]), waterlib.fl(r["amount"])), cs, r))
        for r in cs["an"]:
            an.append(("(%s, %s, [%s])" % (waterlib.fl(r["pre"]), waterlib.fl(r["post"]), "; ".join("(%s, %s)" % (waterlib.fl(a), waterlib.fl(b)) for a, b in r["cand"])), cs, r))
        fin = cs["final"]
        rot.append(("(%s, %s, ([%s], [%s], [%s]), [%s])" % (u(ini["beginn"]), u(ini["ende"]), "; ".join(u(x) for x in fin["saat"]), "; ".join(u(x) for x in fin["ernte"]),
                                                           "; ".join(u(x) for x in fin["ernte2"]), "; ".join("(%s, %s, %s)" % (u(z), u(kd), u(k)) for z, kd, k in _events(cs))), cs, None))
    groups = [("sow", sow, "sow_check", "(int * int * int * int * int * int)"),
              ("hdec", hdec, "hdec_check", "(int * bool * (int * int * int * int) * (int * int * int * int))"),
              ("airr", airr, "airr_check", "(int * int * (float * float * float) * (float * float * float))"),
              ("an", an, "an_check", "(float * float * list (float * float))"),
              ("rot", rot, "rot_check", "(int * int * (list int * list int * list int) * list (int * int * int))")]
    items, index = [], {}
    for name, lst, chk, ty in groups:
        shard = max(1, (len(lst) + 7) // 8)
        for k in range(0, len(lst), shard):
            nm = "Cases_C16_%s_%d" % (name, k // shard)
            index[nm] = (name, lst, k)
            body = HDR + ["Definition cases : list %s := %s." % (ty, chunked_list([t[0] for t in lst[k:k + shard]], ty, 200)),
                          "Definition M := Eval vm_compute in mismatches %s %d%%nat cases." % (chk, k), "Print M."]
            items.append((nm, "\n".join(body) + "\n"))
        c.dist[name + "-records"] = len(lst)
    for nm, rc3, o in ctx.coq_eval_many(items, timeout=900):
        m = re.search(r"M\s*=\s*(.*?)\s*:\s*list \(nat \* nat\)", o, re.S)
        if rc3 != 0 or not m:
            c.mismatches.append({"kind": "coq-eval", "shard": nm, "output": o[-1500:]})
            continue
        pairs = re.findall(r"\(\s*(\d+)(?:%nat)?\s*,\s*(\d+)(?:%nat)?\s*\)", m.group(1))
        if m.group(1).strip() != "[]" and not pairs:
            c.mismatches.append({"kind": "coq-eval", "shard": nm, "output": o[-1500:]})
        name, lst, _ = index[nm]
        for idx, mask in pairs:
            t, cs, r = lst[int(idx)]
            c.mismatches.append({"kind": {"sow": "automatic-sowing-decision", "hdec": "automatic-harvest-decision", "airr": "automatic-irrigation",
                                          "an": "automatic-N-amount", "rot": "rotation-event-sequence"}[name], "mask": int(mask),
                                 "case": cs["idx"], "switches": "".join("MFIH"[i] if cs["sw"][i] else "-" for i in range(4)), "record": r if r else t[:600],
                                 "crops": [(a, str(s), str(h)) for a, s, h, _ in cs["crops"]]})
    # how sharp: decisions that do not depend on the trigger
    sharp = sum(1 for _, cs, r in sow if r["zeit"] < r["saat1"] or r["zeit"] == r["saat2"] or r["zeit"] <= r["prev"] + 4)
    c.dist["sow-records-trigger-independent"] = sharp
    c.dist["sowings-set"] = sum(1 for _, cs, r in sow if r["after"] != r["before"])
    c.dist["harvests-decided"] = sum(1 for _, cs, r in hdec if r["e"][0] == 0 and r["e"][2] != 0)
    c.cases = len(sow) + len(hdec) + len(airr) + len(an) + len(rot)
    c.nontrivial = len(set((cs["sw"], tuple(a for a, _, _, _ in cs["crops"]), cs["fmt"]) for _, cs, _ in rot))
    c.samples = ["c16_%d switches=%s %s crops=%s" % (cs["idx"], "".join("MFIH"[i] if cs["sw"][i] else "-" for i in range(4)), FMTS[cs["fmt"]],
                                                     [(a, str(s), str(h)) for a, s, h, _ in cs["crops"]]) for _, cs, _ in rot[:4]]
    ctx.extra["runs"] = len(rot)
    ctx.extra["simulated_days"] = sum(cs["run"]["days"] for _, cs, _ in rot)
    return c


def oracle(ctx, search):
    rc, cases, err, ex = _run(ctx)
    if rc != 0:
        return [Fail(key="harness-crash", what="the in-process runs aborted (log.Fatal/panic)", stderr=err[-800:])]
    fails = []
    checked = 0
    for cs in cases:
        tag = "c16_%d" % cs["idx"]
        sws = "".join("MFIH"[i] if cs["sw"][i] else "-" for i in range(4))
        def fail(key, what, **kw):
            fails.append(Fail(key="%s:%s:%s" % (key, sws, tag), what=what, case=tag, switches=sws, format=FMTS[cs["fmt"]],
                              begin=str(cs["begin"]), end=str(cs["end"]), crops=[(a, str(s), str(h), {k: str(v) for k, v in (w or {}).items()}) for a, s, h, w in cs["crops"]],
                              automan=list(cs["rows"].values()), **kw))
        if cs["run"] is None or not cs["run"]["success"] or cs["log"] is None or cs["crec"] is None:
            fail("run", "the run failed or wrote no crop/management file: %s" % ((cs["run"] or {}).get("err")))
            continue
        automan, autofert, autoirri, autohar = cs["sw"]
        E = cs["E"]
        sowlog = [(z, p.get("Crop", "").strip()) for (z, k, p) in cs["log"] if k == "sowing"]
        harlog = [(z, p.get("Crop", "").strip()) for (z, k, p) in cs["log"] if k == "harvest"]
        crops = cs["crops"]
        # rotation order: k-th sowing / harvest / crop record belongs to rotation entry k
        for name, lst in (("sowing", sowlog), ("harvest", harlog)):
            want = [c_[0] for c_ in crops[1:1 + len(lst)]]
            if [c_ for _, c_ in lst] != want or len(lst) > len(crops) - 1:
                fail("rotation-order", "%s events are for crops %s, the rotation says %s" % (name, [c_ for _, c_ in lst], want))
        if len(cs["crec"]) != len(harlog):
            fail("crop-records", "%d crop records for %d harvests" % (len(cs["crec"]), len(harlog)))
        for k, (sd, hy, hdoy, code) in enumerate(cs["crec"], start=1):
            checked += 1
            if k >= len(crops):
                break
            if code.strip() != crops[k][0] or hy != crops[k][2].year:
                fail("crop-records", "crop record %d carries crop %r harvest year %d, rotation entry %d is %s harvested in %d"
                     % (k, code, hy, k, crops[k][0], crops[k][2].year))
            if k - 1 < len(harlog) and numday(harlog[k - 1][0]).timetuple().tm_yday != hdoy:
                fail("crop-records", "crop record %d: harvest day of year %d, harvest happened on %s" % (k, hdoy, numday(harlog[k - 1][0])))
            if k - 1 < len(sowlog) and sd != log_date(numday(sowlog[k - 1][0]), cs["fmt"]):
                fail("crop-records", "crop record %d: sowing date %s, sowing happened on %s" % (k, sd, numday(sowlog[k - 1][0])))
        for k in range(1, len(crops)):
            code, s, h, w = crops[k]
            sz = sowlog[k - 1][0] if k - 1 < len(sowlog) else None
            hz = harlog[k - 1][0] if k - 1 < len(harlog) else None
            prev_h = cs["B"] if k == 1 else (harlog[k - 2][0] if k - 2 < len(harlog) else None)
            checked += 1
            fixed_s = (not automan) or w["fixed_sow"]
            fixed_h = (not autohar)
            if fixed_s:
                moved = autohar and prev_h is not None and sz == prev_h + 4 and daynum(s) < prev_h + 4
                if daynum(s) <= E and sz != daynum(s) and not moved:
                    fail("fixed-sowing-date", "entry %d (%s): sown on %s, the rotation file says %s" % (k, code, sz and numday(sz), s))
            else:
                lo, hi = daynum(w["w1"]), daynum(w["w2"])
                if sz is None:
                    if hi <= E and prev_h is not None and prev_h < lo:
                        fail("sowing-window", "entry %d (%s): not sown although its window %s..%s lies inside the run" % (k, code, w["w1"], w["w2"]))
                elif not (lo <= sz <= hi) or (prev_h is not None and sz <= prev_h):
                    fail("sowing-window", "entry %d (%s): sown on %s, window %s..%s, previous harvest %s"
                         % (k, code, numday(sz), w["w1"], w["w2"], prev_h and numday(prev_h)))
            if fixed_h:
                if daynum(h) <= E and hz != daynum(h) and sz is not None:
                    fail("fixed-harvest-date", "entry %d (%s): harvested on %s, the rotation file says %s" % (k, code, hz and numday(hz), h))
            else:
                latest = daynum(w["latest"])
                if hz is None:
                    if latest <= E and sz is not None and sz < latest - 1:
                        fail("harvest-latest", "entry %d (%s): sown on %s but not harvested by the latest date %s" % (k, code, numday(sz), w["latest"]))
                elif hz > latest:
                    fail("harvest-latest", "entry %d (%s): harvested on %s, latest date %s" % (k, code, numday(hz), w["latest"]))
        for r in cs["airr"]:
            checked += 1
            iw, s1, s2 = go_hex(r["intwick"]), go_hex(r["irrst1"]), go_hex(r["irrst2"])
            amt, mx = go_hex(r["amount"]), go_hex(r["irrmax"])
            if not (s1 <= iw < s2 + 1) or not (0 < r["saat"] < r["zeit"]):
                fail("irrigation-outside-stages", "day %s: automatic irrigation at development stage %g, configured stages %g..%g, sown %s"
                     % (numday(r["zeit"]), iw, s1, s2, r["saat"] and numday(r["saat"])))
            if amt > mx or amt < 0 or r["adv"] != 1:
                fail("irrigation-above-maximum", "day %s: automatic irrigation of %r mm, configured daily maximum %r mm" % (numday(r["zeit"]), amt, mx))
            if abs((go_hex(r["regen_post"]) - go_hex(r["regen_pre"])) * 10 - amt) > 1e-9 * (1 + amt):
                fail("irrigation-amount", "day %s: rain of the day rose by %r cm for an irrigation of %r mm" % (numday(r["zeit"]), go_hex(r["regen_post"]) - go_hex(r["regen_pre"]), amt))
        if not autoirri and [1 for (z, k, p) in cs["log"] if k == "irrigation"]:
            fail("irrigation-unscheduled", "irrigation events although automatic irrigation is off and the irrigation file is empty")
        if autoirri:
            for (z, k, p) in cs["log"]:
                if k == "irrigation" and z not in [r["zeit"] for r in cs["airr"]]:
                    fail("irrigation-unobserved", "irrigation log line on %s without a probed irrigation" % numday(z))
        if autofert:
            for (z, k, p) in cs["log"]:
                if k == "fertilization":
                    checked += 1
                    nd = go_hex(p["Ndirect"]) if "Ndirect" in p else 0.0
                    if nd < 0:
                        fail("negative-automatic-N", "automatic N application of %r kg N/ha on %s" % (nd, numday(z)))
            for r in cs["an"]:
                if go_hex(r["post"]) < go_hex(r["pre"]):
                    fail("negative-automatic-N", "NFERTSIM fell from %r to %r on %s" % (go_hex(r["pre"]), go_hex(r["post"]), numday(r["zeit"])))
    ctx.extra["oracle_checks"] = checked
    ctx.extra["oracle_runs"] = len(cases)
    return fails


LEVEL_TEXT = ("Machine-checked proof (Coq) of the decision logic: closed form of the sowing/harvest event sequence for every rotation "
              "with ascending dates and every run length; sowing inside its window and after the previous harvest + 4 (or forced on "
              "the window end), harvest not after the latest date, irrigation only inside the stage window and at most IRRMAX, "
              "automatic N >= 0 — for ALL trigger sequences (all weather). The decisions of whole real runs over the 16 switch "
              "combinations are compared with the model in Coq each run, and the property is evaluated directly on the crop "
              "file, the management log and the probe.")
LEVEL_NOTE = ("Partial in that the weather/state dependent trigger conditions are oracles (boolean inputs), the automan/crop file "
              "reader is mirrored in python (window arrays compared with the real ones), and the crop-skip branch for organic "
              "fertiliser after harvest is not modelled. Axioms: only those of Coq's Reals library (irrigation/N theorems).")
TECHNIQUE = "Coq proof of the decision rules and the rotation cursor (induction over the day loop) + whole-run decision correspondence + result-file oracle"
