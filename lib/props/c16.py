"""C16 — crop rotation is followed and automatic management respects its windows.

proof:           Prop_C16.v over RotationModel (rotation cursor with sowing/harvest tests, automatic sowing / harvest /
                 irrigation / N decision rules with the weather- and state-dependent conditions as boolean oracles):
                 closed form of the event sequence by induction over the day loop, window theorems for all trigger
                 sequences (= all weather)
correspondence:  whole runs of the REAL simulator (in-process, day-loop probe) on generated rotations of shipped crops x the
                 16 combinations of the four automation switches x generated automan tables x 4 date formats: every
                 decision of the automatic sowing and harvest blocks on the days around their windows, every automatic
                 irrigation (deficit recomputed from the probed state, amount bit-exact), every automatic N amount
                 (bit-exact), and the whole sowing/harvest event sequence against the rotation cursor run on the final
                 date arrays — all evaluated in Coq; window arrays after Input against the generated tables
oracle:          the property itself on the crop result file, the management log and the probe
"""
import os, re, json, shutil, random, datetime
from core import Corr, Fail, REPO, chunked_list
from props import waterlib
from props.c10 import daynum, numday, fmt_date, log_date, FMTS, MGMT_CONF, go_hex

PROP_FILES = ["Prop_C16"]
RULE = ("one case = one whole run (2-3 years) of a generated project: rotation of 2-3 shipped crops (spring and winter crops), "
        "one of the 16 switch combinations, generated automan rows (sowing window, latest harvest date, trigger thresholds "
        "from 'fires on the first day' to 'never fires', irrigation stages/depth/maximum, N demands and stages), 4 date formats; "
        "non-trivial = distinct (switch combination, crop sequence, date format)")
TRUSTED = ["python calendar (datetime) for day numbers of generated dates",
           "the harness recomputes the irrigation deficit DEFZSUM (run.go:419-440) from the probed state — an oracle input of the model"]
ASSUMPTIONS = ["trigger conditions (weather, soil moisture, temperature sums, development stage reached) are oracles: a decision must "
               "equal the model's decision for some trigger value; sharp where the model does not depend on the trigger",
               "rotations whose sowing windows open after the latest harvest date of the preceding crop (the property's quantifier); "
               "no organic fertiliser in the rotation (autorg = 0): the crop-skip branch of nitro.go:463-528 is not modelled",
               "Go int arithmetic modelled on unbounded Z"]

_cache = {}
SPRING = ["SM", "SOY", "ZR", "K", "SW"]
WINTER = ["WW", "WG", "WR"]

CROPOUT = """FillCharacter: ' '
SeperatorCharacter: ','
NaValue: n.a.
DataColumns:
- Format: '%s'
  DataAlignment: left
  Width: 12
  VariableName: SowDate
- Format: '%4d'
  DataAlignment: left
  Width: 5
  VariableName: HarvestYear
- Format: '%3d'
  DataAlignment: left
  Width: 4
  VariableName: HarvestDOY
- Format: '%3s'
  DataAlignment: left
  Width: 5
  VariableName: Crop
"""


def dm(d, f):
    """4-digit day/month in the order of the date format"""
    return "%02d%02d" % ((d.day, d.month) if f < 2 else (d.month, d.day))


def automan_row(rnd, f, code, sow, har, har_latest, fixed_sow, fixed_har, off1=None, org=None, off2=None, irr=None):
    buf = [" "] * 185
    def put(pos, text):
        for i, ch in enumerate(text):
            buf[pos + i] = ch
    w1 = sow - datetime.timedelta(days=rnd.choice([0, 3, 10, 25]) if off1 is None else off1)
    w2 = sow + datetime.timedelta(days=rnd.choice([0, 1, 5, 14, 30]) if off2 is None else off2)
    put(0, "%-3s" % code)
    put(4, "0000" if fixed_sow else dm(w1, f)); put(9, "0000" if fixed_sow else dm(w2, f))
    put(14, "0000" if fixed_har else dm(har_latest, f))
    # which factor decides the sowing / harvest day: rain, temperature, moisture, nothing (always) or never (forced on the last day)
    prof = rnd.choice(["rain", "rain", "temp", "moist", "always", "never", "mixed"])
    tsmin = {"rain": "0.0", "always": "0.0", "temp": rnd.choice(["9.1", "12.0", "5.0"]), "moist": "0.0", "never": "30.0",
             "mixed": rnd.choice(["0.0", "5.0", "9.1", "12.0"])}[prof]
    put(19, "%-5s" % tsmin)
    if prof in ("temp", "mixed") and rnd.random() < 0.3:
        put(19, "%-5s" % rnd.choice(["12.0", "25.0", "2.0"])); put(24, "x")
    smin, smax = {"moist": (rnd.choice(["30.0", "50.0"]), rnd.choice(["60.0", "80.0"])), "mixed": (rnd.choice(["0.0", "30.0"]), rnd.choice(["97.0", "60.0", "150.0"]))}.get(prof, ("0.0", "150.0"))
    put(25, "%5s" % smin); put(32, "%5s" % smax)
    hprof = rnd.choice(["rain", "rain", "moist", "always", "mixed"])
    put(39, "%5s" % "0.0"); put(46, "%5s" % {"moist": rnd.choice(["60.0", "70.0"]), "mixed": rnd.choice(["99.0", "70.0"])}.get(hprof, "150.0"))
    put(53, "%4s" % {"rain": rnd.choice(["0.5", "1.0", "2.0"]), "mixed": rnd.choice(["5.0", "2.0", "0.1"])}.get(hprof, "20.0"))
    put(60, "%4s" % {"rain": rnd.choice(["0.1", "0.0", "0.3"]), "mixed": rnd.choice(["0.5", "0.1", "9.0"])}.get(hprof, "9.0"))
    put(68, "%3d" % (rnd.choice([0, 100, 380]) if prof in ("temp", "mixed") else 0)); put(74, "%2d" % rnd.choice([0, 0, 5]))
    s1 = rnd.choice([1, 2, 3, 4]); s2 = rnd.choice([x for x in (2, 3, 4, 5, 6) if x >= s1])
    if irr:
        s1, s2 = irr[0], irr[1]
    put(80, "%d" % s1); put(87, "%d" % s2)
    nd = (rnd.choice([0, 60, 120, 200]), rnd.choice([0, 80, 120]), rnd.choice([0, 0, 60]))
    put(94, "%3d" % nd[0]); put(100, "%3d" % nd[1]); put(106, "%3d" % nd[2])
    put(112, rnd.choice(["S0 ", "S1 ", "S2 ", "100", "0  "])); put(119, rnd.choice(["S3 ", "S2 ", "140", "0  "])); put(127, rnd.choice(["S4 ", "0  ", "160"]))
    put(135, "%2d" % rnd.choice([5, 3, 7]))
    if org:
        put(143, "%-3s" % org[0]); put(149, "%3d" % org[1]); put(156, org[2] + "%-2d" % org[3])
    else:
        put(143, "---"); put(149, "  0"); put(156, "000")
    il, idp, imx = rnd.choice([40, 60, 80, 95]), rnd.choice([30, 60, 90]), rnd.choice([0, 1, 5, 10, 20, 50])
    if irr:
        il, idp, imx = irr[2], irr[3], irr[4]
    put(163, "%3d" % il); put(170, "%3d" % idp); put(177, "%3d" % imx)
    automan_row.last = {"irrst1": float(s1), "irrst2": float(s2), "irrlow": il / 100.0, "irrdep": idp / 10.0, "irrmax": float(imx),
                        "ndem1": float(nd[0]), "ndem2": float(nd[1]), "ndem3": float(nd[2])}
    return "".join(buf).rstrip() + " ", (w1, w2)


ORG_FERT = ["RM", "RG", "SM", "HM", "KSL", "BAK", "FM", "XXQ"]


def make_case(rnd, idx, force_sw=None, org_p=0.35, skip=False, lastskip=False):
    f = idx % 4
    sw = (idx // 4) % 16 if idx < 64 else rnd.randrange(16)
    if force_sw is not None:
        sw = force_sw
    automan, autofert, autoirri, autohar = bool(sw & 1), bool(sw & 2), bool(sw & 4), bool(sw & 8)
    y0 = rnd.randrange(1980, 1988)
    nyears = 2 if rnd.random() < 0.6 else 3
    begin = datetime.date(y0, rnd.choice([7, 8]), rnd.randrange(1, 29))
    end = datetime.date(y0 + nyears, rnd.choice([11, 12]), rnd.randrange(2, 29))
    prev_t = [rnd.choice(["H", "S"])]
    def gen_org():
        # the after-sowing variant of an entry is governed by the timing letter of the PREVIOUS entry (nitro.go:92), so
        # runs of equal letters are generated
        if autofert and rnd.random() < org_p:
            t = prev_t[0] if rnd.random() < 0.7 else rnd.choice(["H", "S"])
            prev_t[0] = t
            return (rnd.choice(ORG_FERT), rnd.choice([200, 150, 30, 5]), t, rnd.choice([0, 1, 1, 3, 10, 25]))
        return None
    org0 = gen_org()
    crops = [(rnd.choice(["SM", "WW", "SOY", "WG"]), None, begin, {"org": org0})]
    rows = {}
    skipped_any = False
    last_free = begin                      # day after which the next sowing window may open
    y = y0                                 # year of the last harvest
    margin = datetime.timedelta(days=27)
    while len(crops) <= 3:
        cand = []
        off1 = None
        ws = datetime.date(y, rnd.choice([9, 10]), rnd.randrange(5, 26))
        if last_free.year == y and last_free.month in (8, 9, 10) and rnd.random() < 0.6:
            # tight: the window opens 1..5 days after the latest harvest date of the preceding crop
            off1 = rnd.choice([0, 2, 6])
            ws = last_free + datetime.timedelta(days=rnd.randrange(1, 6) + off1)
            cand.append((rnd.choice(WINTER), ws, datetime.date(y + 1, rnd.choice([7, 8]), rnd.randrange(1, 25))))
            cand.append(cand[0])
        elif ws - margin > last_free:
            cand.append((rnd.choice(WINTER), ws, datetime.date(y + 1, rnd.choice([7, 8]), rnd.randrange(1, 25))))
        ss = datetime.date(y + 1, rnd.choice([4, 5]), rnd.randrange(1, 26))
        cand.append((rnd.choice(SPRING), ss, datetime.date(y + 1, rnd.choice([9, 10]), rnd.randrange(1, 25))))
        code, sow, har = cand[0] if len(cand) >= 2 and (off1 is not None or rnd.random() < 0.5) else cand[-1]
        if code == "ZR" and off1 is not None:
            off1 = None
        skip_here = False
        if skip and automan and autofert and not skipped_any and len(crops) >= 2 and crops[-1][3]["org"] and crops[-1][3]["org"][2] == "H":
            # crop-skip scenario (outside C16's quantifier): this entry's sowing window ends before the harvest of the
            # preceding entry, which carries organic fertiliser "H": the entry is passed over at that harvest
            # (the dates of the rotation file must ascend, so only the automan window lies before that harvest)
            prev_har = crops[-1][2]
            sow = prev_har + datetime.timedelta(days=rnd.choice([3, 6]))
            anchor = prev_har - datetime.timedelta(days=rnd.choice([2, 12, 20, 35]))
            har = datetime.date(prev_har.year + 1, rnd.choice([7, 8]), rnd.randrange(1, 25))
            code = rnd.choice(WINTER)
            off1 = 3
            skip_here = skipped_any = anchor.year == sow.year
        if har > end - datetime.timedelta(days=45) or code in rows:
            break
        fixed_sow = automan and rnd.random() < 0.15
        fixed_har = autohar and rnd.random() < 0.2
        latest = har if fixed_har else har + datetime.timedelta(days=rnd.choice([0, 5, 20, 35]))
        org = gen_org()
        if skip and automan and autofert and not skipped_any and len(crops) == 1 and not skip_here:
            org = (rnd.choice(ORG_FERT[:6]), 150, "H", rnd.choice([0, 1, 5]))
        if skip_here:
            fixed_sow = False
        row, (w1, w2) = automan_row(rnd, f, code, anchor if skip_here else sow, har, latest, fixed_sow, fixed_har, off1, org, 2 if skip_here else None)
        rows[code] = row
        crops.append((code, sow, har, {"w1": w1, "w2": w2, "latest": latest, "fixed_sow": fixed_sow, "fixed_har": fixed_har, "org": org,
                                       "skip": skip_here, "par": dict(automan_row.last)}))
        last_free = latest if autohar else har
        y = har.year
    if automan and autofert and len(crops) >= 2 and not lastskip:
        # organic fertiliser "H" on the LAST entry makes the code pass over the reader's trailing pseudo-entry and overwrite the
        # last crop record (recorded finding): only in dedicated cases
        o = crops[-1][3].get("org")
        if o and o[2] == "H":
            code_ = crops[-1][0]
            rows[code_] = rows[code_][:156] + "S" + rows[code_][157:]
            crops[-1][3]["org"] = (o[0], o[1], "S", o[3])
    # rows of crops that are not in the rotation, among them codes that extend a rotation code (WRA/WRC for WR, GRE for GR, ...):
    # the reader must select by the exact 3-character code whatever the order of the rows; every value differs per row
    decoys = [c_ for c_ in ["WRA", "WRC", "GRE", "GR", "SMX", "KA", "WWX", "ZRB", "SOZ"] if rnd.random() < 0.5]
    have = set(c_[0] for c_ in crops)
    for dc in decoys:
        if dc not in have and dc not in rows:
            ds = begin + datetime.timedelta(days=rnd.randrange(200, 500))
            rows["~" + dc], _ = automan_row(rnd, f, dc, ds, ds + datetime.timedelta(days=120), ds + datetime.timedelta(days=rnd.randrange(125, 160)),
                                            False, False, None, (rnd.choice(ORG_FERT), rnd.choice([11, 22, 33]), rnd.choice(["H", "S"]), rnd.randrange(1, 9)))
    if crops[0][0] not in rows:
        rows[crops[0][0]], _ = automan_row(rnd, f, crops[0][0], begin, begin, begin, True, True, None, org0)
    else:
        crops[0] = crops[0][:3] + ({"org": None},)
    return {"idx": idx, "fmt": f, "begin": begin, "end": end, "B": daynum(begin), "E": daynum(end), "crops": crops, "rows": rows,
            "sw": (automan, autofert, autoirri, autohar), "fid": "R%d" % rnd.randrange(1, 9),
            "soil": rnd.choice(["001", "041", "075", "160"]), "fcode": rnd.choice(["109_120", "109_121"]),
            "weather": rnd.choice(["historical", "extreme"]), "row_seed": rnd.randrange(1 << 30),
            "spell_seed": rnd.randrange(1 << 30)}


def write_project(ex, case, prefix="c16_", extreme=False):
    name = "%s%d" % (prefix, case["idx"])
    case["name"] = name
    src, dst = os.path.join(ex, "project", "ex1"), os.path.join(ex, "project", name)
    shutil.rmtree(dst, ignore_errors=True)
    shutil.copytree(src, dst)
    for fn in os.listdir(dst):
        if fn.startswith("init_"):
            os.remove(os.path.join(dst, fn))      # no measurement file (other checks add one to the scratch copy of ex1)
        elif "_ex1" in fn:
            os.rename(os.path.join(dst, fn), os.path.join(dst, fn.replace("_ex1", "_" + name)))
    f, fid = case["fmt"], case["fid"]
    # the shipped measurement file (other checks put a measurement day into the scratch copy of ex1; its dates are EN-long)
    shutil.copy(os.path.join(REPO, "examples", "project", "ex1", "endit_ex1.txt"), os.path.join(dst, "endit_%s.txt" % name))
    open(os.path.join(dst, "managementout_conf.yml"), "w").write(MGMT_CONF)
    open(os.path.join(dst, "cropout_conf.yml"), "w").write(CROPOUT)
    from props import c10
    sched = case.get("sched") or []
    lrnd = random.Random(case["idx"] * 31 + 5)
    def other_fert():
        return "%-9s %3d %-3s %s" % (fid + "Y", lrnd.randrange(10, 200), "KAS", fmt_date(numday(case["B"] + lrnd.randrange(-100, 600)), f))
    fl = c10.interleave(lrnd, ["%-9s %5s %-3s %s" % (fid, a, nm, fmt_date(numday(d), f)) for (d, a, nm) in sched], other_fert) if sched else []
    open(os.path.join(dst, "fert_%s.txt" % name), "w").write("Field_ID  N   Frt date\n" + "".join(l + "\n" for _, l in fl) + "end\n")
    open(os.path.join(dst, "til_%s.txt" % name), "w").write("Field_ID  Ti Typ date\n          cm\n" + "".join(
        "%-9s %2d %d   %s\n" % (fid, dep, ty, fmt_date(numday(d), f)) for (d, dep, ty) in case.get("till", [])) + "end\n")
    open(os.path.join(dst, "irr_%s.txt" % name), "w").write("Field_ID  Ir N03 date\n          mm mg/l\nend\n")
    open(os.path.join(dst, "poly_%s.txt" % name), "w").write("Polyg SID  Field_ID  GH GL Ir comment\n10001 001 %s    99 99 0 own\nend\n" % fid)
    rows = []
    for k, (code, sow, har, w) in enumerate(case["crops"]):
        sw = fmt_date(sow, f) if sow else fmt_date(har - datetime.timedelta(days=120), f)
        flag = 1 if ((w or {}).get("org") or (case.get("autorg") and case["autorg"][k])) else 0
        rows.append("%-9s %-3s %s %s %s %d" % (fid, code, sw, fmt_date(har, f), "080 050" if k == 0 else "000 000", flag))
    def other_crop():
        d = numday(case["B"] + lrnd.randrange(-300, 700))
        return "%-9s %-3s %s %s 000 000 %d" % (fid + lrnd.choice(["Y", "Z"]), lrnd.choice(["SM", "WW", "ZR"]), fmt_date(d, f),
                                              fmt_date(d + datetime.timedelta(days=120), f), lrnd.choice([0, 1]))
    cl = c10.interleave(lrnd, rows, other_crop)
    # the rotation file: classic columns or csv (CropFileFormat), under the default name or under a fileExtension override; with an
    # override, the files of the default names hold a DIFFERENT rotation (crop codes exchanged) that must not be read
    xr = random.Random(case["row_seed"] + 3)
    case["crop_fmt"] = xr.choice(["txt", "txt", "csv"])
    case["ext"] = xr.choice([None, None, "alt", "v2"])
    def crop_text(lines, fmt):
        if fmt == "txt":
            return "Field_ID    crp  sowing harvst Rex yld autorg variety comment\n" + "".join(l + "\n" for l in lines) + "end\n"
        return ("Field_ID,crp,sowing,harvst,Rex,yld,autorg,variety,comment\n" +
                "".join(",".join((l.split() + [""] * 8)[:8]) + "\n" for l in lines) + "end\n")
    for e_ in ("txt", "csv"):
        pth = os.path.join(dst, "crop_%s.%s" % (name, e_))
        if os.path.exists(pth):
            os.remove(pth)
    hdr = open(os.path.join(src, "automan.txt")).read().split("\n")[0]
    order = list(case["rows"].values())
    random.Random(case["row_seed"]).shuffle(order)
    real_ext = case["ext"] or ("csv" if case["crop_fmt"] == "csv" else "txt")
    open(os.path.join(dst, "crop_%s.%s" % (name, real_ext)), "w").write(crop_text([l for _, l in cl], case["crop_fmt"]))
    if case["ext"]:
        codes = [c_[0] for c_ in case["crops"][1:]]
        swap = {}
        if len(set(codes)) >= 2:
            rot_ = codes[1:] + codes[:1]
            swap = dict(zip(codes, rot_))
        elif codes:
            alt = [c_ for c_ in ["SM", "SW", "WW", "WG", "K"] if c_ != codes[0]][0]
            swap = {codes[0]: alt}
            if alt not in case["rows"]:
                order.append("%-3s" % alt + case["rows"][codes[0]][3:])
        def decoy(l):
            t = l.split()
            if t[0] == fid and t[1] in swap and not l.endswith(" 080 050 %s" % t[-1]):
                return l.replace(" %-3s " % t[1], " %-3s " % swap[t[1]], 1)
            return l
        dec = [decoy(l) for _, l in cl]
        open(os.path.join(dst, "crop_%s.txt" % name), "w").write(crop_text(dec, "txt"))
        open(os.path.join(dst, "crop_%s.csv" % name), "w").write(crop_text(dec, "csv"))
        shutil.copy(os.path.join(dst, "poly_%s.txt" % name), os.path.join(dst, "poly_%s.%s" % (name, case["ext"])))
        open(os.path.join(dst, "automan.%s" % case["ext"]), "w").write(hdr + "\n" + "".join(r + "\n" for r in order))
    open(os.path.join(dst, "automan.txt"), "w").write(hdr + "\n" + "".join(r + "\n" for r in order))
    # the four switches: on the batch line in one of the accepted spellings (table featureSwitchStrToID of config.go), the
    # OPPOSITE value in the project's config.yml
    srnd = random.Random(case["spell_seed"])
    table = switch_spellings()
    cfgp = os.path.join(dst, "config.yml")
    cfg = open(cfgp).read()
    spelled = []
    for key, val in zip(("AutoSowingHarvest", "AutoFertilization", "AutoIrrigation", "AutoHarvest"), case["sw"]):
        sp = srnd.choice(sorted(k_ for k_, v_ in table.items() if v_ == bool(val)))
        spelled.append("%s=%s" % (key, sp))
        cfg, n_ = re.subn(r"(?m)^%s:.*$" % key, "%s: %d" % (key, 0 if val else 1), cfg)
        assert n_ == 1, key
    # fertilisation scenario (percent): from the batch line (decoy 77 in the file) or from config.yml
    fr = random.Random(case["spell_seed"] + 9)
    case["fertilization"] = fr.choice([100, 100, 0, 30, 50, 150])
    case["fert_from"] = fr.choice(["line", "config"])
    cfg = re.sub(r"(?m)^Fertilization:.*$", "Fertilization: %d" % (case["fertilization"] if case["fert_from"] == "config" else 77), cfg)
    if case["fert_from"] == "line":
        spelled.append("Fertilization=%d" % case["fertilization"])
    open(cfgp, "w").write(cfg)
    case["spelled"] = spelled
    annual = "3110" if f < 2 else "1031"
    a, b, c, d = case["sw"]
    from props.c10 import sweep_of, apply_sweep
    case["sweep"] = sweep_of(case["spell_seed"] + 321)
    return apply_sweep("project=%s WeatherFolder=%s soilId=%s fcode=%s plotNr=10001 Altitude=73 Latitude=52.6 poligonID=1 "
            "CropFileFormat=%s %s%s ManagementEvents=1 "
            "OutputIntervall=0 Dateformat=%d StartYear=%d EndDate=%s AnnualOutputDate=%s resultfolder=%s"
            % (name, case["weather"] if extreme else "historical", case["soil"], case["fcode"], case["crop_fmt"], ("fileExtension=%s " % case["ext"]) if case["ext"] else "", " ".join(case["spelled"]), f, case["begin"].year, fmt_date(case["end"], f), annual,
               os.path.join(ex, "R", name)), case["sweep"])


def parse_log_date(tok, f):
    a, b, y = tok.split(".")
    y = int(y) + (1900 if len(y) == 2 else 0)
    d, m = (int(a), int(b)) if f < 2 else (int(b), int(a))
    return daynum(datetime.date(y, m, d))


def switch_spellings():
    """accepted spellings of an on/off switch, read from the source (map featureSwitchStrToID in hermes/config.go)"""
    if "spell" not in _cache:
        src = open(os.path.join(REPO, "hermes", "config.go")).read()
        m = re.search(r"var featureSwitchStrToID = map\[string\]FeatureSwitch\{(.*?)\n\}", src, re.S)
        tab = {k_: v_ == "true" for k_, v_ in re.findall(r'"([^"]+)":\s*(true|false)', m.group(1))} if m else {}
        if not tab or True not in tab.values() or False not in tab.values():
            tab = {"1": True, "0": False}
        _cache["spell"] = tab
    return _cache["spell"]


def nrentw_of(code):
    """number of development stages of a shipped crop (line 19 of PARAM.<crop>, columns 66..)"""
    if code not in _cache.setdefault("nrentw", {}):
        ln = open(os.path.join(REPO, "examples", "parameter", "PARAM." + code), errors="replace").read().split("\n")[18]
        _cache["nrentw"][code] = int(ln[65:].split()[0])
    return _cache["nrentw"][code]


def run_cases(ctx, cases, prefix, extreme=False):
    ex = waterlib.prepare_examples(ctx, extreme_rain=extreme)
    extreme = extreme and os.path.isdir(os.path.join(ex, "weather", "extreme"))
    lines = [write_project(ex, c, prefix, extreme) for c in cases]
    lf = os.path.join(ctx.work, prefix + "lines.txt")
    open(lf, "w").write("\n".join(lines) + "\n")
    rc, recs, orc, other, err = waterlib.run_harness(ctx, "c16", ["-work", ex, "-lines", lf, "-slots", "8"])
    for c in cases:
        c.update(init=None, final=None, run=None, sow=[], hdec=[], harv=[], airr=[], af=[], till=[] if not isinstance(c.get("till"), list) else c["till"], tillrec=[], log=None, crec=None)
    for r in recs:
        c = cases[r["line"]]
        if r["k"] in ("init", "final", "run"):
            c[r["k"]] = r
        elif r["k"] == "till":
            c["tillrec"].append(r)
        else:
            c[r["k"]].append(r)
    for c in cases:
        d = os.path.join(ex, "R", c["name"])
        if os.path.isdir(d):
            for fn in os.listdir(d):
                if fn.startswith("M") and fn.endswith(".txt"):
                    c["log"] = [(parse_log_date(t[0], c["fmt"]), t[1], dict(re.findall(r"(\w+): (\S*)", ln)))
                                for ln in open(os.path.join(d, fn)).read().split("\n") if ln.strip() for t in [ln.split(" ")]]
                if fn.startswith("C"):
                    rows = [[t for t in re.split(r"[,\s]+", ln.strip()) if t] for ln in open(os.path.join(d, fn)).read().split("\n") if ln.strip()]
                    c["crec"] = [(r[0], int(r[1]), int(r[2]), r[3]) for r in rows if len(r) >= 4 and r[1].isdigit() and r[2].isdigit()]
    return rc, cases, err, ex


def _run(ctx):
    if "run" in _cache:
        return _cache["run"]
    rnd = random.Random(ctx.seed * 104729 + 16)
    n = 3000 if ctx.thorough else 64
    cases = [make_case(rnd, i) for i in range(n)]
    # crop-skip scenarios (automatic sowing + automatic fertilisation with organic fertiliser "H")
    nskip = 40 if ctx.thorough else 4
    cases += [make_case(rnd, n + i, force_sw=rnd.choice([3, 7, 11, 15]), org_p=1.0, skip=True) for i in range(nskip)]
    # a permanent crop standing into a second year under automatic irrigation with the stage window 3..6: when the stand re-sprouts
    # (development stage back to 1) it must not be irrigated before stage 3 again
    for j in range(12 if ctx.thorough else 2):
        pc = make_case(rnd, len(cases), force_sw=4, org_p=0.0)
        y0 = pc["begin"].year
        code = ["AA", "GR"][j % 2]
        sow, har = datetime.date(y0 + 1, 4, rnd.randrange(5, 25)), datetime.date(y0 + 2, 9, rnd.randrange(5, 25))
        pc["end"] = datetime.date(y0 + 2, 11, 20); pc["E"] = daynum(pc["end"])
        row, (w1, w2) = automan_row(rnd, pc["fmt"], code, sow, har, har, True, True, None, None, None, (3, 6, rnd.choice([80, 95]), 60, 20))
        pc["crops"] = [pc["crops"][0], (code, sow, har, {"w1": w1, "w2": w2, "latest": har, "fixed_sow": True, "fixed_har": True, "org": None,
                                                      "skip": False, "par": dict(automan_row.last)})]
        pc["rows"] = {k_: v_ for k_, v_ in pc["rows"].items() if (k_ == pc["crops"][0][0] or k_.startswith("~")) and k_.lstrip("~") != code}
        pc["rows"][code] = row
        pc["weather"] = "historical"
        cases.append(pc)
    # dedicated case of a recorded finding: organic fertiliser "H" on the last rotation entry with automatic sowing + fertilisation
    cases += [make_case(rnd, len(cases), force_sw=3, org_p=1.0, lastskip=True)]
    rc, cases, err, ex = run_cases(ctx, cases, "c16_", extreme=True)
    more = second_pass_cases(ctx, rnd, cases, 60 if ctx.thorough else 8) if rc == 0 else []
    if more:
        rc2, more, err2, _ = run_cases(ctx, more, "c16b_", extreme=True)
        if rc2 != 0:
            rc, err = rc2, err2
        cases = cases + more
    _cache["run"] = (rc, cases, err, ex)
    return _cache["run"]


def second_pass_cases(ctx, rnd, cases, limit):
    """boundary of the rule that moves a passed fixed sowing date: from first-pass runs with fixed sowing + automatic harvest, new
    cases whose next entry's sowing date lies -2, 1, 2, 3, 4, 5 days after the harvest the first pass decided by its condition"""
    import copy
    more = []
    for cs in cases:
        if cs["sw"][0] or not cs["sw"][3] or len(more) >= limit or not cs.get("hdec"):
            continue
        trig = [r for r in cs["hdec"] if r["e"][0] == 0 and r["e"][2] == r["zeit"] and r["akf"] >= 1]
        if not trig:
            continue
        r = trig[0]; k = r["akf"]; h = r["zeit"]
        if k >= len(cs["crops"]) or cs["crops"][k][3]["fixed_har"]:
            continue
        off = [-2, 1, 2, 3, 4, 5][len(more) % 6]
        sow = numday(h + off)
        spring = 3 <= sow.month <= 7
        har = sow + datetime.timedelta(days=115) if spring else datetime.date(sow.year + 1, 7, 20)
        if har > cs["end"] - datetime.timedelta(days=30):
            continue
        nc = {key: copy.deepcopy(cs[key]) for key in ("fmt", "begin", "end", "B", "E", "sw", "fid", "soil", "fcode", "weather", "row_seed", "spell_seed")}
        nc["idx"] = len(cases) + len(more)
        crops = copy.deepcopy(cs["crops"][:k + 1])
        code = [c_ for c_ in (["SW", "SM", "K", "SOY"] if spring else ["WW", "WG", "WR"]) if c_ not in [x[0] for x in crops]][0]
        # the file's harvest date of entry k only gives the year of the latest-harvest date; it must precede the new sowing date
        kc = crops[k]
        crops[k] = (kc[0], kc[1], min(kc[2], numday(h - 12)), kc[3])
        rows = {c_: cs["rows"][c_] for c_ in cs["rows"] if c_ in [x[0] for x in crops] or c_.startswith("~")}
        row, (w1, w2) = automan_row(rnd, nc["fmt"], code, sow, har, har + datetime.timedelta(days=10), False, False)
        rows[code] = row
        crops.append((code, sow, har, {"w1": w1, "w2": w2, "latest": har + datetime.timedelta(days=10), "fixed_sow": False, "fixed_har": False,
                                       "org": None, "skip": False, "par": dict(automan_row.last)}))
        nc["crops"], nc["rows"], nc["second_pass"] = crops, rows, {"harvest": h, "offset": off, "entry": k + 1}
        more.append(nc)
    return more


def hs_run(ctx):
    """fixed sowing dates + automatic harvest (used by C10): first pass, then the next sowing date -2..5 days after a condition harvest"""
    if "hs" in _cache:
        return _cache["hs"]
    rnd = random.Random(ctx.seed * 13 + 2016)
    n = 160 if ctx.thorough else 14
    cases = [make_case(rnd, i, force_sw=rnd.choice([8, 8, 12, 10, 14]), org_p=0.0) for i in range(n)]
    for cs in cases:
        # tillage dated before sowing and inside the stand of every entry (fixed sowing date, harvest decided automatically)
        till, last = [], cs["B"] + 3
        for k in range(1, len(cs["crops"])):
            code, s_, h_, w_ = cs["crops"][k]
            d1 = daynum(s_) - rnd.randrange(3, 12)
            if d1 > last + 6:
                till.append((d1, rnd.choice([5, 10, 20]), 1, "before", k))
            d2 = daynum(s_) + rnd.randrange(15, 50)
            if d2 < daynum(h_) - 25 and rnd.random() < 0.8:
                till.append((d2, rnd.choice([5, 10, 20]), 1, "inside", k))
            last = daynum(w_["latest"]) + 4
        cs["till_plan"] = till
        cs["till"] = [(d, dep, ty) for d, dep, ty, _, _ in till]
    rc, cases, err, ex = run_cases(ctx, cases, "c10hs_")
    more = second_pass_cases(ctx, rnd, cases, 48 if ctx.thorough else 6) if rc == 0 else []
    if more:
        rc2, more, err2, _ = run_cases(ctx, more, "c10hsb_")
        if rc2 != 0:
            rc, err = rc2, err2
        cases = cases + more
    _cache["hs"] = (rc, cases, err, ex)
    return _cache["hs"]


def org_run(ctx):
    """runs with automatic fertilisation and organic fertiliser on every entry (used by C10: organic payload, crop skip)"""
    if "org" in _cache:
        return _cache["org"]
    rnd = random.Random(ctx.seed * 7 + 1016)
    n = 400 if ctx.thorough else 14
    cases = [make_case(rnd, i, force_sw=rnd.choice([2, 3, 3, 10, 11, 6, 15]), org_p=0.9, skip=(i % 3 == 0)) for i in range(n)]
    # scheduled fertilisation (AutoFertilization off) under every combination of the other three switches, rotation rows
    # flagged autorg = 1, first fertilisations only after the first harvests (more crops harvested than events carried out)
    m = 200 if ctx.thorough else 8
    for i in range(m):
        cs = make_case(rnd, n + i, force_sw=[0, 1, 4, 5, 8, 9, 12, 13][i % 8], org_p=0.0)
        cs["autorg"] = [1 if rnd.random() < 0.7 else 0 for _ in cs["crops"]]
        lo = daynum(cs["crops"][1][2]) + 20 if len(cs["crops"]) > 1 else cs["B"] + 300
        ds = sorted(set(rnd.randrange(lo, max(lo + 1, cs["E"] - 30)) for _ in range(rnd.choice([1, 2, 3, 4]))))
        names = [r[0] for r in __import__("props.c10", fromlist=["x"]).read_table()]
        cs["sched"] = [(d, str(rnd.randrange(20, 200)), rnd.choice(names)) for d in ds]
        cases.append(cs)
    _cache["org"] = run_cases(ctx, cases, "c10org_")
    return _cache["org"]


def rejected(cs):
    """formerly: run error 'tillage date ... before harvest ...' of a generated run under automatic harvest (the date the crop-skip
    branch sets rode along until it met the forced harvest).  Since /repo F35 (tillage waits only while the crop is in the ground,
    and is put right after an automatic harvest) this cannot happen any more: no tolerance"""
    return False


def has_skip(cs):
    return any(h["adv"] >= 2 for h in cs["harv"])


def _events(cs):
    """observed sowing (management log) and harvest (cursor advance) events, in day order, sowing before harvest"""
    ev = [(z, 0, None) for (z, k, p) in cs["log"] if k == "sowing"]
    ev += [(h["zeit"], 1, h["akf"] + j) for h in cs["harv"] for j in range(max(1, h["adv"]))]
    ev.sort(key=lambda e: (e[0], e[1]))
    out, k = [], 0
    for z, kind, akf in ev:
        if kind == 1:
            out.append((z, 1, akf)); k = akf + 1
        else:
            out.append((z, 0, k))
    return out


HDR = ["From Coq Require Import ZArith List Bool Floats Uint63.", "From Hermes Require Import Num RotationModel C16Corr.",
       "Import ListNotations.", "Open Scope float_scope."]
HDR10 = ["From Coq Require Import ZArith List Bool Floats Uint63 String.", "From Hermes Require Import Num SchedModel C10Corr.",
         "Import ListNotations.", "Open Scope float_scope."]
KIND = {"sow": "automatic-sowing-decision", "hdec": "automatic-harvest-decision (some trigger value)", "hdec2": "automatic-harvest-decision (modelled condition)",
        "airr": "automatic-irrigation (decision and amount on the probed state)", "af": "automatic-fertilisation call",
        "hcur": "harvest cursor / organic date / crop skip", "till": "tillage date under automatic harvest / firing", "skip": "crop skip: NAOS[0]/DSUMM/NFOS[0] against the same harvest call without skip", "rot": "rotation-event-sequence", "odueng": "organic fertiliser split (dueng)"}
AF_MASK = ["DSUMM", "NFERTSIM", "NDOY1..3", "ZTDG[AKF]", "which organic application fired"]


def u(x):
    return "%d%%uint63" % x


def fl(x):
    return waterlib.fl(x)


def fls(l):
    return "[" + "; ".join(fl(x) for x in l) + "]"


def sws_of(cs):
    return "".join("MFIH"[i] if cs["sw"][i] else "-" for i in range(4))


def org_dgmg(cs, k):
    o = (cs["crops"][k][3] or {}).get("org")
    return o


def build_records(cases, c, table=None):
    """Coq terms of every probed decision; returns the groups [(name, [(term, case, record)], check, type, header)]"""
    from props import c10
    sow, hdec, hdec2, airr, af, hcur, rot, odu, skp, til = [], [], [], [], [], [], [], [], [], []
    for cs in cases:
        sws = sws_of(cs)
        if rejected(cs):
            c.bump("generated-input-rejected (tillage date inside a growing period)")
            continue
        if cs["init"] is None or cs["run"] is None or not cs["run"]["success"] or cs["log"] is None or cs["final"] is None:
            c.mismatches.append({"kind": "run-failed", "case": cs["name"], "switches": sws, "err": (cs["run"] or {}).get("err", "no run record"),
                                 "crops": [(a, str(s), str(h)) for a, s, h, _ in cs["crops"]]})
            continue
        c.bump("switches " + sws); c.bump(FMTS[cs["fmt"]]); c.bump("sweep " + (cs.get("sweep") or "(project configuration)"))
        ini = cs["init"]
        automan, autofert, _, autohar = cs["sw"]
        if (ini["automan"], ini["autofert"], ini["autoirri"], ini["autohar"]) != tuple(cs["sw"]):
            c.mismatches.append({"kind": "automation-switches", "case": cs["name"], "configured (sowing, fertilisation, irrigation, harvest)": cs["sw"],
                                 "state": (ini["automan"], ini["autofert"], ini["autoirri"], ini["autohar"])})
        # window arrays after Input against the generated tables (python twin of the automan reader)
        for k, (code, s, h, w) in enumerate(cs["crops"]):
            if k == 0:
                continue
            exp_s = (daynum(s) if (not automan or w["fixed_sow"]) else 0)
            exp_s1 = daynum(s) - 1 if w["fixed_sow"] else daynum(w["w1"])
            exp_s2 = daynum(s) if w["fixed_sow"] else daynum(w["w2"])
            exp_e = 0 if (autohar and not w["fixed_har"]) else daynum(h)
            exp_e2 = daynum(w["latest"]) if autohar else daynum(h)
            got = (ini["saat"][k], ini["ernte"][k], ini["ernte2"][k]) + ((ini["saat1"][k], ini["saat2"][k]) if automan else ())
            want = (exp_s, exp_e if not (autohar and w["fixed_har"]) else ini["ernte"][k], exp_e2) + ((exp_s1, exp_s2) if automan else ())
            if got != want:
                c.mismatches.append({"kind": "window-arrays", "case": cs["name"], "switches": sws, "entry": k, "crop": code,
                                     "observed (SAAT, ERNTE, ERNTE2[, SAAT1, SAAT2])": got, "expected": want, "automan_row": cs["rows"][code]})
            # irrigation and N-demand parameters of the automan row (python twin of the fixed-column reader)
            par = w.get("par", {})
            for key, on in (("irrst1", cs["sw"][2]), ("irrst2", cs["sw"][2]), ("irrlow", cs["sw"][2]), ("irrdep", cs["sw"][2]), ("irrmax", cs["sw"][2]),
                            ("ndem1", autofert), ("ndem2", autofert), ("ndem3", autofert)):
                if on and key in par and c10.go_hex(ini[key][k]) != par[key]:
                    c.mismatches.append({"kind": "automan-parameter", "case": cs["name"], "entry": k, "crop": code, "parameter": key,
                                         "observed": c10.go_hex(ini[key][k]), "automan_row_says": par[key], "automan_row": cs["rows"][code]})
            # organic fertiliser slots after Input: ODU / timing / day offset from the files, split from the fertiliser table
            if autofert:
                o = w.get("org")
                got_o = (ini["odu"][k] != "0x0p+00", ini["orgtime"][k], ini["orgdoy"][k], ini["dgart"][k]) if o else (ini["odu"][k] != "0x0p+00",)
                want_o = (True, o[2], o[3], o[0]) if o else (False,)
                if got_o != want_o:
                    c.mismatches.append({"kind": "organic-slot", "case": cs["name"], "entry": k, "observed": got_o, "expected": want_o})
                if o:
                    odu.append(('("%s"%%string, %s, (%s, %s, %s, %s))' % (o[0], c10.hexf(float(o[1])), fl(ini["ndir"][k]), fl(ini["nh4n"][k]), fl(ini["nsas"][k]), fl(ini["nlas"][k])), cs, {"entry": k, "org": o}))
                elif any(ini[a][k] != "0x0p+00" for a in ("ndir", "nsas", "nlas")):
                    c.mismatches.append({"kind": "organic-slot", "case": cs["name"], "entry": k, "what": "no organic fertiliser but a non-zero split"})
        for r in cs["sow"]:
            sow.append(("((%s, %s, %s, %s, %s, %s), mk_sow_env %s %s (%s, (%s, %s)))"
                        % (u(r["zeit"]), u(r["before"]), u(r["saat1"]), u(r["saat2"]), u(r["prev"]), u(r["after"]), u(r["tagidx"]), fls(r["temps"]),
                           ", ".join(fl(r[a]) for a in ("tagnum", "window", "temp", "tjahrsum", "tjahr", "tslmin", "tslmax", "wg00", "regen", "regen_prev", "dz", "wmin0", "wnor0")),
                           fl(r["minmoi"]), fl(r["maxmoi"])), cs, r))
        for r in cs["hdec"]:
            e = r.get("env")
            code = cs["crops"][r["akf"]][0] if r["akf"] < len(cs["crops"]) else None
            if e and r["called"] and r["e"][0] == 0 and e["num"] >= 2 and code:
                hdec2.append(("((%s, (%s), (%s)), mk_harv_env %s %s (%s) (%s))"
                              % (u(r["zeit"]), ", ".join(u(x) for x in r["e"]), ", ".join(u(x) for x in r["next"]), u(e["num"]), u(nrentw_of(code)),
                                 ", ".join(fl(e[a]) for a in ("sum0", "tsum0", "sum", "tsum", "tsum_next", "wg00", "regen", "dz", "wmin0", "wnor0")),
                                 ", ".join(fl(e[a]) for a in ("minhmoi", "maxhmoi", "tagnum", "r1", "r2", "r3", "rainlim", "rainact"))), cs, r))
            else:
                hdec.append(("(%s, %s, (%s, %s, %s, %s), (%s, %s, %s, %s))" % ((u(r["zeit"]), waterlib.b(r["called"])) + tuple(u(x) for x in r["e"]) + tuple(u(x) for x in r["next"])), cs, r))
        for r in cs["airr"]:
            airr.append(("((%s, %s, %s, %s), (%s), (%s, %s, %s), %s)"
                         % (u(r["zeit"]), u(r["saat"]), u(r["wurzmax"]), waterlib.b(r["fired"]),
                            ", ".join(fl(r[a]) for a in ("intwick", "irrst1", "irrst2", "irrmax", "irrlow", "irrdep", "regen", "dz", "rain1", "rain2")),
                            fls(r["wg0"]), fls(r["w"]), fls(r["wmin"]), fl(r.get("amount", "0x0p+00"))), cs, r))
        for r in cs["af"]:
            af.append(("((%s, %s, %s, %s), (%s, %s, %s, %s, %s), (%s), (%s, %s, %s, %s), (%s, %s, %s), (%s, %s, %s, %s))"
                       % (u(r["zeit"]), u(r["akf"]), u(r["saat"]), u(r["wurz"]),
                          waterlib.b(r["prev_h"]), u(r["ztdg_prev"]), waterlib.b(r["cur_s"]), u(r["orgdoy"]), u(r["ztdg"]),
                          ", ".join(fl(r[a]) for a in ("intwick", "tagnum", "regen", "regen_prev", "regen_next")),
                          fls(r["t5"]), fls(r["c1"]), fls(r["ndem"]), fls(r["ndoy"]), fls(r["pay_prev"]), fls(r["pay_cur"]), fls(r["pools"]),
                          fls(r["post"]), u(r["ztdg_post"]), waterlib.b(r["h_fire"]), waterlib.b(r["s_fire"])), cs, r))
        for r in cs["tillrec"]:
            til.append(("((%s, %s, %s, %s, %s), (%s, %s))" % (u(r["zeit"]), u(r["saat"]), u(r["ernte"]), u(r["einte"]), waterlib.b(r["autohar"]),
                                                            u(r["einte_after"]), waterlib.b(r["fired"])), cs, r))
        for r in cs["harv"]:
            hcur.append(("((%s, %s, %s, %s, %s, %s, %s), (%s, %s, %s))"
                         % (u(r["zeit"]), u(r["akf"]), waterlib.b(r["org_h"]), u(r["orgdoy"]), u(r["saat2_next"]), waterlib.b(r["automan"]), u(r["ztdg_before"]),
                            u(r["adv"]), u(r["ztdg_after"]), u(max(r["einte_next"], 0))), cs, r))
            if r.get("skip"):
                if r["skip"].get("error"):
                    c.mismatches.append({"kind": "crop-skip-replay", "case": cs["name"], "what": "the harvest call without skip could not be replayed", "record": r})
                else:
                    k_ = r["skip"]
                    skp.append(("((%s), (%s), (%s))" % (", ".join(fl(x) for x in k_["noskip"]), ", ".join(fl(x) for x in k_["pay"]), ", ".join(fl(x) for x in k_["real"])), cs, r))
        fin = cs["final"]
        if not has_skip(cs):
            rot.append(("(%s, %s, ([%s], [%s], [%s]), [%s])" % (u(ini["beginn"]), u(ini["ende"]), "; ".join(u(x) for x in fin["saat"]), "; ".join(u(x) for x in fin["ernte"]),
                                                               "; ".join(u(x) for x in fin["ernte2"]), "; ".join("(%s, %s, %s)" % (u(z), u(kd), u(k)) for z, kd, k in _events(cs))), cs, None))
        else:
            c.bump("runs-with-crop-skip")
    groups = [("sow", sow, "sow_check2", "((int * int * int * int * int * int) * sow_env float)", HDR),
              ("hdec", hdec, "hdec_check", "(int * bool * (int * int * int * int) * (int * int * int * int))", HDR),
              ("hdec2", hdec2, "hdec_check2", "((int * (int * int * int * int) * (int * int * int * int)) * harv_env float)", HDR),
              ("airr", airr, "airr_check2", "((int * int * int * bool) * (float * float * float * float * float * float * float * float * float * float) * (list float * list float * list float) * float)", HDR),
              ("af", af, "af_check", "((int * int * int * int) * (bool * int * bool * int * int) * (float * float * float * float * float) * (list float * list float * list float * list float) * (list float * list float * list float) * (list float * int * bool * bool))", HDR),
              ("hcur", hcur, "hcur_check", "((int * int * bool * int * int * bool * int) * (int * int * int))", HDR),
              ("skip", skp, "skip_check", "((float * float * float) * (float * float * float) * (float * float * float))", HDR),
              ("rot", rot, "rot_check", "(int * int * (list int * list int * list int) * list (int * int * int))", HDR),
              ("till", til, "till_check", "((int * int * int * int * bool) * (int * bool))", HDR)]
    if table is not None:
        groups.append(("odueng", odu, "(dueng_check tab)", "(string * float * (float * float * float * float))",
                       HDR10 + ["Definition tab : list (frow float) := %s." % c10._table_coq(table)]))
    return groups


def eval_groups(ctx, c, groups, prefix, only=None):
    items, index = [], {}
    for name, lst, chk, ty, hdr in groups:
        if only is not None and name not in only:
            continue
        nsh = 8 if ctx.thorough else (3 if len(lst) > 600 else 1)
        shard = max(1, (len(lst) + nsh - 1) // nsh)
        for k in range(0, len(lst), shard):
            nm = "Cases_%s_%s_%d" % (prefix, name, k // shard)
            index[nm] = (name, lst, k)
            body = hdr + ["Definition cases : list %s := %s." % (ty, chunked_list([t[0] for t in lst[k:k + shard]], ty, 100)),
                          "Definition M := Eval vm_compute in mismatches %s %d%%nat cases." % (chk, k), "Print M."]
            items.append((nm, "\n".join(body) + "\n"))
        c.dist[name + "-records"] = len(lst)
        c.cases += len(lst)
    for nm, rc3, o in ctx.coq_eval_many(items, timeout=900):
        m = re.search(r"M\s*=\s*(.*?)\s*:\s*list \(nat \* nat\)", o, re.S)
        if rc3 != 0 or not m:
            c.mismatches.append({"kind": "coq-eval", "shard": nm, "output": o[-1500:]})
            continue
        pairs = re.findall(r"\(\s*(\d+)(?:%nat)?\s*,\s*(\d+)(?:%nat)?\s*\)", m.group(1))
        if m.group(1).strip() != "[]" and not pairs:
            c.mismatches.append({"kind": "coq-eval", "shard": nm, "output": o[-1500:]})
        name, lst, _ = index[nm]
        for idx, mask in pairs:
            t, cs, r = lst[int(idx)]
            mm = {"kind": KIND[name], "mask": int(mask), "case": cs["name"], "switches": sws_of(cs), "record": r if r else t[:600],
                  "crops": [(a, str(s), str(h)) for a, s, h, _ in cs["crops"]]}
            if name == "af":
                mm["differs"] = [AF_MASK[b] for b in range(5) if int(mask) >> b & 1]
            c.mismatches.append(mm)


def correspond(ctx):
    c = Corr()
    rc, cases, err, ex = _run(ctx)
    if rc != 0:
        c.mismatches.append({"kind": "harness-crash", "stderr": err[-1500:]})
        return c
    from props import c10
    groups = build_records(cases, c, c10.read_table())
    eval_groups(ctx, c, groups, "C16")
    g = {name: lst for name, lst, _, _, _ in groups}
    for _, cs, r in g["af"]:
        if r["replay"] == "differs":
            c.mismatches.append({"kind": "organic-payload-replay", "case": cs["name"], "what": "Nitro on the pre-state with the organic split added "
                                 "by hand (and the organic branch disabled) does not reproduce the real post-state", "record": r})
    c.dist["sowings-set"] = sum(1 for _, cs, r in g["sow"] if r["after"] != r["before"])
    c.dist["sow-days-condition-true"] = sum(1 for _, cs, r in g["sow"] if r["after"] == r["zeit"] and r["zeit"] != r["saat2"])
    c.dist["harvests-decided"] = sum(1 for _, cs, r in g["hdec"] + g["hdec2"] if r["e"][0] == 0 and r["e"][2] != 0)
    c.dist["harvests-by-condition"] = sum(1 for _, cs, r in g["hdec2"] if r["e"][0] == 0 and r["e"][2] == r["zeit"])
    c.dist["irrigations"] = sum(1 for _, cs, r in g["airr"] if r["fired"])
    c.dist["mineral-doses"] = sum(1 for _, cs, r in g["af"] if r["post"][1] != r["pools"][4])
    c.dist["organic-after-harvest"] = sum(1 for _, cs, r in g["af"] if r["h_fire"])
    c.dist["organic-after-sowing"] = sum(1 for _, cs, r in g["af"] if r["s_fire"])
    c.dist["crop-skips"] = sum(1 for _, cs, r in g["hcur"] if r["adv"] >= 2)
    ok = [cs for cs in cases if cs.get("final")]
    c.nontrivial = len(set((cs["sw"], tuple(a for a, _, _, _ in cs["crops"]), cs["fmt"]) for cs in ok))
    c.samples = ["%s switches=%s %s crops=%s" % (cs["name"], sws_of(cs), FMTS[cs["fmt"]], [(a, str(s), str(h), (w or {}).get("org")) for a, s, h, w in cs["crops"]]) for cs in ok[:4]]
    ctx.extra["runs"] = len(ok)
    ctx.extra["simulated_days"] = sum(cs["run"]["days"] for cs in ok)
    return c


def oracle(ctx, search):
    rc, cases, err, ex = _run(ctx)
    if rc != 0:
        return [Fail(key="harness-crash", what="the in-process runs aborted (log.Fatal/panic)", stderr=err[-800:])]
    fails = []
    checked = 0
    for cs in cases:
        tag = "c16_%d" % cs["idx"]
        sws = "".join("MFIH"[i] if cs["sw"][i] else "-" for i in range(4))
        def fail(key, what, **kw):
            fails.append(Fail(key="%s:%s:%s" % (key, sws, tag), what=what, case=tag, switches=sws, format=FMTS[cs["fmt"]],
                              begin=str(cs["begin"]), end=str(cs["end"]), crops=[(a, str(s), str(h), {k: str(v) for k, v in (w or {}).items()}) for a, s, h, w in cs["crops"]],
                              automan=list(cs["rows"].values()), **kw))
        if rejected(cs):
            ctx.extra["generated_inputs_rejected"] = ctx.extra.get("generated_inputs_rejected", 0) + 1
            continue
        if cs["run"] is None or not cs["run"]["success"] or cs["log"] is None or cs["crec"] is None:
            fail("run", "the run failed or wrote no crop/management file: %s" % ((cs["run"] or {}).get("err")))
            continue
        automan, autofert, autoirri, autohar = cs["sw"]
        E = cs["E"]
        sowlog = [(z, p.get("Crop", "").strip()) for (z, k, p) in cs["log"] if k == "sowing"]
        harlog = [(z, p.get("Crop", "").strip()) for (z, k, p) in cs["log"] if k == "harvest"]
        crops = cs["crops"]
        # crop-skip scenario: outside the property's quantifier (the next entry's window ended before this harvest) — but only
        # where the files say so: next window end <= harvest day, automatic sowing on, harvested entry with organic fertiliser "H"
        # (timing letters are only read with automatic fertilisation on).  Any other skip is a rotation-order violation.
        skipped_run = False
        for h in cs["harv"]:
            if h["adv"] >= 2:
                k_ = h["akf"]
                o_ = (crops[k_][3] or {}).get("org") if k_ < len(crops) else None
                nxt_w2 = daynum(crops[k_ + 1][3]["w2"]) if k_ + 1 < len(crops) and not crops[k_ + 1][3]["fixed_sow"] else None
                due = bool(automan and autofert and o_ and o_[2] == "H" and nxt_w2 is not None and nxt_w2 <= h["zeit"])
                if due:
                    skipped_run = True
                elif k_ + 1 >= len(crops) and automan and autofert and o_ and o_[2] == "H" and k_ >= 1:
                    # harvest of the LAST rotation entry: the reader's trailing pseudo-entry has SAAT2 = SAAT[last] + 365 with SAAT[last]
                    # still 0 under automatic sowing, so the skip block fires and overwrites the record of the crop just harvested
                    skipped_run = True
                    fails.append(Fail(key="last-crop-record-lost-at-skip:%s:%s" % (sws, tag),
                                      what="harvest of the last rotation entry %d (%s, organic fertiliser %s) on %s: crop record %s instead of crop %s / year %d"
                                      % (k_, crops[k_][0], o_, numday(h["zeit"]), cs["crec"][-1:] and cs["crec"][-1], crops[k_][0], numday(h["zeit"]).year),
                                      case=tag, switches=sws, crop_records=cs["crec"], automan=list(cs["rows"].values())))
                else:
                    fail("rotation-order", "at the harvest of entry %d (%s) on %s the next rotation entry %s was passed over although its sowing window "
                         "(ends %s) had not ended (organic fertiliser of the harvested entry: %s)"
                         % (k_, crops[k_][0] if k_ < len(crops) else "?", numday(h["zeit"]), crops[k_ + 1][0] if k_ + 1 < len(crops) else "(none)",
                            crops[k_ + 1][3]["w2"] if k_ + 1 < len(crops) else None, o_),
                         crop_records=cs["crec"], log=[(str(numday(z)), k, p) for (z, k, p) in cs["log"] if k in ("sowing", "harvest")])
        if skipped_run:
            crops = crops[:1]
        # rotation order: k-th sowing / harvest / crop record belongs to rotation entry k
        for name, lst in (() if skipped_run else (("sowing", sowlog), ("harvest", harlog))):
            want = [c_[0] for c_ in crops[1:1 + len(lst)]]
            if [c_ for _, c_ in lst] != want or len(lst) > len(crops) - 1:
                fail("rotation-order", "%s events are for crops %s, the rotation says %s" % (name, [c_ for _, c_ in lst], want))
        if not skipped_run and len(cs["crec"]) != len(harlog):
            fail("crop-records", "%d crop records for %d harvests" % (len(cs["crec"]), len(harlog)))
        for k, (sd, hy, hdoy, code) in enumerate([] if skipped_run else cs["crec"], start=1):
            checked += 1
            if k >= len(crops):
                break
            if code.strip() != crops[k][0] or hy != crops[k][2].year:
                fail("crop-records", "crop record %d carries crop %r harvest year %d, rotation entry %d is %s harvested in %d"
                     % (k, code, hy, k, crops[k][0], crops[k][2].year))
            if k - 1 < len(harlog) and numday(harlog[k - 1][0]).timetuple().tm_yday != hdoy:
                fail("crop-records", "crop record %d: harvest day of year %d, harvest happened on %s" % (k, hdoy, numday(harlog[k - 1][0])))
            if k - 1 < len(sowlog) and sd != log_date(numday(sowlog[k - 1][0]), cs["fmt"]):
                fail("crop-records", "crop record %d: sowing date %s, sowing happened on %s" % (k, sd, numday(sowlog[k - 1][0])))
        for k in range(1, len(crops)):
            code, s, h, w = crops[k]
            sz = sowlog[k - 1][0] if k - 1 < len(sowlog) else None
            hz = harlog[k - 1][0] if k - 1 < len(harlog) else None
            prev_h = cs["B"] if k == 1 else (harlog[k - 2][0] if k - 2 < len(harlog) else None)
            checked += 1
            fixed_s = (not automan) or w["fixed_sow"]
            fixed_h = (not autohar)
            if fixed_s:
                # crop.go:192-195/551-554: a fixed sowing date that has passed when the harvest is decided is moved to harvest + 4
                # (decided on the harvest day itself by the condition, the day before when forced on the latest date)
                prev_forced = k >= 2 and prev_h == daynum(crops[k - 1][3]["latest"])
                moved = autohar and prev_h is not None and sz == prev_h + 4 and daynum(s) < prev_h - (1 if prev_forced else 0)
                if daynum(s) <= E and sz != daynum(s) and not moved:
                    fail("fixed-sowing-date", "entry %d (%s): sown on %s, the rotation file says %s" % (k, code, sz and numday(sz), s))
            else:
                lo, hi = daynum(w["w1"]), daynum(w["w2"])
                if sz is None:
                    if hi <= E and prev_h is not None and prev_h < lo:
                        fail("sowing-window", "entry %d (%s): not sown although its window %s..%s lies inside the run" % (k, code, w["w1"], w["w2"]))
                elif not (lo <= sz <= hi) or (prev_h is not None and sz <= prev_h):
                    fail("sowing-window", "entry %d (%s): sown on %s, window %s..%s, previous harvest %s"
                         % (k, code, numday(sz), w["w1"], w["w2"], prev_h and numday(prev_h)))
            if fixed_h:
                if daynum(h) <= E and hz != daynum(h) and sz is not None:
                    fail("fixed-harvest-date", "entry %d (%s): harvested on %s, the rotation file says %s" % (k, code, hz and numday(hz), h))
            else:
                latest = daynum(w["latest"])
                if hz is None:
                    if latest <= E and sz is not None and sz < latest - 1:
                        fail("harvest-latest", "entry %d (%s): sown on %s but not harvested by the latest date %s" % (k, code, numday(sz), w["latest"]))
                elif hz > latest:
                    fail("harvest-latest", "entry %d (%s): harvested on %s, latest date %s" % (k, code, numday(hz), w["latest"]))
        for r in cs["airr"]:
            if not r["fired"]:
                continue
            checked += 1
            # stage window and daily maximum of the automan row of the crop actually standing (from the management log)
            kk = None
            for k_ in range(1, len(cs["crops"])):
                sz_ = sowlog[k_ - 1][0] if k_ - 1 < len(sowlog) else None
                hz_ = harlog[k_ - 1][0] if k_ - 1 < len(harlog) else None
                if sz_ is not None and sz_ < r["zeit"] and (hz_ is None or r["zeit"] <= hz_):
                    kk = k_
            par = cs["crops"][kk][3].get("par") if (kk is not None and not has_skip(cs)) else None
            iw = go_hex(r["intwick"])
            s1, s2, mx = (par["irrst1"], par["irrst2"], par["irrmax"]) if par else (go_hex(r["irrst1"]), go_hex(r["irrst2"]), go_hex(r["irrmax"]))
            amt = go_hex(r["amount"])
            if kk is None and not has_skip(cs):
                fail("irrigation-without-crop", "day %s: automatic irrigation although no crop of the rotation is standing (management log)" % numday(r["zeit"]))
            if not (s1 <= iw < s2 + 1) or not (0 < r["saat"] < r["zeit"]):
                fail("irrigation-outside-stages", "day %s: automatic irrigation at development stage %g, configured stages %g..%g, sown %s"
                     % (numday(r["zeit"]), iw, s1, s2, r["saat"] and numday(r["saat"])))
            if amt > mx or amt < 0 or r["adv"] != 1:
                fail("irrigation-above-maximum", "day %s: automatic irrigation of %r mm, configured daily maximum %r mm" % (numday(r["zeit"]), amt, mx))
            if abs((go_hex(r["regen_post"]) - go_hex(r["regen"])) * 10 - amt) > 1e-9 * (1 + amt):
                fail("irrigation-amount", "day %s: rain of the day rose by %r cm for an irrigation of %r mm" % (numday(r["zeit"]), go_hex(r["regen_post"]) - go_hex(r["regen"]), amt))
        if not autoirri and [1 for (z, k, p) in cs["log"] if k == "irrigation"]:
            fail("irrigation-unscheduled", "irrigation events although automatic irrigation is off and the irrigation file is empty")
        if autoirri:
            for (z, k, p) in cs["log"]:
                if k == "irrigation" and z not in [r["zeit"] for r in cs["airr"] if r["fired"]]:
                    fail("irrigation-unobserved", "irrigation log line on %s without a probed irrigation" % numday(z))
        if autofert:
            for (z, k, p) in cs["log"]:
                if k == "fertilization":
                    checked += 1
                    nd = go_hex(p["Ndirect"]) if "Ndirect" in p else 0.0
                    if nd < 0:
                        fail("negative-automatic-N", "automatic N application of %r kg N/ha on %s" % (nd, numday(z)))
            for r in cs["af"]:
                if go_hex(r["post"][1]) < go_hex(r["pools"][4]) or go_hex(r["post"][0]) < go_hex(r["pools"][2]) - 1e-12:
                    fail("negative-automatic-N", "NFERTSIM/DSUMM fell from %r/%r to %r/%r on %s"
                         % (go_hex(r["pools"][4]), go_hex(r["pools"][2]), go_hex(r["post"][1]), go_hex(r["post"][0]), numday(r["zeit"])))
    ctx.extra["oracle_checks"] = checked
    ctx.extra["oracle_runs"] = len(cases)
    return fails


def org_oracle(cases, table):
    """property-level checks of the organic fertiliser of automatic management (C10): after-harvest applications are
    carried out exactly once, ORGDOY days after the harvest, with the table split; after-sowing ones once, ORGDOY days
    after sowing; the pools receive the split (Nitro replay, bit-exact)"""
    fails = []
    tab = {r[0]: r[1:] for r in table}
    checked = 0
    def split(o):
        if o[0] not in tab:
            return dict(ndir=0.0, nsas=0.0, nlas=0.0)
        ntot, ndir, nfst, nslo, nh4, loss = tab[o[0]]
        g = float(o[1]) * ntot
        nd = g * ndir * (1 - nh4 * loss)
        return dict(ndir=nd, nsas=(g - nd) * nfst, nlas=(g - nd) * nslo)
    for cs in cases:
        def fail(key, what, **kw):
            fails.append(Fail(key="organic-%s:%s:%s" % (key, sws_of(cs), cs["name"]), what=what, case=cs["name"], switches=sws_of(cs),
                              crops=[(a, str(s), str(h), (w or {}).get("org")) for a, s, h, w in cs["crops"]], automan=list(cs["rows"].values()), **kw))
        if rejected(cs):
            continue
        if cs["run"] is None or not cs["run"]["success"] or cs["log"] is None:
            fail("run", "the run failed: %s" % ((cs["run"] or {}).get("err")))
            continue
        if not cs["sw"][1]:
            if cs.get("sched") is not None:
                # scheduled fertilisation under the other switches: every event once, in order, on date + 1 (consecutive days when
                # dates collide), the residues of the initial crop on BEGINN + 1 — not before its scheduled date
                from props import c10
                B, E_ = cs["B"], cs["E"]
                kept = [x for x in cs["sched"] if x[0] >= B]
                want = [(z + 1, nm) for z, nm in zip(c10.shifted([B] + [d for d, _, _ in kept]), [""] + [nm for _, _, nm in kept]) if z + 1 <= E_]
                got = [(z, p.get("Fertilizer", "")) for (z, k, p) in cs["log"] if k == "fertilization"]
                checked += 1
                if got and want and got[0][0] == want[0][0]:
                    got[0] = want[0]          # the residue event of the initial crop carries whatever name slot 0 holds
                if got != want:
                    fail("scheduled", "fertilisation log %s, the fertiliser file demands %s (autorg flags %s)"
                         % ([(str(numday(z)), nm) for z, nm in got], [(str(numday(z)), nm) for z, nm in want], cs.get("autorg")))
            continue
        E = cs["E"]
        harv = {h["akf"]: h for h in cs["harv"]}
        fert = [(z, p) for (z, k, p) in cs["log"] if k == "fertilization"]
        sowlog = [z for (z, k, p) in cs["log"] if k == "sowing"]
        for k, (code, s, h, w) in enumerate(cs["crops"]):
            o = (w or {}).get("org")
            if not o or k not in harv and o[2] == "H":
                continue
            sp = split(o)
            if o[2] == "H" and k >= 1:
                hz = harv[k]["zeit"]
                nxt = harv.get(k + 1, {}).get("zeit", E + 1)
                due = hz + o[3]
                want = 1 if (o[3] >= 1 and due <= E and due < nxt + 1 and harv[k]["adv"] == 1) else 0
                if due == nxt:
                    continue          # the day of the next harvest: the organic test runs before the cursor advances — fine either way
                # lines of that day in log order: the organic application is written first; mineral doses of the same call are
                # logged under the same fertiliser name (ln.DUNGART) after it
                got = [(z, p) for (z, p) in fert if z == due]
                mineral = any(r["zeit"] == due and r["post"][1] != r["pools"][4] for r in cs["af"])
                checked += 1
                first_nd = (go_hex(got[0][1]["Ndirect"]) if "Ndirect" in got[0][1] else 0.0) if got else None
                is_org = bool(got) and got[0][1].get("Fertilizer", "") == (o[0] if o[0] in tab or True else "") and abs(first_nd - sp["ndir"]) <= 1e-9 * (1 + abs(first_nd))
                if want == 1 and not is_org:
                    fail("after-harvest", "entry %d (%s %s, %d days after harvest on %s): no organic application logged on %s (lines of the day: %s, table direct N %r)"
                         % (k, o[0], o[1], o[3], numday(hz), numday(due), [p for _, p in got], sp["ndir"]))
                if want == 0 and got and not mineral:
                    fail("after-harvest", "entry %d (%s %s, %d days after harvest on %s): fertilisation logged on %s although none is due"
                         % (k, o[0], o[1], o[3], numday(hz), numday(due)))
                # the split in the slots (tolerance; the bit-exact tie is in the correspondence)
                ini = cs["init"]
                if abs(go_hex(ini["nsas"][k]) - sp["nsas"]) > 1e-9 * (1 + sp["nsas"]) or abs(go_hex(ini["nlas"][k]) - sp["nlas"]) > 1e-9 * (1 + sp["nlas"]):
                    fail("amount", "entry %d: fast/slow organic N %r/%r, table formula %r/%r" % (k, go_hex(ini["nsas"][k]), go_hex(ini["nlas"][k]), sp["nsas"], sp["nlas"]))
        for r in cs["af"]:
            if r["replay"] == "differs":
                fail("pools", "day %s: Nitro on the pre-state with the organic split added by hand does not reproduce the real pools" % numday(r["zeit"]))
            if r["replay"] == "ok":
                checked += 1
    return fails, checked


LEVEL_TEXT = ("Machine-checked proof (Coq) of the decision logic: closed form of the sowing/harvest event sequence for every rotation "
              "with ascending dates and every run length; sowing on the first day of its window on which the modelled condition holds "
              "(and later than previous harvest + 4), else on the window end; harvest on the first day the modelled condition holds, "
              "else on the latest date; irrigation iff inside the stage window, mean available water below IRRLOW and dry forecast, "
              "amount = 90 % of the modelled deficit clipped to IRRMAX; automatic N dose = max(0, demand - Nmin) — for every "
              "sequence of daily states (all weather). The decisions of whole real runs over the 16 switch "
              "combinations are compared with the model in Coq each run, and the property is evaluated directly on the crop "
              "file, the management log and the probe.")
LEVEL_NOTE = ("The trigger conditions are modelled (sowing, harvest, irrigation deficit, automatic N incl. organic fertiliser) and "
              "tied bit-exact on the traced days; the harvest condition is sharp from the second development stage on (the "
              "emergence-day temperature sum update is the crop model's, C09) and takes the number of stages from the crop parameter "
              "file. The automan/crop file reader is mirrored in python (window and organic slots compared with the real arrays). "
              "Axioms: only those of Coq's Reals library (irrigation/N theorems).")
TECHNIQUE = "Coq proof of the decision rules and the rotation cursor (induction over the day loop) + whole-run decision correspondence + result-file oracle"
