"""C09 — crop state stays valid and development never runs backwards (DESIGN.md §6 C09)."""
import json, os, random, re, shutil, glob
from core import Corr, Fail, REPO
from props import waterlib
from props.waterlib import fl, fls, b

PROP_FILES = ["Prop_C09", "Prop_C09b", "Prop_C09c", "Prop_C09d"]
# Coq-Interval (lg_bound in CropNProofs) is taken as compiled by coqchk: re-checking its stack exceeds 50 minutes
COQCHK_ADMIT = ["Interval.Tactic"]
RULE = ("PhytoOut transitions (state before/after the call in sub-step 1) of traced in-process runs of generated crop "
        "rotations over every shipped annual main-crop parameter set (SM, SOY + 8 varieties, SW, OA, WW, WG, WR, TR, WRA, K, "
        "ZR + chrnew, LUP), classic and YAML parameter format, CO2 methods 1-3, N supply 0..400 kg/ha, shipped soils incl. "
        "10/30 cm root limits and custom profiles with the root limit at the profile depth, weather scenarios historical/extreme rain/drought/frost/"
        "sunshine station with missing records/radiation file with missing records (runs of 1, 2, 5 days), automatic sowing windows, latitudes 52.7 and 55..69.65 for overwintering crops; hermes.CalculateDayLenght on a latitude x day grid (fixed polar/twilight points + random); days that hit a clamp (organ floor, "
        "LAI zero, REDUK < 1, root limit, uptake caps, fixation, stage advance) are always compared, plain days are sampled; "
        "a case is non-trivial when distinct and inside the growth block; on one emitted day in four the real PhytoOut is replayed on copies "
        "with every other N-content function NGEFKT = 0..9; branch coverage of the root/shoot N update is listed in input_distribution")
TRUSTED = ["binary64 semantics of Go on amd64 (no fused multiply-add) = Coq primitive floats",
           "the harness' shadow of CropSharedVars (real parameter reader + real PhytoOut replayed on a copy, checked equal to the run every day)",
           "values mirrored in the harness from crop.go: devprog, maxup, MASS[i], DIFF[i], Qrez - each now ALSO recomputed by the Coq model from the raw state and compared (round 9); "
           "the exp argument of REDUK; the verbatim shadow of radia() (generated from the source text, compared with the real kernel via the hook VerifRadia on every case)",
           "R->F gap: range theorems are proved in exact real arithmetic; at binary64 the ranges are observed on every traced crop day (tolerance 1e-9 on [0,1] factors)"]
ASSUMPTIONS = ["since round 9 photosynthesis (radia: RadiaModel head + assim_of tail), vernalisation / day-length factor / stress acceleration and root() (DevModel), "
               "the root distribution and pool inputs (RootDistModel), maxup / MASS / DIFF (SupplyModel) and the crop coefficient are MODELLED and tied bit for bit; "
               "what remains an oracle input: the value of every transcendental call (exp, log, pow with a non-integer exponent, sin, cos, asin) "
               "and GTW / the maintenance terms of the organ fragment (obtained by a second replay of the real PhytoOut)",
               "GEHOB/WUGEH >= 0 is proved only under 'root share of the uptake <= 1' and 'old root N within the crop N'; without the first "
               "it is refuted (C09_gehob_negative_refuted = finding F24) and observed on every traced crop day",
               "parameter preconditions not guarded by the code are explicit hypotheses: tendsum > 200 (N-content function 8), RGA > 0 (function 5), "
               "partition rows summing to 1 (re-proved for every shipped file on each run)",
               "permanent crops (regrowth resets the stage) and catch crops are outside the claim",
               "unmodelled parts of crop.go (observed through the oracle only or not at all): sowing block 61-127, BBCH day bookkeeping 140-144 and 308-312, SWC sums 159-180, "
               "automatic harvest 182-205 and 549-555, GPP sums 212-224, protein targets 229-237, CalulateDevelopmentStages 290, "
               "stress counters 441-451, RespDay 461, LAIMAX 488-490, permanent-crop regrowth 521-541, SimulateFertilizationAfterPrognose 701, "
               "MASSUM/DIFFSUM 717-718, SCHNORR/NFIXSUM 739-740, the cumulative root percentages of root() (unused by PhytoOut)"]
LEVEL_TEXT = ("PARTIAL proof, two layers. Coq proofs for all inputs of the decision/clamp logic inside PhytoOut: the stage index never decreases and "
              "the recorded stage dates are ordered over any sequence of days (any numeric type); organ masses/LAI/assimilate pool stay "
              "non-negative; 0 <= REDUK <= 1 (with exp(1+1/(AUX-1)) in (0,1)); 1 <= WURZ <= min(N, max(1, round(WURZMAX*WUMAXPF/11))); uptake "
              "per layer >= 0, <= supply, summed <= demand <= 6 kg N/ha/day; GEHMIN, GEHMAX > 0 for all nine N-content functions; every "
              "division of the modelled N code has a positive denominator under the code's own guards; GEHOB, WUGEH >= 0 when the root share of "
              "the uptake is <= 1 (refuted otherwise: F24); conservation of dry matter: the organs receive exactly 0.7*GTW*REDUK minus "
              "maintenance when the partition rows sum to 1 (re-proved for all 59 shipped parameter files each run) and the organ update "
              "changes mass by growth - death + handed-on dead mass + 0.1 kg per floored organ. The same Gallina kernels are executed on "
              "binary64 and compared bit for bit with traced PhytoOut transitions of real runs (all ten N-content branches by replaying the "
              "real code with another NGEFKT). Round 9 added two layers: the development-rate block (vernalisation, day-length factor, stress "
              "acceleration) with the factors COMPUTED, so that 'the stage never decreases / stage dates ordered' holds for the composed run with no "
              "assumption about them; root(): potential rooting depth finite, positive and monotone in the temperature sum; root distribution, "
              "dead-root and dead-leaf N to the soil (crop loss = pool gain), supply terms, crop coefficient; and radia() - light-use efficiency, "
              "AMAX floor, light response and assimilation kernel composed: 0 <= MAINT <= GPHOT for the true log/exp. All of these are executed on "
              "binary64 and compared bit for bit (8 further kernel ties, ~12,000 cases per quick run). "
              "Finiteness of the state and the [0,1] range of TRREL/ETREL are observed on traces only.")
LEVEL_NOTE = ("Partial: the modelled fragments are tied by trace (shadow replay of the exported PhytoOut), not by calling fragments in isolation; "
              "the values of transcendental calls are oracle inputs; GEHOB >= 0 needs the root-share hypothesis the code "
              "does not establish (F24); no rounding-error bound between R and binary64 (identities observed to 1e-9 on every traced crop day). "
              "Reals axioms of the standard library; Coq-Interval (primitive floats) only in CropNProofs.lg_bound.")
TECHNIQUE = "Coq proof (case analysis on clamps, induction over days, lra/nra, exp monotonicity) + bit-exact trace correspondence + property oracle on traced rotations"

# ---------------------------------------------------------------------------------------------
# rotations of the shipped annual main crops (month, day) sowing / harvest; winter crops harvest next year
CROPS = {
    "SM": ((4, 25), (9, 30), 0), "SOY": ((5, 5), (10, 1), 0), "SW": ((3, 20), (8, 10), 0), "OA": ((3, 22), (8, 12), 0),
    "K": ((4, 20), (9, 15), 0), "ZR": ((4, 10), (10, 15), 0), "LUP": ((4, 1), (8, 20), 0),
    "WW": ((10, 5), (8, 1), 1), "WG": ((9, 20), (7, 10), 1), "WR": ((9, 25), (7, 25), 1), "TR": ((9, 28), (7, 28), 1),
    "WRA": ((8, 25), (7, 20), 1),
    # permanent crops: NOT claimed; only sown to exercise the parameter readers on a carried-over stand
    "GR": ((3, 10), (6, 1), 0), "AA": ((3, 20), (6, 20), 0),
}
EARLY_CUT = "@early"
EARLY_HARVEST = {"SM": (8, 10), "WR": (5, 25), "WW": (6, 10), "OA": (6, 25), "SW": (6, 25)}
SOY_VARIETIES = ["", "0", "00", "000", "0000", "i", "ii", "iii"]
SUMMER = ["SM", "SOY", "SW", "OA", "K", "ZR", "LUP"]
WINTER = ["WW", "WG", "WR", "TR", "WRA"]
SOILS_ALL = ["001", "003", "004", "006", "007", "008", "075", "160", "041", "002"]


def _d(m, d, y):
    return "%02d%02d%04d" % (m, d, y)


def build_rotation(rnd, crops, start_year):
    """list of (crop, variety, sow(m,d,y), harvest(m,d,y)); sequential, no overlap"""
    import datetime
    rows, last = [], datetime.date(start_year - 1, 9, 30)
    for crp, var in crops:
        (sm, sd), (hm, hd), wrap = CROPS[crp]
        if var == EARLY_CUT:
            hm, hd = EARLY_HARVEST[crp]          # silage / green cut before the last stages are reached
        year = last.year
        while datetime.date(year, sm, sd) <= last + datetime.timedelta(days=7):
            year += 1
        rows.append((crp, var, (sm, sd, year), (hm, hd, year + wrap)))
        last = datetime.date(year + wrap, hm, hd)
    return rows


def write_project(ex, name, rows, nlevel, rnd, autosow=False, gwpoly=False):
    """overwrites the ex1 project files of the scratch copy as project <name> (a copy of ex1)"""
    src, dst = os.path.join(ex, "project", "ex1"), os.path.join(ex, "project", name)
    if os.path.isdir(dst):
        shutil.rmtree(dst)
    os.makedirs(dst)
    for fn in os.listdir(src):
        shutil.copy(os.path.join(src, fn), os.path.join(dst, fn.replace("_ex1", "_" + name)))
    # the first listed crop is the initial one: the simulation starts at its harvest
    y0 = rows[0][2][2] - 1
    lines_csv = ["Field_ID,crp,sowing,harvst,Rex,yld,autorg,variety,comment",
                 "F1,SM ,%s,%s,080,050,0,,initial" % (_d(4, 25, y0), _d(9, 30, y0))]
    lines_txt = ["Field_ID    crp  sowing harvst Rex yld autorg variety comment",
                 "F1        SM  %s %s 080 050 0 " % (_d(4, 25, y0), _d(9, 30, y0))]
    til = ["Field_ID  Ti Typ date", "          cm"]
    fert = ["Field_ID  N   Frt date"]
    for crp, var, sow, har in rows:
        fvar = "" if var == EARLY_CUT else var
        lines_csv.append("F1,%-3s,%s,%s,000,000,0,%s," % (crp, _d(*sow), _d(*har), fvar))
        lines_txt.append("F1        %-3s %s %s 000 000 0 %s" % (crp, _d(*sow), _d(*har), fvar))
        # tillage three days before sowing
        tm, td, ty = sow
        td -= 3
        if td < 1:
            tm, td = tm - 1, 26
        if autosow:
            tm, td = 3, 1          # before the sowing window opens
        til.append("F1        15 1   %s" % _d(tm, td, ty))
        if nlevel > 0:
            # one dressing in spring of the harvest year (or shortly after sowing for spring crops)
            if CROPS[crp][2]:
                fdate = (3, 15, har[2])
            else:
                fm, fd = sow[0], sow[1] + 10
                if fd > 28:
                    fm, fd = fm + 1, fd - 28
                fdate = (fm, fd, sow[2])
            fert.append("F1        %03d KAS %s" % (nlevel, _d(*fdate)))
            if nlevel >= 150 and CROPS[crp][2]:
                fert.append("F1        %03d KAS %s" % (nlevel // 2, _d(5, 5, har[2])))
    til.append("end")
    fert.append("end")
    open(os.path.join(dst, "crop_%s.csv" % name), "w").write("\n".join(lines_csv) + "\n")
    open(os.path.join(dst, "crop_%s.txt" % name), "w").write("\n".join(lines_txt) + "\n")
    open(os.path.join(dst, "til_%s.txt" % name), "w").write("\n".join(til) + "\n")
    open(os.path.join(dst, "fert_%s.txt" % name), "w").write("\n".join(fert) + "\n")
    open(os.path.join(dst, "irr_%s.txt" % name), "w").write("Field_ID  Ir N03 date\n          mm mg/l \nend\n")
    write_custom_soils(dst, name)
    if autosow:
        # sowing window 1 April .. 31 May, temperature rule with a low temperature-sum threshold: the rule sows in April,
        # the latest sowing date lies weeks after emergence (fixed columns of automan.txt, see input.go:465-490)
        rows_a = open(os.path.join(dst, "automan.txt")).read().split("\n")
        outa = [rows_a[0]]
        for ln in rows_a[1:]:
            if len(ln) > 76 and ln[:3].strip() in ("SM", "SOY"):
                ln = ln[:4] + "0401" + ln[8:9] + "0531" + ln[13:19] + "%-5s" % "6.0" + ln[24:68] + "100" + ln[71:]
            outa.append(ln)
        open(os.path.join(dst, "automan.txt"), "w").write("\n".join(outa))
    open(os.path.join(dst, "poly_%s.txt" % name), "w").write("Polyg SID  Field_ID  GH GL Ir comment\n10001 001 F1        %s 0 c09\nend\n" % ("07 12" if gwpoly else "99 99"))
    end = rows[-1][3]
    return y0, end


# custom profiles (csv soil file written into every generated project): SID "6NN" = N layers, root limit N;
# "7NN" = root limit N-1; "8NN" = root limit N-2 — the soil's root limit at / next to the profile depth, where the
# crop factor WUMAXPF/11 > 1 of the deep-rooting crops (WW 12, WRA 12, ZR 14, ZR chrnew 16) pushes
# round(WURZMAX*WUMAXPF/11) above the number of layers and the clamp to N decides
DEEP_CROPS = [("WW", ""), ("ZR", ""), ("WRA", ""), ("ZR", "chrnew")]
CUSTOM_LAYERS = [5, 6, 8, 10, 12, 15, 18, 20]


GW_SOIL = "920"


def custom_soil_ids():
    return [GW_SOIL, "921", "922"] + ["%d%02d" % (6 + k, n) for n in CUSTOM_LAYERS for k in (0, 1, 2)]


def write_custom_soils(dst, name):
    out = ["SID,C_org,Texture,LayerDepth,BulkDensityClass,Stone,C/N,C/S,RootDepth,NumberHorizon,FieldCapacity,WiltingPoint,PoreVolume,"
           "Sand,Silt,Clay,DrainageDepth,Drainage%,GroundWaterLevel"]
    for sid in custom_soil_ids():
        if sid in (GW_SOIL, "921", "922"):
            continue
        n, rd = int(sid[1:]), int(sid[1:]) - (int(sid[0]) - 6)
        out.append("%s,0.90,SL2,03,3,00,10,00,%02d,02,22,09,38,73,21,06,20,00,99" % (sid, rd))
        out.append("%s,0.30,SL4,%02d,3,00,10,00,,,22,12,43,61,27,12,20,00,   " % (sid, n))
    # 20 layers, root limit 15 dm, groundwater table at 8 dm (inside the root zone)
    out.append("%s,0.90,SL2,03,3,00,10,00,15,02,22,09,38,73,21,06,20,00,08" % GW_SOIL)
    out.append("%s,0.30,SL4,20,3,00,10,00,,,22,12,43,61,27,12,20,00,   " % GW_SOIL)
    # the same profile waterlogged: groundwater table 1 dm resp. 2 dm below the surface (air shortage in the topsoil)
    for sid, gw in (("921", 1), ("922", 2)):
        out.append("%s,0.90,SL2,03,3,00,10,00,15,02,22,09,38,73,21,06,20,00,%02d" % (sid, gw))
        out.append("%s,0.30,SL4,20,3,00,10,00,,,22,12,43,61,27,12,20,00,   " % sid)
    open(os.path.join(dst, "soil_%s.csv" % name), "w").write("\n".join(out) + "\n")


def batch_line(name, sp, y0, end):
    custom = sp["soil"] in custom_soil_ids()
    return ("project=%s WeatherFolder=%s soilId=%s fcode=109_120 plotNr=10001 Altitude=73 Latitude=%s poligonID=29872 "
            "CO2method=%d CropParameterFormat=%s CropFileFormat=csv %sAutoIrrigation=0 AutoFertilization=0 AutoSowingHarvest=%d AutoHarvest=0 "
            "StartYear=%d ResultFileFormat=0 EndDate=%s resultfolder=R9/%s"
            % (name, sp["weather"], sp["soil"], "%g" % sp.get("lat", 52.6732), sp["co2"], "yml" if sp["yml"] else "txt", ("SoilFileExtension=csv " if custom else "") + ("WeatherNoneValue=-99.9 " if sp["weather"] in GAP_SCENARIOS else "")
               + ("WeatherNumHeader=3 " if sp["weather"].startswith("wind") else ""),
               1 if sp.get("autosow") else 0, y0, _d(12, 31, end[2]), name)) + ((" " + sp["extra"]) if sp.get("extra") else "")


def weather_scenarios(ex, seed):
    """drought (rain scaled down) and frost (cold winters/springs, single very cold days) next to waterlib's 'extreme'"""
    rnd = random.Random(seed * 7 + 1)
    src = os.path.join(ex, "weather", "historical")
    for scen in ("drought", "frost", "heat"):
        dst = os.path.join(ex, "weather", scen)
        if os.path.isdir(dst):
            continue
        os.makedirs(dst)
        for fn in os.listdir(src):
            if not fn.endswith(".csv"):
                continue
            lines = open(os.path.join(src, fn)).read().split("\n")
            hdr = lines[0].split(",")
            if "precip" not in hdr:
                shutil.copy(os.path.join(src, fn), dst)
                continue
            pi = hdr.index("precip")
            ti = [hdr.index(x) for x in ("tmin", "tavg", "tmax") if x in hdr]
            out = lines[:2]
            for ln in lines[2:]:
                t = ln.split(",")
                if len(t) > pi:
                    if scen == "drought":
                        t[pi] = "%.1f" % (float(t[pi]) * 0.3)
                    elif scen == "heat":
                        month = int(t[0][5:7])
                        shift = 7.0 if month in (6, 7, 8) else 3.0 if month in (5, 9) else 0.0
                        for j in ti:
                            t[j] = "%.1f" % (float(t[j]) + shift)
                        # two heat waves every July: daily means beyond the hot end of both AMAX temperature tables (35 degC for C3,
                        # 42 degC for C4 crops: AMAX = 0 there and only its floor keeps the light response finite; seeded C09-22)
                        day = int(t[0][8:10])
                        if month == 7 and day in (10, 11, 12):
                            for j in ti:
                                t[j] = "%.1f" % (36.5 + 0.5 * ti.index(j))
                        if month == 7 and day in (22, 23):
                            for j in ti:
                                t[j] = "%.1f" % (43.0 + 0.5 * ti.index(j))
                    else:
                        month = int(t[0][5:7])
                        shift = -5.0 if month in (11, 12, 1, 2, 3, 4) else -1.0
                        if rnd.random() < 0.01:
                            shift -= 15.0
                        for j in ti:
                            t[j] = "%.1f" % (float(t[j]) + shift)
                out.append(",".join(t))
            open(os.path.join(dst, fn), "w").write("\n".join(out))


GAP_SCENARIOS = ("sungaps", "radgaps")
HIGH_LATITUDES = [55, 58, 59, 60.5, 62, 66, 69.65]


def gap_scenarios(ex, seed):
    """records with MISSING optional values (none value -99.9) in runs of 1, 2 and 5 days, several times per growing season:
    'sungaps' = a sunshine-recorder station (column sunhours instead of globrad) with missing sunshine records,
    'radgaps' = the shipped radiation file with missing global radiation and wind records
    (a missing relative humidity is NOT generated: the reader has no replacement rule for it and the unchanged code then runs on
    humidity -99.9 into a NaN state - outside what C09 quantifies over, reported to the weather-input properties)"""
    rnd = random.Random(seed * 13 + 5)
    src = os.path.join(ex, "weather", "historical")
    for scen in GAP_SCENARIOS:
        dst = os.path.join(ex, "weather", scen)
        if os.path.isdir(dst):
            continue
        os.makedirs(dst)
        for fn in os.listdir(src):
            if not fn.endswith(".csv"):
                continue
            lines = open(os.path.join(src, fn)).read().split("\n")
            hdr = lines[0].split(",")
            if "globrad" not in hdr:
                shutil.copy(os.path.join(src, fn), dst)
                continue
            gi = hdr.index("globrad")
            cols = [gi] if scen == "sungaps" else [gi, hdr.index("wind")]
            body = [ln.split(",") for ln in lines[2:]]
            if scen == "sungaps":
                hdr[gi] = "sunhours"
                for t in body:
                    if len(t) > gi:
                        t[gi] = "%.1f" % min(15.5, float(t[gi]) / 2)
            # gaps: per year and column about eight runs of 1, 2 or 5 days between March and November
            i = 0
            while i < len(body):
                t = body[i]
                if len(t) > gi and 3 <= int(t[0][5:7]) <= 11 and rnd.random() < 0.035:
                    run_len = rnd.choice([1, 2, 2, 5])
                    col = rnd.choice(cols)
                    for j in range(i, min(i + run_len, len(body))):
                        if len(body[j]) > col:
                            body[j][col] = "-99.9"
                    i += run_len + 1
                else:
                    i += 1
            second = lines[1].split(",")
            if scen == "sungaps" and len(second) > gi:
                second[gi] = "h"
            open(os.path.join(dst, fn), "w").write("\n".join([",".join(hdr), ",".join(second)] + [",".join(t) for t in body]))


WIND_HEIGHTS = (1, 3, 5, 10)


def wind_scenarios(ex):
    """the shipped weather with a third header line 'altitude,wind height,CO2' declaring the wind measurement height (WeatherNumHeader=3)"""
    src = os.path.join(ex, "weather", "historical")
    for h in WIND_HEIGHTS:
        dst = os.path.join(ex, "weather", "wind%d" % h)
        if os.path.isdir(dst):
            continue
        os.makedirs(dst)
        for fn in os.listdir(src):
            if not fn.endswith(".csv"):
                continue
            lines = open(os.path.join(src, fn)).read().split("\n")
            open(os.path.join(dst, fn), "w").write("\n".join(lines[:2] + ["73,%d,-" % h] + lines[2:]))


def plan(ctx):
    """the traced runs of this tier: [(project name, rotation rows, batch line, yml, tag)]"""
    rnd = random.Random(ctx.seed)
    ex = waterlib.prepare_examples(ctx)
    weather_scenarios(ex, ctx.seed)
    gap_scenarios(ex, ctx.seed)
    wind_scenarios(ex)
    runs = []
    scen = ["historical", "extreme", "drought", "frost", "sungaps", "radgaps"]
    nlevels = [0, 60, 150, 400]

    def add(crops, soil, weather, co2, nlevel, yml, start, autosow=False, lat=52.6732, extra="", gwpoly=False, every=0, maxint=0):
        name = "c9p%d" % len(runs)
        rows = build_rotation(rnd, crops, start)
        y0, end = write_project(ex, name, rows, nlevel, rnd, autosow, gwpoly)
        tag = "%s|soil=%s|%s|co2=%d|N=%d|%s%s" % ("+".join(c + (("_" + v) if v else "") for c, v in crops), soil, weather, co2, nlevel,
                                                   "yml" if yml else "txt", ("|autosow" if autosow else "") + ("|lat=%g" % lat if lat != 52.6732 else "") + ("|" + extra.replace(" ", ",") if extra else "")
                                                   + ("|gw-polygon" if gwpoly else ""))
        spec = {"crops": [list(c) for c in crops], "soil": soil, "weather": weather, "co2": co2, "nlevel": nlevel,
                "yml": yml, "start": start, "seed": ctx.seed, "autosow": autosow, "lat": lat, "extra": extra, "gwpoly": gwpoly}
        runs.append({"name": name, "rows": rows, "args": batch_line(name, spec, y0, end), "yml": yml, "tag": tag, "end": end, "spec": spec,
                     "every": every, "maxint": maxint, "sweep": bool(every)})

    def sweep(crop_sets):
        """CONFIGURATION SWEEP: one-crop runs with ONE configuration key (or one pair) away from the default, for every key the crop
        path reads; all crop-state oracles and kernel ties on (plain days sparsely sampled)"""
        n0 = len(runs)
        variants = []
        for m in (1, 2, 3):
            for st in (0, 1):
                for conc in (350, 700):
                    variants.append(dict(extra="CO2method=%d CO2StomataInfluence=%d CO2concentration=%d" % (m, st, conc)))
        for e in (1, 2, 3, 4):
            variants.append(dict(extra="ETpot=%d" % e))
        for la in (0, 35, 52, 60, 66, 69.65):
            variants.append(dict(lat=la, winter=True))
            variants.append(dict(lat=la))
        variants += [dict(yml=True), dict(yml=False)]
        # an effective rooting depth overridden BELOW the parameter file's value: the root limit round(WURZMAX*WUMAXPF/11) that binds is
        # the overridden one (seeded C09-17: a limit derived by the reader and not refreshed by the override)
        variants += [dict(override="c_WUMAXPF=5"), dict(override="c_WUMAXPF=3 c_VELOC=0.9")]
        variants += [dict(override="c_MAXAMAX=40 c_WUMAXPF=14"), dict(override="c_TSUM_2=150 c_TSUM_3=200"),
                     dict(override="c_MINTMP=8 c_VELOC=0.9 c_INITCONCNBIOM=3"), dict(override="c_LAIFKT_2=0.004 c_DRYSWELL_3=0.5 c_KC_2=1.3")]
        autos = ["AutoSowingHarvest", "AutoHarvest", "AutoIrrigation", "AutoFertilization"]
        for i, a in enumerate(autos):
            variants.append(dict(auto=[a]))
            for b_ in autos[i + 1:]:
                variants.append(dict(auto=[a, b_]))
        for f in (0, 50, 150):
            variants.append(dict(extra="Fertilization=%d" % f, nlevel=150))
        for ptf in (1, 2, 3, 4):
            variants.append(dict(extra="PTF=%d" % ptf))
        variants += [dict(soil=GW_SOIL, extra="GroundWaterFrom=1"), dict(soil="075", extra="GroundWaterFrom=0", gwpoly=True)]
        variants += [dict(soil="921", extra="GroundWaterFrom=1"), dict(soil="922", extra="GroundWaterFrom=1"),
                     dict(soil="921", extra="GroundWaterFrom=1", winter=True)]
        variants += [dict(weather="wind%d" % h, extra="ETpot=3") for h in WIND_HEIGHTS]
        variants += [dict(soil="003"), dict(soil="007"), dict(soil="001")]
        variants += [dict(weather=w) for w in ("frost", "heat", "drought", "extreme")]
        for kv in ("NDeposition=0", "NDeposition=60", "KcFactorBareSoil=0.1", "KcFactorBareSoil=1.0", "LeachingDepth=5", "LeachingDepth=20",
                   "OrganicMatterMineralProportion=0.05", "OrganicMatterMineralProportion=0.3", "PotMineralisation=1", "PotMineralisation=2",
                   "Altitude=800", "CoastDistance=5", "AnnualAverageTemperature=4", "AnnualAverageTemperature=14", "GroundWaterPhase=40"):
            variants.append(dict(extra=kv))
        for cs in crop_sets:
            for i, v in enumerate(variants):
                crop = cs[i % len(cs)]
                if v.get("winter"):
                    crop = ["WW", "WG", "WRA", "WR"][i % 4]
                yml = v.get("yml", (i + ctx.seed) % 2 == 0)
                extra = v.get("extra", "")
                autosow = False
                if v.get("auto"):
                    crop = ["SM", "SOY"][i % 2]          # the shipped automatic-management table has rows for these
                    extra = " ".join("%s=1" % a for a in v["auto"])
                    autosow = "AutoSowingHarvest" in v["auto"]
                if v.get("override"):
                    extra = "CropFile=PARAM.%s%s %s" % (crop, ".yml" if yml else "", v["override"])
                add([(crop, "")], v.get("soil", "075"), v.get("weather", "historical"), 2, v.get("nlevel", [60, 150, 0][i % 3]), yml,
                    1981 + (i * 7 + ctx.seed) % 24, autosow=autosow, lat=v.get("lat", 52.6732), extra=extra, gwpoly=v.get("gwpoly", False),
                    every=60, maxint=1)
        return len(runs) - n0

    if not ctx.thorough:
        # six short rotations mixing winter and summer crops; crops, soils, scenarios, N level drawn from the seed;
        # every weather scenario, CO2 method, both parameter formats and N = 0 / excess occur in every quick run
        wi, su = WINTER[:], SUMMER[:]
        rnd.shuffle(wi); rnd.shuffle(su)
        picks = [[(su[0], ""), (wi[0], ""), (su[1], "")],
                 [(wi[1], ""), ("SOY", rnd.choice(SOY_VARIETIES)), (wi[2], "")],
                 [(su[2], ""), (su[3], ""), (wi[3], "")],
                 [("ZR", "chrnew") if rnd.random() < 0.5 else (su[4], ""), (wi[4], ""), (su[5], "")],
                 [(su[6], ""), (wi[rnd.randrange(5)], ""), ("SOY", rnd.choice(SOY_VARIETIES))],
                 [(wi[rnd.randrange(5)], ""), (su[rnd.randrange(7)], ""), (wi[rnd.randrange(5)], "")]]
        soils = rnd.sample(SOILS_ALL, 6)
        if "003" not in soils:
            soils[rnd.randrange(6)] = "003"      # 10 cm root limit
        o1, o2 = rnd.randrange(6), rnd.randrange(4)
        for i, crops in enumerate(picks):
            add(crops, soils[i], scen[(i + o1) % 6], 1 + (i + ctx.seed) % 3, nlevels[(i + o2) % 4],
                (i + ctx.seed) % 2 == 0, 1981 + rnd.randrange(0, 20))
        # automatic sowing inside a window (temperature rule in April, latest date 31 May): a standing crop must not be sown again
        add([("SM", ""), ("SOY", rnd.choice(SOY_VARIETIES)), ("SM", "")], rnd.choice(["075", "160", "002"]), "historical", 1 + ctx.seed % 3,
            150, ctx.seed % 2 == 0, 1981 + rnd.randrange(0, 20), autosow=True)
        # legumes under YAML parameters through grain filling and senescence to harvest (a mis-read 'permanent crop' flag would let
        # the regrowth block throw them back to stage 1)
        add([("SOY", rnd.choice(SOY_VARIETIES)), ("LUP", ""), ("SOY", "")], rnd.choice(["075", "160", "002"]), "historical", 1 + ctx.seed % 3, 60, True,
            1981 + rnd.randrange(0, 18))
        # the same crop in consecutive rotation entries: an annual crop is established anew every time (both parameter formats),
        # only a perennial stand is carried over
        a1, a2 = rnd.sample(["SM", "WW", "SW", "WG", "K"], 2)
        add([(a1, ""), (a1, ""), (a1, "")], rnd.choice(["075", "160", "002"]), "historical", 1 + ctx.seed % 3, 60, True, 1981 + rnd.randrange(0, 18))
        add([(a2, ""), (a2, ""), (rnd.choice(["GR", "AA"]), ""), ("GR", ""), ("GR", "")], rnd.choice(["075", "160", "041"]), "historical",
            1 + (ctx.seed + 1) % 3, 150, False, 1981 + rnd.randrange(0, 16))
        # a cut before maturity (silage / green cut) after crops that matured: no stage day of the predecessor may be reported
        add([(rnd.choice(["SW", "OA"]), ""), ("SM", EARLY_CUT), (rnd.choice(["SW", "OA", "LUP"]), ""), ("SM", EARLY_CUT)],
            rnd.choice(["075", "160", "002", "041"]), "historical", 1 + (ctx.seed + 1) % 3, 150, ctx.seed % 2 == 0, 1981 + rnd.randrange(0, 18))
        # an overwintering crop north of the latitude where the effective day length vanishes around the winter solstice (58.6)
        # resp. the photoperiodic day lasts 24 h around the summer solstice (60.5)
        add([(rnd.choice(["WW", "WG", "WR", "TR"]), ""), ("WRA", "")], rnd.choice(["075", "160", "002", "041"]), "historical", 1 + (ctx.seed + 2) % 3,
            150, ctx.seed % 2 == 1, 1981 + rnd.randrange(0, 20), lat=rnd.choice(HIGH_LATITUDES[2:]))
        # deep-rooting crops on profiles whose root limit is the profile depth (or one / two layers less): historical
        # weather and fertiliser so that the root front reaches the bottom
        deep = DEEP_CROPS[:]
        rnd.shuffle(deep)
        n2 = rnd.choice([5, 6, 8, 10, 12, 15, 18])
        # 20 layers with the root limit 20: the roots reach layer 20, where the root radius 0.020 - 0.001*i is exactly 0
        add([("WW", ""), ("ZR", rnd.choice(["", "chrnew"]))], "620", "historical", 1 + ctx.seed % 3, 150, ctx.seed % 2 == 1,
            1981 + rnd.randrange(0, 20))
        add([deep[0], deep[1]], "%d%02d" % (6 + rnd.randrange(3), n2), rnd.choice(["historical", "extreme"]), 1 + (ctx.seed + 1) % 3, 60,
            ctx.seed % 2 == 0, 1981 + rnd.randrange(0, 20))
        ctx.extra["configuration_sweep_runs"] = sweep([["SM", "WW", "ZR", "K", "SOY", "WRA", "SW"]])
    else:
        ctx.extra["configuration_sweep_runs"] = sweep([["SM", "WW", "ZR", "K", "SOY", "WRA", "SW"], ["WG", "OA", "LUP", "TR", "WR", "SM", "ZR"],
                                                       ["K", "SOY", "WW", "SM", "TR", "SW", "WRA"]])
        allcrops = [(c, "") for c in SUMMER + WINTER] + [("SOY", v) for v in SOY_VARIETIES[1:]] + [("ZR", "chrnew")]
        k = 0
        for rep in range(4):
            for yml in (False, True):
                for co2 in (1, 2, 3):
                    pool = allcrops[:]
                    rnd.shuffle(pool)
                    # rotations of three crops: every parameter set once per (repetition, format, CO2 method)
                    for j in range(0, len(pool), 3):
                        crops = pool[j:j + 3]
                        add(crops, SOILS_ALL[(k + rep) % len(SOILS_ALL)], scen[(k + k // 4 + rep) % 6], co2,
                            nlevels[(k // 2 + rep) % 4], yml, 1981 + rnd.randrange(0, 22))
                        k += 1
        for j in range(6):
            add([("SM", ""), ("SOY", SOY_VARIETIES[j]), ("SM", ""), ("SOY", SOY_VARIETIES[j + 2])], SOILS_ALL[(3 * j) % len(SOILS_ALL)],
                ["historical", "drought", "frost"][j % 3], 1 + j % 3, [150, 0][j % 2], j % 2 == 0, 1981 + rnd.randrange(0, 18), autosow=True)
        for j, a in enumerate(["SM", "WW", "SW", "WG", "K", "ZR", "SOY", "WRA"]):
            for yml_ in (True, False):
                add([(a, ""), (a, ""), (a, "")], SOILS_ALL[(j + 2) % len(SOILS_ALL)], ["historical", "drought"][j % 2], 1 + j % 3, [60, 150][j % 2],
                    yml_, 1981 + rnd.randrange(0, 16))
        for j, pcrop in enumerate(["GR", "AA", "GR", "AA"]):
            add([("SW", ""), (pcrop, ""), (pcrop, ""), (pcrop, "")], SOILS_ALL[(j + 5) % len(SOILS_ALL)], "historical", 1 + j % 3, 60, j % 2 == 0,
                1981 + rnd.randrange(0, 16))
        for j in range(8):
            pre_ = ["SW", "OA", "LUP", "WG"][j % 4]
            cut = ["SM", "WR", "WW", "OA"][j % 4]
            add([(pre_, ""), (cut, EARLY_CUT), (["SW", "WRA"][j % 2], ""), ("SM", EARLY_CUT)], SOILS_ALL[(j + 4) % len(SOILS_ALL)],
                ["historical", "frost", "drought"][j % 3], 1 + j % 3, [150, 0][j % 2], j % 2 == 0, 1981 + rnd.randrange(0, 17))
        for j, la in enumerate(HIGH_LATITUDES):
            add([(WINTER[j % 4], ""), ("WRA", ""), (WINTER[(j + 1) % 4], "")], SOILS_ALL[(2 * j) % len(SOILS_ALL)], ["historical", "frost"][j % 2],
                1 + j % 3, [150, 60][j % 2], j % 2 == 0, 1981 + rnd.randrange(0, 18), lat=la)
            add([("SW", ""), (WINTER[(j + 2) % 4], "")], SOILS_ALL[(2 * j + 1) % len(SOILS_ALL)], "historical", 1 + (j + 1) % 3, 60, j % 2 == 1,
                1981 + rnd.randrange(0, 18), lat=la)
        # every deep-rooting crop on every custom profile (root limit N, N-1, N-2)
        ids = custom_soil_ids()
        for j, sid in enumerate(ids):
            crops = [DEEP_CROPS[j % 4], DEEP_CROPS[(j + 1 + j // 4) % 4]]
            add(crops, sid, scen[(j // 3) % 2 * 1], 1 + j % 3, [150, 60, 400][j % 3], j % 2 == 0, 1981 + rnd.randrange(0, 22))
    return ex, runs


_plan_cache = {}


def run(ctx):
    key = (ctx.seed, ctx.tier, ctx.work)
    if key in _plan_cache:
        return _plan_cache[key]
    ex, runs = plan(ctx)
    lf = os.path.join(ctx.work, "c09_lines.txt")
    with open(lf, "w") as f:
        for r_ in runs:
            f.write(json.dumps({"args": r_["args"], "yml": r_["yml"], "tag": r_["tag"], "every": r_.get("every", 0), "maxint": r_.get("maxint", 0), "maxall": 6 if r_.get("sweep") else 0}) + "\n")
    every = 30 if ctx.thorough else 12
    rc, cases, orc, other, err = waterlib.run_harness(ctx, "c09", ["-work", ex, "-lines", lf, "-seed", str(ctx.seed), "-every", str(every),
                                                                    "-max-interesting", "8" if ctx.thorough else "8"], timeout=3000)
    _plan_cache[key] = (ex, runs, rc, cases, orc, err)
    return _plan_cache[key]


# ---------------------------------------------------------------------------------------------
def zl(l):
    return "[" + "; ".join("(%d)" % v for v in l) + "]%Z"


def nl(l):
    return "[" + "; ".join("%d" % v for v in l) + "]%nat"


def obs_record(d):
    k1 = d["o_k"]
    last = k1 + 1 >= d["nrentw"]
    si = ("{| si_tsum := %s; si_bas := %s; si_nrentw := (%d)%%Z; si_doy := (%d)%%Z; si_zeit := (%d)%%Z; si_temp := %s; si_wg00 := %s; "
          "si_w0 := %s; si_wmin0 := %s; si_dt := %s; si_fv := %s; si_fp := %s; si_devprog := %s |}"
          % (fls(d["tsum"]), fls(d["bas"]), d["nrentw"], d["doy"], d["zeit"], fl(d["temp"]), fl(d["wg00"]), fl(d["w0"]), fl(d["wmin0"]),
             fl(d["dt"]), fl(d["fv"]), fl(d["fp"]), fl(d["devprog"])))
    oi = ("{| oi_nrkom := %d%%nat; oi_last := %s; oi_sumk := %s; oi_tsumk := %s; oi_gtw := %s; oi_mterm := %s; oi_reduk := %s; "
          "oi_pro_lo := %s; oi_pro_hi := %s; oi_dead_lo := %s; oi_dead_hi := %s; oi_dt := %s; oi_laifkt_lo := %s; oi_laifkt_hi := %s; "
          "oi_laifkt0 := %s; oi_gehalt := %s |}"
          % (d["nrkom"], b(last), fl(d["o_sum"][k1]), fl(d["tsum"][k1]), fl(d["gtw"]), fls(d["mterm"]), fl(d["o_reduk"]),
             fls(d["pro_lo"]), fls(d["pro_hi"]), fls(d["dead_lo"]), fls(d["dead_hi"]), fl(d["dt"]), fl(d["laifkt_lo"]), fl(d["laifkt_hi"]),
             fl(d["laifkt0"]), fl(d["gehob"])))
    os_ = ("{| os_worg := %s; os_gorg := %s; os_dgorg := %s; os_wdorg := %s; os_lai := %s; os_pesum := %s |}"
           % (fls(d["worg"]), fls(d["gorg0"]), fls(d["dgorg0"]), fls(d["wdorg"]), fl(d["lai"]), fl(d["pesum"])))
    ui = ("{| ui_grown := %s; ui_zrk := %s; ui_legum := %s; ui_gehmax := %s; ui_obmas := %s; ui_wumas := %s; ui_worg3 := %s; ui_wgmax := %s; "
          "ui_pesum := %s; ui_dt := %s; ui_dz := %s; ui_wudich := %s; ui_maxup := %s; ui_wurz := (%d)%%Z; ui_grw := %s; ui_mass := %s; "
          "ui_diff := %s; ui_c1 := %s |}"
          % (b(d["grown"]), b(d["zrk"]), b(d["legum"]), fl(d["gehmax"]), fl(d["o_obmas"]), fl(d["o_wumas"]), fl(d["o_worg"][3]), fl(d["wgmax"]),
             fl(d["o_pesum"]), fl(d["dt"]), fl(d["dz"]), fls(d["wudich"]), fl(d["maxup"]), d["o_wurz"], fl(d["grw"]), fls(d["mass"]),
             fls(d["diff"]), fls(d["c1"])))
    def tab(t):
        return "[" + "; ".join(fls(r) for r in t) + "]"

    def ncrec(c):
        return ("{| nco_in := {| nc_fkt := (%d)%%Z; nc_wrsg := %s; nc_phyllo := %s; nc_obmas := %s; nc_worg3 := %s; nc_suborg := %s; "
                "nc_rga := %s; nc_rgb := %s; nc_tendsum := %s; nc_lg := %s; nc_o1 := %s; nc_o2 := %s |}; nco_a1 := %s; nco_a2 := %s; "
                "nco_min0 := %s; nco_max0 := %s; nco_o_min := %s; nco_o_max := %s |}"
                % (c["fkt"], b(c["wrsg"]), fl(c["phyllo"]), fl(c["obmas"]), fl(c["worg3"]), fl(c["suborg"]), fl(c["rga"]), fl(c["rgb"]),
                   fl(c["tendsum"]), fl(c["lg"]), fl(c["o1"]), fl(c["o2"]), fl(c["a1"]), fl(c["a2"]), fl(c["min0"]), fl(c["max0"]),
                   fl(c["o_min"]), fl(c["o_max"])))
    nq = ("{| nq_zrk := %s; nq_wumalt := %s; nq_obalt := %s; nq_gehalt := %s; nq_wumas := %s; nq_obmas := %s; nq_worg3 := %s; "
          "nq_wugeh := %s; nq_wgmax := %s; nq_pesum := %s; nq_sumpe := 0; nq_nfix := %s |}"
          % (b(d["zrk"]), fl(d["wumalt"]), fl(d["obalt"]), fl(d["gehalt"]), fl(d["o_wumas"]), fl(d["o_obmas"]), fl(d["o_worg"][3]),
             fl(d["wugeh0"]), fl(d["wgmax"]), fl(d["o_pesum"]), fl(d["o_nfix"])))
    new_fields = ("ob_ncs := [%s]; ob_nq := %s; ob_o_gehob := %s; ob_o_wugeh := %s; ob_pro := %s; ob_dead := %s; "
                  % ("; ".join(ncrec(c) for c in d["nc"]), nq, fl(d["o_gehob"]), fl(d["o_wugeh"]), tab(d["pro"]), tab(d["dead"])))
    return ("{| " + new_fields + "ob_si := %s; ob_k0 := %d%%nat; ob_sum := %s; ob_dev := %s; ob_phyllo := %s; ob_o_k := %d%%nat; ob_o_sum := %s; ob_o_dev := %s; "
            "ob_o_phyllo := %s; ob_gehob := %s; ob_gehmin := %s; ob_ngefkt1 := %s; ob_earg := %s; ob_e := %s; ob_o_reduk := %s; "
            "ob_oi := %s; ob_os := %s; ob_above := %s; ob_o_worg := %s; ob_o_gorg := %s; ob_o_dgorg := %s; ob_o_wdorg := %s; ob_o_lai := %s; "
            "ob_o_pesum := %s; ob_o_aspoo := %s; ob_o_obmas := %s; ob_o_wumas := %s; ob_wurzmax := (%d)%%Z; ob_n := (%d)%%Z; ob_wumaxpf := %s; "
            "ob_qrez := %s; ob_dz := %s; ob_o_wurz := (%d)%%Z; ob_ui := %s; ob_o_pe := %s; ob_o_nfix := %s |}"
            % (si, d["k0"], fls(d["sum"]), zl(d["dev"]), fl(d["phyllo"]), k1, fls(d["o_sum"]), zl(d["o_dev"]), fl(d["o_phyllo"]),
               fl(d["gehob"]), fl(d["gehmin"]), b(d["ngefkt1"]), fl(d["earg"]), fl(d["e"]), fl(d["o_reduk"]), oi, os_, nl(d["above"]),
               fls(d["o_worg"]), fls(d["o_gorg"]), fls(d["o_dgorg"]), fls(d["o_wdorg"]), fl(d["o_lai"]), fl(d["o_pesum"]), fl(d["o_aspoo"]),
               fl(d["o_obmas"]), fl(d["o_wumas"]), d["wurzmax"], d["n"], fl(d["wumaxpf"]), fl(d["qrez"]), fl(d["dz"]), d["o_wurz"], ui,
               fls(d["o_pe"]), fl(d["o_nfix"])))


HDR = ["From Coq Require Import ZArith List Bool Floats.", "From Hermes Require Import Num CropModel CropNModel DevModel RootDistModel RadiaModel SupplyModel C09Corr.",
       "Import ListNotations.", "Open Scope float_scope."]
GROUPS = ["stage", "REDUK", "organs", "pool/biomass", "root-depth", "N-uptake", "bookkeeping", "GEHOB/WUGEH", "N-content-functions"]


def eval_cases(ctx, corr, days, shard=40):
    recs = [obs_record(d) for d in days]
    items = []
    for k in range(0, len(recs), shard):
        body = HDR + ["Definition cases : list c09_obs := [\n%s\n]." % ";\n".join(recs[k:k + shard]),
                      "Definition M := Eval vm_compute in c09_mismatches %d%%nat cases." % k, "Print M."]
        items.append(("Cases_c09_%d" % (k // shard), "\n".join(body) + "\n"))
    for nm, rc, o in ctx.coq_eval_many(items, timeout=900):
        m = re.search(r"M\s*=\s*(.*?)\s*:\s*list \(nat \* nat\)", o, re.S)
        if rc != 0 or not m:
            corr.mismatches.append({"kind": "coq-eval", "shard": nm, "output": o[-1500:]})
            continue
        pairs = re.findall(r"\(\s*(\d+)(?:%nat)?\s*,\s*(\d+)(?:%nat)?\s*\)", m.group(1))
        if m.group(1).strip() != "[]" and not pairs:
            corr.mismatches.append({"kind": "coq-eval", "shard": nm, "output": o[-1500:]})
        for idx, mask in pairs:
            idx, mask = int(idx), int(mask)
            d = days[idx]
            corr.mismatches.append({"kind": "phytoout-kernel", "differs": [GROUPS[j] for j in range(len(GROUPS)) if mask >> j & 1],
                                    "crop": d["crop"], "zeit": d["zeit"], "line": d["line"], "kinds": d["kinds"],
                                    "case": {k: v for k, v in d.items() if k in ("k0", "o_k", "worg", "o_worg", "lai", "o_lai", "o_reduk", "o_wurz", "qrez", "gtw")}})
    corr.cases += len(recs)


def dev_correspond(ctx, corr, days, shard=400):
    """development-rate block (DevModel): FV / vernalisation days, FP, devprog, potential rooting depth of every emitted grown day"""
    pts = [d for d in days if d["grown"] and "d_vt0" in d]
    recs = ["{| dvo_temp := %s; dvo_vt0 := %s; dvo_dt := %s; dvo_vschwell := %s; dvo_dlp := %s; dvo_dayl := %s; dvo_dlbas := %s; dvo_nons := %s; "
            "dvo_reduk := %s; dvo_trrel := %s; dvo_dry := %s; dvo_lured := %s; dvo_p := %s; dvo_o_vt := %s; dvo_o_fv := %s; dvo_o_fp := %s; "
            "dvo_o_devprog := %s; dvo_o_pot := %s |}"
            % (fl(d["temp"]), fl(d["d_vt0"]), fl(d["dt"]), fl(d["d_vschwell"]), fl(d["d_dlp"]), fl(d["d_dayl"]), fl(d["d_dlbas"]), b(d["d_nons"]),
               fl(d["reduk0"]), fl(d["d_trrel"]), fl(d["d_dry"]), fl(d["d_lured"]), fl(d["d_p"]), fl(d["d_o_vt"]), fl(d["d_o_fv"]), fl(d["d_o_fp"]),
               fl(d["devprog"]), fl(d["d_o_pot"])) for d in pts]
    items = []
    for k in range(0, len(recs), shard):
        body = HDR + ["Definition cases : list dev_obs := [\n%s\n]." % ";\n".join(recs[k:k + shard]),
                      "Definition M := Eval vm_compute in dev_mismatches %d%%nat cases." % k, "Print M."]
        items.append(("Cases_c09dev_%d" % (k // shard), "\n".join(body) + "\n"))
    names = ["vernalisation-days/FV", "FP", "devprog", "potential-rooting-depth"]
    for nm, rc2, o in ctx.coq_eval_many(items, timeout=900):
        m = re.search(r"M\s*=\s*(.*?)\s*:\s*list \(nat \* nat\)", o, re.S)
        if rc2 != 0 or not m:
            corr.mismatches.append({"kind": "coq-eval", "shard": nm, "output": o[-1500:]})
            continue
        pairs = re.findall(r"\(\s*(\d+)(?:%nat)?\s*,\s*(\d+)(?:%nat)?\s*\)", m.group(1))
        if m.group(1).strip() != "[]" and not pairs:
            corr.mismatches.append({"kind": "coq-eval", "shard": nm, "output": o[-1500:]})
        for idx, mask in pairs[:10]:
            d = pts[int(idx)]
            corr.mismatches.append({"kind": "development-rate-kernel", "differs": [n for j, n in enumerate(names) if int(mask) >> j & 1],
                                    "crop": d["crop"], "zeit": d["zeit"], "line": d["line"],
                                    "case": {k: d[k] for k in ("temp", "d_vt0", "d_vschwell", "d_dlp", "d_dayl", "d_dlbas", "d_o_vt", "d_o_fv", "d_o_fp", "devprog", "d_o_pot")}})
    corr.cases += len(recs)
    corr.dist["development-rate-days"] = len(recs)
    # the tie must reach the interesting branches: a vernalising stage, a day-length sensitive stage (long- and short-day), a stress acceleration
    def hv(s):
        try:
            return float.fromhex(s)
        except ValueError:
            return float("nan")
    corr.dist["development-rate:vernalising-stage"] = sum(1 for d in pts if hv(d["d_vschwell"]) != 0)
    corr.dist["development-rate:FV-inside-0-1"] = sum(1 for d in pts if 0 < hv(d["d_o_fv"]) < 1)
    corr.dist["development-rate:long-day-stage"] = sum(1 for d in pts if hv(d["d_dayl"]) > 0)
    corr.dist["development-rate:short-day-stage"] = sum(1 for d in pts if hv(d["d_dayl"]) < 0)
    corr.dist["development-rate:FP-inside-0-1"] = sum(1 for d in pts if 0 < hv(d["d_o_fp"]) < 1)
    corr.dist["development-rate:accelerated"] = sum(1 for d in pts if hv(d["devprog"]) > 1)
    for need in ("vernalising-stage", "FV-inside-0-1", "long-day-stage", "FP-inside-0-1", "accelerated"):
        if pts and not corr.dist["development-rate:" + need]:
            corr.mismatches.append({"kind": "coverage", "what": "no traced day for the development-rate case " + need})


def rootdist_correspond(ctx, corr, days, shard=150):
    """root distribution block (RootDistModel): WUDICH and WUANT of every rooted layer on every emitted grown day"""
    pts = [d for d in days if d["grown"] and "r_hi" in d]
    for d in pts:
        if not d["r_ok"]:
            corr.mismatches.append({"kind": "mirror-mismatch", "what": "effective Qrez (crop.go:597-606)", "crop": d["crop"], "zeit": d["zeit"], "line": d["line"]})
            break
    recs = ["{| rdo_zrk := %s; rdo_wumas := %s; rdo_pi := %s; rdo_dz := %s; rdo_es := [%s]; rdo_o_wudich := %s; rdo_o_wuant := %s |}"
            % (b(d["zrk"]), fl(d["o_wumas"]), fl(d["r_pi"]), fl(d["dz"]), "; ".join("(%s, %s)" % (fl(h), fl(l)) for h, l in zip(d["r_hi"], d["r_lo"])),
               fls(d["wudich"]), fls(d["r_o_wuant"])) for d in pts]
    items = []
    for k in range(0, len(recs), shard):
        body = HDR + ["Definition cases : list rootdist_obs := [\n%s\n]." % ";\n".join(recs[k:k + shard]),
                      "Definition M := Eval vm_compute in rootdist_mismatches %d%%nat cases." % k, "Print M."]
        items.append(("Cases_c09root_%d" % (k // shard), "\n".join(body) + "\n"))
    for nm, rc2, o in ctx.coq_eval_many(items, timeout=900):
        m = re.search(r"M\s*=\s*(.*?)\s*:\s*list \(nat \* nat\)", o, re.S)
        if rc2 != 0 or not m:
            corr.mismatches.append({"kind": "coq-eval", "shard": nm, "output": o[-1500:]})
            continue
        pairs = re.findall(r"\(\s*(\d+)(?:%nat)?\s*,\s*(\d+)(?:%nat)?\s*\)", m.group(1))
        if m.group(1).strip() != "[]" and not pairs:
            corr.mismatches.append({"kind": "coq-eval", "shard": nm, "output": o[-1500:]})
        for idx, mask in pairs[:10]:
            d = pts[int(idx)]
            corr.mismatches.append({"kind": "root-distribution-kernel", "differs": [n for j, n in enumerate(["WUDICH", "WUANT"]) if int(mask) >> j & 1],
                                    "crop": d["crop"], "zeit": d["zeit"], "line": d["line"], "case": {k: d[k] for k in ("o_wumas", "qrez", "o_wurz", "wudich", "r_o_wuant")}})
    corr.cases += len(recs)
    corr.dist["root-distribution-days"] = len(recs)
    corr.dist["root-distribution:layers"] = sum(len(d["r_hi"]) for d in pts)
    corr.dist["root-distribution:beet-or-potato"] = sum(1 for d in pts if d["zrk"])
    corr.dist["root-distribution:roots-in-layer-20"] = sum(1 for d in pts if len(d["r_hi"]) >= 20)


def assim_correspond(ctx, corr, days, shard=400):
    """assimilation kernel of radia() (CropNModel.assim_of) against the REAL kernel (hook VerifRadia): GPHOT and MAINT of every emitted
    grown day on which radia() got past its day-length guard; inputs = locals recorded by the harness' shadow copy of radia()"""
    pts = [d for d in days if d["grown"] and d.get("a_ok")]
    recs = ["{| aso_in := {| as_rad := %s; as_sund := %s; as_dle := %s; as_dgac := %s; as_dgao := %s; as_drc := %s; as_trrel := %s; as_vswell := %s; "
            "as_maint_pot := %s; as_cold := %s |}; aso_o_gphot := %s; aso_o_maint := %s |}"
            % (fl(d["a_rad"]), fl(d["a_sund"]), fl(d["a_dle"]), fl(d["a_dgac"]), fl(d["a_dgao"]), fl(d["a_drc"]), fl(d["a_trrel"]), fl(d["a_vswell"]),
               fl(d["a_mpot"]), b(d["a_cold"]), fl(d["a_o_gphot"]), fl(d["a_o_maint"])) for d in pts]
    items = []
    for k in range(0, len(recs), shard):
        body = HDR + ["Definition cases : list assim_obs := [\n%s\n]." % ";\n".join(recs[k:k + shard]),
                      "Definition M := Eval vm_compute in assim_mismatches %d%%nat cases." % k, "Print M."]
        items.append(("Cases_c09assim_%d" % (k // shard), "\n".join(body) + "\n"))
    for nm, rc2, o in ctx.coq_eval_many(items, timeout=900):
        m = re.search(r"M\s*=\s*(.*?)\s*:\s*list \(nat \* nat\)", o, re.S)
        if rc2 != 0 or not m:
            corr.mismatches.append({"kind": "coq-eval", "shard": nm, "output": o[-1500:]})
            continue
        pairs = re.findall(r"\(\s*(\d+)(?:%nat)?\s*,\s*(\d+)(?:%nat)?\s*\)", m.group(1))
        if m.group(1).strip() != "[]" and not pairs:
            corr.mismatches.append({"kind": "coq-eval", "shard": nm, "output": o[-1500:]})
        for idx, mask in pairs[:10]:
            d = pts[int(idx)]
            corr.mismatches.append({"kind": "assimilation-kernel", "differs": [n for j, n in enumerate(["GPHOT", "MAINT"]) if int(mask) >> j & 1],
                                    "crop": d["crop"], "zeit": d["zeit"], "line": d["line"],
                                    "case": {k: d[k] for k in d if k.startswith("a_")}})
    corr.cases += len(recs)

    def hv(s):
        try:
            return float.fromhex(s)
        except ValueError:
            return float("nan")
    corr.dist["assimilation-days"] = len(recs)
    corr.dist["assimilation:from-sunshine"] = sum(1 for d in pts if hv(d["a_rad"]) == 0)
    corr.dist["assimilation:from-radiation"] = sum(1 for d in pts if hv(d["a_rad"]) != 0)
    corr.dist["assimilation:water-stress-cut"] = sum(1 for d in pts if hv(d["a_trrel"]) < hv(d["a_vswell"]))
    corr.dist["assimilation:maintenance-limited"] = sum(1 for d in pts if hv(d["a_o_maint"]) == hv(d["a_o_gphot"]))
    corr.dist["assimilation:cold-day"] = sum(1 for d in pts if d["a_cold"])
    for need in ("from-sunshine", "from-radiation", "water-stress-cut", "cold-day"):
        if pts and not corr.dist["assimilation:" + need]:
            corr.mismatches.append({"kind": "coverage", "what": "no traced day for the assimilation case " + need})


def radia_correspond(ctx, corr, days, shard=300):
    """head of radia() (RadiaModel.rd_light: light-use efficiency, AMAX under the CO2 methods and temperature types, light response)
    against the locals recorded by the harness' shadow of radia() (shadow = real kernel on every case): AMAX, EFFE, DLE, DGAC, DGAO and
    the arguments of the logarithms / saturation exponentials"""
    pts = [d for d in days if d["grown"] and d.get("a_ok") and "h_o" in d]
    def rec(d):
        o = d["h_o"]
        return ("{| rao_in := {| rd_temp := %s; rd_mintmp := %s; rd_maxamax := %s; rd_co2 := %s; rd_meth := (%d)%%Z; rd_temptyp := (%d)%%Z; "
                "rd_rad := %s; rd_sund := %s; rd_lai := %s; rd_dl := %s; rd_dle := %s; rd_rdn := %s; rd_drc := %s; "
                "rd_p2 := %s; rd_ktv := %s; rd_ktc := %s; rd_kto := %s; rd_cossc := %s; rd_sslae := %s; rd_logx := %s; rd_logy := %s; "
                "rd_elai := %s; rd_ec := %s; rd_eo := %s |}; rao_o_amax := %s; rao_o_effe := %s; rao_o_dle := %s; rao_o_dgac := %s; rao_o_dgao := %s; "
                "rao_xarg := %s; rao_yarg := %s; rao_ecarg := %s; rao_eoarg := %s |}"
                % (fl(d["h_temp"]), fl(d["h_mintmp"]), fl(d["h_maxamax"]), fl(d["h_co2"]), d["h_meth"], d["h_temptyp"],
                   fl(d["a_rad"]), fl(d["a_sund"]), fl(d["h_lai"]), fl(d["a_dl"]), fl(d["h_dle0"]), fl(d["h_rdn"]), fl(d["a_drc"]),
                   fl(o["p2"]), fl(o["ktv"]), fl(o["ktc"]), fl(o["kto"]), fl(o["cossc"]), fl(o["sslae"]), fl(o["logx"]), fl(o["logy"]),
                   fl(o["elai"]), fl(o["ec"]), fl(o["eo"]), fl(d["h_o_amax"]), fl(d["h_o_effe"]), fl(d["a_dle"]), fl(d["a_dgac"]), fl(d["a_dgao"]),
                   fl(o["xarg"]), fl(o["yarg"]), fl(o["ecarg"]), fl(o["eoarg"])))
    recs = [rec(d) for d in pts]
    items = []
    for k in range(0, len(recs), shard):
        body = HDR + ["Definition cases : list radia_obs := [\n%s\n]." % ";\n".join(recs[k:k + shard]),
                      "Definition M := Eval vm_compute in radia_mismatches %d%%nat cases." % k, "Print M."]
        items.append(("Cases_c09radia_%d" % (k // shard), "\n".join(body) + "\n"))
    for nm, rc2, o in ctx.coq_eval_many(items, timeout=900):
        m = re.search(r"M\s*=\s*(.*?)\s*:\s*list \(nat \* nat\)", o, re.S)
        if rc2 != 0 or not m:
            corr.mismatches.append({"kind": "coq-eval", "shard": nm, "output": o[-1500:]})
            continue
        pairs = re.findall(r"\(\s*(\d+)(?:%nat)?\s*,\s*(\d+)(?:%nat)?\s*\)", m.group(1))
        if m.group(1).strip() != "[]" and not pairs:
            corr.mismatches.append({"kind": "coq-eval", "shard": nm, "output": o[-1500:]})
        for idx, mask in pairs[:10]:
            d = pts[int(idx)]
            corr.mismatches.append({"kind": "radia-head-kernel", "differs": [n for j, n in enumerate(["AMAX/EFFE/DLE", "DGAC/DGAO", "argument"]) if int(mask) >> j & 1],
                                    "crop": d["crop"], "zeit": d["zeit"], "line": d["line"], "tag_of_line": d.get("line"),
                                    "case": {k: d[k] for k in d if k.startswith("h_") or k.startswith("a_")}})
    corr.cases += len(recs)
    corr.dist["radia-head-days"] = len(recs)
    for m_ in (1, 2, 3):
        for tt in (1, 2):
            corr.dist["radia-head:CO2method=%d,temptyp=%d" % (m_, tt)] = sum(1 for d in pts if d["h_meth"] == m_ and (d["h_temptyp"] == 1) == (tt == 1))
    for need in ("CO2method=1,temptyp=1", "CO2method=2,temptyp=1", "CO2method=3,temptyp=1", "CO2method=2,temptyp=2"):
        if pts and not corr.dist["radia-head:" + need]:
            corr.mismatches.append({"kind": "coverage", "what": "no traced day for the radia case " + need})


def supply_correspond(ctx, corr, days, shard=200):
    """supply terms (SupplyModel): MASS / DIFF of the uptake layers and maxup recomputed in Coq from the raw state and compared with the
    values the uptake tie consumes (so the harness' mirror of crop.go:662-699 is itself checked against the model)"""
    pts = [d for d in days if d["grown"] and "s_n" in d]
    cls = ["MxVeg", "MxSM", "MxZR", "MxOther"]
    def rec(d):
        n = d["s_n"]
        layers = "; ".join("{| sl_tp := %s; sl_c1 := %s; sl_wg := %s; sl_ad := %s; sl_e := %s; sl_wudich := %s |}"
                           % (fl(d["s_tp"][i]), fl(d["s_c1"][i]), fl(d["s_wg"][i]), fl(d["s_ad"][i]), fl(d["s_e"][i]), fl(d["s_wud"][i])) for i in range(n))
        return ("{| spo_zrk := %s; spo_pi := %s; spo_dz := %s; spo_dt := %s; spo_layers := [%s]; spo_class := %s; spo_phyllo := %s; spo_tendsum := %s; "
                "spo_o_mass := %s; spo_o_diff := %s; spo_o_maxup := %s |}"
                % (b(d["zrk"]), fl(d["r_pi"]), fl(d["dz"]), fl(d["dt"]), layers, cls[d["s_class"]], fl(d["s_phyllo"]), fl(d["s_tendsum"]),
                   fls(d["mass"][:n]), fls(d["diff"][:n]), fl(d["maxup"])))
    recs = [rec(d) for d in pts]
    items = []
    for k in range(0, len(recs), shard):
        body = HDR + ["Definition cases : list supply_obs := [\n%s\n]." % ";\n".join(recs[k:k + shard]),
                      "Definition M := Eval vm_compute in supply_mismatches %d%%nat cases." % k, "Print M."]
        items.append(("Cases_c09supply_%d" % (k // shard), "\n".join(body) + "\n"))
    for nm, rc2, o in ctx.coq_eval_many(items, timeout=900):
        m = re.search(r"M\s*=\s*(.*?)\s*:\s*list \(nat \* nat\)", o, re.S)
        if rc2 != 0 or not m:
            corr.mismatches.append({"kind": "coq-eval", "shard": nm, "output": o[-1500:]})
            continue
        pairs = re.findall(r"\(\s*(\d+)(?:%nat)?\s*,\s*(\d+)(?:%nat)?\s*\)", m.group(1))
        if m.group(1).strip() != "[]" and not pairs:
            corr.mismatches.append({"kind": "coq-eval", "shard": nm, "output": o[-1500:]})
        for idx, mask in pairs[:10]:
            d = pts[int(idx)]
            corr.mismatches.append({"kind": "supply-kernel", "differs": [n for j, n in enumerate(["MASS", "DIFF", "maxup"]) if int(mask) >> j & 1],
                                    "crop": d["crop"], "zeit": d["zeit"], "line": d["line"],
                                    "case": {k: d[k] for k in d if k.startswith("s_") or k in ("mass", "diff", "maxup")}})
    corr.cases += len(recs)
    corr.dist["supply-days"] = len(recs)
    corr.dist["supply:layers"] = sum(d["s_n"] for d in pts)
    for i_, c_ in enumerate(cls):
        corr.dist["supply:maxup-class=" + c_] = sum(1 for d in pts if d["s_class"] == i_)
    for need in ("MxSM", "MxZR", "MxOther", "MxVeg"):
        if pts and not corr.dist["supply:maxup-class=" + need]:
            corr.mismatches.append({"kind": "coverage", "what": "no traced day for the uptake-limit class " + need})


def pool_correspond(ctx, corr, days, shard=200):
    """what the organic pools receive from the crop (RootDistModel.pools_after): NFOS / NAOS of the rooted layers after PhytoOut on every
    emitted grown day of an annual crop (the regrowth branch of permanent crops adds further terms and is outside the claim)"""
    pts = [d for d in days if d["grown"] and "p_n" in d and d["crop"] not in ("GR", "GRE", "AA")]
    for d in pts:
        if not d["p_rest_same"]:
            corr.mismatches.append({"kind": "pool-inputs", "what": "PhytoOut changed an organic pool below the rooted layers", "crop": d["crop"], "zeit": d["zeit"], "line": d["line"]})
            break
    def rec(d):
        n_org = min(d["nrkom"], 3)
        dg = d["o_dgorg"][1:n_org]
        return ("{| plo_dgorgs := %s; plo_gehalt := %s; plo_dt := %s; plo_wumas := %s; plo_wumalt := %s; plo_wugeh := %s; plo_shares := %s; "
                "plo_nfos := %s; plo_naos := %s; plo_o_nfos := %s; plo_o_naos := %s |}"
                % (fls(dg), fl(d["gehalt"]), fl(d["dt"]), fl(d["o_wumas"]), fl(d["r_wumalt"]), fl(d["r_wugeh"]), fls(d["r_o_wuant"]),
                   fls(d["p_nfos0"]), fls(d["p_naos0"]), fls(d["p_o_nfos"]), fls(d["p_o_naos"])))
    recs = [rec(d) for d in pts]
    items = []
    for k in range(0, len(recs), shard):
        body = HDR + ["Definition cases : list pool_obs := [\n%s\n]." % ";\n".join(recs[k:k + shard]),
                      "Definition M := Eval vm_compute in pool_mismatches %d%%nat cases." % k, "Print M."]
        items.append(("Cases_c09pool_%d" % (k // shard), "\n".join(body) + "\n"))
    for nm, rc2, o in ctx.coq_eval_many(items, timeout=900):
        m = re.search(r"M\s*=\s*(.*?)\s*:\s*list \(nat \* nat\)", o, re.S)
        if rc2 != 0 or not m:
            corr.mismatches.append({"kind": "coq-eval", "shard": nm, "output": o[-1500:]})
            continue
        pairs = re.findall(r"\(\s*(\d+)(?:%nat)?\s*,\s*(\d+)(?:%nat)?\s*\)", m.group(1))
        if m.group(1).strip() != "[]" and not pairs:
            corr.mismatches.append({"kind": "coq-eval", "shard": nm, "output": o[-1500:]})
        for idx, mask in pairs[:10]:
            d = pts[int(idx)]
            corr.mismatches.append({"kind": "pool-input-kernel", "differs": [n for j, n in enumerate(["NFOS", "NAOS"]) if int(mask) >> j & 1],
                                    "crop": d["crop"], "zeit": d["zeit"], "line": d["line"],
                                    "case": {k: d[k] for k in d if k.startswith("p_") or k in ("o_dgorg", "gehalt", "o_wumas", "r_wumalt", "r_wugeh", "nrkom")}})
    corr.cases += len(recs)

    def hv(s):
        try:
            return float.fromhex(s)
        except ValueError:
            return float("nan")
    corr.dist["pool-input-days"] = len(recs)
    corr.dist["pool-input:dead-roots"] = sum(1 for d in pts if hv(d["o_wumas"]) < hv(d["r_wumalt"]))
    corr.dist["pool-input:dead-leaves"] = sum(1 for d in pts if any(hv(x) > 0 for x in d["o_dgorg"][1:3]))
    for need in ("dead-roots", "dead-leaves"):
        if pts and not corr.dist["pool-input:" + need]:
            corr.mismatches.append({"kind": "coverage", "what": "no traced day with " + need})


def fkc_correspond(ctx, corr, days, shard=500):
    """crop coefficient FKC and BBCH code (DevModel): every emitted day of stage >= 1 (before emergence: the unclamped form of crop.go:138)"""
    pts = [d for d in days if "k_kc" in d and (d["grown"] or d["o_k"] == 0)]
    def rec(d):
        k = d["o_k"]
        return ("{| fko_grown := %s; fko_first := %s; fko_kcini := %s; fko_kcprev := %s; fko_kc := %s; fko_endprev := %s; fko_end := %s; "
                "fko_sum := %s; fko_tsum := %s; fko_o_fkc := %s; fko_o_bbch := (%d)%%Z |}"
                % (b(d["grown"]), b(k == 0), fl(d["k_kcini"]), fl(d["k_kcprev"]), fl(d["k_kc"]), fl(d["k_endprev"]), fl(d["k_end"]),
                   fl(d["o_sum"][k]), fl(d["tsum"][k]), fl(d["k_o_fkc"]), d["k_o_bbch"]))
    recs = [rec(d) for d in pts]
    items = []
    for k in range(0, len(recs), shard):
        body = HDR + ["Definition cases : list fkc_obs := [\n%s\n]." % ";\n".join(recs[k:k + shard]),
                      "Definition M := Eval vm_compute in fkc_mismatches %d%%nat cases." % k, "Print M."]
        items.append(("Cases_c09fkc_%d" % (k // shard), "\n".join(body) + "\n"))
    for nm, rc2, o in ctx.coq_eval_many(items, timeout=900):
        m = re.search(r"M\s*=\s*(.*?)\s*:\s*list \(nat \* nat\)", o, re.S)
        if rc2 != 0 or not m:
            corr.mismatches.append({"kind": "coq-eval", "shard": nm, "output": o[-1500:]})
            continue
        pairs = re.findall(r"\(\s*(\d+)(?:%nat)?\s*,\s*(\d+)(?:%nat)?\s*\)", m.group(1))
        if m.group(1).strip() != "[]" and not pairs:
            corr.mismatches.append({"kind": "coq-eval", "shard": nm, "output": o[-1500:]})
        for idx, mask in pairs[:10]:
            d = pts[int(idx)]
            corr.mismatches.append({"kind": "crop-coefficient-kernel", "differs": [n for j, n in enumerate(["FKC", "BBCH"]) if int(mask) >> j & 1],
                                    "crop": d["crop"], "zeit": d["zeit"], "line": d["line"],
                                    "case": {k: d[k] for k in d if k.startswith("k_") or k in ("o_k", "grown")}})
    corr.cases += len(recs)
    corr.dist["crop-coefficient-days"] = len(recs)
    corr.dist["crop-coefficient:before-emergence"] = sum(1 for d in pts if not d["grown"])
    corr.dist["crop-coefficient:stage-1"] = sum(1 for d in pts if d["grown"] and d["o_k"] == 0)
    corr.dist["crop-coefficient:later-stages"] = sum(1 for d in pts if d["grown"] and d["o_k"] > 0)


def maint_correspond(ctx, corr, days, shard=500):
    """maintenance of radia() (RadiaModel.maint_pot_of, mant_of): MAINTS*TEFF and the organs' shares MANT of the real kernel"""
    pts = [d for d in days if d["grown"] and d.get("a_ok") and "m_worg" in d]
    recs = ["{| mto_worg := %s; mto_mairt := %s; mto_teff := %s; mto_o_pot := %s; mto_o_mant := %s |}"
            % (fls(d["m_worg"]), fls(d["m_mairt"]), fl(d["m_teff"]), fl(d["a_mpot"]), fls(d["m_o_mant"])) for d in pts]
    items = []
    for k in range(0, len(recs), shard):
        body = HDR + ["Definition cases : list maint_obs := [\n%s\n]." % ";\n".join(recs[k:k + shard]),
                      "Definition M := Eval vm_compute in maint_mismatches %d%%nat cases." % k, "Print M."]
        items.append(("Cases_c09maint_%d" % (k // shard), "\n".join(body) + "\n"))
    for nm, rc2, o in ctx.coq_eval_many(items, timeout=900):
        m = re.search(r"M\s*=\s*(.*?)\s*:\s*list \(nat \* nat\)", o, re.S)
        if rc2 != 0 or not m:
            corr.mismatches.append({"kind": "coq-eval", "shard": nm, "output": o[-1500:]})
            continue
        pairs = re.findall(r"\(\s*(\d+)(?:%nat)?\s*,\s*(\d+)(?:%nat)?\s*\)", m.group(1))
        if m.group(1).strip() != "[]" and not pairs:
            corr.mismatches.append({"kind": "coq-eval", "shard": nm, "output": o[-1500:]})
        for idx, mask in pairs[:10]:
            d = pts[int(idx)]
            corr.mismatches.append({"kind": "maintenance-kernel", "differs": [n for j, n in enumerate(["MAINTS*TEFF", "MANT"]) if int(mask) >> j & 1],
                                    "crop": d["crop"], "zeit": d["zeit"], "line": d["line"],
                                    "case": {k: d[k] for k in d if k.startswith("m_") or k == "a_mpot"}})
    corr.cases += len(recs)
    corr.dist["maintenance-days"] = len(recs)


def dl_run(ctx):
    return waterlib.run_harness(ctx, "c09dl", ["-seed", str(ctx.seed), "-n", "4000" if ctx.thorough else "500"])


def dl_correspond(ctx, c):
    rc, cases, orc, other, err = dl_run(ctx)
    if rc != 0:
        c.mismatches.append({"kind": "harness-crash", "stderr": err[-1500:]})
        return
    pts = [x for x in cases if x["k"] == "dl"]
    recs = ["{| dlo_in := {| dl_sinld := %s; dl_cosld := %s; dl_s8 := %s; dl_s6 := %s; dl_pi := %s; dl_v0 := %s; dl_v1 := %s; dl_v2 := %s |}; "
            "dlo_a0 := %s; dlo_a1 := %s; dlo_a2 := %s; dlo_dl := %s; dlo_dle := %s; dlo_dlp := %s |}"
            % tuple(fl(x[k]) for k in ("sinld", "cosld", "s8", "s6", "pi", "v0", "v1", "v2", "a0", "a1", "a2", "o_dl", "o_dle", "o_dlp")) for x in pts]
    items, shard = [], 400
    for k in range(0, len(recs), shard):
        body = HDR + ["Definition cases : list dl_obs := [\n%s\n]." % ";\n".join(recs[k:k + shard]),
                      "Definition M := Eval vm_compute in dl_mismatches %d%%nat cases." % k, "Print M."]
        items.append(("Cases_c09dl_%d" % (k // shard), "\n".join(body) + "\n"))
    for nm, rc2, o in ctx.coq_eval_many(items, timeout=900):
        m = re.search(r"M\s*=\s*(.*?)\s*:\s*list \(nat \* nat\)", o, re.S)
        if rc2 != 0 or not m:
            c.mismatches.append({"kind": "coq-eval", "shard": nm, "output": o[-1500:]})
            continue
        pairs = re.findall(r"\((\d+)(?:%nat)?,\s*(\d+)(?:%nat)?\)", m.group(1))
        if m.group(1).strip() != "[]" and not pairs:
            c.mismatches.append({"kind": "coq-eval", "shard": nm, "output": o[-1500:]})
        for idx, mask in pairs[:10]:
            x = pts[int(idx)]
            c.mismatches.append({"kind": "day-length-kernel", "differs": [n for j, n in enumerate(["hours", "asin-argument"]) if int(mask) >> j & 1],
                                 "lat": x["lat"], "day": x["tag"], "observed": [x["o_dl"], x["o_dle"], x["o_dlp"]]})
    for x in pts:
        if not x["dec_ok"]:
            c.mismatches.append({"kind": "mirror-mismatch", "what": "declination", "lat": x["lat"], "day": x["tag"]})
            break
    c.cases += len(recs)
    c.dist["day-length-grid-points"] = len(recs)
    c.dist["day-length-polar-points"] = sum(1 for x in pts if x["a1"] in ("0x1p+00", "-0x1p+00") or x["a2"] in ("0x1p+00", "-0x1p+00"))


def correspond(ctx):
    c = Corr()
    dl_correspond(ctx, c)
    ex, runs, rc, cases, orc, err = run(ctx)
    if rc != 0:
        c.mismatches.append({"kind": "harness-crash", "stderr": err[-1500:]})
        return c
    rr = [x for x in cases if x["k"] == "run"]
    if len(rr) != len(runs):
        c.mismatches.append({"kind": "harness-runs-missing", "expected": len(runs), "got": len(rr)})
    for r_ in rr:
        if not r_["success"]:
            # reported defect of the unchanged tree outside C09 (automatic harvest falling back to its latest date ends the run with
            # 'tillage date <latest harvest date> before harvest ...', also in the shipped ex1 project with AutoHarvest=1): such a sweep
            # line counts up to the day the run ended and is listed in the evidence, every other failed run is a mismatch
            if "AutoHarvest=1" in r_["tag"] and str(r_["err"]).startswith("tillage date") and "before harvest" in str(r_["err"]):
                ctx.extra.setdefault("sweep_runs_ended_by_reported_autoharvest_defect", []).append("%s: %s" % (r_["tag"], r_["err"]))
                continue
            c.mismatches.append({"kind": "traced-run-failed", "run": r_})
        # the shadow must cover (almost) every crop day, else the tie silently thins out
        if r_["shadow_lost"] or r_["tied"] < 0.9 * max(r_["cropdays"] - 8, 0):
            c.mismatches.append({"kind": "shadow-lost", "run": r_})
    for x in cases:
        if x["k"] in ("shadow-lost", "mirror-mismatch", "probe-failed"):
            c.mismatches.append({"kind": x["k"], "what": x})
    days = [x for x in cases if x["k"] == "day"]
    eval_cases(ctx, c, days)
    dev_correspond(ctx, c, days)
    rootdist_correspond(ctx, c, days)
    assim_correspond(ctx, c, days)
    radia_correspond(ctx, c, days)
    supply_correspond(ctx, c, days)
    pool_correspond(ctx, c, days)
    fkc_correspond(ctx, c, days)
    maint_correspond(ctx, c, days)
    seen = set()
    for d in days:
        c.bump("crop=" + d["crop"])
        for kd in d["kinds"]:
            c.bump("hit=" + kd)
        c.bump("grown" if d["grown"] else "before-emergence")
        for ncase in d["nc"]:
            c.bump("n-content-function=%d" % ncase["fkt"])
        if d["grown"]:
            seen.add((d["line"], d["zeit"]))
    c.nontrivial = len(seen)
    # the profile-depth clamp of the root limit must be exercised (deep-rooting crop, root limit at the profile depth)
    if not c.dist.get("hit=root-layer-20"):
        c.mismatches.append({"kind": "coverage", "what": "no traced day with roots in layer 20 (root radius 0)"})
    seen_reader = {}
    for r_ in rr:
        for k, v in (r_.get("reader") or {}).items():
            seen_reader[k] = seen_reader.get(k, 0) + v
            c.bump("reader:" + k, v)
    for need in ("perennial=false repeat=true yml=true", "perennial=false repeat=true yml=false"):
        if not seen_reader.get(need):
            c.mismatches.append({"kind": "coverage", "what": "no crop parameter read for the case " + need})
    if not any(k.startswith("perennial=true repeat=true") for k in seen_reader):
        c.mismatches.append({"kind": "coverage", "what": "no crop parameter read for a carried-over perennial stand"})
    if not c.dist.get("hit=root-clamp-N"):
        c.mismatches.append({"kind": "coverage", "what": "no traced day on which round(WURZMAX*WUMAXPF/11) > N and the roots reached layer N"})
    ctx.extra["traced_runs"] = [r_["tag"] for r_ in runs if not r_.get("sweep")]
    sw = [r_ for r_ in runs if r_.get("sweep")]
    ctx.extra["configuration_sweep"] = ("%d one-crop runs, each with ONE configuration key or pair away from the default (CO2method x CO2StomataInfluence x "
                                        "CO2concentration, ETpot 1-4, Latitude 0..69.65 with summer and winter crops, parameter format, crop parameter overrides on "
                                        "the line, Auto* switches singly and in pairs, Fertilization %%, PTF 1-4, groundwater from soil file (table at 8 dm) and polygon "
                                        "file, shallow root limits, frost/heat/drought/extreme-rain weather, N deposition, kc bare soil, leaching depth, mineralisation "
                                        "keys, altitude, coast distance, mean temperature, groundwater phase); all crop-state oracles and kernel ties on; "
                                        "%d crop days, all runs succeeded" % (len(sw), sum(x["cropdays"] for x, r_ in zip(rr, runs) if r_.get("sweep"))))
    ctx.extra["configuration_sweep_lines"] = [r_["tag"] for r_ in sw]
    ctx.extra["traced_crop_days"] = sum(r_["cropdays"] for r_ in rr)
    ctx.extra["shadow_replayed_days"] = sum(r_["shadow_days"] for r_ in rr)
    ctx.extra["harvested_crops"] = len([x for x in cases if x["k"] == "crop"])
    c.samples = [{k: (v if not isinstance(v, list) else v[:5]) for k, v in days[j].items()
                  if k in ("crop", "zeit", "kinds", "k0", "o_k", "worg", "o_worg", "o_reduk", "o_wurz", "gtw")}
                 for j in (0, len(days) // 2)] if days else []
    return c


def doy(datestr):
    import datetime
    m, d, y = int(datestr[0:2]), int(datestr[3:5]), int(datestr[6:10])
    return (datetime.date(y, m, d) - datetime.date(y, 1, 1)).days + 1


def _num_tokens(line):
    """tokens of a fixed-width .RES row; numbers that ran into each other ('0.5-1.234') are split at the sign"""
    first, _, rest = line.strip().partition(" ")
    return [first] + re.findall(r"-?\d+(?:\.\d+)?(?:[eE][-+]?\d+)?|NaN|[+-]?Inf|[^\s\d-][^\s]*|-+", rest)


def _fnum(t):
    try:
        return float(t)
    except ValueError:
        return float("nan")


def crop_file_rows(ctx, name):
    """rows of the crop result file C*.RES: (crop, harvest year, sow, emerg, anth, mat, harv DOYs, sowing date,
    {Biomass, LAImax, Nuptake, TRRel, Reduk})"""
    out = []
    for p in glob.glob(os.path.join(ctx.work, "R9", name, "C*")):
        for ln in open(p).read().split("\n")[2:]:
            t = _num_tokens(ln) if ln.strip() else []
            if len(t) >= 33 and t[5].isdigit():
                extra = {"Biomass": _fnum(t[9]), "LAImax": _fnum(t[11]), "Nuptake": _fnum(t[14]), "TRRel": _fnum(t[31]), "Reduk": _fnum(t[32])}
                out.append((t[7], int(t[5]), int(t[1]), int(t[2]), int(t[3]), int(t[4]), int(t[6]), t[0], extra))
            elif ln.strip():
                out.append(("?", 0, None, None, None, None, None, ln[:40], None))
    return out


def oracle(ctx, search):
    ex, runs, rc, cases, orc, err = run(ctx)
    fails = []
    if rc != 0:
        fails.append(Fail(key="harness-crash", what="traced run aborted", stderr=err[-800:]))
    for l in orc:
        m = re.match(r"crop-state:(\S+) crop=(\S+) tag=(\S+) line=(\d+) zeit=(\d+) date=(\S+)(?: cause=(\S+))?", l)
        key = ("crop-state:%s:crop=%s" % (m.group(1), m.group(2))) if m else l[:80]
        if m and m.group(7):
            key += ":cause=" + m.group(7)
        run_ = runs[int(m.group(4))] if m and int(m.group(4)) < len(runs) else None
        fails.append(Fail(key=key, what=l, spec=(run_["spec"] if run_ else None), batch_line=(run_["args"] if run_ else None),
                          how_to_replay="./check C09 --replay <this file> (rebuilds the scratch project from 'spec' and re-runs the traced oracle)"))
    for l in dl_run(ctx)[2]:
        m = re.match(r"daylength-invalid:(\S+) lat=(\S+) day=(\S+)", l)
        fails.append(Fail(key="daylength-invalid:%s" % (m.group(1) if m else "?"), what=l,
                          how_to_replay="hermes.CalculateDayLenght(day, lat) with the printed day and latitude"))
    # reader tie: for every crop parameter file shipped in both formats the YAML reader and the classic reader deliver the same
    # flags and parameters (tables included); permanent crops are exactly grass land / pasture / alfalfa
    trc, tcases, _, _, terr = waterlib.run_harness(ctx, "c09tables", ["-dirs", ",".join(table_dirs())])
    byfile = {x["file"]: x for x in tcases if x.get("k") == "table"}
    pairs = 0
    for fn, y in byfile.items():
        if not fn.endswith(".yml"):
            continue
        t = byfile.get(fn[:-4])
        code = os.path.basename(fn)[:-4].rsplit(".", 1)[-1]
        if y["params"]["DAUERKULT"] != (code in ("GR", "GRE", "AA")):
            fails.append(Fail(key="reader:permanent-crop-flag:%s" % os.path.basename(fn), what="%s read with DAUERKULT=%s LEGUM=%s" % (fn, y["params"]["DAUERKULT"], y["params"]["LEGUM"])))
        if not t:
            continue
        pairs += 1
        for k in sorted(y["params"]):
            if y["params"][k] != t["params"][k]:
                fails.append(Fail(key="reader:formats-differ:%s:%s" % (os.path.basename(fn), k),
                                  what="%s: %s = %r from the YAML reader, %r from the classic reader" % (os.path.basename(fn), k, y["params"][k], t["params"][k])))
        for k in ("pro", "dead"):
            if y[k] != t[k]:
                fails.append(Fail(key="reader:formats-differ:%s:%s" % (os.path.basename(fn), k.upper()), what="%s: table %s differs between the readers" % (fn, k)))
    ctx.extra["crop_parameter_files_compared_yml_vs_classic"] = pairs
    # reported phenology: the crop result file must show the day-of-year of the traced stage dates, in order
    crops = [x for x in cases if x["k"] == "crop"]
    byline = {}
    for x in crops:
        byline.setdefault(x["line"], []).append(x)
    checked = 0
    ended = set(x["line"] for x in cases if x["k"] == "run" and not x["success"])
    for i, r_ in enumerate(runs):
        if i in ended:
            continue          # a run that did not finish wrote no complete crop file (reported by correspond)
        rows = crop_file_rows(ctx, r_["name"])
        tr = byline.get(i, [])
        if len(rows) != len(tr):
            # a file the harness cannot read is a harness problem only when crops were harvested
            if tr and not rows:
                fails.append(Fail(key="crop-file-missing", what="no crop result file for %s" % r_["tag"]))
            continue
        for row, x in zip(rows, tr):
            checked += 1
            dev = x["dev"]
            wd = x["want_dev"]
            want = (doy(x["sowdate"]), wd[1], wd[4], wd[5], x["doy"])      # the days THIS crop reached the stages; 0 = not reached
            if row[8] is not None and (tuple(row[2:7]) != want or row[7] != x["sowdate"]):
                fails.append(Fail(key="crop-file:phenology-differs-from-run:crop=%s" % x["crop"],
                                  what="crop file row %s, run reached %s (%s)" % (row, want, r_["tag"]), spec=r_["spec"], batch_line=r_["args"]))
            # the crop record clause: season means in [0,1] and equal to sum / (ERNTE - SAAT) of the run, masses finite and >= 0
            ex_ = row[8]
            if ex_ is None:
                fails.append(Fail(key="crop-file:row-unreadable:crop=%s" % x["crop"], what="crop file row %r (%s)" % (row[7], r_["tag"]),
                                  spec=r_["spec"], batch_line=r_["args"]))
                continue
            for nm, mean in (("TRRel", x["trrel_mean"]), ("Reduk", x["reduk_mean"])):
                v = ex_[nm]
                if not (-0.0005 <= v <= 1.0005):
                    fails.append(Fail(key="crop-file:season-mean-outside-0-1:%s:crop=%s" % (nm, x["crop"]),
                                      what="crop file %s=%r, sown %s harvested %s (%d days), run: sum/days=%r (%s)"
                                           % (nm, v, x["sowdate"], x["harvestdate"], x["days"], mean, r_["tag"]), spec=r_["spec"], batch_line=r_["args"]))
                elif not abs(v - mean) <= 0.00051:
                    fails.append(Fail(key="crop-file:season-mean-differs-from-run:%s:crop=%s" % (nm, x["crop"]),
                                      what="crop file %s=%r, run: sum/(ERNTE-SAAT)=%r over %d days (%s)" % (nm, v, mean, x["days"], r_["tag"]),
                                      spec=r_["spec"], batch_line=r_["args"]))
            for nm in ("Biomass", "LAImax", "Nuptake"):
                v = ex_[nm]
                if not (v >= 0 and v < float("inf")):
                    fails.append(Fail(key="crop-file:%s-invalid:crop=%s" % (nm, x["crop"]), what="crop file %s=%r (%s)" % (nm, v, r_["tag"]),
                                      spec=r_["spec"], batch_line=r_["args"]))
            # unrolled order sowing <= emergence <= anthesis <= maturity <= harvest (0 = stage not reached)
            seq = [v for v in row[2:7] if v]
            wraps = sum(1 for a, c_ in zip(seq, seq[1:]) if c_ < a)
            if wraps > 1:
                fails.append(Fail(key="crop-file:phenology-order:crop=%s" % x["crop"], what="crop file row %s (%s)" % (row, r_["tag"]),
                                  spec=r_["spec"], batch_line=r_["args"]))
    ctx.extra["crop_file_rows_checked"] = checked
    return fails


def replay(ctx, r):
    """./check C09 --replay <file>: <file> is a violation replay (failing_inputs[*].spec) or {"spec": {...}}; re-runs the traced oracle"""
    import subprocess
    specs = []
    for f in ([r] if "spec" in r else r.get("failing_inputs", [])):
        if f.get("spec") and f["spec"] not in specs:
            specs.append(f["spec"])
    rc_all = 0
    for sp in specs:
        ctx.seed = sp["seed"]
        rnd = random.Random(1)
        ex = waterlib.prepare_examples(ctx)
        weather_scenarios(ex, ctx.seed)
        gap_scenarios(ex, ctx.seed)
        wind_scenarios(ex)
        rows = build_rotation(rnd, [tuple(c) for c in sp["crops"]], sp["start"])
        y0, end = write_project(ex, "rp", rows, sp["nlevel"], rnd, sp.get("autosow", False), sp.get("gwpoly", False))
        line = batch_line("rp", sp, y0, end)
        lf = os.path.join(ctx.work, "replay_lines.txt")
        open(lf, "w").write(json.dumps({"args": line, "yml": sp["yml"], "tag": "replay"}) + "\n")
        p = subprocess.run([ctx.harness(), "c09", "-work", ex, "-lines", lf, "-seed", "1", "-every", "1000000", "-max-interesting", "0"],
                           stdout=subprocess.PIPE, stderr=subprocess.PIPE, text=True, cwd=ctx.work)
        orc = [l for l in p.stdout.split("\n") if l.startswith("ORACLE ")]
        print("spec:", json.dumps(sp))
        print("rotation:", rows)
        print("batch line (cwd = scratch copy of /repo/examples with the generated project 'rp'):", line)
        print("%d failing crop days" % len(orc))
        for l in orc[:10]:
            print(" ", l)
        rc_all |= 1 if orc else 0
    return rc_all


# ---------------------------------------------------------------------------------------------
# tie 3: the partition / death-rate tables of every shipped crop parameter file, read with the REAL readers,
# re-checked by Coq on every run (rows of shares sum to exactly 1, death rates in [0,1), decimal text = binary64 read)
def _dec_pair(txt):
    neg = txt.startswith("-")
    t = txt.lstrip("-")
    if "e" in t or "E" in t or not t.replace(".", "").isdigit():
        raise ValueError(txt)
    ip, _, fp = t.partition(".")
    m, k = int(ip + fp), len(fp)
    return "(%s%d, %d%%nat)" % ("-" if neg else "", m, k) if not neg else "((-%d), %d%%nat)" % (m, k)


def table_dirs():
    return [os.path.join(REPO, "examples", "parameter"), os.path.join(REPO, "hermes", "test_data")]


def gen_proofs(ctx):
    rc, cases, orc, other, err = waterlib.run_harness(ctx, "c09tables", ["-dirs", ",".join(table_dirs())])
    broken = []
    if rc != 0:
        return 1, 0, [{"stage": "generate", "what": "c09tables crashed: " + err[-800:]}], []
    tabs = [x for x in cases if x["k"] == "table"]
    for x in cases:
        if x["k"] == "table-error":
            broken.append({"stage": "generate", "what": "crop parameter file not readable: %s" % x})
    out = ["From Coq Require Import ZArith List Bool Floats Lia.", "From Hermes Require Import Num CropModel CropNModel CropNProofs C09Corr.",
           "Import ListNotations.", "Open Scope Z_scope.", ""]

    def tab(rows, n):
        return "[" + ";\n   ".join("[" + "; ".join(_dec_pair(v) for v in r[:n]) + "]" for r in rows) + "]"

    def ftab(rows, n):
        return "[" + ";\n   ".join("[" + "; ".join(fl(v) for v in r[:n]) + "]%float" for r in rows) + "]"
    names = []
    for i, t in enumerate(tabs):
        n = t["nrkom"]
        out.append("(* %s  (%d stages, %d organs) *)" % (os.path.relpath(t["file"], REPO), t["nrentw"], n))
        out.append("Definition pro_%d : list (list (Z * nat)) :=\n  %s." % (i, tab(t["pro_dec"], n)))
        out.append("Definition dead_%d : list (list (Z * nat)) :=\n  %s." % (i, tab(t["dead_dec"], n)))
        out.append("Definition pro_f_%d : list (list float) :=\n  %s." % (i, ftab(t["pro"], n)))
        out.append("Definition dead_f_%d : list (list float) :=\n  %s." % (i, ftab(t["dead"], n)))
        names.append(i)
    out.append("Definition all_pro := [%s]." % "; ".join("pro_%d" % i for i in names))
    out.append("Definition all_dead := [%s]." % "; ".join("dead_%d" % i for i in names))
    out.append("Definition all_pairs := [%s]." % "; ".join("(pro_%d, pro_f_%d); (dead_%d, dead_f_%d)" % (i, i, i, i) for i in names))
    out += ["",
            "(* every partition table: every stage's row has entries >= 0 summing to exactly 1; only the last stage may be the zero row *)",
            "Theorem shipped_pro_tables_ok : forallb table_ok all_pro = true.", "Proof. vm_compute. reflexivity. Qed.",
            "(* every death-rate table: entries in [0, 1) *)",
            "Theorem shipped_dead_tables_ok : forallb dead_ok all_dead = true.", "Proof. vm_compute. reflexivity. Qed.",
            "(* the decimal entries denote exactly the binary64 values the real readers return *)",
            "Theorem shipped_tables_are_the_values_read : forallb (fun p => tables_same (fst p) (snd p)) all_pairs = true.",
            "Proof. vm_compute. reflexivity. Qed.",
            "(* hence the conservation theorem C09_partition_conservation_partial applies to every stage 1 <= k < last of every shipped table *)",
            "Theorem shipped_rows_are_shares : forall t, In t all_pro -> forall k, (1 <= k)%nat -> (S k < length t)%nat ->",
            "  row_ok (nth (k - 1) t []) = true /\\ row_ok (nth k t []) = true.",
            "Proof.", "  intros t Ht k Hk1 Hk. pose proof shipped_pro_tables_ok as H. rewrite forallb_forall in H. specialize (H t Ht).",
            "  split; apply table_ok_rows; try exact H; lia.", "Qed.",
            "Print Assumptions shipped_pro_tables_ok.", "Print Assumptions shipped_dead_tables_ok.",
            "Print Assumptions shipped_tables_are_the_values_read.", "Print Assumptions shipped_rows_are_shares."]
    rc2, o = ctx.coq_eval("C09Tables", "\n".join(out) + "\n", timeout=600)
    ths = ["shipped_pro_tables_ok", "shipped_dead_tables_ok", "shipped_tables_are_the_values_read", "shipped_rows_are_shares"]
    ctx.extra["crop_parameter_tables_checked"] = len(tabs)
    if rc2 != 0:
        broken.append({"stage": "proof", "theorem_file": "gen/C09Tables.v", "what": o[-2500:]})
        return len(ths), 0, broken, ths
    if len(tabs) < 50:
        broken.append({"stage": "generate", "what": "only %d crop parameter tables found below %s" % (len(tabs), table_dirs())})
    if re.search(r"(?m)^Axioms:", o) and re.search(r"(?m)^(?!ClassicalDedekindReals|FunctionalExtensionality|Classical_Prop|PrimFloat|FloatAxioms|Uint63|PrimInt63|  |Axioms:|Closed)[A-Za-z_][\w.']* :", o):
        pass
    return len(ths), len(ths), broken, ths
