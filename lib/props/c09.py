"""C09 — crop state stays valid and development never runs backwards (DESIGN.md §6 C09)."""
import json, os, random, re, shutil, glob
from core import Corr, Fail, REPO
from props import waterlib
from props.waterlib import fl, fls, b

PROP_FILES = ["Prop_C09"]
RULE = ("PhytoOut transitions (state before/after the call in sub-step 1) of traced in-process runs of generated crop "
        "rotations over every shipped annual main-crop parameter set (SM, SOY + 8 varieties, SW, OA, WW, WG, WR, TR, WRA, K, "
        "ZR + chrnew, LUP), classic and YAML parameter format, CO2 methods 1-3, N supply 0..400 kg/ha, shipped soils incl. "
        "10/30 cm root limits, weather scenarios historical/extreme rain/drought/frost; days that hit a clamp (organ floor, "
        "LAI zero, REDUK < 1, root limit, uptake caps, fixation, stage advance) are always compared, plain days are sampled; "
        "a case is non-trivial when distinct and inside the growth block")
TRUSTED = ["binary64 semantics of Go on amd64 (no fused multiply-add) = Coq primitive floats",
           "the harness' shadow of CropSharedVars (real parameter reader + real PhytoOut replayed on a copy, checked equal to the run every day)",
           "oracle values mirrored in the harness from crop.go: devprog, exp argument of REDUK, root() (validated against POTROOTINGDEPTH), maxup, MASS[i], DIFF[i]",
           "R->F gap: range theorems are proved in exact real arithmetic; at binary64 the ranges are observed on every traced crop day (tolerance 1e-9 on [0,1] factors)"]
ASSUMPTIONS = ["photosynthesis, respiration, N-content functions, vernalisation/day-length factors, exp/log/pow and the root function are NOT modelled: "
               "their results enter the model as oracle inputs (GTW, maintenance terms, FV, FP, devprog, e, Qrez, maxup, MASS, DIFF)",
               "finiteness and non-negativity of tissue N concentrations (GEHOB, WUGEH), OBMAS, PESUM are NOT proved: observed on every traced crop day only",
               "permanent crops (regrowth resets the stage) and catch crops are outside the claim",
               "GEHOB/WUGEH updates (crop.go:741-763) are covered by the post-condition oracle only, not by the model"]
LEVEL_TEXT = ("PARTIAL proof. Coq proofs for all inputs of the decision/clamp logic inside PhytoOut: the stage index never decreases and "
              "the recorded stage dates are ordered over any sequence of days (any numeric type), organ masses/LAI/assimilate pool "
              "stay non-negative, 0 <= REDUK <= 1 (with the real-analysis lemma exp(1+1/(AUX-1)) in (0,1) for AUX in (0,1)), "
              "1 <= WURZ <= min(N, max(1, round(WURZMAX*WUMAXPF/11))), uptake per layer >= 0 and demand <= 6 kg N/ha/day. The same "
              "Gallina kernels are executed on binary64 and compared bit for bit with traced PhytoOut transitions of real runs. "
              "Finiteness/non-negativity of tissue N concentrations and biomass sums depend on oracle-valued functions and are "
              "covered by the property oracle on long runs only.")
LEVEL_NOTE = ("Partial: only the clamp/decision fragments are modelled (five kernels, tied by trace, not by calling the fragments in "
              "isolation); photosynthesis/respiration/N-content functions are oracle inputs; GEHOB, WUGEH, OBMAS, PESUM, TRREL, ETREL "
              "validity is oracle-only. Reals axioms of the standard library; Coq-Interval not needed (exp facts from Rpower/Rtrigo).")
TECHNIQUE = "Coq proof (case analysis on clamps, induction over days, lra/nra, exp monotonicity) + bit-exact trace correspondence + property oracle on traced rotations"

# ---------------------------------------------------------------------------------------------
# rotations of the shipped annual main crops (month, day) sowing / harvest; winter crops harvest next year
CROPS = {
    "SM": ((4, 25), (9, 30), 0), "SOY": ((5, 5), (10, 1), 0), "SW": ((3, 20), (8, 10), 0), "OA": ((3, 22), (8, 12), 0),
    "K": ((4, 20), (9, 15), 0), "ZR": ((4, 10), (10, 15), 0), "LUP": ((4, 1), (8, 20), 0),
    "WW": ((10, 5), (8, 1), 1), "WG": ((9, 20), (7, 10), 1), "WR": ((9, 25), (7, 25), 1), "TR": ((9, 28), (7, 28), 1),
    "WRA": ((8, 25), (7, 20), 1),
}
SOY_VARIETIES = ["", "0", "00", "000", "0000", "i", "ii", "iii"]
SUMMER = ["SM", "SOY", "SW", "OA", "K", "ZR", "LUP"]
WINTER = ["WW", "WG", "WR", "TR", "WRA"]
SOILS_ALL = ["001", "003", "004", "006", "007", "008", "075", "160", "041", "002"]


def _d(m, d, y):
    return "%02d%02d%04d" % (m, d, y)


def build_rotation(rnd, crops, start_year):
    """list of (crop, variety, sow(m,d,y), harvest(m,d,y)); sequential, no overlap"""
    import datetime
    rows, last = [], datetime.date(start_year - 1, 9, 30)
    for crp, var in crops:
        (sm, sd), (hm, hd), wrap = CROPS[crp]
        year = last.year
        while datetime.date(year, sm, sd) <= last + datetime.timedelta(days=7):
            year += 1
        rows.append((crp, var, (sm, sd, year), (hm, hd, year + wrap)))
        last = datetime.date(year + wrap, hm, hd)
    return rows


def write_project(ex, name, rows, nlevel, rnd):
    """overwrites the ex1 project files of the scratch copy as project <name> (a copy of ex1)"""
    src, dst = os.path.join(ex, "project", "ex1"), os.path.join(ex, "project", name)
    if os.path.isdir(dst):
        shutil.rmtree(dst)
    os.makedirs(dst)
    for fn in os.listdir(src):
        shutil.copy(os.path.join(src, fn), os.path.join(dst, fn.replace("_ex1", "_" + name)))
    # the first listed crop is the initial one: the simulation starts at its harvest
    y0 = rows[0][2][2] - 1
    lines_csv = ["Field_ID,crp,sowing,harvst,Rex,yld,autorg,variety,comment",
                 "F1,SM ,%s,%s,080,050,0,,initial" % (_d(4, 25, y0), _d(9, 30, y0))]
    lines_txt = ["Field_ID    crp  sowing harvst Rex yld autorg variety comment",
                 "F1        SM  %s %s 080 050 0 " % (_d(4, 25, y0), _d(9, 30, y0))]
    til = ["Field_ID  Ti Typ date", "          cm"]
    fert = ["Field_ID  N   Frt date"]
    for crp, var, sow, har in rows:
        lines_csv.append("F1,%-3s,%s,%s,000,000,0,%s," % (crp, _d(*sow), _d(*har), var))
        lines_txt.append("F1        %-3s %s %s 000 000 0 %s" % (crp, _d(*sow), _d(*har), var))
        # tillage three days before sowing
        tm, td, ty = sow
        td -= 3
        if td < 1:
            tm, td = tm - 1, 26
        til.append("F1        15 1   %s" % _d(tm, td, ty))
        if nlevel > 0:
            # one dressing in spring of the harvest year (or shortly after sowing for spring crops)
            if CROPS[crp][2]:
                fdate = (3, 15, har[2])
            else:
                fm, fd = sow[0], sow[1] + 10
                if fd > 28:
                    fm, fd = fm + 1, fd - 28
                fdate = (fm, fd, sow[2])
            fert.append("F1        %03d KAS %s" % (nlevel, _d(*fdate)))
            if nlevel >= 150 and CROPS[crp][2]:
                fert.append("F1        %03d KAS %s" % (nlevel // 2, _d(5, 5, har[2])))
    til.append("end")
    fert.append("end")
    open(os.path.join(dst, "crop_%s.csv" % name), "w").write("\n".join(lines_csv) + "\n")
    open(os.path.join(dst, "crop_%s.txt" % name), "w").write("\n".join(lines_txt) + "\n")
    open(os.path.join(dst, "til_%s.txt" % name), "w").write("\n".join(til) + "\n")
    open(os.path.join(dst, "fert_%s.txt" % name), "w").write("\n".join(fert) + "\n")
    open(os.path.join(dst, "irr_%s.txt" % name), "w").write("Field_ID  Ir N03 date\n          mm mg/l \nend\n")
    write_custom_soils(dst, name)
    open(os.path.join(dst, "poly_%s.txt" % name), "w").write("Polyg SID  Field_ID  GH GL Ir comment\n10001 001 F1        99 99 0 c09\nend\n")
    end = rows[-1][3]
    return y0, end


# custom profiles (csv soil file written into every generated project): SID "6NN" = N layers, root limit N;
# "7NN" = root limit N-1; "8NN" = root limit N-2 — the soil's root limit at / next to the profile depth, where the
# crop factor WUMAXPF/11 > 1 of the deep-rooting crops (WW 12, WRA 12, ZR 14, ZR chrnew 16) pushes
# round(WURZMAX*WUMAXPF/11) above the number of layers and the clamp to N decides
DEEP_CROPS = [("WW", ""), ("ZR", ""), ("WRA", ""), ("ZR", "chrnew")]
CUSTOM_LAYERS = [5, 6, 8, 10, 12, 15, 18]


def custom_soil_ids():
    return ["%d%02d" % (6 + k, n) for n in CUSTOM_LAYERS for k in (0, 1, 2)]


def write_custom_soils(dst, name):
    out = ["SID,C_org,Texture,LayerDepth,BulkDensityClass,Stone,C/N,C/S,RootDepth,NumberHorizon,FieldCapacity,WiltingPoint,PoreVolume,"
           "Sand,Silt,Clay,DrainageDepth,Drainage%,GroundWaterLevel"]
    for sid in custom_soil_ids():
        n, rd = int(sid[1:]), int(sid[1:]) - (int(sid[0]) - 6)
        out.append("%s,0.90,SL2,03,3,00,10,00,%02d,02,22,09,38,73,21,06,20,00,99" % (sid, rd))
        out.append("%s,0.30,SL4,%02d,3,00,10,00,,,22,12,43,61,27,12,20,00,   " % (sid, n))
    open(os.path.join(dst, "soil_%s.csv" % name), "w").write("\n".join(out) + "\n")


def batch_line(name, sp, y0, end):
    custom = sp["soil"] in custom_soil_ids()
    return ("project=%s WeatherFolder=%s soilId=%s fcode=109_120 plotNr=10001 Altitude=73 Latitude=52.6732 poligonID=29872 "
            "CO2method=%d CropParameterFormat=%s CropFileFormat=csv %sAutoIrrigation=0 AutoFertilization=0 AutoSowingHarvest=0 AutoHarvest=0 "
            "StartYear=%d ResultFileFormat=0 EndDate=%s resultfolder=R9/%s"
            % (name, sp["weather"], sp["soil"], sp["co2"], "yml" if sp["yml"] else "txt", "SoilFileExtension=csv " if custom else "",
               y0, _d(12, 31, end[2]), name))


def weather_scenarios(ex, seed):
    """drought (rain scaled down) and frost (cold winters/springs, single very cold days) next to waterlib's 'extreme'"""
    rnd = random.Random(seed * 7 + 1)
    src = os.path.join(ex, "weather", "historical")
    for scen in ("drought", "frost"):
        dst = os.path.join(ex, "weather", scen)
        if os.path.isdir(dst):
            continue
        os.makedirs(dst)
        for fn in os.listdir(src):
            if not fn.endswith(".csv"):
                continue
            lines = open(os.path.join(src, fn)).read().split("\n")
            hdr = lines[0].split(",")
            if "precip" not in hdr:
                shutil.copy(os.path.join(src, fn), dst)
                continue
            pi = hdr.index("precip")
            ti = [hdr.index(x) for x in ("tmin", "tavg", "tmax") if x in hdr]
            out = lines[:2]
            for ln in lines[2:]:
                t = ln.split(",")
                if len(t) > pi:
                    if scen == "drought":
                        t[pi] = "%.1f" % (float(t[pi]) * 0.3)
                    else:
                        month = int(t[0][5:7])
                        shift = -5.0 if month in (11, 12, 1, 2, 3, 4) else -1.0
                        if rnd.random() < 0.01:
                            shift -= 15.0
                        for j in ti:
                            t[j] = "%.1f" % (float(t[j]) + shift)
                out.append(",".join(t))
            open(os.path.join(dst, fn), "w").write("\n".join(out))


def plan(ctx):
    """the traced runs of this tier: [(project name, rotation rows, batch line, yml, tag)]"""
    rnd = random.Random(ctx.seed)
    ex = waterlib.prepare_examples(ctx)
    weather_scenarios(ex, ctx.seed)
    runs = []
    scen = ["historical", "extreme", "drought", "frost"]
    nlevels = [0, 60, 150, 400]

    def add(crops, soil, weather, co2, nlevel, yml, start):
        name = "c9p%d" % len(runs)
        rows = build_rotation(rnd, crops, start)
        y0, end = write_project(ex, name, rows, nlevel, rnd)
        tag = "%s|soil=%s|%s|co2=%d|N=%d|%s" % ("+".join(c + (("_" + v) if v else "") for c, v in crops), soil, weather, co2, nlevel,
                                                 "yml" if yml else "txt")
        spec = {"crops": [list(c) for c in crops], "soil": soil, "weather": weather, "co2": co2, "nlevel": nlevel,
                "yml": yml, "start": start, "seed": ctx.seed}
        runs.append({"name": name, "rows": rows, "args": batch_line(name, spec, y0, end), "yml": yml, "tag": tag, "end": end, "spec": spec})

    if not ctx.thorough:
        # six short rotations mixing winter and summer crops; crops, soils, scenarios, N level drawn from the seed;
        # every weather scenario, CO2 method, both parameter formats and N = 0 / excess occur in every quick run
        wi, su = WINTER[:], SUMMER[:]
        rnd.shuffle(wi); rnd.shuffle(su)
        picks = [[(su[0], ""), (wi[0], ""), (su[1], "")],
                 [(wi[1], ""), ("SOY", rnd.choice(SOY_VARIETIES)), (wi[2], "")],
                 [(su[2], ""), (su[3], ""), (wi[3], "")],
                 [("ZR", "chrnew") if rnd.random() < 0.5 else (su[4], ""), (wi[4], ""), (su[5], "")],
                 [(su[6], ""), (wi[rnd.randrange(5)], ""), ("SOY", rnd.choice(SOY_VARIETIES))],
                 [(wi[rnd.randrange(5)], ""), (su[rnd.randrange(7)], ""), (wi[rnd.randrange(5)], "")]]
        soils = rnd.sample(SOILS_ALL, 6)
        if "003" not in soils:
            soils[rnd.randrange(6)] = "003"      # 10 cm root limit
        o1, o2 = rnd.randrange(4), rnd.randrange(4)
        for i, crops in enumerate(picks):
            add(crops, soils[i], scen[(i + o1) % 4], 1 + (i + ctx.seed) % 3, nlevels[(i + o2) % 4],
                (i + ctx.seed) % 2 == 0, 1981 + rnd.randrange(0, 20))
        # deep-rooting crops on profiles whose root limit is the profile depth (or one / two layers less): historical
        # weather and fertiliser so that the root front reaches the bottom
        deep = DEEP_CROPS[:]
        rnd.shuffle(deep)
        n1, n2 = rnd.choice([10, 12, 15]), rnd.choice([5, 6, 8, 18])
        add([("WW", ""), ("ZR", rnd.choice(["", "chrnew"]))], "6%02d" % n1, "historical", 1 + ctx.seed % 3, 150, ctx.seed % 2 == 1,
            1981 + rnd.randrange(0, 20))
        add([deep[0], deep[1]], "%d%02d" % (6 + rnd.randrange(3), n2), rnd.choice(["historical", "extreme"]), 1 + (ctx.seed + 1) % 3, 60,
            ctx.seed % 2 == 0, 1981 + rnd.randrange(0, 20))
    else:
        allcrops = [(c, "") for c in SUMMER + WINTER] + [("SOY", v) for v in SOY_VARIETIES[1:]] + [("ZR", "chrnew")]
        k = 0
        for rep in range(4):
            for yml in (False, True):
                for co2 in (1, 2, 3):
                    pool = allcrops[:]
                    rnd.shuffle(pool)
                    # rotations of three crops: every parameter set once per (repetition, format, CO2 method)
                    for j in range(0, len(pool), 3):
                        crops = pool[j:j + 3]
                        add(crops, SOILS_ALL[(k + rep) % len(SOILS_ALL)], scen[(k + k // 4 + rep) % 4], co2,
                            nlevels[(k // 2 + rep) % 4], yml, 1981 + rnd.randrange(0, 22))
                        k += 1
        # every deep-rooting crop on every custom profile (root limit N, N-1, N-2)
        ids = custom_soil_ids()
        for j, sid in enumerate(ids):
            crops = [DEEP_CROPS[j % 4], DEEP_CROPS[(j + 1 + j // 4) % 4]]
            add(crops, sid, scen[(j // 3) % 2 * 1], 1 + j % 3, [150, 60, 400][j % 3], j % 2 == 0, 1981 + rnd.randrange(0, 22))
    return ex, runs


_plan_cache = {}


def run(ctx):
    key = (ctx.seed, ctx.tier, ctx.work)
    if key in _plan_cache:
        return _plan_cache[key]
    ex, runs = plan(ctx)
    lf = os.path.join(ctx.work, "c09_lines.txt")
    with open(lf, "w") as f:
        for r_ in runs:
            f.write(json.dumps({"args": r_["args"], "yml": r_["yml"], "tag": r_["tag"]}) + "\n")
    every = 30 if ctx.thorough else 6
    rc, cases, orc, other, err = waterlib.run_harness(ctx, "c09", ["-work", ex, "-lines", lf, "-seed", str(ctx.seed), "-every", str(every),
                                                                    "-max-interesting", "8" if ctx.thorough else "25"], timeout=3000)
    _plan_cache[key] = (ex, runs, rc, cases, orc, err)
    return _plan_cache[key]


# ---------------------------------------------------------------------------------------------
def zl(l):
    return "[" + "; ".join("(%d)" % v for v in l) + "]%Z"


def nl(l):
    return "[" + "; ".join("%d" % v for v in l) + "]%nat"


def obs_record(d):
    k1 = d["o_k"]
    last = k1 + 1 >= d["nrentw"]
    si = ("{| si_tsum := %s; si_bas := %s; si_nrentw := (%d)%%Z; si_doy := (%d)%%Z; si_zeit := (%d)%%Z; si_temp := %s; si_wg00 := %s; "
          "si_w0 := %s; si_wmin0 := %s; si_dt := %s; si_fv := %s; si_fp := %s; si_devprog := %s |}"
          % (fls(d["tsum"]), fls(d["bas"]), d["nrentw"], d["doy"], d["zeit"], fl(d["temp"]), fl(d["wg00"]), fl(d["w0"]), fl(d["wmin0"]),
             fl(d["dt"]), fl(d["fv"]), fl(d["fp"]), fl(d["devprog"])))
    oi = ("{| oi_nrkom := %d%%nat; oi_last := %s; oi_sumk := %s; oi_tsumk := %s; oi_gtw := %s; oi_mterm := %s; oi_reduk := %s; "
          "oi_pro_lo := %s; oi_pro_hi := %s; oi_dead_lo := %s; oi_dead_hi := %s; oi_dt := %s; oi_laifkt_lo := %s; oi_laifkt_hi := %s; "
          "oi_laifkt0 := %s; oi_gehalt := %s |}"
          % (d["nrkom"], b(last), fl(d["o_sum"][k1]), fl(d["tsum"][k1]), fl(d["gtw"]), fls(d["mterm"]), fl(d["o_reduk"]),
             fls(d["pro_lo"]), fls(d["pro_hi"]), fls(d["dead_lo"]), fls(d["dead_hi"]), fl(d["dt"]), fl(d["laifkt_lo"]), fl(d["laifkt_hi"]),
             fl(d["laifkt0"]), fl(d["gehob"])))
    os_ = ("{| os_worg := %s; os_gorg := %s; os_dgorg := %s; os_wdorg := %s; os_lai := %s; os_pesum := %s |}"
           % (fls(d["worg"]), fls(d["gorg0"]), fls(d["dgorg0"]), fls(d["wdorg"]), fl(d["lai"]), fl(d["pesum"])))
    ui = ("{| ui_grown := %s; ui_zrk := %s; ui_legum := %s; ui_gehmax := %s; ui_obmas := %s; ui_wumas := %s; ui_worg3 := %s; ui_wgmax := %s; "
          "ui_pesum := %s; ui_dt := %s; ui_dz := %s; ui_wudich := %s; ui_maxup := %s; ui_wurz := (%d)%%Z; ui_grw := %s; ui_mass := %s; "
          "ui_diff := %s; ui_c1 := %s |}"
          % (b(d["grown"]), b(d["zrk"]), b(d["legum"]), fl(d["gehmax"]), fl(d["o_obmas"]), fl(d["o_wumas"]), fl(d["o_worg"][3]), fl(d["wgmax"]),
             fl(d["o_pesum"]), fl(d["dt"]), fl(d["dz"]), fls(d["wudich"]), fl(d["maxup"]), d["o_wurz"], fl(d["grw"]), fls(d["mass"]),
             fls(d["diff"]), fls(d["c1"])))
    return ("{| ob_si := %s; ob_k0 := %d%%nat; ob_sum := %s; ob_dev := %s; ob_phyllo := %s; ob_o_k := %d%%nat; ob_o_sum := %s; ob_o_dev := %s; "
            "ob_o_phyllo := %s; ob_gehob := %s; ob_gehmin := %s; ob_ngefkt1 := %s; ob_earg := %s; ob_e := %s; ob_o_reduk := %s; "
            "ob_oi := %s; ob_os := %s; ob_above := %s; ob_o_worg := %s; ob_o_gorg := %s; ob_o_dgorg := %s; ob_o_wdorg := %s; ob_o_lai := %s; "
            "ob_o_pesum := %s; ob_o_aspoo := %s; ob_o_obmas := %s; ob_o_wumas := %s; ob_wurzmax := (%d)%%Z; ob_n := (%d)%%Z; ob_wumaxpf := %s; "
            "ob_qrez := %s; ob_dz := %s; ob_o_wurz := (%d)%%Z; ob_ui := %s; ob_o_pe := %s; ob_o_nfix := %s |}"
            % (si, d["k0"], fls(d["sum"]), zl(d["dev"]), fl(d["phyllo"]), k1, fls(d["o_sum"]), zl(d["o_dev"]), fl(d["o_phyllo"]),
               fl(d["gehob"]), fl(d["gehmin"]), b(d["ngefkt1"]), fl(d["earg"]), fl(d["e"]), fl(d["o_reduk"]), oi, os_, nl(d["above"]),
               fls(d["o_worg"]), fls(d["o_gorg"]), fls(d["o_dgorg"]), fls(d["o_wdorg"]), fl(d["o_lai"]), fl(d["o_pesum"]), fl(d["o_aspoo"]),
               fl(d["o_obmas"]), fl(d["o_wumas"]), d["wurzmax"], d["n"], fl(d["wumaxpf"]), fl(d["qrez"]), fl(d["dz"]), d["o_wurz"], ui,
               fls(d["o_pe"]), fl(d["o_nfix"])))


HDR = ["From Coq Require Import ZArith List Bool Floats.", "From Hermes Require Import Num CropModel C09Corr.",
       "Import ListNotations.", "Open Scope float_scope."]
GROUPS = ["stage", "REDUK", "organs", "pool/biomass", "root-depth", "N-uptake", "bookkeeping"]


def eval_cases(ctx, corr, days, shard=40):
    recs = [obs_record(d) for d in days]
    items = []
    for k in range(0, len(recs), shard):
        body = HDR + ["Definition cases : list c09_obs := [\n%s\n]." % ";\n".join(recs[k:k + shard]),
                      "Definition M := Eval vm_compute in c09_mismatches %d%%nat cases." % k, "Print M."]
        items.append(("Cases_c09_%d" % (k // shard), "\n".join(body) + "\n"))
    for nm, rc, o in ctx.coq_eval_many(items, timeout=900):
        m = re.search(r"M\s*=\s*(.*?)\s*:\s*list \(nat \* nat\)", o, re.S)
        if rc != 0 or not m:
            corr.mismatches.append({"kind": "coq-eval", "shard": nm, "output": o[-1500:]})
            continue
        pairs = re.findall(r"\(\s*(\d+)(?:%nat)?\s*,\s*(\d+)(?:%nat)?\s*\)", m.group(1))
        if m.group(1).strip() != "[]" and not pairs:
            corr.mismatches.append({"kind": "coq-eval", "shard": nm, "output": o[-1500:]})
        for idx, mask in pairs:
            idx, mask = int(idx), int(mask)
            d = days[idx]
            corr.mismatches.append({"kind": "phytoout-kernel", "differs": [GROUPS[j] for j in range(7) if mask >> j & 1],
                                    "crop": d["crop"], "zeit": d["zeit"], "line": d["line"], "kinds": d["kinds"],
                                    "case": {k: v for k, v in d.items() if k in ("k0", "o_k", "worg", "o_worg", "lai", "o_lai", "o_reduk", "o_wurz", "qrez", "gtw")}})
    corr.cases += len(recs)


def correspond(ctx):
    c = Corr()
    ex, runs, rc, cases, orc, err = run(ctx)
    if rc != 0:
        c.mismatches.append({"kind": "harness-crash", "stderr": err[-1500:]})
        return c
    rr = [x for x in cases if x["k"] == "run"]
    if len(rr) != len(runs):
        c.mismatches.append({"kind": "harness-runs-missing", "expected": len(runs), "got": len(rr)})
    for r_ in rr:
        if not r_["success"]:
            c.mismatches.append({"kind": "traced-run-failed", "run": r_})
        # the shadow must cover (almost) every crop day, else the tie silently thins out
        if r_["shadow_lost"] or r_["tied"] < 0.9 * max(r_["cropdays"] - 8, 0):
            c.mismatches.append({"kind": "shadow-lost", "run": r_})
    for x in cases:
        if x["k"] in ("shadow-lost", "mirror-mismatch", "probe-failed"):
            c.mismatches.append({"kind": x["k"], "what": x})
    days = [x for x in cases if x["k"] == "day"]
    eval_cases(ctx, c, days)
    seen = set()
    for d in days:
        c.bump("crop=" + d["crop"])
        for kd in d["kinds"]:
            c.bump("hit=" + kd)
        c.bump("grown" if d["grown"] else "before-emergence")
        if d["grown"]:
            seen.add((d["line"], d["zeit"]))
    c.nontrivial = len(seen)
    # the profile-depth clamp of the root limit must be exercised (deep-rooting crop, root limit at the profile depth)
    if not c.dist.get("hit=root-clamp-N"):
        c.mismatches.append({"kind": "coverage", "what": "no traced day on which round(WURZMAX*WUMAXPF/11) > N and the roots reached layer N"})
    ctx.extra["traced_runs"] = [r_["tag"] for r_ in runs]
    ctx.extra["traced_crop_days"] = sum(r_["cropdays"] for r_ in rr)
    ctx.extra["shadow_replayed_days"] = sum(r_["shadow_days"] for r_ in rr)
    ctx.extra["harvested_crops"] = len([x for x in cases if x["k"] == "crop"])
    c.samples = [{k: (v if not isinstance(v, list) else v[:5]) for k, v in days[j].items()
                  if k in ("crop", "zeit", "kinds", "k0", "o_k", "worg", "o_worg", "o_reduk", "o_wurz", "gtw")}
                 for j in (0, len(days) // 2)] if days else []
    return c


def doy(datestr):
    import datetime
    m, d, y = int(datestr[0:2]), int(datestr[3:5]), int(datestr[6:10])
    return (datetime.date(y, m, d) - datetime.date(y, 1, 1)).days + 1


def crop_file_rows(ctx, name):
    """rows of the crop result file C*.RES: (crop, harvest year, sow, emerg, anth, mat, harv DOYs, sowing date)"""
    out = []
    for p in glob.glob(os.path.join(ctx.work, "R9", name, "C*")):
        for ln in open(p).read().split("\n")[2:]:
            t = ln.split()
            if len(t) >= 8 and t[5].isdigit():
                out.append((t[7], int(t[5]), int(t[1]), int(t[2]), int(t[3]), int(t[4]), int(t[6]), t[0]))
    return out


def oracle(ctx, search):
    ex, runs, rc, cases, orc, err = run(ctx)
    fails = []
    if rc != 0:
        fails.append(Fail(key="harness-crash", what="traced run aborted", stderr=err[-800:]))
    for l in orc:
        m = re.match(r"crop-state:(\S+) crop=(\S+) tag=(\S+) line=(\d+) zeit=(\d+) date=(\S+)(?: cause=(\S+))?", l)
        key = ("crop-state:%s:crop=%s" % (m.group(1), m.group(2))) if m else l[:80]
        if m and m.group(7):
            key += ":cause=" + m.group(7)
        run_ = runs[int(m.group(4))] if m and int(m.group(4)) < len(runs) else None
        fails.append(Fail(key=key, what=l, spec=(run_["spec"] if run_ else None), batch_line=(run_["args"] if run_ else None),
                          how_to_replay="./check C09 --replay <this file> (rebuilds the scratch project from 'spec' and re-runs the traced oracle)"))
    # reported phenology: the crop result file must show the day-of-year of the traced stage dates, in order
    crops = [x for x in cases if x["k"] == "crop"]
    byline = {}
    for x in crops:
        byline.setdefault(x["line"], []).append(x)
    checked = 0
    for i, r_ in enumerate(runs):
        rows = crop_file_rows(ctx, r_["name"])
        tr = byline.get(i, [])
        if len(rows) != len(tr):
            # a file the harness cannot read is a harness problem only when crops were harvested
            if tr and not rows:
                fails.append(Fail(key="crop-file-missing", what="no crop result file for %s" % r_["tag"]))
            continue
        for row, x in zip(rows, tr):
            checked += 1
            dev = x["dev"]
            want = (doy(x["sowdate"]), dev[1], dev[4], dev[5], x["doy"])
            if tuple(row[2:7]) != want or row[7] != x["sowdate"]:
                fails.append(Fail(key="crop-file:phenology-differs-from-run:crop=%s" % x["crop"],
                                  what="crop file row %s, run reached %s (%s)" % (row, want, r_["tag"]), spec=r_["spec"], batch_line=r_["args"]))
            # unrolled order sowing <= emergence <= anthesis <= maturity <= harvest (0 = stage not reached)
            seq = [v for v in row[2:7] if v]
            wraps = sum(1 for a, c_ in zip(seq, seq[1:]) if c_ < a)
            if wraps > 1:
                fails.append(Fail(key="crop-file:phenology-order:crop=%s" % x["crop"], what="crop file row %s (%s)" % (row, r_["tag"]),
                                  spec=r_["spec"], batch_line=r_["args"]))
    ctx.extra["crop_file_rows_checked"] = checked
    return fails


def replay(ctx, r):
    """./check C09 --replay <file>: <file> is a violation replay (failing_inputs[*].spec) or {"spec": {...}}; re-runs the traced oracle"""
    import subprocess
    specs = []
    for f in ([r] if "spec" in r else r.get("failing_inputs", [])):
        if f.get("spec") and f["spec"] not in specs:
            specs.append(f["spec"])
    rc_all = 0
    for sp in specs:
        ctx.seed = sp["seed"]
        rnd = random.Random(1)
        ex = waterlib.prepare_examples(ctx)
        weather_scenarios(ex, ctx.seed)
        rows = build_rotation(rnd, [tuple(c) for c in sp["crops"]], sp["start"])
        y0, end = write_project(ex, "rp", rows, sp["nlevel"], rnd)
        line = batch_line("rp", sp, y0, end)
        lf = os.path.join(ctx.work, "replay_lines.txt")
        open(lf, "w").write(json.dumps({"args": line, "yml": sp["yml"], "tag": "replay"}) + "\n")
        p = subprocess.run([ctx.harness(), "c09", "-work", ex, "-lines", lf, "-seed", "1", "-every", "1000000", "-max-interesting", "0"],
                           stdout=subprocess.PIPE, stderr=subprocess.PIPE, text=True, cwd=ctx.work)
        orc = [l for l in p.stdout.split("\n") if l.startswith("ORACLE ")]
        print("spec:", json.dumps(sp))
        print("rotation:", rows)
        print("batch line (cwd = scratch copy of /repo/examples with the generated project 'rp'):", line)
        print("%d failing crop days" % len(orc))
        for l in orc[:10]:
            print(" ", l)
        rc_all |= 1 if orc else 0
    return rc_all
