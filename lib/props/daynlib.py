"""Whole-day tie of the nitrogen path (DayNitroModel.v / DayNitroCorr.v / Prop_C02b.v), shared by C02 and C07.

    correspond_day(ctx, corr)   traced real runs (LeachingDepth at the profile bottom) -> per day the inputs of day_nitro
                                and the real end-of-day state; the model is run on binary64 and compared bit for bit;
                                mismatches go to corr.mismatches, counts to corr.dist / ctx.extra
    oracle_day(ctx)             the day-level statements (C02_day_balance, C07_day_credited_once) evaluated on the
                                same real runs -> [Fail]
    python3 lib/props/daynlib.py [--tier quick|thorough] [--seed N]     standalone run (own scratch dirs)

Use from a property module:  PROP_FILES += ["Prop_C02b"]  (the driver then re-checks the day theorems and their
Print Assumptions);  in correspond(): daynlib.correspond_day(ctx, c);  in oracle(): fails += daynlib.oracle_day(ctx, daynlib.C02_KEYS)
(C07: daynlib.C07_KEYS)."""
import os, re, sys

if __name__ == "__main__":
    sys.path.insert(0, os.path.dirname(os.path.dirname(os.path.abspath(__file__))))

from core import Corr, Fail
from props import waterlib
from props.waterlib import fl, fls, b

PROP_FILE = "Prop_C02b"
HDR = ["From Coq Require Import ZArith List Bool Floats.",
       "From Hermes Require Import Num NitroModel DayNitroModel C01Corr DayNitroCorr.",
       "Import ListNotations.", "Open Scope float_scope."]
NAMES = ["C1 at the end of the day", "NFOS/NAOS", "MINFOS/MINAOS", "PE (taken on sub-step 1 / reset at the end)",
         "PESUM/AUFNASUM", "OUTSUM/NLEAG/DRAINLOSS", "DSUMM/UMS/NH4Sum/NH4UMS/N2onitsum/N2onitDaily/MINSUM", "CUMDENIT",
         "DN", "C1 after the start-of-day additions", "C1 after some sub-step", "instability flag"]
C02_KEYS = ("day-n-balance-loss", "day-n-balance-gain")
C07_KEYS = ("day-uptake-credit", "day-fixation-credit", "day-credited-in-later-substep", "day-pe-not-reset")
ORACLE_KEYS = C02_KEYS + C07_KEYS
SHARD = 40

_tr = {}


def lls(ll):
    return "[" + "; ".join(fls(l) for l in ll) + "]"


def day_record(c):
    i, o = c["in"], c["out"]
    cnt = i["cnt"]
    menv = "[" + "; ".join("{| me_tdprev := %s; me_td := %s; me_e0 := %s; me_e1 := %s; me_wnor := %s; me_wmin := %s; "
                           "me_porges := %s; me_w := %s |}" % tuple(fl(v) for v in e) for e in i["menv"]) + "]"
    subs = "[" + ";\n ".join("{| sb_fluss0 := %s; sb_qdrain := %s; sb_q1 := %s; sb_wg0 := %s; sb_expo := %s |}"
                             % (fl(s["fluss0"]), fl(s["qdrain"]), fls(s["q1"]), fls(s["wg0"]), fls(s["expo"]))
                             for s in i["subs"]) + "]"
    return ("({| dy_add := %s; dy_irr := %s; dy_brkz := %s; dy_breg := %s; dy_depos := %s; dy_dt := %s; dy_c1 := %s; "
            "dy_nfos := %s; dy_naos := %s; dy_minfos := %s; dy_minaos := %s; dy_pe := %s; "
            "dy_pesum := %s; dy_aufnasum := %s; dy_outsum := %s; dy_nleag := %s; dy_drainloss := %s; dy_dsumm := %s; dy_ums := %s; "
            "dy_nh4sum := %s; dy_nh4ums := %s; dy_n2onitsum := %s; dy_n2onitdaily := %s; dy_minsum := %s; dy_cumdenit := %s; "
            "dy_fert := %s; dy_nsas := %s; dy_nlas := %s; dy_ndir := %s; dy_nh4n := %s; dy_till := %s; dy_eint := %s; "
            "dy_tilart := %d%%Z; dy_menv := %s; dy_wred := %s; dy_porges0 := %s; dy_wdt := %s; dy_after_sow := %s; "
            "dy_growing := %s; dy_dv := %s; dy_draidep := %d; dy_outn := %d; dy_stab := %s; dy_schnorr := %s; dy_ad := %s; "
            "dy_w := %s;\n dy_subs := %s;\n dy_peat := %s; dy_nq := %s; dy_fth := %s; dy_fte := %s |},\n"
            " {| ob_c1_add := %s; ob_dn := %s; ob_c1_subs := %s; ob_pe_taken := %s; ob_c1 := %s; ob_pe := %s; ob_nfos := %s; "
            "ob_naos := %s; ob_minfos := %s; ob_minaos := %s; ob_cnt := %s; ob_unstable := %s |})"
            % (b(i["add"]), b(i["irr"]), fl(i["brkz"]), fl(i["breg"]), fl(i["depos"]), fl(i["dt"]), fls(i["c1"]),
               fls(i["nfos"]), fls(i["naos"]), fls(i["minfos"]), fls(i["minaos"]), fls(i["pe"]),
               fl(cnt[0]), fl(cnt[1]), fl(cnt[2]), fl(cnt[3]), fl(cnt[4]), fl(cnt[5]), fl(cnt[6]), fl(cnt[7]), fl(cnt[8]),
               fl(cnt[9]), fl(cnt[10]), fl(cnt[11]), fl(cnt[12]),
               b(i["fert"]), fl(i["nsas"]), fl(i["nlas"]), fl(i["ndir"]), fl(i["nh4n"]), b(i["till"]), fl(i["eint"]),
               i["tilart"], menv, fl(i["wred"]), fl(i["porges0"]), fl(i["wdt"]), b(i["after_sow"]), b(i["growing"]),
               fl(i["dv"]), max(i["draidep"], 0), i["outn"], fl(i["stab"]), fl(i["schnorr"]), fls(i["ad"]), fls(i["w"]),
               subs, b(i["peat"]), fls(i["nq"]), fls(i["fth"]), fls(i["fte"]),
               fls(o["c1_add"]), fls(o["dn"]), lls(o["c1_subs"]), fls(o["pe_taken"]), fls(o["c1"]), fls(o["pe"]),
               fls(o["nfos"]), fls(o["naos"]), fls(o["minfos"]), fls(o["minaos"]), fls(o["cnt"]), b(o["unstable"])))


def day_lines(ctx):
    """(number of batch lines, end year, sampling of ordinary days, sampling of event-free days with several sub-steps)"""
    return (8, 1995, 4, 1) if ctx.thorough else (4, 1983, 8, 2)


def day_trace(ctx):
    """traced runs with LeachingDepth=20 -> (rc, cases, oracle lines, stderr); cached per process"""
    if "r" in _tr:
        return _tr["r"]
    ex = waterlib.prepare_examples(ctx)
    nl, endy, every, multi = day_lines(ctx)
    lf = os.path.join(ctx.work, "dayn_lines.txt")
    lines = [l + " LeachingDepth=20" for l in waterlib.trace_lines(ctx, nl, endy)]
    # peat soils (first horizon HN -> Denitmo), 12 layers, drains at 8 dm: project MUN of the shipped examples
    for sid in (("011", "183") if ctx.thorough else ("011",)):
        lines.append("project=MUN WeatherFolder=MUN soilId=%s fcode=NEU plotNr=00001 Altitude=55 Latitude=54.00 poligonID=MUN "
                     "parameter=./parameter StartYear=2009 EndDate=3112%d resultfolder=R/m%s LeachingDepth=12"
                     % (sid, 2014 if ctx.thorough else 2010, sid))
    with open(lf, "w") as f:
        f.write("\n".join(lines) + "\n")
    rc, cases, orc, other, err = waterlib.run_harness(
        ctx, "dayn", ["-work", ex, "-lines", lf, "-seed", str(ctx.seed), "-every", str(every), "-multi-every", str(multi)])
    _tr["r"] = (rc, cases, orc, err)
    return _tr["r"]


def parse_m(o):
    """Print M output -> (ok, [(index, mask)]); anything that is not a list of pairs is not ok"""
    m = re.search(r"M\s*=\s*(.*?)\s*:\s*list \(nat \* nat\)", o, re.S)
    if not m:
        return False, []
    body = m.group(1).strip()
    pat = r"\(\s*(\d+)(?:%nat)?\s*,\s*(\d+)(?:%nat)?\s*\)"
    pairs = re.findall(pat, body)
    rest = re.sub(pat, "", body)
    if re.sub(r"[\[\];\s]", "", rest) != "":
        return False, []
    if body != "[]" and not pairs:
        return False, []
    return True, [(int(a), int(c)) for a, c in pairs]


def correspond_day(ctx, corr):
    ok, out = ctx.coq_make(["DayNitroCorr"])
    if not ok:
        corr.mismatches.append({"kind": "dayn-coq-build", "output": out[-1500:]})
        return corr
    rc, cases, orc, err = day_trace(ctx)
    if rc != 0:
        corr.mismatches.append({"kind": "dayn-trace-crash", "stderr": err[-1500:]})
    runs = [x for x in cases if x["k"] == "dayn-run"]
    for r_ in runs:
        if not r_["success"]:
            corr.mismatches.append({"kind": "dayn-traced-run-failed", "run": r_})
    days = [x for x in cases if x["k"] == "dayn"]
    recs = [day_record(c) for c in days]
    items = []
    for k in range(0, len(recs), SHARD):
        body = HDR + ["Definition cases : list (dayn_in (T:=float) * dayn_obs) := [\n%s\n]." % ";\n".join(recs[k:k + SHARD]),
                      "Definition M := Eval vm_compute in mismatches dayn_check %d%%nat cases." % k, "Print M."]
        items.append(("Cases_dayn_%d" % (k // SHARD), "\n".join(body) + "\n"))
    for nm, rc_, o in ctx.coq_eval_many(items, timeout=900):
        good, pairs = parse_m(o)
        if rc_ != 0 or not good:
            corr.mismatches.append({"kind": "dayn-coq-eval", "shard": nm, "output": o[-1200:]})
            continue
        for idx, mask in pairs:
            d = days[idx]
            corr.mismatches.append({"kind": "day-nitrogen-path", "line": d["line"], "zeit": d["zeit"], "steps": d["steps"],
                                    "differs": [NAMES[j] for j in range(len(NAMES)) if mask >> j & 1],
                                    "events": {k: d["in"][k] for k in ("add", "irr", "fert", "till", "peat", "start")}})
    corr.cases += len(recs)
    corr.dist["dayn"] = corr.dist.get("dayn", 0) + len(recs)
    skipped = {}
    for r_ in runs:
        for k, v in r_["skipped"].items():
            skipped[k] = skipped.get(k, 0) + v
    for d in days:
        i = d["in"]
        corr.bump("dayn:steps=%d" % d["steps"])
        for ev in ("irr", "fert", "till", "peat"):
            if i[ev]:
                corr.bump("dayn:" + ev)
        corr.bump("dayn:start=" + ("previous-dayend" if i["add"] else "evatra-pre:" + i["start"]))
        corr.bump("dayn:layers=%d" % i["n"])
        if i["draidep"] > 0 and any(float.fromhex(s_["qdrain"]) > 0 for s_ in i["subs"]):
            corr.bump("dayn:drain-active")
    ctx.extra["dayn_days_simulated"] = sum(r_["days"] for r_ in runs)
    ctx.extra["dayn_days_tied"] = len(days)
    ctx.extra["dayn_days_skipped_by_reason"] = skipped
    return corr


def oracle_day(ctx, keys=ORACLE_KEYS):
    """keys: daynlib.C02_KEYS (day budget) / daynlib.C07_KEYS (crediting, PE reset) / both (default)"""
    fails = []
    rc, cases, orc, err = day_trace(ctx)
    if rc != 0:
        fails.append(Fail(key="dayn-trace-crash", what="traced run aborted", stderr=err[-800:]))
    for l in orc:
        if l.startswith(tuple(keys)):
            fails.append(Fail(key=re.sub(r"(residual|value|dPESUM|dAUFNASUM|sum-pe|fixation)=\S+", "", l)[:100].strip(), what=l))
    return fails


if __name__ == "__main__":
    import argparse, json, time
    import core
    ap = argparse.ArgumentParser()
    ap.add_argument("--tier", default="quick")
    ap.add_argument("--seed", type=int, default=20261001)
    a = ap.parse_args()
    t0 = time.time()
    ctx = core.Ctx("DAYN", a.tier, a.seed)
    ok, out = ctx.coq_make([PROP_FILE])
    print("coq_make", ok, "" if ok else out[-2000:])
    if ok:
        ok2, ths, ax, probs, _ = ctx.check_prop_file(PROP_FILE)
        print("prop file", ok2, ths, probs)
    c = correspond_day(ctx, Corr())
    fs = oracle_day(ctx)
    print(json.dumps({"cases": c.cases, "dist": c.dist, "mismatches": c.mismatches[:5], "n_mismatches": len(c.mismatches),
                      "oracle_fails": fs[:5], "extra": ctx.extra, "wall_s": round(time.time() - t0, 1)}, indent=1, default=str))
