"""C06 — soil water content stays within physical bounds and the state stays finite (DESIGN.md §6 C06)."""
import re
from core import Corr, Fail
from props import waterlib, c01

PROP_FILES = ["Prop_C06"]
RULE = c01.RULE + "; plus setFieldCapacityWithGW on synthetic profiles x groundwater levels (integral, fractional, above/below the profile)"
TRUSTED = c01.TRUSTED + ["NaN/Inf freedom outside the modelled kernels is observed (reflection walk over the whole state every traced day), not proved"]
ASSUMPTIONS = ["crop/photosynthesis code enters only through the traced runs",
               "the day-level lower bound for days with several sub-steps is proved per sub-step under the hypothesis that the "
               "storage after uptake is at or above the dryness limit (established by the uptake clamp on the first sub-step); "
               "the end-of-day statement itself is evaluated on every traced day"]
LEVEL_TEXT = ("Coq proof over the reals of the per-layer upper bound (field capacity + applied capillary term) and of the "
              "dryness-limit lower bound of every Water sub-step, and of 'field capacity = pore volume below the groundwater "
              "table'; same bit-exact model/code tie as C01 plus the groundwater field-capacity kernel; finiteness of every "
              "float of the simulation state and the end-of-day bounds are evaluated on every traced day of real runs.")
LEVEL_NOTE = ("Partial: NaN/Inf freedom is proved only as definedness of the modelled Water kernel over R (its only divisors "
              "are the constants 10 and 3); for the rest of the state it is observed on traced runs. Reals axioms of the "
              "standard library; primitive floats; R->F gap as in C01.")
TECHNIQUE = "Coq proof (per-phase Forall2 invariants by induction over layers, lra/nra) + bit-exact kernel correspondence + trace oracle"


def _gw_args(ctx):
    return ["-seed", str(ctx.seed), "-n", str(3000 if ctx.thorough else 300)]


def correspond(ctx):
    c = c01.correspond(ctx)
    rc, cases, orc, other, err = waterlib.run_harness(ctx, "c06", _gw_args(ctx))
    if rc != 0:
        c.mismatches.append({"kind": "harness-crash", "stderr": err[-1500:]})
        return c
    # the groundwater-change block of the day loop (restore saved capacities, then set_fc_gw) on traced runs
    trc, tcases, torc, terr = waterlib.run_trace(ctx)
    glue = [x for x in tcases if x["k"] == "gwfc"]
    c.dist["gwfc_day_loop"] = len(glue)
    cases = cases + glue
    recs = ["(%s, %s, %s, %s)" % (waterlib.fl(x["in"]["grw"]), waterlib.fls(x["in"]["w"]), waterlib.fls(x["in"]["porges"]),
                                  waterlib.fls(x["out"])) for x in cases]
    items = []
    shard = 400
    for k in range(0, len(recs), shard):
        body = waterlib.HDR + ["Definition cases : list (float * list float * list float * list float) := [\n%s\n]." % ";\n".join(recs[k:k + shard]),
                               "Definition M := Eval vm_compute in mismatches gwfc_check %d%%nat cases." % k, "Print M."]
        items.append(("Cases_gwfc_%d" % (k // shard), "\n".join(body) + "\n"))
    for nm, rc2, o in ctx.coq_eval_many(items, timeout=900):
        m = re.search(r"M\s*=\s*(.*?)\s*:\s*list \(nat \* nat\)", o, re.S)
        if rc2 != 0 or not m:
            c.mismatches.append({"kind": "coq-eval", "shard": nm, "output": o[-1200:]}); continue
        if m.group(1).strip() != "[]":
            idx = [int(a) for a, _ in re.findall(r"\(\s*(\d+)(?:%nat)?\s*,\s*(\d+)(?:%nat)?\s*\)", m.group(1))]
            c.mismatches.append({"kind": "gw-field-capacity", "cases": [cases[i]["in"] for i in idx[:5]] or o[-600:]})
    c.cases += len(recs)
    c.nontrivial += len(set((x["in"]["grw"], tuple(x["in"]["w"])) for x in cases))
    c.dist["gwfc"] = len(recs)
    return c


def oracle(ctx, search):
    fails = []
    rc, cases, orc, other, err = waterlib.run_harness(ctx, "c06", _gw_args(ctx))
    if rc != 0:
        fails.append(Fail(key="harness-crash", what="setFieldCapacityWithGW aborted", stderr=err[-800:]))
    trc, tcases, torc, terr = waterlib.run_trace(ctx)
    if trc != 0:
        fails.append(Fail(key="trace-crash", what="traced run aborted", stderr=terr[-800:]))
    rc1, cases1, orc1, other1, err1 = waterlib.run_harness(ctx, "c01", c01._args(ctx))
    # the input of C06_lower_bound_day_evap_refuted replayed on the real kernel: the code must do what the lemma states
    wit = [x for x in cases1 if x.get("k") == "evap-day-witness"]
    ctx.extra["evap_day_witness_on_real_kernel"] = wit[:1]
    if not wit or not wit[0].get("as_stated"):
        fails.append(Fail(key="evap-day-witness-not-as-stated", what="the real Water kernel does not behave on the witness input as "
                          "C06_lower_bound_day_evap_refuted states for the model: %s" % wit[:1]))
    for l in orc + [t for t in torc + orc1 if t.startswith(("wg-", "state-not-finite", "fc-below-gw", "fc-after-gw-change", "substep-", "volume-fraction-out-of-range", "table-params-not-a-function-of-level"))]:
        fails.append(Fail(key=re.sub(r"(value|wg|start|end|fc|limit|maxcaps|w|porges|soil-fc|pore-volume|wmin|soil-wmin|zeit|grw|increment|was)=\S+", "", l)[:100].strip(), what=l))
    days = [x for x in tcases if x["k"] == "day"]
    ctx.extra["traced_days_checked_for_bounds_and_finiteness"] = len(days)
    ctx.extra["table_route_days_at_a_groundwater_level_seen_before"] = max([x.get("table_route_level_repeats", 0) for x in tcases if x["k"] == "run"] or [0])
    # hypothesis of C06_lower_bound_day_nonevap observed on the real runs
    ctx.extra["traced_days_where_the_clamped_uptake_does_not_fit_below_field_capacity"] = sum(1 for d in days if d.get("uptake_fits") is False)
    ctx.extra["traced_days_with_net_evaporation_and_more_than_one_substep"] = sum(
        1 for d in days if d.get("steps", 1) > 1 and float.fromhex(d["fluss0"]) < 0)
    return fails
