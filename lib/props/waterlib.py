"""shared by C01 and C06: harness invocation, Coq case emission for the Water kernel and the day-loop trace"""
import json, re, subprocess
from core import Corr, Fail

_cache = {}


def fl(s):
    return "(%s)" % s if s.startswith("-") else s


def fls(l):
    return "[" + "; ".join(fl(x) for x in l) + "]"


def b(x):
    return "true" if x else "false"


def water_record(i, o):
    return ("({| wi_subd1 := %s; wi_wdt := %s; wi_after_sow := %s; wi_fluss0 := %s; wi_grw := %s; wi_draidep := %d; "
            "wi_draifak := %s; wi_outn := %d; wi_gwauf := %s; wi_eta := %s; wi_wg0 := %s; wi_tp := %s; wi_w := %s; "
            "wi_wmin := %s; wi_nfk := %s; wi_ev := %s; wi_q1 := %s; wi_caps := %s |}, "
            "{| ob_tp := %s; ob_wg1 := %s; ob_q1 := %s; ob_ev := %s; ob_qdrain := %s; ob_cnt_in := %s; ob_cnt_out := %s |})"
            % (b(i["subd1"]), fl(i["wdt"]), b(i["after_sow"]), fl(i["fluss0"]), fl(i["grw"]), max(i["draidep"], 0),
               fl(i["draifak"]), i["outn"], fl(i["gwauf"]), fl(i["eta"]), fls(i["wg0"]), fls(i["tp"]), fls(i["w"]),
               fls(i["wmin"]), fls(i["nfk"]), fls(i["ev"]), fls(i["q1"]), fls(i["caps"]),
               fls(o["tp"]), fls(o["wg1"]), fls(o["q1"]), fls(o["ev"]), fl(o["qdrain"]), fls(i["cnt"]), fls(o["cnt"])))


def run_harness(ctx, cmd, args, timeout=900):
    key = (cmd, tuple(args))
    if key in _cache:
        return _cache[key]
    vh = ctx.harness()
    p = subprocess.run([vh, cmd] + list(args), stdout=subprocess.PIPE, stderr=subprocess.PIPE, text=True,
                       timeout=timeout, cwd=ctx.work)
    cases, oracle, other = [], [], []
    for line in p.stdout.split("\n"):
        if line.startswith("{"):
            cases.append(json.loads(line))
        elif line.startswith("ORACLE "):
            oracle.append(line[7:])
        elif line.strip():
            other.append(line)
    _cache[key] = (p.returncode, cases, oracle, other, p.stderr)
    return _cache[key]


HDR = ["From Coq Require Import ZArith List Bool Floats.", "From Hermes Require Import Num WaterModel C01Corr.",
       "Import ListNotations.", "Open Scope float_scope."]


def eval_water_cases(ctx, corr, cases, shard=60, name="Cases_water"):
    """bit-exact comparison of WaterModel with the observed hermes.Water transitions"""
    recs = [water_record(c["in"], c["out"]) for c in cases]
    items = []
    for k in range(0, len(recs), shard):
        body = HDR + ["Definition cases : list (water_in (T:=float) * water_obs) := [\n%s\n]." % ";\n".join(recs[k:k + shard]),
                      "Definition M := Eval vm_compute in mismatches water_check %d%%nat cases." % k, "Print M."]
        items.append(("%s_%d" % (name, k // shard), "\n".join(body) + "\n"))
    names = ["TP", "WG1", "Q1", "EV", "QDRAIN", "counters"]
    for nm, rc, o in ctx.coq_eval_many(items, timeout=900):
        m = re.search(r"M\s*=\s*(.*?)\s*:\s*list \(nat \* nat\)", o, re.S)
        if rc != 0 or not m:
            corr.mismatches.append({"kind": "coq-eval", "shard": nm, "output": o[-1200:]})
            continue
        pairs = re.findall(r"\(\s*(\d+)(?:%nat)?\s*,\s*(\d+)(?:%nat)?\s*\)", m.group(1))
        if m.group(1).strip() != "[]" and not pairs:
            corr.mismatches.append({"kind": "coq-eval", "shard": nm, "output": o[-1200:]})
        for idx, mask in pairs:
            idx, mask = int(idx), int(mask)
            corr.mismatches.append({"kind": "water-kernel", "case": idx, "tag": cases[idx]["in"]["tag"],
                                    "differs": [names[j] for j in range(6) if mask >> j & 1],
                                    "input": cases[idx]["in"]})
    corr.cases += len(recs)
    return corr


def eval_steps_cases(ctx, corr, cases, name="Cases_steps"):
    """run.go's sub-step choice (ZSR, WDT, STEPS) vs the model, on the states real runs went through"""
    if not cases:
        return corr
    recs = ["(%s, %s, %s, %s, (%d%%Z, %s))" % (fl(c["fluss0"]), fl(c["regen"]), fls(c["w"]), fls(c["wg0"]), c["n"], fl(c["wdt"]))
            for c in cases]
    items = []
    shard = 150
    for k in range(0, len(recs), shard):
        body = HDR + ["Definition cases : list (float * float * list float * list float * (Z * float)) := [\n%s\n]." % ";\n".join(recs[k:k + shard]),
                      "Definition M := Eval vm_compute in mismatches steps_check %d%%nat cases." % k, "Print M."]
        items.append(("%s_%d" % (name, k // shard), "\n".join(body) + "\n"))
    for nm, rc, o in ctx.coq_eval_many(items, timeout=900):
        m = re.search(r"M\s*=\s*(.*?)\s*:\s*list \(nat \* nat\)", o, re.S)
        if rc != 0 or not m:
            corr.mismatches.append({"kind": "coq-eval", "shard": nm, "output": o[-1200:]})
            continue
        pairs = re.findall(r"\(\s*(\d+)(?:%nat)?\s*,\s*(\d+)(?:%nat)?\s*\)", m.group(1))
        if m.group(1).strip() != "[]" and not pairs:
            corr.mismatches.append({"kind": "coq-eval", "shard": nm, "output": o[-1200:]})
        for idx, mask in pairs:
            idx, mask = int(idx), int(mask)
            corr.mismatches.append({"kind": "substep-choice", "differs": [x for j, x in enumerate(["STEPS", "WDT"]) if mask >> j & 1],
                                    "case": {k: v for k, v in cases[idx].items() if k not in ("w", "wg0")}})
    corr.cases += len(recs)
    return corr


def prepare_examples(ctx, extreme_rain=True):
    """scratch copy of the shipped examples; optionally a weather scenario with injected extreme rain days"""
    import os, shutil, random
    ex = os.path.join(ctx.work, "ex")
    if os.path.isdir(ex):
        return ex
    from core import REPO
    shutil.copytree(os.path.join(REPO, "examples"), ex)
    # a measurement row dated inside the simulated period, after a fertilisation has started to dissolve (project ex1,
    # fixed-width measurement file, row selected by plot id; the reader keeps the first matching row only):
    # exercises the measurement-overwrite day of run.go
    ep = os.path.join(ex, "project", "ex1", "endit_ex1.txt")
    t = [l for l in open(ep).read().split("\n") if l.strip() and l.strip() != "end"]
    t.append("10001     04201982 0025 0015 0010 1 0.500 0.500 0.500 0010   0010    0010     0.600 0.600  0.600  ")
    open(ep, "w").write("\n".join(t + ["end"]) + "\n")
    # a constant groundwater table INSIDE the profile and an active drain (all shipped soils have GW 99 and Drai% 00):
    # soil 160 of project ex1 gets drain depth 10 dm, drain share 0.3, groundwater at 6 dm (a rooted layer sits at the table) (fixed columns of soil.go)
    sp = os.path.join(ex, "project", "ex1", "soil_ex1.txt")
    sl = open(sp).read().split("\n")
    for i, l in enumerate(sl):
        if l.startswith("160 ") and len(l) >= 72 and l[70:72] == "99":
            sl[i] = l[:62] + "10" + l[64:67] + "0.3" + "06" + l[72:]
            break
    # ... and soil 904: the same profile with the table at 2 dm (saturated layers inside the mineralisation depth)
    for i, l in enumerate(sl):
        if l.startswith("160 ") and len(l) >= 72 and l[70:72] == "06":
            k = i
            rows = []
            while k < len(sl) and (sl[k].startswith("160 ")):
                rows.append("904" + sl[k][3:]); k += 1
            rows[0] = rows[0][:70] + "02" + rows[0][72:]
            sl[k:k] = rows
            break
    open(sp, "w").write("\n".join(sl))
    # a profile of only two 10-cm layers (every shipped soil has at least three): soil 902 of project ex1
    sl2 = open(sp).read().split("\n")
    first = [l for l in sl2 if l.startswith("041 ") and len(l) >= 72 and l[13:15] == "03"][0]
    # (capacities from the texture table: the FC/WP/PS columns are left blank, so Hydro is called for it)
    thin = "902" + first[3:13] + "02" + first[15:21] + "00" + first[23:32] + "02 01" + first[37:40] + "        " + first[48:]
    endi = [i for i, l in enumerate(sl2) if l.strip() == "end"]
    sl2.insert(endi[0] if endi else len(sl2), thin)
    open(sp, "w").write("\n".join(sl2))
    # a legume harvested while it is still fixing, followed by a non-legume: the 1981 soybean of field SOYSM1 is cut in July
    cpc = os.path.join(ex, "project", "ex1", "crop_ex1.csv")
    cl = open(cpc).read().split("\n")
    for i, l in enumerate(cl):
        if l.startswith("SOYSM1,SOY,05151981,09311981"):
            cl[i] = "SOYSM1,SOY,05151981,07201981" + l[28:]
    open(cpc, "w").write("\n".join(cl))
    # a SPARSE groundwater time series of a constant level inside the profile (days between the observations are
    # interpolated) that ENDS inside the run (after the last record the last level is held)
    gp = os.path.join(ex, "project", "ex3", "gw_ex3.csv")
    g3 = open(gp).read().rstrip("\n")
    g3 += "\nK12,01011979,12\nK12,12011980,12\nK12,06011981,12\n"
    # a table that falls from 5 dm to the profile bottom overnight: the first sub-steps of the following day move much
    # water and nitrate (transport clamps above the instability threshold in an EARLY sub-step of a multi-sub-step day)
    g3 += "K5,01011979,5\nK5,06201981,5\nK5,06211981,19\nK5,12312010,19\n"
    # a table that sinks slowly (about 0.7 cm a day: far less than the shipped series moves on a day it moves at all)
    g3 += "KS,01011979,8\nKS,01011980,8\nKS,12311981,13\nKS,12311986,6\nKS,12312010,6\n"
    # a table that stands deep while the top layers mineralise, RISES into the mineralisation depth (top 3 dm) in the warm season for
    # some weeks and returns: water-logged warm layers after aerobic days (a source term left over from an aerobic day must not be
    # fed to the transport step; seeded C07-17, C02-17)
    g3 += "KR,01011979,12\nKR,06201981,12\nKR,06251981,0.6\nKR,08011981,0.6\nKR,08051981,12\nKR,12312010,12\n"
    open(gp, "w").write(g3)
    # the residue table: the silage-maize row becomes the LAST row, and the file keeps ending without a line feed
    cn = os.path.join(ex, "parameter", "CROP_N.TXT")
    raw = open(cn, "rb").read().decode("latin-1")
    rows = raw.rstrip("\r\n").split("\n")
    smr = [r for r in rows[1:] if r.startswith("SM ")]
    if smr:
        rows = [r for r in rows if not r.startswith("SM ")] + smr[:1]
        open(cn, "wb").write("\n".join(rows).encode("latin-1"))
    # irrigation from file with an entry dated before the simulation start and differing N concentrations (all
    # shipped polygons have Ir = 0): plot 10002 of project ex1
    pp = os.path.join(ex, "project", "ex1", "poly_ex1.txt")
    pl = open(pp).read().split("\n")
    for i, l in enumerate(pl):
        if l.startswith("10002 ") and " 99 99 0 " in l:
            pl[i] = l.replace(" 99 99 0 ", " 99 99 1 ", 1)
    # a polygon whose groundwater table swings between 6 and 14 dm (sinusoid, GroundWaterFrom=polygonfile) ...
    endp = [i for i, l in enumerate(pl) if l.strip() == "end"]
    pl.insert(endp[0] if endp else len(pl), "10003 001 SOYSM1    06 14 0 soy_maize_gley")
    open(pp, "w").write("\n".join(pl))
    # ... on a gley without FC/WP/PS columns (texture-table route: Hydro is re-read at every level change), humous loamy sand
    sl3 = open(sp).read().split("\n")
    endi3 = [i for i, l in enumerate(sl3) if l.strip() == "end"]
    at = endi3[0] if endi3 else len(sl3)
    sl3[at:at] = ["903 2.00 SL3 03 3 00 10      00 10 02                     00  20   00 99 01",
                  "903 0.70 SL3 20 3 00 10      00                           00  20   00       "]
    open(sp, "w").write("\n".join(sl3))
    open(os.path.join(ex, "project", "ex1", "irr_ex1.txt"), "w").write(
        "Field_ID  Ir N03 date\n          mm mg/l \n"
        "SMSOY2    10  10 05011978\nSMSOY2    12  70 06011979\n"
        "SMSOY2    20  50 06151980\nSMSOY2    15   0 07101980\nSMSOY2    15  35 06201981\nSMSOY2    25  10 07051982\n"
        "SMSOY2    18  45 06121984\nSMSOY2    22   5 07011987\nSMSOY2    16  60 06251990\nend\n")
    # a stand whose roots reach the last (20th) layer (shipped soils stop at 13-15 dm, shipped rotations of myP are
    # maize/soy): project myP gets soil 075 with RootDepth 20 and winter wheat from the second year on; the csv soil table
    # also carries a drain at 10 dm with the share written as a percentage (40) and every other tillage is a shallow
    # 3 cm pass (less than half a layer: round(depth/10) = 0 layers are mixed)
    mp = os.path.join(ex, "project", "myP")
    open(os.path.join(mp, "soil_myP.csv"), "w").write(
        "SID,C_org,Texture,LayerDepth,BulkDensityClass,Stone,C/N,C/S,RootDepth,NumberHorizon,FieldCapacity,WiltingPoint,PoreVolume,Sand,Silt,Clay,DrainageDepth,Drainage%,GroundWaterLevel\n"
        "075,0.90,SL2,03,3,00,10,00,20,02,22,09,38,73,21,06,10,40,99\n"
        "075,0.30,SL4,20,3,00,10,00,,,22,12,43,61,27,12,20,00,   \n")
    open(os.path.join(mp, "crop_myP.txt"), "w").write(
        "Field_ID    crp  sowing harvst Rex yld autorg variety comment\n"
        "SOYSM1    SM  05151980 09311980 080 050 0 \n" +
        # ... and the LAST rotation entry is harvested in mid-growth inside the traced period (the crop index then points
        # at the empty slot behind the rotation)
        "SOYSM1    WW  10101980 08101981 000 000 0 \n"
        "SOYSM1    WW  10101981 06151982 000 000 0 \n" + "end\n")
    open(os.path.join(mp, "til_myP.txt"), "w").write(
        "Field_ID  Ti Typ date\n          cm\n" + "".join("SOYSM1     %d 1   0901%d\n" % (3 if y % 2 == 0 else 5, y) for y in range(1981, 1998)) + "end\n")
    open(os.path.join(mp, "fert_myP.txt"), "w").write(
        "Field_ID  N   Frt date\n" + "".join("SOYSM1    120 RM  0320%d\n" % y for y in range(1981, 1998)) + "end\n")
    # zuc (automatic fertilisation is on in its configuration): a THIRD N split timed by a day of the year (shipped
    # tables time it by a development stage or have none) for silage maize (small target: the rooted zone holds more),
    # sugar beet and winter rape; organic fertiliser after harvest (autorg = 1, timing H1) for the rotation of plot 10001
    ap = os.path.join(ex, "project", "zuc", "automan.txt")
    al = open(ap).read().split("\n")
    for i, ln in enumerate(al):
        for crop, ndem3 in (("SM ", "10 "), ("ZR ", "100"), ("WRA", "45 ")):
            if ln.startswith(crop + " ") and len(ln) > 130:
                al[i] = ln[:106] + ndem3 + ln[109:127] + "150" + ln[130:]
    open(ap, "w").write("\n".join(al))
    cz = os.path.join(ex, "project", "zuc", "crop_zuc.csv")
    cl = open(cz).read().split("\n")
    hdr = cl[0].split(",")
    ai = hdr.index("autorg")
    for i, ln in enumerate(cl[1:], 1):
        t = ln.split(",")
        if len(t) > ai and t[0] == "L2F3R1":
            t[ai] = "1"
            cl[i] = ",".join(t)
    open(cz, "w").write("\n".join(cl))
    # MUN: a meadow left uncut for years (one rotation element per cut): the sward matures, dies back and re-sprouts on its
    # own (crop.go, automatic re-sprouting of permanent crops: N of the dying stems and ears goes to the soil pool)
    mp_ = os.path.join(ex, "project", "MUN")
    pl_ = open(os.path.join(mp_, "poly_MUN.txt")).read().split("\n")
    e_ = [i for i, l in enumerate(pl_) if l.strip().startswith("end")]
    pl_.insert(e_[0] if e_ else len(pl_), "00020 001 GRA000001 99 99 0 meadow")
    open(os.path.join(mp_, "poly_MUN.txt"), "w").write("\n".join(pl_))
    cr_ = open(os.path.join(mp_, "crop_MUN.txt")).read().split("\n")
    e_ = [i for i, l in enumerate(cr_) if l.strip() == "end"]
    at_ = e_[0] if e_ else len(cr_)
    cr_[at_:at_] = ["GRA000001 WRA 23082008 27072009 100  54  0", "GRA000001 GR  01092009 20102011 100      0",
                    "GRA000001 GR  21102011 25052013 100      0", "GRA000001 GR  26052013 20102016 100      0"]
    open(os.path.join(mp_, "crop_MUN.txt"), "w").write("\n".join(cr_))
    if extreme_rain:
        rnd = random.Random(ctx.seed)
        src = os.path.join(ex, "weather", "historical")
        dst = os.path.join(ex, "weather", "extreme")
        os.makedirs(dst, exist_ok=True)
        for fn in os.listdir(src):
            if not fn.endswith(".csv"):
                continue
            lines = open(os.path.join(src, fn)).read().split("\n")
            hdr = lines[0].split(",")
            if "precip" not in hdr:
                shutil.copy(os.path.join(src, fn), dst); continue
            pi = hdr.index("precip")
            out = lines[:2]
            for ln in lines[2:]:
                t = ln.split(",")
                if len(t) > pi and rnd.random() < 0.02:
                    t[pi] = "%.1f" % rnd.choice([45.0, 62.0, 93.0, 99.0, 120.5, 186.0, 250.0, rnd.uniform(30, 300)])
                elif len(t) > pi and rnd.random() < 0.03:
                    # amounts exactly on the class limits of the sub-step choice (|FLUSS0|*DZ = 5, 10, 15 when nothing
                    # evaporates that day) and their neighbours
                    t[pi] = rnd.choice(["5.0", "10.0", "15.0", "4.9", "5.1", "9.9", "10.1", "14.9", "15.1", "0.0"])
                # heavy rain on the day after each fixed harvest date of the zuc rotation of plot 10001 (organic fertiliser
                # due "harvest + 1 day" then falls on a day with several sub-steps)
                if len(t) > pi and t[0] in ("1980-08-05", "1981-07-21", "1982-09-07", "1983-10-16", "1984-09-21", "1985-08-06"):
                    t[pi] = "38.0"
                out.append(",".join(t))
            open(os.path.join(dst, fn), "w").write("\n".join(out))
    return ex


# batch lines of the shipped examples used for traced runs: (line, date format of the project)
TRACE_LINES = [
    ("project=ex1 WeatherFolder=extreme soilId=075 fcode=109_120 plotNr=10001 Altitude=73 Latitude=52.6732 poligonID=29872 KcFactorBareSoil=2.0", "EN"),
    ("project=ex3 WeatherFolder=extreme soilId=075 fcode=109_120 plotNr=10001 Altitude=73 Latitude=52.6732 poligonID=29872 ETpot=2", "EN"),
    ("project=zuc WeatherFolder=extreme fcode=109_120 plotNr=10001 soilId=001 Altitude=73 Latitude=52.6732 poligonID=29872 ETpot=4", "DE"),
    ("project=ex1 WeatherFolder=historical soilId=160 fcode=109_120 plotNr=10002 Altitude=73 Latitude=52.6728 poligonID=29873 ETpot=3 AutoIrrigation=0", "EN"),
    ("project=ex3 WeatherFolder=historical soilId=075 fcode=109_120 plotNr=10001 Altitude=73 Latitude=52.6732 poligonID=29872 PTF=2", "EN"),
    ("project=myP WeatherFolder=extreme soilId=075 plotNr=10001 Altitude=73 Latitude=52.6732 poligonID=29872 ETpot=2 AutoIrrigation=0", "EN"),
    # a peat soil (top texture 'H...': run.go takes Denitmo instead of Denitr) under the per-year weather layout, with frost days;
    # polar latitude (day length exactly 0 around the winter solstice) with sunshine-only weather and ET method 3
    ("project=MUN WeatherFolder=MUN soilId=011 fcode=NEU plotNr=00006 Altitude=55 Latitude=54.00 poligonID=MUN parameter=./parameter StartYear=2009 Latitude=69.65 ETpot=3", "DE"),
    ("project=ex1 WeatherFolder=historical soilId=902 fcode=109_120 plotNr=10001 Altitude=73 Latitude=52.6732 poligonID=29872", "EN"),
    ("project=ex3 WeatherFolder=historical soilId=075 gwId=K12 fcode=109_120 plotNr=10001 Altitude=73 Latitude=52.6732 poligonID=29872", "EN"),
    # Haude's method on a weather file without a saturation-deficit column: potential ET is 0 every day, so the surface
    # flux equals the rain exactly (class limits of the sub-step choice are hit exactly)
    ("project=ex1 WeatherFolder=extreme soilId=075 fcode=109_120 plotNr=10002 Altitude=73 Latitude=52.6728 poligonID=29873 ETpot=1 AutoIrrigation=0", "EN"),
    ("project=ex3 WeatherFolder=historical soilId=075 gwId=K5 fcode=109_120 plotNr=10001 Altitude=73 Latitude=52.6732 poligonID=29872", "EN"),
    # fixed sowing / harvest dates with automatic fertilisation: organic fertiliser due the day after harvest
    ("project=zuc WeatherFolder=extreme fcode=109_120 plotNr=10001 soilId=001 Altitude=73 Latitude=52.6732 poligonID=29872 AutoHarvest=0 AutoSowingHarvest=0", "DE"),
    ("project=ex3 WeatherFolder=historical soilId=075 gwId=KS fcode=109_120 plotNr=10001 Altitude=73 Latitude=52.6732 poligonID=29872", "EN"),
    ("project=ex1 WeatherFolder=historical soilId=903 fcode=109_120 plotNr=10003 Altitude=73 Latitude=52.6732 poligonID=29872 GroundWaterFrom=0", "EN"),
    ("project=MUN WeatherFolder=MUN soilId=001 fcode=NEU plotNr=00020 Altitude=55 Latitude=54.00 poligonID=MUN parameter=./parameter StartYear=2009", "DE"),
    ("project=bulk WeatherFolder=extreme soilId=002 fcode=109_120 plotNr=10001 Altitude=73 Latitude=52.6732 poligonID=29872", "EN"),
    ("project=rue WeatherFolder=historical fcode=109_121 plotNr=10002 soilId=001 Altitude=46 Latitude=52.6431 poligonID=30169", "DE"),
    ("project=ex1 WeatherFolder=extreme soilId=041 fcode=109_121 plotNr=10001 Altitude=73 Latitude=52.6680 poligonID=29876 ETpot=1", "EN"),
]


# entries of TRACE_LINES (two-tuples: other modules unpack them) that cannot use the common end year
TRACE_PERIOD = {"project=MUN ": (2010, 2015), "gwId=KS": (1981, 1988), "soilId=903": (1981, 1986),
                # four harvests with two legumes among them (the per-crop fixation figure of the fourth crop)
                "soilId=902": (1983, 1995)}


def common_period_lines():
    """TRACE_LINES that run over the common 1980-... period (for modules that append their own EndDate)"""
    return [(ln, fmt) for ln, fmt in TRACE_LINES if not any(k in ln for k in TRACE_PERIOD)]


def trace_lines(ctx, nlines, end_year):
    out = []
    for i, (ln, fmt) in enumerate(TRACE_LINES[:nlines]):
        # lines with their own period (project MUN starts in 2009): (end year quick, end year thorough)
        own = [v for k, v in TRACE_PERIOD.items() if k in ln]
        end_year_i = (own[0][1] if ctx.thorough else own[0][0]) if own else end_year
        end = ("1231%d" if fmt == "EN" else "3112%d") % end_year_i
        out.append("%s EndDate=%s resultfolder=R/t%d" % (ln, end, i))
    return out


# CONFIGURATION SWEEP: short runs (oracles only, no kernel replays) of three shipped projects with ONE configuration key
# (or a pair of switches) away from the project's configuration — every value of the method selectors, both positions of the
# automation switches, the alternative input formats.  Lines are numbered from 100 on.
_A = "project=ex1 WeatherFolder=historical soilId=075 fcode=109_120 plotNr=10001 Altitude=73 Latitude=52.6732 poligonID=29872"
_B = "project=ex3 WeatherFolder=historical soilId=075 fcode=109_120 plotNr=10001 Altitude=73 Latitude=52.6732 poligonID=29872"
_Z = "project=zuc WeatherFolder=historical fcode=109_120 plotNr=10001 soilId=001 Altitude=73 Latitude=52.6732 poligonID=29872"
SWEEP_QUICK = (
    [(_A + " " + o, "EN") for o in ("ETpot=5", "CO2method=1", "CO2method=3", "PTF=1", "PTF=4", "PotMineralisation=1", "PotMineralisation=2",
                                     "CropParameterFormat=yml", "Fertilization=50", "AutoIrrigation=1", "AutoFertilization=1",
                                     "GroundWaterFrom=0", "LeachingDepth=10", "NDeposition=60")]
    + [(_A.replace("soilId=075", "soilId=904"), "EN")]
    + [(_B + " " + o, "EN") for o in ("PTF=1", "PTF=3", "GroundWaterFrom=0", "GroundWaterFrom=1", "gwId=K5 PTF=1", "gwId=KR")]
    + [(_Z + " " + o, "DE") for o in ("AutoFertilization=0", "AutoHarvest=0", "AutoSowingHarvest=0", "AutoIrrigation=0", "Fertilization=50",
                                     "AutoSowingHarvest=0 AutoHarvest=0", "CropParameterFormat=yml")])
SWEEP_MORE = (
    [(_A + " " + o, "EN") for o in ("ETpot=1", "ETpot=2", "ETpot=3", "ETpot=4", "CO2method=2", "PTF=2", "PTF=3", "KcFactorBareSoil=0.4",
                                     "CO2StomataInfluence=0", "NDeposition=0", "OrganicMatterMineralProportion=0.3", "Fertilization=150",
                                     "AutoSowingHarvest=1", "CO2concentration=700", "InitSelection=2", "AnnualAverageTemperature=3")]
    + [(_B + " " + o, "EN") for o in ("PTF=2", "PTF=4", "ETpot=2", "LeachingDepth=20")]
    + [(_Z + " " + o, "DE") for o in ("AutoFertilization=0 AutoIrrigation=0", "ETpot=2")])


def run_sweep(ctx, extra=""):
    """-> (rc, cases, oracle lines, stderr) of the configuration sweep; [extra] is appended to every line"""
    import os, hashlib
    ex = prepare_examples(ctx)
    lines = SWEEP_QUICK + (SWEEP_MORE if ctx.thorough else [])
    endy = 1984 if ctx.thorough else 1981
    lf = os.path.join(ctx.work, "sweep_lines_%s.txt" % hashlib.md5(extra.encode()).hexdigest()[:6])
    with open(lf, "w") as f:
        for i, (ln, fmt) in enumerate(lines):
            f.write("%s%s EndDate=%s resultfolder=R/s%d\n" % (ln, extra, ("1231%d" if fmt == "EN" else "3112%d") % endy, i))
    rc, cases, orc, other, err = run_harness(ctx, "trace", ["-work", ex, "-lines", lf, "-seed", str(ctx.seed), "-water-every", "1000000000",
                                                            "-first-line", "100"])
    ctx.extra["configuration_sweep_runs"] = len([c for c in cases if c["k"] == "run"])
    return rc, cases, orc, err


def run_trace(ctx, water_every=None):
    """traced runs of shipped projects (scratch copy) -> (rc, cases, oracle lines, stderr)"""
    import os
    ex = prepare_examples(ctx)
    nl, endy = (18, 1995) if ctx.thorough else (15, 1982)
    lf = os.path.join(ctx.work, "trace_lines.txt")
    with open(lf, "w") as f:
        f.write("\n".join(trace_lines(ctx, nl, endy)) + "\n")
    we = water_every or (12 if ctx.thorough else 8)
    rc, cases, orc, other, err = run_harness(ctx, "trace", ["-work", ex, "-lines", lf, "-seed", str(ctx.seed), "-water-every", str(we)])
    src, scases, sorc, serr = run_sweep(ctx)
    return rc or src, cases + scases, orc + sorc, err + serr
