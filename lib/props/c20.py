"""C20 — groundwater level follows the supplied series (DESIGN.md §6 C20)."""
import os, re
from core import Corr, Fail
from props import waterlib
from props.waterlib import fl, fls

PROP_FILES = ["Prop_C20"]
RULE = ("generated series (1-12 records, gaps 1-400 days, integer / one-decimal / arbitrary levels; strictly ascending, with "
        "duplicate dates, unsorted, with zero/negative dates, empty) x queries (on a date, inside the span, before, after, 0) "
        "on hermes.GetGroundWaterLevel; per-day GRW of traced runs of ex3 (gwTimeSeries) and zuc/rue (polygon-file sinusoid, "
        "levels set in the scratch copy); a series case is non-trivial when distinct and some query interpolates")
TRUSTED = ["binary64 semantics of Go on amd64 = Coq primitive floats",
           "math.Sin is an oracle: the theorem uses only |s| <= 1 (checked on every traced day); the harness evaluates it at "
           "the argument the model computes (argument bits compared)",
           "R->F gap: the interpolant lies in the neighbour interval in exact arithmetic; at binary64 checked to 1e-12*(1+scale)"]
ASSUMPTIONS = ["series dates strictly ascending and > 0 for the interval/nearest theorems (date 0 is the code's 'not found' marker); "
               "with duplicate dates the last record wins (proved), unsorted series are only covered by the correspondence",
               "ReadGroundWaterTimeSeries (CSV parsing, date conversion) is not modelled: the series enters as read"]
LEVEL_TEXT = ("Coq proof about the executable model of GetGroundWaterLevel (map lookup + the search loop + float interpolation "
              "formula): exact hit, linear interpolant between neighbours and its interval bound over the reals, nearest value "
              "outside the span, error exactly for the empty series, sinusoid inside [min, max] of the two polygon-file levels, "
              "and the day loop's use of it; the same definition runs on binary64 and is compared bit for bit with the exported "
              "Go function on generated series and with the daily GRW of traced runs; the property itself is evaluated on the "
              "real function by an independent reference.")
LEVEL_NOTE = ("Trusted: Coq kernel/vm_compute, Reals axioms of the standard library, primitive floats; sin enters as an oracle "
              "value; CSV reading is outside the model.")
TECHNIQUE = "Coq proof (induction over the series, lia; nra for the interpolation bound) + bit-exact correspondence + reference oracle"

HDR = ["From Coq Require Import ZArith List Bool Floats.", "From Hermes Require Import Num GwModel C01Corr C20Corr.",
       "Import ListNotations.", "Open Scope float_scope."]

TRACE = [
    ("project=ex3 WeatherFolder=historical soilId=075 fcode=109_120 plotNr=10001 Altitude=73 Latitude=52.6732 poligonID=29872", "EN"),
    ("project=zuc WeatherFolder=historical fcode=109_120 plotNr=10001 soilId=001 Altitude=73 Latitude=52.6732 poligonID=29872 ETpot=4", "DE"),
    ("project=rue WeatherFolder=historical fcode=109_121 plotNr=10002 soilId=001 Altitude=46 Latitude=52.6431 poligonID=30169", "DE"),
    ("project=ex3 WeatherFolder=historical soilId=075 fcode=109_121 plotNr=10002 Altitude=46 Latitude=52.6431 poligonID=30169 ETpot=4", "EN"),
    ("project=zuc WeatherFolder=historical fcode=109_121 plotNr=10002 soilId=001 Altitude=46 Latitude=52.6431 poligonID=30169", "DE"),
    ("project=rue WeatherFolder=historical fcode=109_120 plotNr=10001 soilId=001 Altitude=73 Latitude=52.6732 poligonID=29872 ETpot=2", "DE"),
]


def z(n):
    return "(%d)%%Z" % n


def parse_M(o):
    """(ok, pairs): anything other than `M = []` or a list of (nat, nat) pairs is not ok"""
    m = re.search(r"M\s*=\s*(.*?)\s*:\s*list \(nat \* nat\)", o, re.S)
    if not m:
        return False, []
    body = m.group(1).strip()
    if body == "[]":
        return True, []
    pairs = re.findall(r"\(\s*(\d+)(?:%nat)?\s*,\s*(\d+)(?:%nat)?\s*\)", body)
    return bool(pairs), [(int(a), int(b)) for a, b in pairs]


def series_record(c):
    s = "[" + "; ".join("(%s, %s)" % (z(d), fl(v)) for d, v in zip(c["dates"], c["vals"])) + "]"
    errs = c.get("err") or [False] * len(c["q"])
    qs = "[" + "; ".join("(%s, (%s, %s))" % (z(q), "true" if e else "false", fl(l)) for q, e, l in zip(c["q"], errs, c["level"])) + "]"
    return "(%s, %s)" % (s, qs)


def gen_series(rnd, kind):
    """one generated groundwater series for project ex3 (dates mmddyyyy; the run starts on the harvest date
    09311980 of the crop file = ERNTE[0]); the last segment is never flat"""
    import datetime
    D = datetime.date

    def lv():
        return round(rnd.uniform(6, 25), 1)

    def walk(start, stop, lo_gap, hi_gap, nmax):
        out, d = [], start
        while d <= stop and len(out) < nmax:
            out.append(d)
            d += datetime.timedelta(days=rnd.randint(lo_gap, hi_gap))
        return out
    if kind == "ends-mid-run":
        ds = [D(1980, 9, 15)] + walk(D(1980, 10, 10), D(1981, rnd.randint(1, 8), rnd.randint(1, 28)), 5, 90, 8)
    elif kind == "before-start":
        ds = walk(D(1980, 1, rnd.randint(1, 28)), D(1980, 9, 20), 20, 90, 6)
    elif kind == "last-on-start":
        ds = walk(D(1980, 2, rnd.randint(1, 28)), D(1980, 9, 1), 30, 100, 4)
    elif kind == "covers-run":
        ds = walk(D(1980, 8, 1), D(1982, 3, 1), 20, 120, 14)
        ds.append(D(1982, 4, rnd.randint(1, 28)))
    elif kind == "starts-late":
        ds = walk(D(1981, rnd.randint(1, 4), rnd.randint(1, 28)), D(1981, 10, 30), 15, 80, 5)
    elif kind == "shallow":
        ds = walk(D(1980, 9, rnd.randint(1, 20)), D(1981, 11, 30), 15, 50, 14)
    elif kind in ("plateau", "duplicate-dates"):
        ds = walk(D(1980, rnd.randint(6, 9), rnd.randint(1, 28)), D(1981, 11, 30), 8, 60, 16)
    else:  # single
        ds = [D(1981, rnd.randint(1, 12), rnd.randint(1, 28))]
    recs = [(d.strftime("%m%d%Y"), lv()) for d in ds]
    if kind == "shallow":
        # the water table inside the top decimetre: levels in [0, 1) dm, reached and left by interpolation
        for i in range(len(recs)):
            recs[i] = (recs[i][0], rnd.choice([0.5, 0.25, 0.0, 0.9, 0.99, round(rnd.uniform(0, 1), 2), round(rnd.uniform(1, 3), 1), round(rnd.uniform(2, 12), 1)]))
        recs[1] = (recs[1][0], 0.5); recs[2] = (recs[2][0], 0.25); recs[3] = (recs[3][0], 4.0); recs[4] = (recs[4][0], 0.0)
    if kind == "plateau":
        # the level is held over 2..5 consecutive readings, then changes (logger files)
        i = 0
        while i < len(recs):
            hold = rnd.randint(2, 5)
            v = lv()
            while i > 0 and abs(v - recs[i - 1][1]) < 0.5:
                v = lv()
            for j in range(i, min(i + hold, len(recs))):
                recs[j] = (recs[j][0], v)
            i += hold
        if len(recs) > 2 and recs[-1][1] == recs[-2][1]:
            recs.append((D(1981, 12, 20).strftime("%m%d%Y"), lv()))
    if kind == "duplicate-dates":
        for _ in range(3):
            i = rnd.randrange(1, len(recs))
            recs.insert(i, (recs[i - 1][0], lv()))
    if kind == "last-on-start":
        recs.append(("09311980", lv()))
    while len(recs) > 1 and abs(recs[-1][1] - recs[-2][1]) < 0.5:
        recs[-1] = (recs[-1][0], lv())
    return recs


SERIES_KINDS = ["plateau", "plateau", "shallow", "ends-mid-run", "before-start", "last-on-start", "covers-run", "starts-late", "single", "duplicate-dates"]
BOUNDARY_PHASES = [0, 1, 79, 80, 81, 200, 359, 360, 361, -1, -360, 720]


import shutil


def prepare(ctx):
    """scratch copy of the examples: the polygon files of zuc/rue get two different levels (shipped: 99 99 = flat),
    their config.yml a phase outside 0..364; generated series (own ids) are appended to ex3's groundwater file.
    returns (examples dir, plan) — plan = batch lines with harness metadata"""
    ex = waterlib.prepare_examples(ctx, extreme_rain=False)
    mark = os.path.join(ex, ".c20.json")
    import json, random
    if os.path.exists(mark):
        return ex, json.load(open(mark))
    rnd = random.Random(ctx.seed)
    poly = {("ex3", "10001"): (10, 30), ("ex3", "10002"): (10, 30)}      # shipped poly_ex3.txt
    for proj in ("zuc", "rue"):
        p = os.path.join(ex, "project", proj, "poly_%s.txt" % proj)
        out = []
        for ln in open(p).read().split("\n"):
            t = ln.split()
            if len(t) >= 6 and t[0].isdigit():
                hi_, lo_ = rnd.sample(range(6, 19), 2)        # GH, GL in dm, either order
                if proj == "zuc" and t[0] == "10002":
                    lo_ = hi_                                  # GH == GL: no oscillation
                ln = re.sub(r"^(\S+\s+\S+\s+\S+\s+)\S+(\s+)\S+", lambda m: "%s%d%s%d" % (m.group(1), hi_, m.group(2), lo_), ln)
                poly[(proj, t[0])] = (hi_, lo_)
            out.append(ln)
        open(p, "w").write("\n".join(out))
    # project ex3n = ex3 with the rotation starting in 1981 (the 1980 entries removed): a run that starts in a non-leap year
    src, dst = os.path.join(ex, "project", "ex3"), os.path.join(ex, "project", "ex3n")
    if not os.path.isdir(dst):
        shutil.copytree(src, dst)
        for fn in os.listdir(dst):
            if "_ex3" in fn:
                os.rename(os.path.join(dst, fn), os.path.join(dst, fn.replace("_ex3", "_ex3n")))
        cf = os.path.join(dst, "crop_ex3n.txt")
        rows = open(cf).read().split("\n")
        open(cf, "w").write("\n".join(r for r in rows if not re.search(r"\s\d{4}1980\s+\d{4}1980\s", r)))
    poly[("ex3n", "10001")] = poly[("ex3n", "10002")] = (10, 30)
    # a series for project zuc (GroundWaterFrom=2 on the batch line; dates ddmmyyyy)
    with open(os.path.join(ex, "project", "zuc", "gw_zuc.csv"), "w") as f:
        f.write("SID,DATE,Level\n001,01081980,%.1f\n001,15101980,%.1f\n001,01031981,%.1f\n001,01091981,%.1f\n" % tuple(round(rnd.uniform(6, 20), 1) for _ in range(4)))
    # static levels of the soil files (GroundWaterFrom soilfile): csv column GroundWaterLevel of ex3's soil 075, txt columns [70:72] of ex1's soil 075
    soil_level = {}
    for ln in open(os.path.join(ex, "project", "ex3", "soil_ex3.csv")).read().split("\n"):
        if ln.startswith("075,") and "ex3" not in soil_level:
            soil_level["ex3"] = float(ln.split(",")[-1])
    for ln in open(os.path.join(ex, "project", "ex1", "soil_ex1.txt")).read().split("\n"):
        if ln.startswith("075 ") and "ex1" not in soil_level:
            soil_level["ex1"] = float(ln[70:72])
    # configured phases: the sinusoid's period is 360 and the phase is any integer
    conf = {"zuc": rnd.randint(-400, -1), "rue": rnd.randint(365, 800)}
    nrep = 6 if ctx.thorough else 1
    series, rows = [], []
    for rep in range(nrep):
        for kind in SERIES_KINDS:
            k = len(series)
            sid = "P1" if k == 0 else "P10" if k == 1 else "G%02d" % k      # "P1" is a prefix of "P10": the reader must not mix them
            recs = gen_series(rnd, kind)
            series.append({"id": sid, "kind": kind, "records": recs})
            rows.append([(sid, d, v) for d, v in recs])
    # series whose ids are SOIL ids of soil_ex3.csv other than the polygon file's SID (075): the series of a run is that of
    # gwId if given, else of the soilId given on the batch line (input.go:62-69)
    for sid in ("002", "041"):
        recs = gen_series(rnd, "covers-run")
        series.append({"id": sid, "kind": "soil-id", "records": recs})
        rows.append([(sid, d, v) for d, v in recs])
    # the rows of the ids interleaved in the file (each id's own order kept)
    with open(os.path.join(ex, "project", "ex3", "gw_ex3.csv"), "a") as f:
        f.write("\n")
        live = [r for r in rows if r]
        while live:
            r_ = rnd.choice(live)
            f.write("%s,%s,%s\n" % r_.pop(0))
            live = [r for r in live if r]
    endy = 2005 if ctx.thorough else 1983
    lines = []
    by_kind_early = {sr["kind"]: sr["id"] for sr in series}

    def add(base, fmt, extra, end_year, what):
        end = ("1231%d" if fmt == "EN" else "3112%d") % end_year
        mode = "" if "@gw=" in extra else "@gw=series" if "project=ex3 " in base else "@gw=polygon"       # GroundWaterFrom of the project's config.yml
        pj, plot = re.search(r"project=(\S+)", base).group(1), re.search(r"plotNr=(\S+)", base + " " + extra).group(1)
        if "@gw=polygon" in mode + extra and (pj, plot) in poly:
            mode += " @poly=%d,%d" % poly[(pj, plot)]
        lines.append({"line": "%s %s EndDate=%s resultfolder=R/c20_%d %s" % (base, extra, end, len(lines), mode), "what": what})
    ex3, zuc, rue = TRACE[0][0], TRACE[1][0], TRACE[2][0]
    add(ex3, "EN", "", endy, {"series": "shipped"})
    for sr in series:
        if sr["kind"] == "soil-id":
            continue
        add(ex3, "EN", "gwId=%s" % sr["id"], 1981, {"series": sr["kind"], "id": sr["id"], "records": sr["records"]})
    # soilId on the line differs from the polygon file's SID: without gwId the series of the LINE's soil id, with gwId that one
    for sid, gid in (("002", None), ("041", None), ("002", by_kind_early["covers-run"]), ("041", "002")):
        add(ex3.replace("soilId=075", "soilId=%s" % sid), "EN", "gwId=%s" % gid if gid else "", 1981,
            {"series": "soilId-differs-from-polygon-SID", "id": gid or sid, "soilId": sid, "gwId": gid})
    # run PAIRS in one session (batch mode; the pattern of examples/ex3_muencheberg_batch.txt): same soilId, different
    # gwId / with and without gwId, in both orders; each run must follow the file's series of ITS OWN id
    by_kind = {sr["kind"]: sr["id"] for sr in series}
    pairs = [(by_kind["ends-mid-run"], by_kind["covers-run"]), (by_kind["covers-run"], by_kind["ends-mid-run"]),
             (None, by_kind["plateau"]), (by_kind["plateau"], None), (by_kind["single"], by_kind["starts-late"])]
    for k, pr in enumerate(pairs if ctx.thorough else pairs[:4]):
        for j, gid in enumerate(pr):
            add(ex3, "EN", ("gwId=%s " % gid if gid else "") + "@session=%d" % k, 1981,
                {"series": "pair-in-one-session", "id": gid or "075", "position": j + 1, "with": pr[1 - j] or "075 (no gwId)"})
    # configuration sweep: ONE key away from the project's configuration per run
    ex1 = "project=ex1 WeatherFolder=historical soilId=075 fcode=109_120 plotNr=10001 Altitude=73 Latitude=52.6732 poligonID=29872"
    zuc2 = zuc.replace("plotNr=10001", "plotNr=10002")
    sweep = [(ex3, "EN", "GroundWaterFrom=0 @gw=polygon @phase=80", "GroundWaterFrom=0 (polygonfile) on the batch line, csv soil"),
             (ex3, "EN", "GroundWaterFrom=1 @gw=soil:%s" % soil_level["ex3"], "GroundWaterFrom=1 (soilfile) on the batch line, csv soil GW column"),
             (ex1, "EN", "@gw=soil:%s" % soil_level["ex1"], "soilfile source, txt soil GW column"),
             (ex1, "EN", "GroundWaterPhase=0 @gw=soil:%s" % soil_level["ex1"], "phase given although the source is the soil file"),
             (zuc, "DE", "GroundWaterFrom=2 @gw=series", "GroundWaterFrom=2 (gwTimeSeries) on the batch line, txt soil, own gw_zuc.csv"),
             (zuc2, "DE", "@config-phase=80 @phase=80", "polygon file GH == GL"),
             (ex3, "EN", "gwId=NOPE @expect=error:not_found", "unknown gwId: run error"),
             (ex3, "EN", "fileExtension=txt", "fileExtension override (gw file stays gw_<project>.csv)"),
             (ex3, "EN", "GroundWaterPhase=200", "phase given although the source is the series"),
             (ex3, "EN", "PTF=2", "PTF=2 with a series"), (zuc, "DE", "AutoIrrigation=0 @config-phase=200 @phase=200", "AutoIrrigation=0, phase 200"),
             (zuc, "DE", "GroundWaterPhase=200 @config-phase=17 @phase=200", "phase 200 on the batch line")]
    for base, fmt, extra, why in sweep:
        add(base, fmt, extra, 1981, {"sweep": why, "series": "sweep" if "@gw=series" in extra or ("project=ex3" in base and "@gw=" not in extra) else None})
    # a sinusoid run that starts in a NON-leap year and passes 31 December of a later leap year (day 366 of a year that follows a
    # 365-day year: anything tabulated per year with the previous year's length is stale there; seeded C20-18)
    add(ex3.replace("project=ex3 ", "project=ex3n "), "EN", "GroundWaterFrom=0 StartYear=1981 @gw=polygon @phase=80", 1985,
        {"sweep": "polygon sinusoid from 1981 over 31.12.1984", "series": None})
    add(zuc, "DE", "@config-phase=%d @phase=%d" % (conf["zuc"], conf["zuc"]), endy, {"phase": conf["zuc"], "via": "config.yml"})
    add(rue, "DE", "@config-phase=%d @phase=%d" % (conf["rue"], conf["rue"]), endy, {"phase": conf["rue"], "via": "config.yml"})
    # the boundary phases, each from config.yml and from the command line (the config then holds another value)
    for k, ph in enumerate(BOUNDARY_PHASES):
        base = zuc if k % 2 == 0 else rue
        add(base, "DE", "@config-phase=%d @phase=%d" % (ph, ph), 1981, {"phase": ph, "via": "config.yml"})
        add(base, "DE", "GroundWaterPhase=%d @config-phase=%d @phase=%d" % (ph, 33 + k, ph), 1981, {"phase": ph, "via": "command line"})
    cmd = [rnd.randint(0, 364), rnd.randint(-400, -1), rnd.randint(365, 800), 365] + \
          [rnd.randint(-400, 800) for _ in range(12 if ctx.thorough else 1)]
    for k, ph in enumerate(cmd):
        base = zuc if k % 2 == 0 else rue
        add(base, "DE", "GroundWaterPhase=%d @config-phase=%d @phase=%d" % (ph, conf["zuc"], ph), 1982, {"phase": ph, "via": "command line"})
    if ctx.thorough:
        for ln, fmt in TRACE[3:]:
            pj = "zuc" if "project=zuc" in ln else "rue" if "project=rue" in ln else None
            add(ln, fmt, "@config-phase=%d @phase=%d" % (conf[pj], conf[pj]) if pj else "", endy,
                {"phase": conf[pj], "via": "config.yml"} if pj else {"series": "shipped"})
    json.dump(lines, open(mark, "w"))
    return ex, lines


def _run(ctx):
    ex, plan = prepare(ctx)
    lf = os.path.join(ctx.work, "c20_lines.txt")
    with open(lf, "w") as f:
        f.write("\n".join(p["line"] for p in plan) + "\n")
    ns, nq = (12000, 60) if ctx.thorough else (600, 40)
    res = waterlib.run_harness(ctx, "c20", ["-seed", str(ctx.seed), "-series", str(ns), "-queries", str(nq),
                                            "-work", ex, "-lines", lf], timeout=3000)
    return res + (plan,)


def _eval(ctx, corr, kind, ty, check, recs, meta, shard):
    fname = re.sub(r"\W", "", kind.split(" ")[0].replace("-", "_"))
    items = []
    for k in range(0, len(recs), shard):
        body = HDR + ["Definition cases : list (%s) := [\n%s\n]." % (ty, ";\n".join(recs[k:k + shard])),
                      "Definition M := Eval vm_compute in mismatches %s %d%%nat cases." % (check, k), "Print M."]
        items.append(("Cases_%s_%d" % (fname, k // shard), "\n".join(body) + "\n"))
    for nm, rc, o in ctx.coq_eval_many(items, timeout=900):
        ok, pairs = parse_M(o)
        if rc != 0 or not ok:
            corr.mismatches.append({"kind": "coq-eval", "shard": nm, "output": o[-1200:]})
            continue
        for idx, mask in pairs:
            corr.mismatches.append({"kind": kind, "case": idx, "differs": mask, "input": meta[idx]})
    corr.cases += len(recs)


def correspond(ctx):
    c = Corr()
    rc, rows, oracle_lines, other, err, plan = _run(ctx)
    if rc != 0:
        c.mismatches.append({"kind": "harness-crash", "stderr": err[-1500:]})
        return c
    ok, out = ctx.coq_make(["C20Corr"])      # the driver builds only Prop_C20 and what it imports
    if not ok:
        c.mismatches.append({"kind": "coq-build C20Corr", "output": out[-1500:]})
        return c
    runs = [x for x in rows if x["k"] == "run"]
    for r_ in runs:
        if r_.get("expect_error"):
            if r_["success"] or r_["expect_error"].replace("_", " ") not in r_["err"]:
                c.mismatches.append({"kind": "run-error-expected", "run": r_, "line": plan[r_["line"]]["line"]})
            continue
        if not r_["success"] or r_["days"] == 0:
            c.mismatches.append({"kind": "traced-run-failed", "run": r_, "line": plan[r_["line"]]["line"]})
        if r_.get("soil_level_mismatch_days") or r_.get("polygon_level_mismatch_days"):
            c.mismatches.append({"kind": "groundwater level is not the soil file's / polygon file's value", "run": r_, "line": plan[r_["line"]]["line"]})
        if r_.get("source_mismatch_days"):
            c.mismatches.append({"kind": "groundwater-source (the run does not use the configured GroundWaterFrom)", "run": r_,
                                 "line": plan[r_["line"]]["line"]})
    series = [x for x in rows if x["k"] == "gwseries"]
    for x in series:
        x["dates"], x["vals"] = x["dates"] or [], x["vals"] or []
    traces = [x for x in rows if x["k"] == "gwtrace"]
    # a traced series run: split the days into chunks so that shards stay small
    _eval(ctx, c, "gw-series (failing queries)", "list (Z * float) * list (Z * (bool * float))", "gw_check",
          [series_record(x) for x in series], [{"tag": x["tag"], "dates": x["dates"], "vals": x["vals"], "q": x["q"][:50]} for x in series], 60)
    # traced runs: the reader's arrays and every day's level against the ROWS OF THE FILE (all ids, file order)
    rd_recs, rd_meta, day_recs, day_meta = [], [], [], []
    for t in traces:
        if not t.get("row_ids"):
            c.mismatches.append({"kind": "groundwater-file-not-readable-by-the-reference", "line": plan[t["line"]]["line"]})
            continue
        idn = {}
        for i_ in t["row_ids"] + [t["id"]]:
            idn.setdefault(i_, len(idn) + 1)
        rws = "[" + "; ".join("(%s, %s, %s)" % (z(idn[i_]), z(d), fl(v)) for i_, d, v in zip(t["row_ids"], t["row_dates"], t["row_levels"])) + "]"
        what = plan[t["line"]]["what"]
        rd_recs.append("(%s, %s, %s, %s)" % (rws, z(idn[t["id"]]), "[" + "; ".join(z(d) for d in (t["stamps"] or [])) + "]", fls(t["stamp_vals"] or [])))
        rd_meta.append({"run": what, "id": t["id"], "rows_of_the_id_in_the_file": len(t["dates"]), "timestamps_read": len(t["stamps"] or [])})
        for k in range(0, len(t["q"]), 400):
            qs = "[" + "; ".join("(%s, (false, %s))" % (z(q), fl(l)) for q, l in zip(t["q"][k:k + 400], t["level"][k:k + 400])) + "]"
            day_recs.append("(%s, %s, %s)" % (rws, z(idn[t["id"]]), qs))
            day_meta.append({"run": what, "id": t["id"], "days": [t["q"][k], t["q"][min(k + 399, len(t["q"]) - 1)]]})
    _eval(ctx, c, "gw-reader (1 timestamps are not the file's rows of the id in order, 2 values)",
          "list (Z * Z * float) * Z * list Z * list float", "reader_check", rd_recs, rd_meta, 4)
    _eval(ctx, c, "gw-daily-level (days on which GRW is not the level of the file's series)",
          "list (Z * Z * float) * Z * list (Z * (bool * float))", "gw_file_check", day_recs, day_meta, 4)
    sins = [x for x in rows if x["k"] == "gwsin"]
    _eval(ctx, c, "gw-sinus (1 argument, 2 GRW, 4 phase used is not the configured one)",
          "float * Z * Z * float * float * float * float * float", "sin_check",
          ["(%s, %s, %s, %s, %s, %s, %s, %s)" % (fl(x["tag"]), z(x["phase"]), z(x["gphase"]), fl(x["gw"]), fl(x["ampl"]), fl(x["arg"]), fl(x["s"]), fl(x["grw"]))
           for x in sins], [dict(x, run=plan[x["line"]]["what"] if x["line"] >= 0 else "hermes.Init") for x in sins], 800)
    polys = [x for x in rows if x["k"] == "gwpoly"]
    _eval(ctx, c, "gw-mean-amplitude (1 GW, 2 AMPL)", "Z * Z * float * float", "poly_check",
          ["(%s, %s, %s, %s)" % (z(x["grlo"]), z(x["grhi"]), fl(x["gw"]), fl(x["ampl"])) for x in polys], polys, 800)
    seen = set()
    for x in series:
        c.bump("series=" + x["tag"])
        c.bump("records=%d" % len(x["dates"]))
        key = (tuple(x["dates"]), tuple(x["vals"]))
        ds = set(x["dates"])
        if key not in seen and any(q not in ds and x["dates"] and min(x["dates"]) < q < max(x["dates"]) for q in x["q"]):
            seen.add(key)
    for r_ in runs:
        c.bump("traced=" + r_["from"])
    c.nontrivial = len(seen) + len(sins)
    ctx.extra["synthetic_queries"] = sum(len(x["q"]) for x in series)
    ctx.extra["traced_runs"] = [dict({k: r_.get(k) for k in ("line", "from", "days", "min", "max")},
                                     what={k: v for k, v in plan[r_["line"]]["what"].items() if k != "records"}) for r_ in runs]
    cover = []
    for t in traces:
        last, first = max(t["dates"]), min(t["dates"])
        flat = len(t["vals"]) > 1 and t["vals"][-1] == t["vals"][-2]
        cover.append({"line": t["line"], "kind": plan[t["line"]]["what"].get("series"), "records": len(t["dates"]),
                      "days_before_first": sum(1 for q in t["q"] if q < first), "days_on_a_date": sum(1 for q in t["q"] if q in set(t["dates"])),
                      "days_from_last_date_on": sum(1 for q in t["q"] if q >= last),
                      "days_level_below_1": sum(1 for l_ in t["level"] if 0 <= float.fromhex(l_) < 1),
                      "plateau_rows": sum(1 for a_, b_ in zip(t["vals"], t["vals"][1:]) if a_ == b_),
                      "duplicate_dates": len(t["dates"]) - len(set(t["dates"])), "starts": "after-last" if t["q"][0] > last else
                      "on-last" if t["q"][0] == last else "before-last", "last_segment_flat": flat})
    ctx.extra["traced_series_coverage"] = cover
    ctx.extra["configuration_sweep"] = [{"what": plan[r_["line"]]["what"]["sweep"], "source_used": r_["from"], "days": r_["days"],
                                         "run_error": r_["err"][:80]} for r_ in runs if plan[r_["line"]]["what"].get("sweep")]
    # the daily comparison must not be vacuous about the end of the series (seeded change C20-3)
    need = {"passes the end of a non-flat series": any(x["days_from_last_date_on"] > 0 and x["starts"] == "before-last" and not x["last_segment_flat"] and x["records"] > 1 for x in cover),
            "starts after the last date": any(x["starts"] == "after-last" for x in cover),
            "starts on the last date": any(x["starts"] == "on-last" for x in cover),
            "phase < 0": any(x["phase"] < 0 for x in sins), "phase >= 365": any(x["phase"] >= 365 for x in sins),
            "a plateau (equal consecutive levels, then a change) inside a run": any(x["plateau_rows"] > 0 for x in cover),
            "duplicate dates": any(x["duplicate_dates"] > 0 for x in cover)}
    need["a single-record series"] = any(x["records"] == 1 for x in cover)
    need["days with the level inside [0, 1) dm"] = any(x.get("days_level_below_1", 0) > 20 for x in cover)
    need["soilId on the line differs from the polygon SID, with and without gwId"] = \
        {bool(plan[r_["line"]]["what"].get("gwId")) for r_ in runs if plan[r_["line"]]["what"].get("series") == "soilId-differs-from-polygon-SID" and r_["success"]} == {True, False}
    need["run pairs in one session"] = sum(1 for r_ in runs if r_.get("shared_session")) >= 8
    for ph in BOUNDARY_PHASES:
        for via in ("config.yml", "command line"):
            if not any(x["line"] >= 0 and x["phase"] == ph and plan[x["line"]]["what"].get("via") == via for x in sins):
                need["phase %d from %s" % (ph, via)] = False
        if not any(x["line"] < 0 and x["phase"] == ph for x in sins):
            need["phase %d in hermes.Init" % ph] = False
    for k, v in need.items():
        if not v:
            c.mismatches.append({"kind": "coverage-missing", "what": k})
    ctx.extra["traced_days_series"] = sum(len(t["q"]) for t in traces)
    ctx.extra["traced_days_sinusoid"] = sum(1 for x in sins if x["line"] >= 0)
    ctx.extra["init_cases_sinusoid"] = sum(1 for x in sins if x["line"] < 0)
    ctx.extra["init_cases_series"] = sum(1 for x in series if x["tag"] == "init")
    ctx.extra["polygon_levels"] = [{"grlo": p["grlo"], "grhi": p["grhi"]} for p in polys]
    c.samples = [{"tag": x["tag"], "dates": x["dates"][:6], "vals": x["vals"][:6], "q": x["q"][:6], "level": x["level"][:6]} for x in series[:2]]
    return c


def oracle(ctx, search):
    rc, rows, oracle_lines, other, err, plan = _run(ctx)
    fails = []
    if rc != 0:
        fails.append(Fail(key="harness-crash", what="groundwater harness aborted", stderr=err[-800:]))
    for l in oracle_lines:
        fails.append(Fail(key=l.split(" ")[0][:90], what=l[:700]))
    return fails
