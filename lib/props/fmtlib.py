"""shared by C13 and C18: scratch tree, abstract projects rendered in every supported encoding (date format,
rotation txt/csv, soil txt/csv, measurement txt/csv, weather layout 0/1/2, crop parameters classic/YAML),
whole runs with the real hermes2go binary and byte comparison of the result folders.

A run is one batch line; every line gets its own result folder.  Output configurations are sharpened
(every float column printed with %.17g) so that a difference in any printed state value shows in the bytes."""
import datetime, hashlib, os, re, shutil, subprocess, time
import yaml
from core import REPO

ONE = datetime.timedelta(days=1)
DATEFMTS = ("DateDEshort", "DateDElong", "DateENshort", "DateENlong")


# ------------------------------------------------------------------------------------------------
# scratch tree + binaries

class Env:
    pass


def setup(ctx, sharpen=True):
    """scratch copy of the shipped examples (ctx.work/ex) + the real binaries built from the working tree"""
    if getattr(ctx, "_fmtenv", None):
        return ctx._fmtenv
    e = Env()
    e.ex = os.path.join(ctx.work, "ex")
    if not os.path.isdir(e.ex):
        shutil.copytree(os.path.join(REPO, "examples"), e.ex)
    if sharpen:
        for p in os.listdir(os.path.join(e.ex, "project")):
            if os.path.isdir(os.path.join(e.ex, "project", p)):
                sharpen_project(os.path.join(e.ex, "project", p))
    e.bin = ctx.repo_bin("src/hermes2go", "hermes2go")
    e.conv = ctx.repo_bin("src/cropfileconverter", "cropfileconverter")
    e.runs = 0
    e.run_wall = 0.0
    ctx._fmtenv = e
    return e


# output variables that print a date in the project's format (matched without regard to case: the shipped crop output names
# its fertiliser dates NDat1, Ndat2, Ndat3)
DATE_COLUMNS = {"aktuell", "sowdate", "orgdat", "ndat1", "ndat2", "ndat3", "tdat", "harvestdate", "date"}


def sharpen_conf(path, drop_dates=False):
    d = yaml.safe_load(open(path, encoding="utf-8", errors="replace"))
    if not isinstance(d, dict) or "DataColumns" not in d:
        return
    cols = []
    for c in d["DataColumns"]:
        f = str(c.get("Format", ""))
        if re.fullmatch(r"%[-+0 #]*\d*(\.\d*)?[feg]", f):
            c["Format"] = "%.17g"; c["Width"] = 25
        if drop_dates and str(c.get("VariableName", "")).strip().lower() in DATE_COLUMNS:
            c["Format"] = "%.1s"; c["VariableName"] = "NA"       # keeps the column count, prints no date
        cols.append(c)
    d["DataColumns"] = cols
    with open(path, "w") as f:
        yaml.safe_dump(d, f, sort_keys=False)


def sharpen_project(pdir, drop_dates=False):
    for fn in os.listdir(pdir):
        if fn.endswith("out_conf.yml"):
            sharpen_conf(os.path.join(pdir, fn), drop_dates)


def clone_project(ex, src, dst):
    """copy project <src> to <dst>, renaming *_<src>.* files"""
    s, d = os.path.join(ex, "project", src), os.path.join(ex, "project", dst)
    shutil.rmtree(d, ignore_errors=True)
    os.makedirs(d)
    for fn in os.listdir(s):
        shutil.copy(os.path.join(s, fn), os.path.join(d, fn.replace("_%s." % src, "_%s." % dst)))
    return d


def set_config(pdir, **kv):
    """replace/add top-level scalar keys of config.yml textually (keeps everything else)"""
    p = os.path.join(pdir, "config.yml")
    txt = open(p, encoding="utf-8", errors="replace").read()
    for k, v in kv.items():
        line = "%s: %s" % (k, v)
        if re.search(r"(?m)^%s\s*:.*$" % re.escape(k), txt):
            txt = re.sub(r"(?m)^%s\s*:.*$" % re.escape(k), line.replace("\\", "\\\\"), txt)
        else:
            txt += "\n" + line + "\n"
    open(p, "w", encoding="utf-8").write(txt)


# ------------------------------------------------------------------------------------------------
# running batch lines with the real binary

class Run:
    def __init__(self):
        self.files = {}; self.err = None; self.line = ""; self.idx = -1


def _digest(path, datefree=False):
    """sha256 per result file; datefree: dates printed dd.mm.yy[yy] (the fertiliser prediction file prints them in the
    project's date format, not through the output configuration) are blanked first"""
    out = {}
    if os.path.isdir(path):
        for root, _, files in os.walk(path):
            for fn in files:
                p = os.path.join(root, fn)
                data = open(p, "rb").read()
                if datefree and fn.startswith("D"):
                    data = re.sub(rb" *\b\d\d\.\d\d\.\d\d(\d\d)?\b", b" DATE", data)
                out[os.path.relpath(p, path)] = hashlib.sha256(data).hexdigest()
    return out


def _batch(env, tag, name, items, conc, timeout):
    """one hermes2go process over items [(index, line)]; -> (died, {index: error}, stderr tail)"""
    bf = os.path.join(env.ex, "%s_%s.txt" % (tag, name))
    with open(bf, "w") as f:
        for i, l in items:
            f.write("%s resultfolder=%s/l%d\n" % (l, tag, i))
    try:
        p = subprocess.run([env.bin, "-module", "batch", "-concurrent", str(conc), "-batch", bf], cwd=env.ex,
                           stdout=subprocess.PIPE, stderr=subprocess.PIPE, text=True, errors="replace", timeout=timeout)
        rc, out, err = p.returncode, p.stdout, p.stderr
    except subprocess.TimeoutExpired:
        rc, out, err = -9, "", "timeout"
    errs = {}
    if "Error Summary:" in out:
        for m in re.finditer(r"(?m)^\[(\d+)\] Error:(.*)$", out.split("Error Summary:", 1)[1]):
            k = int(m.group(1))
            if k < len(items):
                errs[items[k][0]] = m.group(2).strip()
    died = rc != 0 or "Number of errors:" not in out
    return died, errs, "rc=%s: %s" % (rc, (err or out)[-300:].replace("\n", " | "))


def _sequential(env, tag, name, items, timeout):
    """items one after the other in one process; a line that ends the process (panic / Fatal) is identified,
    recorded as its error, and the rest goes on in a new process.  -> {index: error}"""
    errs = {}
    remaining = list(items)
    rnd = 0
    while remaining:
        rnd += 1
        died, e, tail = _batch(env, tag, "%s_r%d" % (name, rnd), remaining, 1, timeout)
        errs.update(e)
        if not died:
            break
        pos = 0
        for k, (i, _) in enumerate(remaining):
            if os.path.isdir(os.path.join(env.ex, tag, "l%d" % i)):
                pos = k
        i, l = remaining[pos]
        shutil.rmtree(os.path.join(env.ex, tag, "l%d" % i), ignore_errors=True)
        d1, e1, t1 = _batch(env, tag, "%s_r%d_one" % (name, rnd), [(i, l)], 1, timeout)
        errs.update(e1)
        if d1:
            errs[i] = "process died " + t1
        # the lines before the killer ran, but the process ended before it printed its error summary: run them again
        if pos > 0:
            for i0, _ in remaining[:pos]:
                shutil.rmtree(os.path.join(env.ex, tag, "l%d" % i0), ignore_errors=True)
            d2, e2, t2 = _batch(env, tag, "%s_r%d_pre" % (name, rnd), remaining[:pos], 1, timeout)
            errs.update(e2)
            if d2:
                for i0, _ in remaining[:pos]:
                    errs.setdefault(i0, "process died " + t2)
        remaining = remaining[pos + 1:]
    return errs


CHUNK = 300          # lines per process: bounds the scratch footprint (a sharpened result folder is ~2.5 MB)


def run_lines(env, tag, lines, conc=16, timeout=900):
    """runs the batch lines (each with its own result folder <tag>/l<i>); returns [Run] with the sha256 of every result
    file.  The lines are processed in chunks; a chunk's result folders are digested and DELETED before the next chunk
    starts (first_diff re-runs the two lines it is asked about).  When a line ends the whole process, its chunk is run
    again in `conc` sequential workers that isolate such lines."""
    root = os.path.join(env.ex, tag)
    shutil.rmtree(root, ignore_errors=True)
    if not hasattr(env, "lines_of"):
        env.lines_of = {}
    env.lines_of[tag] = list(lines)
    items = list(enumerate(lines))
    runs = []
    t0 = time.time()
    for c0 in range(0, len(items), CHUNK):
        chunk = items[c0:c0 + CHUNK]
        died, errs, tail = _batch(env, tag, "batch", chunk, conc, timeout)
        if died and len(chunk) > 1:
            shutil.rmtree(root, ignore_errors=True)
            from concurrent.futures import ThreadPoolExecutor
            parts = [chunk[k::conc] for k in range(conc)]
            with ThreadPoolExecutor(max_workers=conc) as ex:
                res = list(ex.map(lambda kp: _sequential(env, tag, "w%d" % kp[0], kp[1], timeout), [(k, p_) for k, p_ in enumerate(parts) if p_]))
            errs = {}
            for e in res:
                errs.update(e)
        elif died:
            errs[chunk[0][0]] = "process died " + tail
        for i, l in chunk:
            r = Run(); r.idx = i; r.line = l
            r.files = _digest(os.path.join(root, "l%d" % i), datefree=i in getattr(env, "datefree", ()))
            if i in errs:
                r.err = errs[i]
            elif not r.files:
                r.err = "no result files"
            runs.append(r)
        shutil.rmtree(root, ignore_errors=True)
        for fn in os.listdir(env.ex):
            if fn.startswith(tag + "_") and fn.endswith(".txt"):
                os.remove(os.path.join(env.ex, fn))
    env.run_wall += time.time() - t0
    env.runs += len(lines)
    return runs


def same(a, b):
    """byte identity of two runs' result folders (both must have succeeded)"""
    return a.err is None and b.err is None and a.files == b.files and bool(a.files)


def diff_what(a, b):
    if a.err or b.err:
        return "run error: %r vs %r" % (a.err, b.err)
    d = sorted(k for k in set(a.files) | set(b.files) if a.files.get(k) != b.files.get(k))
    return "result files differ: %s" % ",".join(x[0] for x in d)


def first_diff(env, tag, i, j):
    """first differing line of the result files of lines i and j of a run_lines call (the two lines are run again:
    result folders are not kept)"""
    import glob
    ls = getattr(env, "lines_of", {}).get(tag)
    if not ls:
        return ""
    ftag = tag + "fd"
    root = os.path.join(env.ex, ftag)
    shutil.rmtree(root, ignore_errors=True)
    _batch(env, ftag, "batch", [(0, ls[i]), (1, ls[j])], 2, 600)
    out = ""
    for fa in sorted(glob.glob(os.path.join(root, "l0", "*"))):
        fb = os.path.join(root, "l1", os.path.basename(fa))
        if not os.path.exists(fb):
            out = "%s missing" % os.path.basename(fa); break
        la, lb = open(fa, errors="replace").read().split("\n"), open(fb, errors="replace").read().split("\n")
        for n, (x, y) in enumerate(zip(la, lb)):
            if x != y:
                tx, ty = x.split(), y.split()
                col = next((k for k, (u, v) in enumerate(zip(tx, ty)) if u != v), -1)
                out = "%s line %d (first column %s) col %d: %s | %s" % (os.path.basename(fa), n + 1, (tx[:1] or [""])[0], col,
                                                                        " ".join(tx[max(col, 0):col + 2])[:60], " ".join(ty[max(col, 0):col + 2])[:60])
                break
        if out:
            break
        if len(la) != len(lb):
            out = "%s: %d vs %d lines" % (os.path.basename(fa), len(la), len(lb)); break
    shutil.rmtree(root, ignore_errors=True)
    return out


# ------------------------------------------------------------------------------------------------
# dates

def fmt_date(d, fmt, sep=""):
    dd, mm, yy, yyyy = "%02d" % d.day, "%02d" % d.month, "%02d" % (d.year % 100), "%04d" % d.year
    if fmt == "DateDEshort":
        return sep.join((dd, mm, yy))
    if fmt == "DateDElong":
        return sep.join((dd, mm, yyyy))
    if fmt == "DateENshort":
        return sep.join((mm, dd, yy))
    return sep.join((mm, dd, yyyy))


def fmt_daymonth(month, day, fmt):
    return ("%02d%02d" % (day, month)) if fmt.startswith("DateDE") else ("%02d%02d" % (month, day))


# ------------------------------------------------------------------------------------------------
# abstract project (ex1-like) and its renderings

class Proj:
    """abstract content of a project; every number is a decimal STRING (what is written is what is read)"""
    def __init__(self):
        self.field = "FLD1"
        self.plot = "10001"
        self.sid = "001"
        self.start_year = 1980
        self.end = datetime.date(1983, 12, 31)
        self.annual = (10, 31)
        self.rot = []       # (crop, sow|None, harvest, rex, yld, autorg, variety)
        self.fert = []      # (N, type, date)
        self.til = []       # (depth, type, date)
        self.irr = []       # (mm, conc, date)
        self.endit = None   # (date, nm03, nm36, nm69, M, w03, w36, w69, nm912, nm1215, nm1520, w912, w1215, w1520)
        self.soil = []      # horizons: dict corg tex depth ld stone cn fc wp ps sand silt clay ; profile keys below
        self.rootdepth = "05"; self.draindepth = "20"; self.drainpct = "00"; self.gw = "99"
        self.cfg = {}


def rotation_rows(P, fmt, sep=""):
    """[(field, crop, sow, harvest, rex, yld, autorg|None, variety, comment)] texts of the abstract rotation"""
    rows = []
    for r in P.rot:
        crp, sow, har, rex, yld, org, var = r[:7]
        cmt = r[7] if len(r) > 7 else ""
        s = fmt_date(sow, fmt, sep) if sow else "-" * len(fmt_date(har, fmt, sep))
        rows.append((P.field, crp, s, fmt_date(har, fmt, sep), rex, yld, org, var, cmt))
    return rows


def render_rotation(P, fmt, kind, sep=""):
    """exactly RotaReaderModel.render_rot_txt / render_rot_csv: text = the non-empty tokens each followed by one blank
    (a row ends after yld, after autorg, or after the variety and then an optional comment); CSV = six cells, or all nine
    when autorg is given (variety / comment possibly empty)"""
    out = []
    for (fld, crp, s, h, rex, yld, org, var, cmt) in rotation_rows(P, fmt, sep):
        if kind == "csv":
            cells = [fld, crp, s, h, rex, yld] + ([org, var, cmt] if org is not None else [])
            out.append(",".join(cells))
        else:
            toks = [fld, crp, s, h, rex, yld]
            if org is not None:
                toks.append(org)
                if var:
                    toks.append(var)
                    if cmt:
                        toks.append(cmt)
            out.append("".join(t + " " for t in toks))
    hdr = "Field_ID,crp,sowing,harvst,Rex,yld,autorg,variety,comment" if kind == "csv" else "Field_ID crp sowing harvst Rex yld autorg variety comment"
    return "\n".join([hdr] + out + ["end"]) + "\n"


def render_events(P, fmt, sep=""):
    fert = ["Field_ID  N   Frt date"] + ["%-9s %s %-3s %s" % (P.field, n, t, fmt_date(d, fmt, sep)) for n, t, d in P.fert] + ["end"]
    til = ["Field_ID  Ti Typ date", "          cm"] + ["%-9s %2s %s   %s" % (P.field, dp, t, fmt_date(d, fmt, sep)) for dp, t, d in P.til] + ["end"]
    irr = ["Field_ID  Ir N03 date", "          mm mg/l "] + ["%-9s %s  %s %s" % (P.field, mm, c, fmt_date(d, fmt, sep)) for mm, c, d in P.irr] + ["end"]
    return "\n".join(fert) + "\n", "\n".join(til) + "\n", "\n".join(irr) + "\n"


def endit_rows(P, fmt, sep="", ident="ALLE"):
    """[tokens] of the measurement rows: id date Nm03 Nm36 Nm69 M W03 W36 W69 [NM9-12 NM12-15 NM15-20 W9-12 W12-15 W15-20];
    P.endit = one row tuple (date, values...) or a list of (ident, tuple)"""
    rows = P.endit if isinstance(P.endit, list) else [(ident, P.endit)]
    return [[i_, fmt_date(e[0], fmt, sep)] + list(e[1:]) for i_, e in rows]


def render_endit(P, fmt, kind, sep="", ident="ALLE"):
    """exactly MeasModel.render_meas_txt / render_meas_csv"""
    rows = endit_rows(P, fmt, sep, ident)
    if kind == "csv":
        return "\n".join(["Plot_ID,Date,Nm03,Nm36,Nm69,M,W0_3,W3_6,W6_9,NM9-12,NM12-15,NM15-20,W9-12,W12-15,W15-20"] +
                         [",".join(t + [""] * (15 - len(t))) for t in rows]) + "\n"
    return "\n".join(["Plot_ID Date Nm03 Nm36 Nm69 M W0_3 W3_6 W6_9 NM9-12 NM12-15 NM15-20 W9-12 W12-15 W15-20"] +
                     ["".join(x + " " for x in t) for t in rows]) + "\n"


def render_soil(P, kind):
    """fixed-width: SID[0:3] Corg[4:8] Te[9:12] lb[13:15] B[16] St[18:20] C/N[21:24] Rd[32:34] NuHo[35:37] FC[40:42]
    WP[43:45] PS[46:48] S[49:51] SI[52:54] C[55:57] DraiT[62:64] Drai%[67:70] GW[70:72]"""
    n = len(P.soil)
    if kind == "csv":
        out = ["SID,C_org,Texture,LayerDepth,BulkDensityClass,BulkDensity,Stone,C/N,C/S,RootDepth,NumberHorizon,FieldCapacity,"
               "WiltingPoint,PoreVolume,Sand,Silt,Clay,DrainageDepth,Drainage%,GroundWaterLevel"]
        for i, h in enumerate(P.soil):
            first = i == 0
            out.append(",".join([P.sid, h["corg"], h["tex"].strip(), h["depth"], h["ld"], "", h["stone"], h["cn"], "00",
                                 P.rootdepth if first else "", "%02d" % n if first else "", h["fc"], h["wp"], h["ps"],
                                 h["sand"], h["silt"], h["clay"], P.draindepth, P.drainpct, P.gw if first else "   "]))
        return "\n".join(out) + "\n"
    out = ["SID Corg Te  lb B St C/N C/S Hy Rd NuHo  FC WP PS S% SI% C% lamda DraiT  Drai% GW LBG"]
    for i, h in enumerate(P.soil):
        first = i == 0
        line = [" "] * 75
        def put(a, s):
            line[a:a + len(s)] = list(s)
        put(0, P.sid); put(4, "%4s" % h["corg"]); put(9, "%-3s" % h["tex"]); put(13, "%2s" % h["depth"]); put(16, h["ld"])
        put(18, "%2s" % h["stone"]); put(21, "%-3s" % h["cn"]); put(29, "00")
        if first:
            put(32, "%2s" % P.rootdepth); put(35, "%02d" % n)
        put(40, "%2s" % h["fc"]); put(43, "%2s" % h["wp"]); put(46, "%2s" % h["ps"]); put(49, "%2s" % h["sand"])
        put(52, "%2s" % h["silt"]); put(55, "%2s" % h["clay"]); put(58, "00"); put(62, "%2s" % P.draindepth)
        put(67, "%-3s" % P.drainpct)
        if first:
            put(70, "%2s" % P.gw); put(73, "01")
        out.append("".join(line))
    return "\n".join(out) + "\n"


def parse_soil_txt(path, sid):
    """abstract horizons of one profile of a shipped fixed-width soil file (python slicing = trusted renderer input)"""
    hs, first = [], None
    for ln in open(path, encoding="utf-8", errors="replace").read().split("\n")[1:]:
        if len(ln) >= 57 and ln[0:3] == sid:
            hs.append({"corg": ln[4:8].strip(), "tex": ln[9:12], "depth": ln[13:15].strip(), "ld": ln[16:17], "stone": ln[18:20].strip(),
                       "cn": ln[21:24].strip(), "fc": ln[40:42].strip(), "wp": ln[43:45].strip(), "ps": ln[46:48].strip(),
                       "sand": ln[49:51].strip(), "silt": ln[52:54].strip(), "clay": ln[55:57].strip()})
            if first is None:
                first = ln
    return hs, first


def year_ext(y):
    j = y - 1900
    s = str(j)
    return "0" + s[1:3] if j >= 100 else "9" + s


def render_weather(root, folder, layout, fcode, series, none="-99.9", heights=None, et0=False):
    """series: [(date, dict tavg tmin tmax prec rad wind rh)] of decimal strings; returns the config keys.
    heights = (station height, wind height): a third header line (layouts 0 and 1 only)"""
    wdir = os.path.join(root, "weather", folder)
    os.makedirs(wdir, exist_ok=True)
    nh = 3 if heights else 2
    if layout == 0:
        by = {}
        for d, r in series:
            by.setdefault(d.year, []).append((d, r))
        for y, recs in by.items():
            with open(os.path.join(wdir, "MET_%s.%s" % (fcode, year_ext(y))), "w") as f:
                f.write("tavg;tmin;tmax;ET0;relhumid;vapp14;wind;sundu;globrad;precip;jday\nC;C;C;mm;%;mm_Hg;m/s;hours;MJ m-2;mm;\n")
                if heights:
                    f.write("%s;%s;-----;-----;-----;-----;-----;-----;------;-- -;-\n" % heights)
                for d, r in recs:
                    f.write(";".join([r["tavg"], r["tmin"], r["tmax"], ("%.1f" % (0.3 + 2.2 * (1 - abs(d.timetuple().tm_yday - 183) / 183.0))) if et0 else none,
                                      r["rh"], none, r["wind"], r.get("sund", none), r["rad"], r["prec"],
                                      str(d.timetuple().tm_yday)]) + "\n")
        return {"WeatherFile": "'MET_%s.'", "WeatherFileFormat": 0, "WeatherNumHeader": nh, "WeatherFolder": folder, "WeatherNoneValue": none}
    if layout == 1:
        with open(os.path.join(wdir, "%s.csv" % fcode), "w") as f:
            sun = any("sund" in r for _, r in series)      # optional sunshine column (hours); absent values = the none value
            f.write("iso-date,tmin,tavg,tmax,precip,globrad,wind,relhumid%s\n-,C,C,C,mm,MJ m-2,m s-1,%%%s\n" % ((",sunhours", ",h") if sun else ("", "")))
            if heights:
                f.write("%s,%s,-\n" % heights)
            for d, r in series:
                f.write(",".join([d.isoformat(), r["tmin"], r["tavg"], r["tmax"], r["prec"], r["rad"], r["wind"], r["rh"]]
                                 + ([r.get("sund", none)] if sun else [])) + "\n")
        return {"WeatherFile": "'%s.csv'", "WeatherFileFormat": 1, "WeatherNumHeader": nh, "WeatherFolder": folder, "WeatherNoneValue": none}
    with open(os.path.join(wdir, "%s.w6d" % fcode), "w") as f:
        f.write("@YYYYJJJ   TMIN    TMAX     RAD    PREC    WIND      RH\n")
        for d, r in series:
            f.write(" %04d%03d %7s %7s %7s %7s %7s %7s\n" % (d.year, d.timetuple().tm_yday, r["tmin"], r["tmax"], r["rad"], r["prec"], r["wind"], r["rh"]))
    return {"WeatherFile": "'%s.w6d'", "WeatherFileFormat": 2, "WeatherNumHeader": 1, "WeatherFolder": folder, "WeatherNoneValue": none}


def read_weather_csv(path, y0, y1):
    """shipped multi-year csv -> series of decimal strings; tavg := the binary64 (tmin+tmax)/2 printed exactly (repr)"""
    lines = open(path, encoding="utf-8", errors="replace").read().split("\n")
    h = lines[0].split(",")
    ix = {k: h.index(k) for k in ("iso-date", "tmin", "tmax", "precip", "globrad", "wind", "relhumid")}
    out = []
    for ln in lines[2:]:
        t = ln.split(",")
        if len(t) < len(h):
            continue
        d = datetime.date.fromisoformat(t[ix["iso-date"]])
        if not (y0 <= d.year <= y1):
            continue
        tmin, tmax = t[ix["tmin"]], t[ix["tmax"]]
        out.append((d, {"tmin": tmin, "tmax": tmax, "tavg": repr((float(tmax) + float(tmin)) / 2), "prec": t[ix["precip"]],
                        "rad": t[ix["globrad"]], "wind": t[ix["wind"]], "rh": t[ix["relhumid"]]}))
    return out


def write_project(env, name, P, datefmt="DateENlong", rot="csv", soil="txt", endit="txt", sep="", cfg=None, base="ex1",
                  drop_dates=False):
    """renders the abstract project into ex/project/<name> in the chosen encodings (other files from <base>)"""
    pdir = clone_project(env.ex, base, name)
    for fn in os.listdir(pdir):
        if re.match(r"(crop|soil|endit|fert|til|irr|poly)_", fn):
            os.remove(os.path.join(pdir, fn))
    w = lambda fn, txt: open(os.path.join(pdir, fn), "w").write(txt)
    w("crop_%s.%s" % (name, rot), render_rotation(P, datefmt, rot, sep))
    fe, ti, ir = render_events(P, datefmt, sep)
    w("fert_%s.txt" % name, fe); w("til_%s.txt" % name, ti); w("irr_%s.txt" % name, ir)
    w("endit_%s.%s" % (name, endit), render_endit(P, datefmt, endit, sep))
    w("soil_%s.%s" % (name, soil), render_soil(P, soil))
    w("poly_%s.txt" % name, "Polyg SID  Field_ID  GH GL Ir comment\n%s %s %-9s 99 99 0 generated\nend\n" % (P.plot, P.sid, P.field))
    c = {"Dateformat": datefmt, "DivideCentury": 60, "CropFileFormat": "'%s'" % rot, "SoilFileExtension": "'%s'" % soil,
         "MeasurementFileFormat": "'%s'" % endit, "StartYear": P.start_year, "EndDate": '"%s"' % fmt_date(P.end, datefmt),
         "AnnualOutputDate": '"%s"' % fmt_daymonth(P.annual[0], P.annual[1], datefmt), "InitSelection": 1,
         "AutoSowingHarvest": 0, "AutoHarvest": 0, "AutoFertilization": 0, "AutoIrrigation": 0}
    c.update(P.cfg); c.update(cfg or {})
    set_config(pdir, **c)
    if datefmt.startswith("DateDE"):
        # the automatic-management table gives its window dates as day+month in the project's order (the shipped table is mmdd)
        ap = os.path.join(pdir, "automan.txt")
        rows = open(ap, errors="replace").read().split("\n")
        for k in range(1, len(rows)):
            r = rows[k]
            if len(r) >= 18:
                for a in (4, 9, 14):
                    if r[a:a + 4].isdigit() and r[a:a + 4] != "0000":
                        r = r[:a] + r[a + 2:a + 4] + r[a:a + 2] + r[a + 4:]
                rows[k] = r
        open(ap, "w").write("\n".join(rows))
    if drop_dates:
        sharpen_project(pdir, drop_dates=True)
    return pdir


def line_for(name, P, fcode="109_120", extra=""):
    return ("project=%s soilId=%s fcode=%s plotNr=%s Altitude=73 Latitude=52.6732 poligonID=G %s" % (name, P.sid, fcode, P.plot, extra)).strip()


def base_project(rnd, crops=(("SM", ""), ("SOY", "000")), years=(1980, 1983), soil_from=None):
    """an ex1-like abstract project with a seeded choice of management dates and values"""
    P = Proj()
    y0, y1 = years
    P.start_year = y0
    P.end = datetime.date(y1, 12, 31)
    D = datetime.date
    P.rot = [(crops[0][0], D(y0, 5, 15), D(y0, 9, 10 + rnd.randrange(15)), "080", "050", "0", crops[0][1])]
    for k, y in enumerate(range(y0 + 1, y1 + 1)):
        crp, var = crops[(k + 1) % len(crops)]
        P.rot.append((crp, D(y, 4 + rnd.randrange(2), 1 + rnd.randrange(28)), D(y, 9, 1 + rnd.randrange(29)), "000", "000", "0", var))
    # optional cells on the rows after the first: comment with and without a variety, no comment, row ending after yld
    for k in range(1, len(P.rot)):
        crp, sow, har, rex, yld, org, var = P.rot[k]
        pat = rnd.randrange(4)
        if pat == 0:
            P.rot[k] = (crp, sow, har, rex, yld, org, var, "c%d" % k)          # comment (CSV: also behind an EMPTY variety cell)
        elif pat == 1 and not var:
            P.rot[k] = (crp, sow, har, rex, yld, None, "", "")                 # the row ends after yld
        elif pat == 2:
            P.rot[k] = (crp, sow, har, rex, yld, org, var, "")
    P.fert = [(str(50 + 10 * rnd.randrange(15)), "RM", D(y, 3, 1 + rnd.randrange(28))) for y in range(y0 + 1, y1 + 1, 2)]
    P.til = [(str(5 + rnd.randrange(20)), "1", D(y, 2, 1 + rnd.randrange(28))) for y in range(y0 + 1, y1 + 1)]
    P.irr = [(str(10 + rnd.randrange(20)), "20", D(y, 5 + rnd.randrange(3), 1 + rnd.randrange(28))) for y in range(y0 + 1, y1 + 1, 2)]
    P.endit = (D(y0, 10, 1), "%04d" % rnd.randrange(5, 40), "%04d" % rnd.randrange(3, 30), "%04d" % rnd.randrange(1, 20), "1",
               "0.%03d" % rnd.randrange(300, 900), "0.%03d" % rnd.randrange(300, 900), "0.%03d" % rnd.randrange(300, 900),
               "%04d" % rnd.randrange(1, 9), "%04d" % rnd.randrange(1, 9), "%04d" % rnd.randrange(1, 9),
               "0.%03d" % rnd.randrange(300, 900), "0.%03d" % rnd.randrange(300, 900), "0.%03d" % rnd.randrange(100, 900))
    P.soil = gen_soil(rnd)
    return P


TEXTURES = ["SS ", "SL2", "SL3", "SL4", "SU3", "ULS", "LS2", "LT2", "UT3", "LU ", "TU3", "ST2"]


def gen_soil(rnd, hydraulic=None, total=20):
    """hydraulic=False: field capacity / wilting point / pore volume left blank (the table route: texture, density
    class and stone content decide)"""
    if hydraulic is None:
        hydraulic = rnd.random() < 0.5
    n = 1 + rnd.randrange(min(4, max(1, total - 1)))
    depth = sorted(rnd.sample(range(1, total), n - 1)) + [total] if n > 1 else [total]
    hs = []
    for i in range(n):
        fc = rnd.randrange(18, 40)
        wp = rnd.randrange(5, fc - 6)
        sand = rnd.randrange(5, 80)
        clay = rnd.randrange(3, min(40, 95 - sand))
        hs.append({"corg": "%.2f" % (rnd.randrange(10, 250) / 100.0 / (i + 1)), "tex": rnd.choice(TEXTURES), "depth": "%02d" % depth[i],
                   "ld": str(1 + rnd.randrange(5)), "stone": "%02d" % rnd.choice([0, 5, 12, 30]), "cn": rnd.choice(["10", "12", "9", "0"]),
                   "fc": "%02d" % fc if hydraulic else "", "wp": "%02d" % wp if hydraulic else "",
                   "ps": "%02d" % rnd.randrange(fc + 2, 55) if hydraulic else "",
                   "sand": "%02d" % sand, "silt": "%02d" % (100 - sand - clay), "clay": "%02d" % clay})
    return hs


# ------------------------------------------------------------------------------------------------
# crop parameter files: classic layout (BYTES: Go slices bytes), edits, YAML edits, parameter folders

BASE_LINE = {"MAXAMAX": 3, "MINTMP": 5, "WUMAXPF": 6, "VELOC": 7, "YIFAK": 10, "INITCONCNBIOM": 11, "INITCONCNROOT": 12}
STAGE_OFF = {"TSUM": 1, "BAS": 2, "VSCHWELL": 3, "DAYL": 4, "DLBAS": 5, "DRYSWELL": 6, "LUKRIT": 7, "LAIFKT": 8, "WGMAX": 9, "KC": 12}
PART_OFF = {"PRO": 10, "DEAD": 11}
YAML_STAGE_KEY = {"KC": "Kc"}


def classic_files(pardir):
    """[(file name, abbreviation, variety)] of the classic crop parameter files of a parameter folder"""
    out = []
    for fn in sorted(os.listdir(pardir)):
        m = re.fullmatch(r"PARAM(?:_([^.]+))?\.([A-Za-z0-9]+)", fn)
        if m and not fn.endswith(".yml") and m.group(2) not in ("TRU", "TXT", "HAU"):
            out.append((fn, m.group(2), m.group(1) or ""))
    return out


def read_lines(path):
    """bufio.ScanLines: split at LF, drop one trailing CR, no final empty line"""
    raw = open(path, "rb").read()
    ls = raw.split(b"\n")
    if ls and ls[-1] == b"":
        ls.pop()
    return [l[:-1] if l.endswith(b"\r") else l for l in ls]


def write_lines(path, lines):
    with open(path, "wb") as f:
        f.write(b"\n".join(lines) + b"\n")


def classic_dims(lines):
    return int(lines[13][65:].strip()), int(lines[18][65:].strip())      # NRKOM, NRENTW


def edit_classic(lines, name, i, j, text):
    """the same edit an override c_<name>[_i[_j]]=<text> stands for, in the classic file; None when it does not fit"""
    t = text.encode()
    ls = list(lines)
    if name in BASE_LINE:
        k = BASE_LINE[name]
        at = 66 if name == "YIFAK" else 65
        if len(ls[k]) < at:
            return None
        ls[k] = ls[k][:at] + (b"" if name == "YIFAK" else b"   ") + t
    elif name in STAGE_OFF:
        k = 19 + 13 * (i - 1) + STAGE_OFF[name]
        if len(ls[k]) < 65:
            return None
        ls[k] = ls[k][:65] + b"   " + t
    else:
        k = 19 + 13 * (i - 1) + PART_OFF[name]
        a = 25 + 8 * j
        if len(t) > 5 or len(ls[k]) < a + 5:
            return None
        ls[k] = ls[k][:a] + t.rjust(5) + ls[k][a + 5:]
    return ls


def _num(text):
    v = float(text)
    return int(v) if v == int(v) and "." not in text and "e" not in text.lower() else v


def edit_yaml(doc, name, i, j, text):
    """the same edit in the decoded YAML record (python yaml = trusted renderer of the edited file)"""
    v = _num(text)
    if name in BASE_LINE:
        doc[name] = v
    elif name in STAGE_OFF:
        doc["CropDevelopmentStages"][i - 1][YAML_STAGE_KEY.get(name, name)] = v
    else:
        doc["CropDevelopmentStages"][i - 1][name][j - 1] = v
    return doc


def param_folder(env, name, replace):
    """a parameter folder ex/<name> = the shipped one (symlinks) with some files replaced: {file name: bytes}"""
    src = os.path.join(env.ex, "parameter")
    dst = os.path.join(env.ex, name)
    shutil.rmtree(dst, ignore_errors=True)
    os.makedirs(dst)
    for fn in os.listdir(src):
        if fn in replace:
            continue
        os.symlink(os.path.join(src, fn), os.path.join(dst, fn))
    for fn, data in replace.items():
        with open(os.path.join(dst, fn), "wb") as f:
            f.write(data)
    return "./" + name


# valid and invalid values per overridable parameter (decimal texts; partition values fit 5 columns)
VALID = {"MAXAMAX": ["100", "37.5", "0.5"], "MINTMP": ["-29.5", "0", "49.9", "3.5"], "WUMAXPF": ["20", "7.5", "0.1"],
         "VELOC": ["1", "0.35", "0.005"], "YIFAK": ["0", "1", "0.45", ".8"], "INITCONCNBIOM": ["0", "100", "4.25"],
         "INITCONCNROOT": ["0", "100", "1.3"], "TSUM": ["25", "10000", "237.5", "90", "0.000000001"], "BAS": ["-10", "40", "4.5"],
         "VSCHWELL": ["0", "100", "33"], "DAYL": ["-24", "24", "13.5"], "DLBAS": ["-24", "24", "7.25"],
         "DRYSWELL": ["0", "1", "0.55"], "LUKRIT": ["0", "1", "0.04"], "LAIFKT": ["0", "100", "0.0021"],
         "WGMAX": ["0", "100", "0.015"], "KC": ["0.05", "1.3", "250"], "PRO": ["0", "1", "0.35", ".125"],
         "DEAD": ["0", "1", "0.02", ".005"]}
INVALID = {"MAXAMAX": ["0", "100.5", "-3"], "MINTMP": ["-30", "50", "77"], "WUMAXPF": ["0", "20.5"], "VELOC": ["0", "1.01"],
           "YIFAK": ["-0.1", "1.01"], "INITCONCNBIOM": ["-1", "100.1"], "INITCONCNROOT": ["-0.5", "101"],
           "TSUM": ["0", "-1", "10001"], "BAS": ["-10.5", "41"], "VSCHWELL": ["-1", "100.5"], "DAYL": ["-25", "24.5"],
           "DLBAS": ["-24.1", "25"], "DRYSWELL": ["-0.1", "1.1"], "LUKRIT": ["-0.01", "1.5"], "LAIFKT": ["-1", "101"],
           "WGMAX": ["-0.1", "100.5"], "KC": ["0", "-0.5"], "PRO": ["-0.1", "1.1"], "DEAD": ["-0.2", "1.5"]}


def override_key(name, i, j):
    return "c_%s" % name + ("_%d" % i if i else "") + ("_%d" % j if j else "")


def all_targets(nrkom, nrentw):
    """every overridable (name, stage, organ) of a crop file"""
    t = [(n, 0, 0) for n in BASE_LINE]
    for i in range(1, nrentw + 1):
        t += [(n, i, 0) for n in STAGE_OFF]
        for j in range(1, nrkom + 1):
            t += [(n, i, j) for n in PART_OFF]
    return t


# ------------------------------------------------------------------------------------------------
# configuration sweep: every equivalence pair also with ONE configuration key away from the project's own configuration

def sweep_items(thorough):
    """[(name, batch-line keys, needs a reference-ET column in the weather)]"""
    it = [("PTF=%d" % k, "PTF=%d" % k, False) for k in (1, 2, 3, 4)]
    it += [("ETpot=%d" % k, "ETpot=%d" % k, k == 5) for k in (1, 2, 4, 5)]
    it += [("CO2method=%d" % k, "CO2method=%d" % k, False) for k in (1, 3)]
    it += [("PotMineralisation=1", "PotMineralisation=1", False), ("GroundWaterFrom=0", "GroundWaterFrom=0", False),
           ("GroundWaterFrom=2", "GroundWaterFrom=2", False), ("Fertilization=50", "Fertilization=50", False),
           ("LeachingDepth=8", "LeachingDepth=8", False), ("LeachingDepth=12", "LeachingDepth=12", False),
           ("fileExtension=alt", "fileExtension=alt", False)]
    it += [("InitSelection=%d" % k, "InitSelection=%d" % k, False) for k in (2, 3, 4)]
    autos = ["AutoSowingHarvest", "AutoFertilization", "AutoIrrigation", "AutoHarvest"]
    it += [("%s=1" % a, "%s=1" % a, False) for a in autos]
    it += [("%s=1+%s=1" % (a, b_), "%s=1 %s=1" % (a, b_), False) for i, a in enumerate(autos) for b_ in autos[i + 1:]]
    return it


def sweep_ready(env, name, P, datefmt="DateENlong"):
    """what the sweep keys need in project <name>: measurement rows for every InitSelection, a ground-water time series,
    the files of the fileExtension override"""
    pdir = os.path.join(env.ex, "project", name)
    with open(os.path.join(pdir, "gw_%s.csv" % name), "w") as f:
        f.write("SID,Date,Level\n")
        for y in range(P.start_year, P.end.year + 1):
            for m in (1, 4, 7, 10):
                f.write("%s,%s,%d\n" % (P.sid, fmt_date(datetime.date(y, m, 1), datefmt), 9 + (m + y) % 5))
    for fn in os.listdir(pdir):
        if fn.startswith(("crop_", "poly_")) or fn == "automan.txt":
            shutil.copy(os.path.join(pdir, fn), os.path.join(pdir, fn.rsplit(".", 1)[0] + ".alt"))


def sweep_endit(P):
    """the measurement row under every id an InitSelection may ask for"""
    if not isinstance(P.endit, list):
        P.endit = [(i_, P.endit) for i_ in ("ALLE", P.field, P.plot, P.sid)]
