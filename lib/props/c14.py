"""C14 — configuration precedence: batch line over project configuration over defaults.

proof:           Prop_C14.v over ConfigModel.v — for EVERY schema, decoded file, ParseFloat oracle and batch line:
                 precedence (per-kind parsing, abort exactly on a malformed number), unknown keys/tokens ignored,
                 independence of Go's map iteration order and of the order of the tokens
tie 3:           gen/ConfigSchema.v is regenerated from /repo on every run by reflection over hermes.Config and
                 hermes.NewDefaultConfig(); gen/ConfigSchemaCheck.v re-proves over it: field names NoDup, yaml key =
                 field name, every kind one of float/int/text/on-off, default of the field's kind, and the precedence
                 theorem instantiated at this schema (the text of run.go's glue is only reported as INFO, never an obligation)
correspondence:  the REAL hermes.Run up to the VerifConfig probe right after readConfig (effective Config captured, run ended by a
                 private panic value) on generated (project file, batch line) cases — subsets of
                 keys in file and/or arguments, duplicates, permuted orders, malformed values (process end observed in a
                 child), unknown keys, junk tokens — every scalar field compared with ConfigModel.read_config in Coq
oracle:          precedence evaluated directly on the real results (Go harness, strconv as parser), equality of the real
                 results over permuted argument orders, and whole runs of the real hermes2go binary on the example
                 project (result file extension, last output date, byte-identical output for permuted arguments)
"""
import json, os, re, shutil, subprocess
from concurrent.futures import ThreadPoolExecutor
from core import Corr, Fail, chunked_list, BuildError, REPO

PROP_FILES = ["Prop_C14"]
RULE = ("generated cases: key subsets in file and/or line with probabilities {0, .05..0.8}, values per kind incl. malformed, "
        "duplicates, junk tokens, 2 extra permutations for about half of the duplicate-free lines; distinct (file, line)")
TRUSTED = ["gopkg.in/yaml.v3 decoding of the project file (the model starts from the decoded values; exercised with the spellings the generator writes)",
           "strconv.ParseFloat as oracle (results enter the model as a table); strconv.ParseInt modelled (sign, digits, int64 range)",
           "reflect.FieldByName = first field of that name; field names unique (re-proved for the generated schema)",
           "the verif hook VerifConfig (one call after readConfig in Run) hands over the configuration the run really uses"]
ASSUMPTIONS = ["int is 64 bit (amd64): OverflowInt/OverflowFloat never fire",
               "Dateformat/GroundWaterFrom are integers to the override (enum names only in the file); generated cases keep (Dateformat, EndDate) a valid date pair, "
               "because readConfig converts EndDate and a mismatch panics/aborts outside the configuration logic",
               "tokens contain no white space (strings.Fields of the batch line)"]
_cache = {}

ANCHOR = ["argValues := make(map[string]string)", "for _, token := range args {", 'splitup := strings.Split(token, "=")',
          "if len(splitup) == 2 {", "argValues[splitup[0]] = splitup[1]", "}", "}"]


GLUE = ["argValues := make(map[string]string)", "argValues[splitup[0]] = splitup[1]",
        'if _, hasProject := argValues["project"]; !hasProject {', 'if _, hasPlotNr := argValues["plotNr"]; !hasPlotNr {',
        "for key, value := range argValues {", "cropOverwrite, err := ParseCropOverwrites(argValues)",
        "driConfig := readConfig(&g, argValues, &herPath)"]


def _q(s):
    return '"' + s.replace('"', '""') + '"'


def _val(e):
    t, x = e[0], e[1:]
    if t == "f":
        return "VFloat %s%%Z" % x
    if t == "i":
        return "VInt (%s)%%Z" % x
    if t == "s":
        return "VStr %s" % _q(x)
    if t == "b":
        return "VBool %s" % ("true" if x == "1" else "false")
    return "VStr %s" % _q(e)


KIND = {"float64": "KFloat", "int": "KInt", "string": "KStr", "bool": "KBool"}


def generate(ctx):
    """tie 3: ConfigSchema.v / ConfigSchemaCheck.v from the working tree"""
    vh = ctx.harness()
    p = subprocess.run([vh, "c14", "schema"], stdout=subprocess.PIPE, stderr=subprocess.PIPE, text=True, timeout=120)
    if p.returncode != 0:
        raise BuildError("vh c14 schema failed: " + p.stderr[-800:])
    fields = [json.loads(l) for l in p.stdout.split("\n") if l.startswith("{")]
    _cache["fields"] = fields
    rows = ["(%s, %s, %s, %s)" % (_q(f["Name"]), _q(f["Yaml"]), KIND.get(f["Kind"], "KOther"), _val(f["Default"])) for f in fields]
    with open(os.path.join(ctx.gen, "ConfigSchema.v"), "w") as fh:
        fh.write("(* generated on every run from %s by `vh c14 schema` (reflection over hermes.Config, NewDefaultConfig) *)\n"
                 "From Coq Require Import ZArith List String.\nFrom Hermes Require Import ConfigModel.\nImport ListNotations.\n"
                 "Open Scope string_scope.\n"
                 "(* Go field name, yaml key, kind, default *)\n"
                 "Definition schema_src : list (string * string * kind * value) := [\n  %s].\n"
                 "Definition schema : schema := map (fun r : string * string * kind * value => let '(n, _, k, d) := r in (n, k, d)) schema_src.\n"
                 % (REPO, ";\n  ".join(rows)))
    with open(os.path.join(ctx.gen, "ConfigSchemaCheck.v"), "w") as fh:
        fh.write("""(* generated: obligations over the schema regenerated from the source *)
From Coq Require Import ZArith List Bool String Permutation.
From Hermes Require Import ConfigModel ConfigProofs.
From HermesGen Require Import ConfigSchema.
Import ListNotations.
Open Scope string_scope.

Theorem schema_names_nodup : NoDup (names schema).
Proof. apply nodupb_sound. vm_compute. reflexivity. Qed.

Theorem schema_yaml_key_is_field_name :
  forall n y k d, In (n, y, k, d) schema_src -> n = y.
Proof.
  assert (H : forallb (fun r : string * string * kind * value => let '(n, y, _, _) := r in n =? y) schema_src = true) by (vm_compute; reflexivity).
  intros n y k d Hin. rewrite forallb_forall in H. specialize (H _ Hin). cbn in H. now apply String.eqb_eq.
Qed.

Theorem schema_kinds_supported :
  forall n y k d, In (n, y, k, d) schema_src -> k <> KOther /\\
    match k, d with KFloat, VFloat _ | KInt, VInt _ | KStr, VStr _ | KBool, VBool _ => True | _, _ => False end.
Proof.
  assert (H : forallb (fun r : string * string * kind * value => let '(_, _, k, d) := r in
              match k, d with KFloat, VFloat _ | KInt, VInt _ | KStr, VStr _ | KBool, VBool _ => true | _, _ => false end) schema_src = true)
    by (vm_compute; reflexivity).
  intros n y k d Hin. rewrite forallb_forall in H. specialize (H _ Hin). cbn in H.
  destruct k, d; try discriminate; split; (discriminate || exact I).
Qed.

Theorem schema_every_field_has_kind_and_default :
  forall n, In n (names schema) -> exists kd d, kind_of n schema = Some kd /\\ get n schema = Some d.
Proof.
  assert (H : forallb (fun n => match kind_of n schema, get n schema with Some _, Some _ => true | _, _ => false end) (names schema) = true)
    by (vm_compute; reflexivity).
  intros n Hin. rewrite forallb_forall in H. specialize (H _ Hin).
  destruct (kind_of n schema) as [kd|], (get n schema) as [d|]; try discriminate. eauto.
Qed.

(* the property for the configuration keys of THIS source tree *)
Theorem schema_precedence : forall pf f tokens es, Permutation es (arg_map tokens) ->
  forall cfg, effective pf schema f es = Some cfg ->
  forall n, In n (names schema) -> exists kd d, kind_of n schema = Some kd /\\ get n schema = Some d /\\
    let basev := match f n with Some v => v | None => d end in
    get n cfg = Some match arg_get tokens n with
                     | Some str => match parse_kind pf kd str with PSet v => v | _ => basev end
                     | None => basev
                     end.
Proof.
  intros pf f tokens es P cfg H n Hin.
  destruct (schema_every_field_has_kind_and_default n Hin) as (kd & d & K & G).
  exists kd, d. split; [exact K|]. split; [exact G|].
  exact (proj2 (precedence_lemma pf schema f tokens es P) cfg H n kd d K G).
Qed.

(* a project without config.yml: every run of any sequence uses the defaults overlaid by its own line only *)
Theorem schema_history_independent : forall pf runs k es, nth_error runs k = Some es ->
  nth_error (run_seq pf schema None runs) k = Some (effective pf schema (fun _ => None) es).
Proof. intros. apply history_nofile_lemma; [exact schema_names_nodup | assumption]. Qed.

Print Assumptions schema_names_nodup.
Print Assumptions schema_yaml_key_is_field_name.
Print Assumptions schema_kinds_supported.
Print Assumptions schema_every_field_has_kind_and_default.
Print Assumptions schema_precedence.
Print Assumptions schema_history_independent.
""")
    # run.go:37-43 still splits the tokens exactly as modelled (the statements cannot be called separately)
    src = open(os.path.join(REPO, "hermes", "run.go")).read()
    lines = [l.strip() for l in src.split("\n") if l.strip()]
    ok = any(lines[i:i + len(ANCHOR)] == ANCHOR for i in range(len(lines)))
    # run.go: ONE argument map, handed to ParseCropOverwrites and then unchanged to readConfig (C14_crop_parsing_keeps_arguments)
    uses = []
    for l in lines:
        if "argValues" in l:
            uses.append(l)
            if l.startswith("driConfig := readConfig("):
                break
    _cache["anchor_ok"] = ok and uses == GLUE
    _cache["anchor_uses"] = uses


GEN_THEOREMS = ["schema_names_nodup", "schema_yaml_key_is_field_name", "schema_kinds_supported",
                "schema_every_field_has_kind_and_default", "schema_precedence", "schema_history_independent"]


def gen_proofs(ctx):
    broken = []
    n = len(GEN_THEOREMS)
    done = 0
    # INFO only (never an obligation): does run.go still read like the statements the model cites?  The tie itself is
    # behavioural: every case goes through the real hermes.Run up to the VerifConfig probe.
    ctx.extra["glue_text"] = ("run.go token splitting / argument-map glue reads as cited in ConfigModel.v" if _cache.get("anchor_ok") else
                              "glue text changed (uses of argValues up to readConfig: %s); behavioural tie through the real Run used" % _cache.get("anchor_uses"))
    if not os.path.exists(os.path.join(ctx.gen, "ConfigSchema.v")):
        broken.append({"stage": "generate", "what": "ConfigSchema.v was not generated"})
        return n, done, broken, GEN_THEOREMS
    rc, out = ctx.coqc(os.path.join(ctx.gen, "ConfigSchema.v"), timeout=600)
    if rc:
        broken.append({"stage": "generated-proof", "what": "ConfigSchema.v does not compile: " + out[-1500:]})
        return n, done, broken, GEN_THEOREMS
    rc, out = ctx.coqc(os.path.join(ctx.gen, "ConfigSchemaCheck.v"), timeout=600)
    closed = out.count("Closed under the global context")
    if rc or closed != len(GEN_THEOREMS):
        broken.append({"stage": "generated-proof", "what": "ConfigSchemaCheck.v (obligations over the regenerated schema) no longer checks: " + out[-1500:]})
        _cache["schema_ok"] = False
    else:
        done += len(GEN_THEOREMS)
        _cache["schema_ok"] = True
    ctx.extra["schema_fields"] = len(_cache.get("fields", []))
    return n, done, broken, GEN_THEOREMS


def _run(ctx):
    if "out" in _cache:
        return _cache["out"]
    vh = ctx.harness()
    d = os.path.join(ctx.work, "c14")
    os.makedirs(d, exist_ok=True)
    n = 2500 if ctx.thorough else 250
    p = subprocess.run([vh, "c14", "cases", "-seed", str(ctx.seed), "-n", str(n), "-dir", d],
                       stdout=subprocess.PIPE, stderr=subprocess.PIPE, text=True, timeout=1800)
    shutil.rmtree(d, ignore_errors=True)
    _cache["out"] = (p.returncode, p.stdout, p.stderr)
    return _cache["out"]


def correspond(ctx):
    c = Corr()
    rc, out, err = _run(ctx)
    if rc != 0:
        c.mismatches.append({"kind": "harness-crash", "what": "readConfig ended the harness on a case without malformed numbers",
                             "stderr": err[-1500:], "last": out[-300:]})
    cases = []
    for line in out.split("\n"):
        if line.startswith("{"):
            try:
                cases.append(json.loads(line))
            except ValueError:
                pass
    _cache["cases"] = cases
    if not os.path.exists(os.path.join(ctx.gen, "ConfigSchema.vo")):
        c.mismatches.append({"kind": "schema", "what": "generated schema unavailable; model not evaluated"})
        return c
    terms, seen = [], set()
    for k in cases:
        file_ = "[%s]" % "; ".join("(%s, %s)" % (_q(n), _val(v)) for n, v in (k["file"] or []))
        toks = "[%s]" % "; ".join(_q(t) for t in (k["tokens"] or []))
        pf = "[%s]" % "; ".join("(%s, %s)" % (_q(s), ("Some %s%%Z" % b) if b != "" else "None") for s, b in sorted(k["pf"].items()))
        obs = "None" if k["fatal"] else "(Some [%s])" % "; ".join("(%s, %s)" % (_q(n), _val(v)) for n, v in (k["diff"] or []))
        hist = "[%s]" % "; ".join("[%s]" % "; ".join(_q(t) for t in h) for h in (k.get("hist") or []))
        terms.append("(mk_case %s %s %s %s %s %s %s)" % (_q(k["root"]), "true" if k["hasfile"] else "false", file_, hist, toks, pf, obs))
        c.bump("kind:" + k.get("kind", "random"))
        seen.add((file_, toks))
        c.bump("fatal" if k["fatal"] else "ok")
        c.bump("tokens:%02d" % min(len(k["tokens"] or []), 10))
    hdr = ["From Coq Require Import ZArith List String.", "From Hermes Require Import ConfigModel C14Corr.",
           "From HermesGen Require Import ConfigSchema.", "Import ListNotations.", "Open Scope string_scope."]
    NSH = 12
    per = (len(terms) + NSH - 1) // NSH or 1
    items = []
    for s in range(NSH):
        part = terms[s * per:(s + 1) * per]
        if part:
            items.append(("Cases_C14_%d" % s, "\n".join(hdr + [
                "Definition cases : list case := %s." % chunked_list(part, "case", chunk=40),
                "Definition MM := Eval vm_compute in mismatches schema %d%%Z cases." % (s * per), "Print MM."]) + "\n"))
    tok = _token_runs(ctx)
    tterms = ["([%s], %s)" % ("; ".join("%d%%Z" % b for b in l["text"].encode()), _q(l["observed"])) for l in tok["lines"]]
    items.append(("Cases_C14_tok", "\n".join(hdr + [
        "Definition cases : list (list Z * string) := %s." % chunked_list(tterms, "(list Z * string)", chunk=20),
        "Definition MM := Eval vm_compute in tok_mismatches 0%Z cases.", "Print MM."]) + "\n"))
    c.dist["tokeniser-lines"] = len(tterms)
    c.cases = len(terms) + len(tterms)
    c.nontrivial = len(seen) + len(tterms)
    small = [k for k in cases if len(k["tokens"] or []) <= 4 and len(k["file"] or []) <= 3 and (k["tokens"] or k["file"])]
    c.samples = [("line=%r file=%r -> %s" % (" ".join(k["tokens"] or []), k["file"], "process ended" if k["fatal"] else k["diff"]))[:400] for k in small[:6]]
    for name, rc2, o in ctx.coq_eval_many(items, timeout=1500):
        m = re.search(r"MM\s*=\s*(.*?)\s*:\s*list Z", o, re.S)
        if rc2 != 0 or not m:
            c.mismatches.append({"kind": "coq-eval", "shard": name, "output": o[-1500:]})
        elif m.group(1).strip() != "[]":
            idx = [int(x) for x in re.findall(r"\d+", m.group(1))]
            if name == "Cases_C14_tok":
                c.mismatches.append({"kind": "tokeniser", "what": "strings.Fields model (fields + Run glue) and the real hermes2go differ on batch lines",
                                     "cases": [{"line": tok["lines"][i]["text"], "real_answer": tok["lines"][i]["error"]} for i in idx[:10]]})
                continue
            c.mismatches.append({"kind": "config", "what": "ConfigModel.read_config and the real readConfig differ",
                                 "cases": [{"line": " ".join(cases[i]["tokens"] or []), "file": cases[i]["file"], "earlier_lines": cases[i].get("hist"), "observed": "process ended" if cases[i]["fatal"] else cases[i]["diff"]}
                                           for i in idx[:10]]})
    return c


SEPS = [" ", "  ", "\t", "\t ", " \t", "     ", "\t\t"]
SEPNAME = {" ": "blank", "  ": "blanks", "\t": "tab", "\t ": "tab+blank", " \t": "blank+tab", "     ": "blanks", "\t\t": "tabs"}


def _token_runs(ctx):
    """the REAL hermes2go on stub batch lines whose arguments are separated by white space drawn from SEPS, led/trailed by
    white space, LF/CRLF, in permuted order: line i carries project=, plotNr=, CropFile= and c_Zq<i>= (+ config keys); only
    if every one of them arrives as its own token does hermes.Run answer 'invalid crop parameter name: Zq<i>'"""
    if "tok" in _cache:
        return _cache["tok"]
    import random
    h2g = ctx.repo_bin("src/hermes2go", "hermes2go")
    rnd = random.Random(ctx.seed + 17)
    d = os.path.join(ctx.work, "tok")
    os.makedirs(d, exist_ok=True)
    n = 200 if ctx.thorough else 48
    lines = []
    for i in range(n):
        toks = ["project=p", "plotNr=1", "CropFile=x", "c_Zq%d=1" % i] + rnd.sample(["NDeposition=3", "ResultFileExt=q", "AutoIrrigation=on", "Foo=bar", "CropFileFormat=csv"], rnd.randint(0, 2))
        rnd.shuffle(toks)
        seps = [SEPS[(i + j) % len(SEPS)] if j == 0 else rnd.choice(SEPS) for j in range(len(toks) - 1)]
        lead = rnd.choice(["", "", " ", "\t"])
        trail = rnd.choice(["", "", " ", "\t", "  ", "\r", " \r"])
        text = lead + "".join(t + sp for t, sp in zip(toks, seps + [trail]))
        lines.append({"i": i, "text": text, "seps": sorted({SEPNAME[x] for x in seps}), "lead": lead, "trail": trail})
    bf = os.path.join(d, "tok_batch.txt")
    with open(bf, "wb") as fh:
        fh.write("".join(l["text"] + "\n" for l in lines).encode())
    p = subprocess.run([h2g, "-module", "batch", "-concurrent", "1", "-logoutput", "-batch", bf], cwd=d, stdout=subprocess.PIPE, stderr=subprocess.STDOUT, timeout=600)
    out = p.stdout.decode("latin-1")
    summary = out.partition("Error Summary:")[2]
    errs = {int(m.group(1)): m.group(2).strip() for m in re.finditer(r"(?m)^\[(\d+)\] Error: (.*)$", summary)}
    for l in lines:
        e = errs.get(l["i"])
        m = re.fullmatch(r"invalid crop parameter name: (\w+)", e or "")
        l["observed"] = m.group(1) if m else ("" if e and e.startswith("arguments requrired") else "?")
        l["error"] = e
    _cache["tok"] = {"lines": lines, "rc": p.returncode, "tail": out[-400:]}
    return _cache["tok"]


def _whole_runs(ctx):
    """a few runs of the real simulator: the effective configuration is what the run uses"""
    h2g = ctx.repo_bin("src/hermes2go", "hermes2go")
    ex = os.path.join(ctx.work, "ex")
    shutil.copytree(os.path.join(REPO, "examples"), ex)
    conf = open(os.path.join(ex, "project", "ex1", "config.yml")).read()
    m = re.search(r'(?m)^EndDate:\s*"?(\d{8})"?', conf)
    m2 = re.search(r'(?m)^ResultFileExt:\s*"?(\w+)"?', conf)
    file_end, file_ext = (m.group(1) if m else None), (m2.group(1) if m2 else "RES")
    base = "project=ex1 WeatherFolder=historical soilId=075 fcode=109_120 plotNr=10001 Altitude=73 Latitude=52.6732 poligonID=29872"
    runs = {
        "file": base + " resultfolder=RESULT/r0",
        "args": base + " resultfolder=RESULT/r1 ResultFileExt=abc EndDate=12311984 Foo=bar LeachingDepth=1=2 ResultFileExt=xyz novalue",
        "perm": "novalue EndDate=12311984 ResultFileExt=abc LeachingDepth=1=2 Latitude=52.6732 poligonID=29872 resultfolder=RESULT/r2 plotNr=10001 "
                "fcode=109_120 Altitude=73 soilId=075 WeatherFolder=historical Foo=bar ResultFileExt=xyz project=ex1",
    }

    # the permuted line also uses other white space between the arguments: tab, several blanks, tab+blank, trailing blanks, CRLF
    ptoks = runs["perm"].split()
    runs["perm"] = "\t" + "".join(t + SEPS[(3 * j) % len(SEPS)] for j, t in enumerate(ptoks)) + "  "
    # the Run glue: crop override arguments on the same line as a configuration key sharing their prefix. crop_ex1.txt is removed,
    # so a run that really uses CropFileFormat=txt must stop at the missing rotation file, the control (csv from the project file) runs
    os.remove(os.path.join(ex, "project", "ex1", "crop_ex1.txt"))
    runs["glue"] = base + " EndDate=12311983 resultfolder=RESULT/g1 CropFile=PARAM.WW c_TSUM_1=200 CropFileFormat=txt"
    runs["gluectl"] = base + " EndDate=12311983 resultfolder=RESULT/g2 CropFile=PARAM.WW c_TSUM_1=200"

    def go(item):
        name, line = item
        bf = os.path.join(ex, name + "_batch.txt")
        with open(bf, "wb") as fh:
            fh.write((line + ("\r\n" if name == "perm" else "\n")).encode())
        p = subprocess.run([h2g, "-module", "batch", "-concurrent", "1", "-batch", bf], cwd=ex, stdout=subprocess.PIPE, stderr=subprocess.STDOUT, text=True, timeout=600)
        rd = os.path.join(ex, "RESULT", {"file": "r0", "args": "r1", "perm": "r2", "glue": "g1", "gluectl": "g2"}[name])
        files = sorted(os.listdir(rd)) if os.path.isdir(rd) else []
        daily = [f for f in files if f.startswith("V")]
        last, content = None, None
        if daily:
            content = open(os.path.join(rd, daily[0]), errors="replace").read()
            rows = [l for l in content.split("\n") if re.match(r"\d\d\.\d\d\.\d{4}", l)]
            last = rows[-1][:10] if rows else None
        return name, {"rc": p.returncode, "files": files, "last": last, "content": content, "line": line, "tail": p.stdout[-300:]}

    with ThreadPoolExecutor(max_workers=5) as exr:
        res = dict(exr.map(go, runs.items()))
    fails = []

    def ext_of(r):
        return sorted({f.rsplit(".", 1)[-1] for f in r["files"]})

    def fmt(d):     # mmddyyyy -> mm.dd.yyyy (ex1 uses DateENlong)
        return "%s.%s.%s" % (d[0:2], d[2:4], d[4:8]) if d else None

    r0, r1, r2 = res["file"], res["args"], res["perm"]
    if ext_of(r0) != [file_ext] or (file_end and r0["last"] != fmt(file_end)):
        fails.append(Fail(key="wholerun file-over-default", what="run without overrides: result files %s, last day %s; the project file says ext %s, EndDate %s"
                          % (r0["files"], r0["last"], file_ext, file_end), line=r0["line"], tail=r0["tail"]))
    if ext_of(r1) != ["xyz"] or r1["last"] != "12.31.1984":
        fails.append(Fail(key="wholerun argument-over-file", what="run with ResultFileExt=abc ... ResultFileExt=xyz EndDate=12311984: result files %s, last day %s"
                          % (r1["files"], r1["last"]), line=r1["line"], tail=r1["tail"]))
    if r1["content"] is None or r1["content"] != r2["content"] or ext_of(r2) != ["xyz"]:
        fails.append(Fail(key="wholerun argument-order", what="the same arguments in another order give a different daily output (or none)",
                          line=r2["line"], files=r2["files"], tail=r2["tail"]))
    g1, g2 = res["glue"], res["gluectl"]
    if not any(f.startswith("V") for f in g2["files"]):
        fails.append(Fail(key="wholerun glue-control", what="the control run (crop overrides, CropFileFormat from the project file) produced no daily output", line=g2["line"], tail=g2["tail"]))
    elif any(f.startswith("V") for f in g1["files"]) or "crop_ex1.txt" not in g1["tail"]:
        fails.append(Fail(key="wholerun CropFileFormat-with-crop-overrides",
                          what="line with CropFile=PARAM.WW c_TSUM_1=200 CropFileFormat=txt (project file: csv; crop_ex1.txt removed): the run did not ask for "
                               "crop_ex1.txt — CropFileFormat from the line was not used; result files %s" % g1["files"], line=g1["line"], tail=g1["tail"]))
    ctx.extra["whole_runs"] = len(res)
    return fails


def _seq_runs(ctx):
    """projects WITHOUT config.yml, whole runs of the real simulator: line A (with overrides) then line B (without them),
    in the same session and as a later process; B must run exactly as on a fresh project, and the generated config.yml must
    be the rendering of the defaults"""
    h2g = ctx.repo_bin("src/hermes2go", "hermes2go")
    vh = ctx.harness()
    ref = os.path.join(ctx.work, "default_rendering.yml")
    subprocess.run([vh, "c14", "defaultyaml", ref], stdout=subprocess.PIPE, stderr=subprocess.STDOUT, timeout=120)
    want = open(ref).read() if os.path.exists(ref) else None
    need = ("Dateformat=3 CropFileFormat=csv WeatherRootFolder=./weather/ WeatherNoneValue=999.9 OutputIntervall=1 AnnualOutputDate=1031 "
            "AutoSowingHarvest=0 AutoFertilization=0 AutoHarvest=0 EndDate=12311983")
    base = "project=ex1 WeatherFolder=historical soilId=075 fcode=109_120 plotNr=10001 Altitude=73 Latitude=52.6732 poligonID=29872 " + need
    # line A also differs in keys that are consumed by the READERS behind the configuration (precipitation correction of the weather
    # reader, CO2 concentration): a session-level cache of what a reader produced must not carry them to line B (seeded C14-17)
    A = base + " resultfolder=RESULT/a ResultFileExt=xyz NDeposition=90 LeachingDepth=9 AutoIrrigation=0 CorrectionPrecipitation=1 CO2concentration=650"
    B = base + " resultfolder=RESULT/b"

    def scenario(name):
        ex = os.path.join(ctx.work, "seq_" + name)
        shutil.copytree(os.path.join(REPO, "examples"), ex)
        os.remove(os.path.join(ex, "project", "ex1", "config.yml"))
        with open(os.path.join(ex, "weather", "historical", "preco.txt"), "w") as pf:        # factors of line A's precipitation correction
            pf.write("Mo Corr\n" + "\n".join("%2d %.2f" % (m + 1, 1.10 + 0.03 * m) for m in range(12)))
        batches = {"same-session": [[A, B]], "later-process": [[A], [B]], "fresh": [[B]]}[name]
        tail = ""
        for i, lines in enumerate(batches):
            bf = os.path.join(ex, "seq%d_batch.txt" % i)
            with open(bf, "w") as fh:
                fh.write("".join(l + "\n" for l in lines))
            p = subprocess.run([h2g, "-module", "batch", "-concurrent", "1", "-batch", bf], cwd=ex, stdout=subprocess.PIPE, stderr=subprocess.STDOUT, text=True, timeout=600)
            tail += p.stdout[-300:]
        out = {"tail": tail, "results": {}}
        for d in ("a", "b"):
            rd = os.path.join(ex, "RESULT", d)
            out["results"][d] = {f: open(os.path.join(rd, f), errors="replace").read() for f in sorted(os.listdir(rd))} if os.path.isdir(rd) else {}
        cf = os.path.join(ex, "project", "ex1", "config.yml")
        out["config"] = open(cf).read() if os.path.exists(cf) else None
        return name, out

    with ThreadPoolExecutor(max_workers=3) as exr:
        res = dict(exr.map(scenario, ["same-session", "later-process", "fresh"]))
    fails = []
    fresh = res["fresh"]
    if not fresh["results"]["b"]:
        fails.append(Fail(key="sequence fresh-run", what="line B on a project without config.yml produced no results", line=B, tail=fresh["tail"]))
    for name in ("same-session", "later-process", "fresh"):
        r = res[name]
        if want is not None and r["config"] != want:
            gen = [l for l in (r["config"] or "").split("\n") if l not in want.split("\n")]
            fails.append(Fail(key="generated-config %s" % name, what="config.yml generated for a project without one is not the rendering of the defaults; "
                              "differing lines: %s" % gen[:8], first_line=A if name != "fresh" else B))
        if name == "fresh":
            continue
        rb = r["results"]["b"]
        if sorted(f.rsplit(".", 1)[-1] for f in r["results"]["a"]) != ["xyz"] * 3:
            fails.append(Fail(key="sequence %s line-A" % name, what="line A (ResultFileExt=xyz) produced %s" % sorted(r["results"]["a"]), line=A, tail=r["tail"]))
        if rb != fresh["results"]["b"]:
            diff = [f for f in set(rb) | set(fresh["results"]["b"]) if rb.get(f) != fresh["results"]["b"].get(f)]
            fails.append(Fail(key="sequence %s history-dependence" % name,
                              what="line B run after line A (%s, project without config.yml) does not give the results of line B on a fresh project: files %s vs %s, differing %s — "
                                   "the configuration of a run must be the defaults overlaid by its own line only" % (name, sorted(rb), sorted(fresh["results"]["b"]), sorted(diff)[:6]),
                              line_A=A, line_B=B, generated_config_excerpt=[l for l in (r["config"] or "").split("\n") if re.match(r"(ResultFileExt|NDeposition|LeachingDepth|AutoIrrigation):", l)]))
    ctx.extra["sequence_scenarios"] = len(res)
    return fails


def _use_runs(ctx):
    """the value of an enumerated key is the one the run USES: whole runs of the real simulator on examples/ex1 at the first and
    the last documented value (and the ones between). InitSelection 1..4 (ALLE / field id / polygon / soil id): the measurement
    file holds one row per identifier with different Nmin, the first output day must show the row the value selects;
    ETpot 1..4, CO2method 1..3, PTF 0..4: different methods, the daily output of every value differs from every other."""
    h2g = ctx.repo_bin("src/hermes2go", "hermes2go")
    base = "project=ex1 WeatherFolder=historical soilId=075 fcode=109_120 plotNr=10001 Altitude=73 Latitude=52.6732 poligonID=29872 EndDate=12311981"
    rows = [("ALLE", 10), ("SOYSM1", 20), ("10001", 30), ("075", 40)]      # InitSelection 1, 2, 3, 4 for this line (poly_ex1.txt: 10001 001 SOYSM1)

    def prepare(name, conf_edit=None):
        ex = os.path.join(ctx.work, "use_" + name)
        shutil.copytree(os.path.join(REPO, "examples"), ex)
        ef = os.path.join(ex, "project", "ex1", "endit_ex1.txt")
        hdr = open(ef).read().split("\n")[0]
        with open(ef, "w") as fh:
            fh.write(hdr + "\n" + "".join("%-9s 10011980 %04d %04d %04d 1 0.700 0.660 0.666 0001   0001    0001     0.800 0.800  0.200  \n" % (k, v, v * 8 // 10, v // 2)
                                          for k, v in rows) + "end\n")
        if conf_edit:
            cf = os.path.join(ex, "project", "ex1", "config.yml")
            txt = open(cf).read()
            open(cf, "w").write(re.sub(conf_edit[0], conf_edit[1], txt, flags=re.M))
        return ex

    def run(ex, lines):
        bf = os.path.join(ex, "use_batch.txt")
        with open(bf, "w") as fh:
            fh.write("".join(l + "\n" for l in lines))
        p = subprocess.run([h2g, "-module", "batch", "-concurrent", "4", "-batch", bf], cwd=ex, stdout=subprocess.PIPE, stderr=subprocess.STDOUT, text=True, timeout=600)
        return p.stdout[-300:]

    def daily(ex, folder):
        rd = os.path.join(ex, "RESULT", folder)
        vs = [f for f in (os.listdir(rd) if os.path.isdir(rd) else []) if f.startswith("V")]
        return open(os.path.join(rd, vs[0]), errors="replace").read() if vs else None

    def first_nmin(content):
        for l in (content or "").split("\n"):
            if re.match(r"\d\d\.\d\d\.\d{4} ", l):
                w = l.split()
                return int(w[10]) if len(w) > 10 and w[10].isdigit() else None
        return None

    enums = {"ETpot": [1, 2, 3, 4], "CO2method": [1, 2, 3], "PTF": [0, 1, 2, 3, 4]}
    ex1 = prepare("line")
    lines = ["%s resultfolder=RESULT/init%d InitSelection=%d" % (base, v, v) for v in (1, 2, 3, 4)]
    lines += ["%s resultfolder=RESULT/%s%d %s=%d" % (base, k, v, k, v) for k, vs in enums.items() for v in vs]
    ex2 = prepare("file", (r"^InitSelection:.*$", "InitSelection: 4"))
    with ThreadPoolExecutor(max_workers=2) as exr:
        t1, t2 = exr.map(lambda a: run(*a), [(ex1, lines), (ex2, [base + " resultfolder=RESULT/init4file"])])
    fails = []
    for v, (key, nm) in zip((1, 2, 3, 4), rows):
        got = first_nmin(daily(ex1, "init%d" % v))
        if got != round(nm / 3):
            fails.append(Fail(key="use InitSelection=%d line" % v, what="InitSelection=%d on the batch line: the measurement row %r (Nmin 0-3 dm %d kg/ha, i.e. %d per layer) must initialise "
                              "the profile; first output day shows %s in the top layer" % (v, key, nm, round(nm / 3), got), line=lines[v - 1], tail=t1))
    got = first_nmin(daily(ex2, "init4file"))
    if got != round(rows[3][1] / 3):
        fails.append(Fail(key="use InitSelection=4 file", what="InitSelection: 4 in config.yml: the soil-id row (Nmin %d per layer) must initialise the profile; first output day shows %s"
                          % (round(rows[3][1] / 3), got), tail=t2))
    for k, vs in enums.items():
        outs = {v: daily(ex1, "%s%d" % (k, v)) for v in vs}
        for v in vs:
            if outs[v] is None:
                fails.append(Fail(key="use %s=%d" % (k, v), what="%s=%d on the batch line: the run produced no daily output" % (k, v), tail=t1))
        for a in vs:
            for b in vs:
                if a < b and outs[a] is not None and outs[a] == outs[b]:
                    fails.append(Fail(key="use %s=%d" % (k, b if b == vs[-1] else a), what="%s=%d and %s=%d on the batch line give byte-identical daily output on examples/ex1: "
                                      "one of the two documented values is not the one the run uses" % (k, a, k, b)))
    ctx.extra["use_runs"] = len(lines) + 1
    ctx.extra["use_limits"] = ("enumerated keys observed in use: InitSelection 1..4 (exact row), ETpot 1..4, CO2method 1..3, PTF 0..4 (pairwise different output); "
                               "not observable on examples/ex1: GroundWaterFrom, PotMineralisation, WeatherFileFormat, Dateformat, ETpot=5 (need other input files)")
    return fails


def oracle(ctx, search):
    rc, out, err = _run(ctx)
    fails = []
    if rc != 0:
        fails.append(Fail(key="harness-crash", what="readConfig ended the process on a line without malformed numbers", stderr=err[-800:]))
    olines = [l for l in out.split("\n") if l.startswith("ORACLE ")]
    olines.sort(key=lambda l: 0 if " kind=sweep " in l else 1)       # the one-key replays first
    for line in olines:
        w = line.split()
        fails.append(Fail(key=" ".join(w[1:3] if w[1] == "generated-config" else w[1:5]), what=line[7:700]))
    # the same arguments in another order: identical real results
    groups = {}
    for k in _cache.get("cases") or [json.loads(l) for l in out.split("\n") if l.startswith("{")]:
        groups.setdefault(k["group"], []).append(k)
    ngroups = 0
    for g, ks in groups.items():
        if len(ks) > 1:
            ngroups += 1
            ref = (ks[0]["fatal"], json.dumps(ks[0]["diff"], sort_keys=True))
            for k in ks[1:]:
                if (k["fatal"], json.dumps(k["diff"], sort_keys=True)) != ref:
                    fails.append(Fail(key="order group", what="permuted arguments give a different configuration",
                                      line_a=" ".join(ks[0]["tokens"]), line_b=" ".join(k["tokens"]), a=ks[0]["diff"], b=k["diff"]))
    ctx.extra["oracle_permutation_groups"] = ngroups
    tok = _token_runs(ctx)
    tf = []
    for l in tok["lines"]:
        if l["observed"] != "Zq%d" % l["i"]:
            tf.append(Fail(key="tokenise %s" % "+".join(l["seps"]), what="batch line %r: hermes2go answered %r; with every argument taken as its own token the answer is "
                           "'invalid crop parameter name: Zq%d' (separators %s, lead %r, trail %r)" % (l["text"], l["error"], l["i"], l["seps"], l["lead"], l["trail"]),
                           replay="write the line to f; hermes2go -module batch -logoutput -batch f"))
    ctx.extra["oracle_tokeniser_lines"] = len(tok["lines"])
    fails = tf[:10] + _use_runs(ctx) + _seq_runs(ctx) + _whole_runs(ctx) + fails
    return fails[:50]


LEVEL_TEXT = ("Machine-checked proof (Coq) for every schema, project file and batch line: each field holds the parsed value of the "
              "last k=v token, else the file's value, else the default; the run aborts exactly on a malformed number; unknown keys "
              "and junk tokens change nothing; the result is independent of Go's map iteration order and of the order of the "
              "arguments. The schema is regenerated from the source on every run and the theorems are re-checked at it; the model is "
              "compared with the real readConfig on generated files/lines each run.")
LEVEL_NOTE = ("Trusted: Coq kernel + vm_compute; yaml.v3 (model starts from decoded values); strconv.ParseFloat as oracle table; the "
              "verif hook VerifConfig inside the real Run (token splitting, crop-override parsing, config generation and readConfig all run as shipped). Enum-typed keys "
              "(Dateformat, GroundWaterFrom) are integers to the override. On-off arguments outside the spelling table are ignored "
              "silently (file/default kept) — part of the theorem statement.")
TECHNIQUE = "Coq proof (induction over entries/tokens, permutation lemmas) + generated schema re-check + correspondence on the real readConfig + whole-run oracle"
