"""C13 — alternative input formats of the same content give identical results (DESIGN.md §6 C13).

Reduction: a run is write o simulate o load and simulate depends on the loaded state only, so byte-identical
results follow from LOADER AGREEMENT per format pair.

proof:           Prop_C13.v — the four date formats agree (from C12); classic crop reader = YAML reader o converter
                 (CropParamModel, character level, any number type) with the known differences as hypotheses;
                 fixed-width soil reader = CSV soil reader on the two renderings of an abstract profile (SoilModel);
                 text rotation reader = CSV rotation reader on the two renderings of an abstract rotation (RotaReaderModel);
                 text measurement reader = CSV measurement reader for every profile depth (MeasModel)
correspondence:  the REAL ReadCropParamClassic / ReadCropParamYml / ConvertCropParamClassicToYml vs the models on the
                 bytes of every shipped crop file (classic and .yml) and of generated variants, every field of the
                 loaded state / record bit for bit
oracle:          the property itself on the real binary: paired whole runs, result folders compared as bytes —
                 crop parameters classic / shipped YAML / YAML made by the shipped converter; generated projects
                 rendered with rotation, soil, measurements as txt and csv, in the four date formats, and with the
                 weather as per-year files / multi-year CSV / day-of-year layout
"""
import datetime, os, random, shutil, subprocess
from core import Corr, Fail, REPO
from props import fmtlib as F, cropcorr as CC

PROP_FILES = ["Prop_C13"]
RULE = ("every shipped crop parameter file (28 classic + 28 YAML) with zero / junk prior state and the perennial "
        "continuation, plus generated variants (numeric fields, BBCH codes, N-function-5 tokens re-drawn); a case is "
        "non-trivial when distinct (file bytes, reader, prior)")
TRUSTED = ["gopkg.in/yaml.v3 (decoding / encoding of YAML crop files)", "WeatherModel / WeatherProofs of property C04 (imported theorems, tied to the code by C04's correspondence)",
           "python renderers of the abstract project (rotation, soil, measurement, event, weather files)",
           "WeatherModel (C04) covers the weather loaders; here the weather clause rests on paired runs"]
ASSUMPTIONS = ["decimal text of <= 15 significant digits is one correctly rounded division m/10^k (strconv.ParseFloat)",
               "crop files: ASCII white space only; the initial-weight line has no multi-byte character before column 70",
               "weather layouts are compared on the content all three can express: no ET0 / sunshine / vapour columns, "
               "no station / wind height line, mean temperature = binary64 (tmin+tmax)/2, no CO2 column",
               "date-valued output columns (and the dates printed in the fertiliser-prediction file) are blanked when runs in different date formats are compared",
               "C13_crop_yaml_agree excludes stale RGA / RGB / SubOrgan (the classic reader keeps the previous crop's values unless the N-content function is 5, "
               "the YAML reader resets them); the oracle 'stale-field-read' checks on the real code that results do not depend on them then"]
LEVEL_TEXT = ("Machine-checked proof (Coq) of loader agreement for the date formats (from C12), for the crop "
              "parameter readers (classic fixed-column reader = YAML reader o shipped converter, for every "
              "well-formed classic file, any prior state, with the differences of the readers as explicit "
              "hypotheses), for the soil profile readers (fixed-width LoadSoil = LoadSoilCSV on the two renderings "
              "of every abstract profile whose texts fit their columns), for the crop rotation readers (text tokens "
              "= CSV cells with empty cells kept, for every renderable rotation, date format and field) and for the "
              "readers of the measured initial values (row -> per-layer values with the interval divisors, for every "
              "profile depth); the crop, soil, rotation and measurement models are run against the real readers / "
              "converter (the rotation reader through the arrays the real Input leaves) on shipped files and on "
              "generated variants each run (bit-exact); "
              "every clause of the property is evaluated on the real binary by paired whole runs compared as bytes.")
LEVEL_NOTE = ("partial proof: dates, crop parameter readers, soil readers, rotation readers and measurement readers (runs "
              "without automatic management) are proved at character level; for the weather clause the record-level "
              "theorems of the C04 development are imported (C13_weather_csv_cz_agree = layouts_agree of the multi-year "
              "CSV and day-of-year readers, C13_weather_values_agree for per-year vs multi-year loads) — file names "
              "(year extension), tokenisation and the per-year reader's year bookkeeping are covered here by the "
              "paired-run oracle only (series 1998-2004 around the extension switch, periods ending on 31 Dec of leap and "
              "non-leap years, start on 1 Jan, heights line, sentinels, calm days, precipitation correction; all three "
              "layouts pairwise). Trusted: Coq kernel/vm_compute, YAML codecs, python renderers (the soil renderings are "
              "checked against the Coq renderers), harness/driver. The refutation witness C13_bbch_difference_refuted "
              "evaluates primitive floats; the other theorems are axiom-free.")
TECHNIQUE = "Coq proof (character-level reader models, loader agreement) + bit-exact loaded-state correspondence + paired whole runs"

_cache = {}


# ------------------------------------------------------------------------------------------------
# generated variants of the shipped classic crop files

def _rand_num(rnd, width):
    kind = rnd.randrange(4)
    if kind == 0:
        return str(rnd.randrange(0, 10 ** min(width, 3)))
    if kind == 1:
        return "%.*f" % (rnd.randrange(1, 4), rnd.uniform(0, 9.99))
    if kind == 2:
        return "0.%0*d" % (min(3, width - 2), rnd.randrange(0, 10 ** min(3, width - 2)))
    return "." + str(rnd.randrange(0, 999))


def mutate_classic(rnd, lines):
    """re-draws some numeric fields (values stay plain decimals; partition rows keep sum 1 so that the converter accepts)"""
    ls = list(lines)
    nk, ne = F.classic_dims(ls)
    for k in (3, 5, 6, 7, 11, 12, 17):
        if rnd.random() < 0.5:
            ls[k] = ls[k][:65] + b"   " + _rand_num(rnd, 6).encode()
    if rnd.random() < 0.7:      # yield organ digit + fraction with 1..4 decimals, or exactly 1.0
        nd = rnd.randrange(1, 6)
        frac = "1.0" if nd == 5 else ".%0*d" % (nd, rnd.randrange(0, 10 ** nd))
        ls[10] = ls[10][:65] + str(rnd.randrange(0, nk + 1)).encode() + frac.encode()
    if rnd.random() < 0.3:      # N-content function 5 with its tokens in the text part of the line
        toks = " a=%s b=-%s org=S%d " % (_rand_num(rnd, 5), _rand_num(rnd, 5), rnd.randrange(0, 5))
        if rnd.random() < 0.3:
            toks = " a=%s " % _rand_num(rnd, 5)             # b and org missing: stale values stay in the classic reader
        ls[8] = (b"crop N-content no." + toks.encode()).ljust(65, b".")[:65] + b"   5"
    for i in range(ne):
        b0 = 19 + 13 * i
        if rnd.random() < 0.4:  # BBCH code on the headline (in the range the classic reader accepts)
            ls[b0] = ls[b0][:65].ljust(65, b"-") + (" %02d" % rnd.randrange(0, 100)).encode()
        for off in (1, 2, 3, 4, 5, 6, 7, 8, 9, 12):
            if rnd.random() < 0.3:
                ls[b0 + off] = ls[b0 + off][:65] + b"   " + _rand_num(rnd, 6).encode()
        if rnd.random() < 0.5 and nk >= 2:   # partition: two organs share 1
            a = rnd.randrange(0, 1001)
            vals = [0] * nk
            x, y = rnd.sample(range(nk), 2)
            vals[x], vals[y] = a, 1000 - a
            row = ls[b0 + 10]
            for L in range(nk):
                c = 25 + 8 * (L + 1)
                row = row[:c] + ("%.3f" % (vals[L] / 1000.0)).encode().rjust(5) + row[c + 5:]
            ls[b0 + 10] = row
        if rnd.random() < 0.3:
            L = rnd.randrange(nk)
            c = 25 + 8 * (L + 1)
            ls[b0 + 11] = ls[b0 + 11][:c] + ("0.%03d" % rnd.randrange(0, 200)).encode() + ls[b0 + 11][c + 5:]
    return ls


def _scale(rnd, text):
    """the number in a field text scaled by 0.8 .. 1.2, same number of decimals"""
    t = text.strip().decode()
    try:
        v = float(t)
    except ValueError:
        return None
    dec = len(t.split(".")[1]) if "." in t else 0
    return ("%.*f" % (dec, v * rnd.uniform(0.8, 1.2))).encode()


def mutate_gentle(rnd, lines, yifak=None):
    """a plausible variant for whole runs: numeric fields scaled by up to 20 %, partition rows untouched; yifak = number of
    decimals of the yield-organ fraction (5: exactly 1.0)"""
    ls = list(lines)
    nk, ne = F.classic_dims(ls)
    if yifak and len(ls[10]) > 65:
        frac = "1.0" if yifak == 5 else ".%0*d" % (yifak, rnd.randrange(10 ** (yifak - 1), 10 ** yifak) | 1)
        ls[10] = ls[10][:66] + frac.encode()
    idx = [3, 5, 6, 7, 11, 12, 17] + [19 + 13 * i + off for i in range(ne) for off in (1, 2, 6, 7, 8, 9, 12)]
    for k in idx:
        if rnd.random() < 0.5:
            t = _scale(rnd, ls[k][65:])
            if t is not None:
                ls[k] = ls[k][:65] + b"   " + t
    for i in range(ne):
        if rnd.random() < 0.3:
            b0 = 19 + 13 * i
            ls[b0] = ls[b0][:65].ljust(65, b"-") + (" %02d" % rnd.randrange(0, 100)).encode()
    return ls


def _run_variants(ctx):
    """[(name, file, bytes)] gentle variants for the paired runs (seeded)"""
    rnd = random.Random(ctx.seed * 31 + 2)
    par = os.path.join(REPO, "examples", "parameter")
    files = F.classic_files(par)
    out = []
    for k in range(150 if ctx.thorough else 12):
        fn, abbr, var = rnd.choice(files)
        ls = mutate_gentle(rnd, F.read_lines(os.path.join(par, fn)), yifak=[3, 4, 1, 2, 5, 3][k % 6])
        out.append(("%s~g%d" % (fn, k), fn, b"\n".join(ls) + b"\n"))
    return out


def _variants(ctx, env_conv=None):
    """[(name, bytes)] generated classic files (seeded)"""
    if "variants" in _cache:
        return _cache["variants"]
    rnd = random.Random(ctx.seed * 23 + 9)
    par = os.path.join(REPO, "examples", "parameter")
    files = F.classic_files(par)
    out = []
    for k in range(600 if ctx.thorough else 60):
        fn, abbr, var = rnd.choice(files)
        ls = mutate_classic(rnd, F.read_lines(os.path.join(par, fn)))
        out.append(("%s~%d" % (fn, k), fn, abbr, b"\n".join(ls) + b"\n"))
    _cache["variants"] = out
    return out


def correspond(ctx):
    c = Corr()
    par = os.path.join(REPO, "examples", "parameter")
    conv = ctx.repo_bin("src/cropfileconverter", "cropfileconverter")
    wd = os.path.join(ctx.work, "variants")
    os.makedirs(wd, exist_ok=True)
    jobs, plan, differ_jobs = [], [], []

    def job(kind, file, prior=0, cont=False, mode=0):
        jobs.append({"id": len(jobs), "kind": kind, "file": file, "prior": prior, "cont": cont, "mode": mode, "cropfile": "", "args": None})
        return len(jobs) - 1

    for fn, abbr, var in F.classic_files(par):
        p = os.path.join(par, fn)
        data = open(p, "rb").read()
        for prior, cont in ((0, False), (1, False), (1, True)):
            plan.append(("classic", fn, data, prior, cont, job("classic", p, prior, cont), None))
            if (prior, cont) == (1, False):
                cj = plan[-1][5]
        plan.append(("convert", fn, data, 0, False, job("convert", p), None))
        rid = job("record", p + ".yml")
        for prior, cont in ((0, False), (1, True)):
            plan.append(("yaml", fn + ".yml", None, prior, cont, job("yaml", p + ".yml", prior, cont), rid))
        differ_jobs.append((fn, cj, job("yaml", p + ".yml", 1, False)))      # classic (junk prior) vs YAML (junk prior)
        # rotation position 2 after the same crop / position 3 after another crop: the stand does NOT continue
        for mode in (2, 3):
            plan.append(("classic", fn + " rotation-mode %d" % mode, data, 1, False, job("classic", p, 1, False, mode), None))
            plan.append(("yaml", fn + ".yml rotation-mode %d" % mode, None, 1, False, job("yaml", p + ".yml", 1, False, mode), rid))
    conv_failed = 0
    for name, fn, abbr, data in _variants(ctx):
        p = os.path.join(wd, name.replace("~", "_v"))
        open(p, "wb").write(data)
        prior, cont = ((0, False), (1, False), (1, True))[len(plan) % 3]
        plan.append(("classic", name, data, prior, cont, job("classic", p, prior, cont), None))
        plan.append(("convert", name, data, 0, False, job("convert", p), None))
        # the shipped converter binary writes the YAML; the real YAML reader loads it
        q = subprocess.run([conv, "-input", p, "-output", p + ".yml"], stdout=subprocess.PIPE, stderr=subprocess.PIPE, text=True)
        if q.returncode == 0 and os.path.exists(p + ".yml"):
            rid = job("record", p + ".yml")
            plan.append(("yaml", name + " (converted)", None, prior, cont, job("yaml", p + ".yml", prior, cont), rid))
        else:
            conv_failed += 1
    res = CC.run_jobs(ctx, jobs)
    # which state fields do the two readers leave different after reading the same crop over the same (junk) prior state?
    differ = {}
    for fn, jc, jy in differ_jobs:
        oc, oy = res.get(jc, {}), res.get(jy, {})
        if "f" in oc and "f" in oy:
            names = [CC.field_name(i) for i, (x, y) in enumerate(zip(oc["f"], oy["f"])) if x != y] + \
                    [CC.field_name(10000 + i) for i, (x, y) in enumerate(zip(oc["z"], oy["z"])) if x != y]
            for nme in names:
                differ.setdefault(nme, []).append(fn)
            extra = [nme for nme in names if nme not in ("RGA", "RGB", "SubOrgan")]
            if extra:
                c.mismatches.append({"kind": "reader-difference", "file": fn, "what": "classic and YAML reader leave other fields than RGA/RGB/SubOrgan "
                                     "different over the same prior state", "fields": extra})
    ctx.extra["fields_the_classic_and_yaml_reader_leave_different"] = {k_: "%d of %d shipped files (the classic reader keeps the previous crop's value "
                                                                          "unless the N-content function is 5)" % (len(v), len(differ_jobs)) for k_, v in differ.items()}
    cs = CC.CaseSet(per_shard=40 if not ctx.thorough else 80)
    seen = set()
    for kind, name, data, prior, cont, jid, rid in plan:
        o = res.get(jid)
        if kind == "classic":
            cs.add(lambda file, data=data, o=o: "CClassic %d%%nat %s %s None %s" % (file(data), CC.b(prior), CC.b(cont), CC.obs_term(o)),
                   "classic reader %s prior=%d cont=%s" % (name, prior, cont))
        elif kind == "convert":
            cs.add(lambda file, data=data, o=o: "CConvert %d%%nat %s" % (file(data), CC.obs_term(o)), "converter %s" % name)
        else:
            r = res.get(rid)
            if r is None or "err" in r:
                c.mismatches.append({"kind": "yaml-decode", "file": name, "what": str(r)[:300]})
                continue
            cs.add(lambda file, r=r, o=o: "CYaml %s %s %s None %s" % (CC.rec_term(r), CC.b(prior), CC.b(cont), CC.obs_term(o)),
                   "yaml reader %s prior=%d cont=%s" % (name, prior, cont))
        seen.add((kind, name, prior, cont))
        c.bump("reader=" + kind); c.bump("shipped" if "~" not in name else "generated")
        c.bump("prior=%s%s" % ("junk" if prior else "zero", "+perennial-continuation" if cont else ""))
    CC.evaluate(ctx, c, cs, "Cases_C13")
    soil_correspond(ctx, c)
    rota_correspond(ctx, c)
    meas_correspond(ctx, c)
    predyear_correspond(ctx, c)
    c.nontrivial = len(seen)
    c.dist["generated_variants_rejected_by_converter"] = conv_failed
    c.samples = ["%s %s" % (p[0], p[1]) for p in plan[:4] + plan[-3:]]
    c.notes.append("compared per case: every field of the crop state (369 floats, 25+ integers) or of the converted record, bit for bit")
    c.notes.append("weather readers: record-level theorems imported from C04 (WeatherModel); file naming / tokenisation by paired runs only")
    c.notes.append("fields the classic and the YAML crop reader leave different over the same prior state: see fields_the_classic_and_yaml_reader_leave_different "
                   "(any field outside RGA / RGB / SubOrgan is a mismatch)")
    return c


# ------------------------------------------------------------------------------------------------
# soil loaders: SoilModel vs the real LoadSoil / LoadSoilCSV

SOIL_F = ["BULK", "CGEHALT", "CNRATIO", "NGEHALT", "HUMUS", "STEIN", "FKA", "WP", "GPV", "SSAND", "SLUF", "TON"]


def _soil_name(pos):
    if pos >= 20000:
        return {99997: "texture-list-length", 99999: "float-list-length", 99998: "int-list-length", 77777: "model accepts, code rejects",
                88888: "model rejects, code accepts", 70000: "error vs Fatal", 66661: "python txt rendering differs from render_txt",
                66662: "python csv rendering differs from render_csv"}.get(pos, "BART[%d]" % (pos - 20000))
    if pos >= 10000:
        k = pos - 10000
        return ["AZHO", "WURZMAX", "GW", "DRAIDEP", "N"][k] if k < 5 else ("UKT[%d]" % ((k - 5) // 2 + 1) if (k - 5) % 2 == 0 else "LD[%d]" % ((k - 5) // 2))
    return "DRAIFAK" if pos == 0 else "%s[%d]" % (SOIL_F[(pos - 1) % 12], (pos - 1) // 12)


def _sobs(o):
    if o is None or o.get("err") == "fatal":
        return "SCrash"
    if "err" in o:
        return "SErr"
    return "(SOk [%s] [%s]%%Z [%s])" % ("; ".join(CC.fl(x) for x in o["f"]), "; ".join("(%d)" % z for z in o["z"]),
                                         "; ".join('"%s"' % x for x in o["s"]))


def _aprofile_term(P):
    hs = "; ".join("[%s]" % "; ".join('"%s"' % (h[k].strip() if k == "tex" else h[k]) for k in ("corg", "tex", "depth", "ld", "stone", "cn", "fc", "wp", "ps", "sand", "silt", "clay"))
                   for h in P.soil)
    return '(mk_aprofile "%s" "%s" "%s" "%s" "%s" [%s])' % (P.sid, P.rootdepth, P.draindepth, P.drainpct, P.gw, hs)


def soil_correspond(ctx, c):
    import glob, json
    rnd = random.Random(ctx.seed * 37 + 21)
    wd = os.path.join(ctx.work, "soils")
    os.makedirs(wd, exist_ok=True)
    jobs, plan = [], []

    def job(file, csv, sid, gw):
        jobs.append({"id": len(jobs), "file": file, "csv": csv, "sid": sid, "gw": gw})
        return len(jobs) - 1

    for p in sorted(glob.glob(os.path.join(REPO, "examples", "project", "*", "soil_*"))):
        csv = p.endswith(".csv")
        data = open(p, "rb").read()
        ids = []
        for ln in data.decode("utf-8", "replace").split("\n")[1:]:
            sid = ln.split(",")[0] if csv else ln[:3]
            if len(sid) == 3 and sid not in ids:
                ids.append(sid)
        if not ctx.thorough and len(ids) > 10:
            ids = rnd.sample(ids, 10)
        for sid in ids + ["zzz"]:
            gw = rnd.random() < 0.5
            plan.append(("load", os.path.relpath(p, os.path.join(REPO, "examples", "project")), data, csv, gw, sid, job(p, csv, sid, gw)))
    for k in range(120 if ctx.thorough else 30):
        P = F.Proj()
        P.sid = "%03d" % rnd.randrange(1000)
        P.soil = F.gen_soil(rnd)
        if k % 7 == 3:                        # malformed: texture too long / not a number / too deep
            bad = rnd.randrange(3)
            if bad == 0:
                P.soil[-1]["tex"] = "SL33"
            elif bad == 1:
                P.soil[0]["cn"] = "1x"
            else:
                P.soil[-1]["depth"] = "25"
        if k % 5 == 1:
            for h in P.soil:
                h["tex"] = h["tex"].strip().lower()
        P.rootdepth, P.draindepth, P.drainpct, P.gw = "%02d" % rnd.randrange(1, 20), "%02d" % rnd.randrange(5, 21), rnd.choice(["00", "10", "0.5"]), "%02d" % rnd.randrange(5, 100)
        t, cv = F.render_soil(P, "txt").encode(), F.render_soil(P, "csv").encode()
        tp, cp = os.path.join(wd, "g%d.txt" % k), os.path.join(wd, "g%d.csv" % k)
        open(tp, "wb").write(t); open(cp, "wb").write(cv)
        gw = rnd.random() < 0.5
        widths_ok = all(len(h[f]) <= w for h in P.soil for f, w in (("corg", 4), ("tex", 3), ("depth", 2), ("stone", 2), ("cn", 3)))
        if widths_ok:
            plan.append(("render", "generated %d" % k, (t, cv), None, None, P, None))
        plan.append(("load", "generated %d txt" % k, t, False, gw, P.sid, job(tp, False, P.sid, gw)))
        plan.append(("load", "generated %d csv" % k, cv, True, gw, P.sid, job(cp, True, P.sid, gw)))
    # the real loaders
    vh = ctx.harness()
    jf = os.path.join(ctx.work, "soil_jobs.json")
    json.dump(jobs, open(jf, "w"))
    res, start = {}, 0
    import re as _re
    while start < len(jobs):
        q = subprocess.run([vh, "soilstate", "-jobs", jf, "-from", str(start)], stdout=subprocess.PIPE, stderr=subprocess.PIPE, text=True, timeout=600)
        for line in q.stdout.split("\n"):
            if line.startswith("{"):
                o = json.loads(line); res[o["id"]] = o
        if q.returncode == 0:
            break
        last = [int(x) for x in _re.findall(r"(?m)^JOB (\d+)$", q.stderr)]
        kk = last[-1] if last else start
        res[kk] = {"id": kk, "err": "fatal"}
        start = kk + 1
    cs = CC.CaseSet(per_shard=25)
    pairs_equal = 0
    for kind, name, data, csv, gw, x, jid in plan:
        if kind == "render":
            cs.add(lambda file, data=data, x=x: "SRender %s %d%%nat %d%%nat" % (_aprofile_term(x), file(data[0]), file(data[1])), "renderers " + name)
        else:
            o = res.get(jid)
            if o and "consistent" in o and not o["consistent"]:
                c.mismatches.append({"kind": "soil-state", "case": name, "differs": ["GRLO/GRW/GW/CNRAT1 not the copies the model assumes"]})
            cs.add(lambda file, data=data, o=o: 'SLoad %d%%nat %s %s "%s" %s' % (file(data), CC.b(csv), CC.b(gw), x, _sobs(o)),
                   "soil loader %s sid=%s gw=%s" % (name, x, gw))
            c.bump("soil=" + ("csv" if csv else "txt")); c.bump("soil-result=" + ("ok" if o and "f" in o else "error" if o and o.get("err") != "fatal" else "fatal"))
    CC.evaluate(ctx, c, cs, "Cases_C13soil", fn="smismatches", casetype="scase",
                extra_import="From Hermes Require Import SoilModel C13SoilCorr.", kind="soil-state", namer=_soil_name)
    _cache["soil_res"] = (plan, res)
    return c


# ------------------------------------------------------------------------------------------------
# rotation reader: RotaReaderModel vs the real reader inside hermes.Input

def _robs(o):
    """observation term from an inputstate dump"""
    if o is None or o.get("err") == "fatal":
        return "RCrash", None
    if "crop" not in o:
        return ("RErr", None) if "not found" in (o.get("err") or "") else (None, "run failed before the first day: %s" % o.get("err"))
    crops = o["crop"]
    n = max([i for i, c_ in enumerate(crops) if c_] + [0])        # index of the entry behind the last one (crop SM)
    bad = []
    if crops[n] != "SM" or any(crops[n + 1:]):
        bad.append("entry behind the last")
    if o["ernte2"][:n] != o["ernte"][:n] or o["saat1"] != o["saat2"] or o["beginn"] != o["ernte"][0] or any(o["saat1"][n + 1:]):
        bad.append("ERNTE2/SAAT2/BEGINN are not the copies the model assumes")
    z = o["saat"][:n] + o["ernte"][:n] + [o["itag"]] + o["saat1"][:n + 1]
    f = o["odu"][:n] + o["jn"][:n] + o["ertr"][:n]
    term = "(ROk [%s] [%s] [%s]%%Z [%s])" % ("; ".join('"%s"' % x for x in crops[:n]), "; ".join('"%s"' % x for x in o["variety"][:n]),
                                             "; ".join("(%d)" % x for x in z), "; ".join(CC.fl(x) for x in f))
    return term, ("; ".join(bad) if bad else None)


def _arow_term(r):
    fld, crp, s, h, rex, yld, org, var, cmt = r
    return '(mk_arow ["%s"; "%s"; "%s"; "%s"; "%s"; "%s"; "%s"; "%s"] %s)' % (fld, crp, s, h, rex, yld, var, cmt,
                                                                           "None" if org is None else '(Some "%s")' % org)


def _rota_name(pos):
    return {77777: "model accepts, code rejects", 88888: "model rejects, code accepts", 70000: "error vs Fatal",
            66661: "python txt rendering differs from render_rot_txt", 66662: "python csv rendering differs from render_rot_csv",
            99997: "list length", 99998: "int list length", 99999: "float list length"}.get(
        pos, "crop[%d]" % (pos - 20000) if 20000 <= pos < 30000 else "variety[%d]" % (pos - 30000) if pos >= 30000 else
        "int#%d (saat.., ernte.., ITAG, SAAT1[0..n])" % (pos - 10000) if pos >= 10000 else "float#%d (odu.., jn.., ertr..)" % pos)


def rota_correspond(ctx, c):
    env = F.setup(ctx)
    rnd = random.Random(ctx.seed * 41 + 27)
    plan, lines = [], []
    D = datetime.date
    nproj = 40 if ctx.thorough else 10
    for k in range(nproj):
        crops = rnd.choice([(("SM", ""), ("SOY", "000")), (("WW", ""), ("SM", "")), (("SOY", "ii"), ("OA", "")), (("ZR", "chrnew"), ("SW", ""))])
        P = F.base_project(rnd, crops=crops, years=(1980, 1980 + rnd.randrange(2, 5)))
        fmt = rnd.choice(F.DATEFMTS)
        sep = rnd.choice(["", "", "."])
        bad = None
        if k % 5 == 3:        # malformed: dates not increasing / a cell that is no number / a blank line inside
            bad = rnd.choice(["order", "number", "blank"])    # (an unknown field ends in a Fatal of another reader of Input: not a rotation observation)
            if bad == "order":
                r = list(P.rot[-1]); r[2] = P.rot[-2][2]; P.rot[-1] = tuple(r)
            elif bad == "number":
                r = list(P.rot[1]); r[3] = "0x0"; P.rot[1] = tuple(r)
        # blank lines: behind a row of the field (ends the block, reading goes on) / where the outer loop reads (the text
        # reader stops, the CSV reader goes on)
        blank_at = rnd.choice([[2], [1], [3, 3], [2, 4]])
        for kind in ("txt", "csv"):
            nm = "ro%d%s" % (k, kind)
            F.write_project(env, nm, P, datefmt=fmt, rot=kind, sep=sep)
            path = os.path.join(env.ex, "project", nm, "crop_%s.%s" % (nm, kind))
            data = open(path, "rb").read()
            if bad == "blank":
                ls = data.split(b"\n")
                for at in blank_at:
                    ls.insert(at, b"")
                data = b"\n".join(ls); open(path, "wb").write(data)
            pkt = "NOFIELD" if bad == "field" else P.field
            if bad == "field":
                F_ = os.path.join(env.ex, "project", nm, "poly_%s.txt" % nm)
                open(F_, "w").write(open(F_).read().replace(P.field.ljust(9), pkt.ljust(9)))
            lines.append(F.line_for(nm, P))
            plan.append(("load", "%s rotation %d (%s%s%s)" % (kind, k, fmt, " sep=." if sep else "", " malformed:" + bad if bad else ""),
                         data, kind == "csv", F.DATEFMTS.index(fmt), pkt, len(lines) - 1))
        if not bad:
            rows = F.rotation_rows(P, fmt, sep)
            plan.append(("render", "rotation %d" % k, (F.render_rotation(P, fmt, "txt", sep).encode(), F.render_rotation(P, fmt, "csv", sep).encode()),
                         None, None, rows, None))
    # shipped rotation files through the shipped projects
    for proj, extra in (("ex1", "CropFileFormat=txt"), ("ex1", "CropFileFormat=csv")):
        cfgp = os.path.join(env.ex, "project", proj, "config.yml")
        cfg = open(cfgp, encoding="utf-8", errors="replace").read()
        import re as _re
        kind = "csv" if "csv" in extra or (not extra and _re.search(r"(?m)^CropFileFormat:\s*'?csv", cfg)) else "txt"
        fm = _re.search(r"(?m)^Dateformat:\s*(\w+)", cfg).group(1)
        path = os.path.join(env.ex, "project", proj, "crop_%s.%s" % (proj, kind))
        if not os.path.exists(path):
            continue
        poly = open(os.path.join(env.ex, "project", proj, "poly_%s.txt" % proj), errors="replace").read().split("\n")
        for row in poly[1:3]:
            t = row.split()
            if len(t) < 3:
                continue
            lines.append("project=%s WeatherFolder=historical soilId=%s fcode=109_120 plotNr=%s Altitude=73 Latitude=52.6732 poligonID=Z AutoIrrigation=0 %s"
                         % (proj, "075" if proj != "myP" else "075", t[0], extra))
            plan.append(("load", "shipped crop_%s.%s field %s" % (proj, kind, t[2]), open(path, "rb").read(), kind == "csv",
                         F.DATEFMTS.index(fm), t[2], len(lines) - 1))
    ist = input_states(ctx, env, lines)
    cs = CC.CaseSet(per_shard=20)
    skipped = 0
    for kind, name, data, csv, fm, x, li in plan:
        if kind == "render":
            cs.add(lambda file, data=data, x=x: "RRender [%s] %d%%nat %d%%nat" % ("; ".join(_arow_term(r) for r in x), file(data[0]), file(data[1])),
                   "renderers " + name)
            continue
        term, note = _robs(ist.get(li))
        if term is None:
            skipped += 1
            c.notes.append("rotation case skipped: %s: %s" % (name, note))
            continue
        if note:
            c.mismatches.append({"kind": "rotation-state", "case": name, "differs": [note]})
        cs.add(lambda file, data=data, term=term: 'RLoad %d%%nat %s %d%%Z 60%%Z "%s" %s' % (file(data), CC.b(csv), fm, x, term), "rotation reader " + name)
        c.bump("rotation=" + ("csv" if csv else "txt")); c.bump("rotation-result=" + term.split()[0].strip("("))
    CC.evaluate(ctx, c, cs, "Cases_C13rota", fn="rmismatches", casetype="rcase",
                extra_import="From Hermes Require Import SoilModel RotaReaderModel C13SoilCorr C13RotaCorr.", kind="rotation-state", namer=_rota_name)
    c.dist["rotation_cases_skipped"] = skipped
    return c


# ------------------------------------------------------------------------------------------------
# measurement readers: MeasModel vs the real ExtractMeasuredDataTxt / ExtractMeasuredDataCSV

def _meas_name(pos):
    return {10000: "NMESS", 10001: "MES[0]", 10002: "MESS[0]", 77777: "model accepts, code ends in Fatal", 88888: "model ends in Fatal, code accepts",
            70000: "row found vs no row", 66661: "python txt rendering differs from render_meas_txt",
            66662: "python csv rendering differs from render_meas_csv", 99999: "float list length"}.get(pos, "float#%d (WG[2][0..N], WNZ, KNZ1-6, CN[1][0..N-1])" % pos)


def meas_correspond(ctx, c):
    import json, re as _re
    rnd = random.Random(ctx.seed * 43 + 29)
    wd = os.path.join(ctx.work, "meas")
    os.makedirs(wd, exist_ok=True)
    jobs, plan = [], []
    D = datetime.date
    depths = list(range(3, 21)) * (4 if ctx.thorough else 1) + [1, 2]
    for k, n in enumerate(depths):
        P = F.Proj()
        fmt = rnd.choice(F.DATEFMTS); sep = rnd.choice(["", "", "."])
        mode = ["1", "2", "3", rnd.choice(["1", "0", "x"])][k % 4]
        def row(short=False):
            e = (D(1980 + rnd.randrange(3), 1 + rnd.randrange(12), 1 + rnd.randrange(28)), "%04d" % rnd.randrange(1, 60), "%d" % rnd.randrange(1, 40),
                 "%.1f" % rnd.uniform(1, 30), mode, "0.%03d" % rnd.randrange(100, 900), ".%02d" % rnd.randrange(10, 99), "0.%03d" % rnd.randrange(100, 900))
            if not short:
                e += ("%d" % rnd.randrange(1, 20), "%04d" % rnd.randrange(1, 20), "%.2f" % rnd.uniform(0.5, 25),
                      "0.%03d" % rnd.randrange(100, 900), "0.%02d" % rnd.randrange(10, 99), "0.%03d" % rnd.randrange(100, 900))
            return e
        ident = rnd.choice(["ALLE", "10001", "FLD1"])
        rows = [("OTHER", row()), (ident, row(short=(k % 7 == 5))), (ident, row()), ("ZZ9", row(short=True))]
        if k % 5 == 2:
            rows = rows[1:]
        if k % 9 == 4:
            rows = [r_ for r_ in rows if r_[0] != ident]          # no row of the plot
        P.endit = rows
        w = [round(rnd.uniform(0.2, 0.45), 3) for _ in range(21)]
        wmin = [round(x - rnd.uniform(0.05, 0.15), 3) for x in w]
        t, cv = F.render_endit(P, fmt, "txt", sep).encode(), F.render_endit(P, fmt, "csv", sep).encode()
        if k % 6 == 3:        # a blank line behind the first row of the plot
            for nm_ in ("t", "cv"):
                ls = (t if nm_ == "t" else cv).split(b"\n"); ls.insert(3, b"")
                if nm_ == "t": t = b"\n".join(ls)
                else: cv = b"\n".join(ls)
        if k % 8 == 6:        # malformed: a value that is no number / a row cut after the date
            t = t.replace(rows[1][1][5].encode() if len(rows) > 1 else b"0.", b"0,5x" if False else b"x5", 1)
            cv = cv.replace(rows[1][1][5].encode() if len(rows) > 1 else b"0.", b"x5", 1)
        tp, cp = os.path.join(wd, "m%d.txt" % k), os.path.join(wd, "m%d.csv" % k)
        open(tp, "wb").write(t); open(cp, "wb").write(cv)
        if k % 6 != 3 and k % 8 != 6:
            plan.append(("render", "measurement set %d" % k, (t, cv), None, F.endit_rows(P, fmt, sep), None))
        for data, path, csv in ((t, tp, False), (cv, cp, True)):
            jobs.append({"id": len(jobs), "file": path, "csv": csv, "ident": ident, "n": n, "fmt": F.DATEFMTS.index(fmt), "cent": 60,
                         "w": [float(x).hex() for x in w], "wmin": [float(x).hex() for x in wmin]})
            plan.append(("load", "%s measurement set %d (N=%d, mode %s, %s)" % ("csv" if csv else "txt", k, n, mode, fmt), data, csv,
                         (F.DATEFMTS.index(fmt), n, w, wmin, ident), len(jobs) - 1))
    vh = ctx.harness()
    jf = os.path.join(ctx.work, "meas_jobs.json")
    json.dump(jobs, open(jf, "w"))
    res, start = {}, 0
    while start < len(jobs):
        q = subprocess.run([vh, "measstate", "-jobs", jf, "-from", str(start)], stdout=subprocess.PIPE, stderr=subprocess.PIPE, text=True, timeout=600)
        for line in q.stdout.split("\n"):
            if line.startswith("{"):
                o = json.loads(line); res[o["id"]] = o
        if q.returncode == 0:
            break
        last = [int(x) for x in _re.findall(r"(?m)^JOB (\d+)$", q.stderr)]
        kk = last[-1] if last else start
        res[kk] = {"id": kk, "err": "fatal"}
        start = kk + 1
    cs = CC.CaseSet(per_shard=20)
    hexf = lambda xs: "[%s]" % "; ".join(CC.fl(float(x).hex()) for x in xs)
    for kind, name, data, csv, x, jid in plan:
        if kind == "render":
            terms = "; ".join('(mk_amrow "%s" "%s" [%s] "%s" [%s])' % (t_[0], t_[1], "; ".join('"%s"' % v for v in t_[2:5] + t_[9:12]), t_[5],
                                                                       "; ".join('"%s"' % v for v in t_[6:9] + t_[12:15])) for t_ in x)
            cs.add(lambda file, data=data, terms=terms: "MRender [%s] %d%%nat %d%%nat" % (terms, file(data[0]), file(data[1])), "renderers " + name)
            continue
        o = res.get(jid)
        fm, n, w, wmin, ident = x
        if o is None or o.get("err") == "fatal":
            obs = "MCrash"
        elif o["nmess"] == 0:
            obs = "MNone"
        else:
            obs = '(MOk (%d)%%Z "%s" (%d)%%Z [%s])' % (o["nmess"], o["mes"], o["mess"], "; ".join(CC.fl(v) for v in o["f"]))
        cs.add(lambda file, data=data, obs=obs: 'MLoad %d%%nat %s %d%%Z 60%%Z %d%%nat %s %s "%s" %s' % (file(data), CC.b(csv), fm, n, hexf(w), hexf(wmin), ident, obs),
               "measurement reader " + name)
        c.bump("measurement=" + ("csv" if csv else "txt")); c.bump("measurement-result=" + obs.split()[0].strip("("))
    CC.evaluate(ctx, c, cs, "Cases_C13meas", fn="mmismatches", casetype="mcase",
                extra_import="From Hermes Require Import SoilModel RotaReaderModel MeasModel C13SoilCorr C13RotaCorr C13MeasCorr.",
                kind="measurement-state", namer=_meas_name)
    return c


# ------------------------------------------------------------------------------------------------
# year of the fertiliser-prediction date: PredDateModel.langtag_year vs the real LangTagConverter

def predyear_correspond(ctx, c):
    import json
    rnd = random.Random(ctx.seed * 47 + 31)
    cases = []
    for k in range(400 if ctx.thorough else 80):
        fi = k % 4
        cent = [50, 60, 0, 100, 30][k % 5]
        lo, hi = (1900 + cent, 1999 + cent) if fi in (0, 2) else (1901, 2099)
        y = rnd.randrange(max(lo, 1901), min(hi, 2099) + 1)
        d = datetime.date(y, 1 + rnd.randrange(12), 1 + rnd.randrange(28))
        cases.append((fi, cent, F.fmt_date(d, F.DATEFMTS[fi], rnd.choice(["", "", "."])), y - 1900))
    jf = os.path.join(ctx.work, "predyear.txt")
    open(jf, "w").write("".join("%d %d %s\n" % t[:3] for t in cases))
    q = subprocess.run([ctx.harness(), "predyear", "-jobs", jf], stdout=subprocess.PIPE, stderr=subprocess.PIPE, text=True, timeout=300)
    obs = {json.loads(x)["k"]: json.loads(x)["year"] for x in q.stdout.split("\n") if x.startswith("{")}
    if q.returncode != 0 or len(obs) != len(cases):
        c.mismatches.append({"kind": "prediction-year", "what": "LangTagConverter ended in a Fatal on a date of the format's range", "stderr": q.stderr[-300:]})
        return c
    cs = CC.CaseSet(per_shard=10 ** 6)
    for k, (fi, cent, text, yr) in enumerate(cases):
        if obs[k] != yr:       # the property on the real code: the civil year
            c.mismatches.append({"kind": "prediction-year", "case": "%s %s split %d" % (F.DATEFMTS[fi], text, cent),
                                 "differs": ["LangTagConverter takes year %s, the date is in %d" % (obs[k] + 1900 if obs[k] >= 0 else "?", yr + 1900)]})
        cs.add(lambda file, t=(fi, cent, text, obs[k]): '((%d)%%Z, (%d)%%Z, "%s", (%d)%%Z)' % t, "prediction date %s %s split %d" % (F.DATEFMTS[fi], text, cent))
    CC.evaluate(ctx, c, cs, "Cases_C13pred", fn="pmismatches", casetype="(Z * Z * string * Z)",
                extra_import="From Hermes Require Import SoilModel RotaReaderModel MeasModel C13SoilCorr C13RotaCorr C13MeasCorr.",
                kind="prediction-year", namer=lambda p_: "model year %d" % p_)
    c.bump("prediction-dates", len(cases))
    return c


# ------------------------------------------------------------------------------------------------
# oracle: paired whole runs

def _crop_clause(ctx, env, rnd, fails, search):
    """classic vs shipped YAML vs YAML written by the shipped converter, per crop file"""
    par = os.path.join(env.ex, "parameter")
    files = F.classic_files(par)
    # parameter folder with every .yml regenerated by the converter binary
    conv_dir = os.path.join(env.ex, "parameter_conv")
    shutil.rmtree(conv_dir, ignore_errors=True)
    shutil.copytree(par, conv_dir)
    for fn, _, _ in F.classic_files(par):
        os.remove(os.path.join(conv_dir, fn + ".yml"))
        q = subprocess.run([env.conv, "-input", os.path.join(conv_dir, fn), "-output", os.path.join(conv_dir, fn + ".yml")],
                           stdout=subprocess.PIPE, stderr=subprocess.PIPE, text=True)
        if q.returncode != 0:
            fails.append(Fail(key="converter-rejects-shipped:%s" % fn, what="the shipped converter fails on a shipped crop file", stderr=q.stderr[-300:]))
    # generated variants get their own parameter folders
    var_dirs = []
    for name, fn, data in _run_variants(ctx):
        d = F.param_folder(env, "pv_" + name.replace("~", "_").replace(".", "_"), {fn: data})
        dd = os.path.join(env.ex, d[2:])
        os.remove(os.path.join(dd, fn + ".yml"))
        q = subprocess.run([env.conv, "-input", os.path.join(dd, fn), "-output", os.path.join(dd, fn + ".yml")],
                           stdout=subprocess.PIPE, stderr=subprocess.PIPE, text=True)
        if q.returncode == 0:
            var_dirs.append((name, fn, d))
    lines, groups = [], []
    stale_lines = _cache.setdefault("stale_lines", [])
    del stale_lines[:]
    pk = 0
    for fn, abbr, var in files:
        name = "cp%d" % pk; pk += 1
        P = F.base_project(rnd, crops=((abbr, var), (abbr, var)), years=(1980, 1983))
        F.write_project(env, name, P)
        i0 = len(lines)
        lines += [F.line_for(name, P), F.line_for(name, P, extra="CropParameterFormat=yml"),
                  F.line_for(name, P, extra="CropParameterFormat=yml parameter=./parameter_conv")]
        groups.append(("crop-yaml:" + fn, i0, i0 + 1, "classic crop file vs shipped YAML"))
        groups.append(("crop-converter:" + fn, i0, i0 + 2, "classic crop file vs YAML written by the shipped converter"))
        if pk % 5 == 1 or abbr == "ZR":
            stale_lines.append(lines[i0])
    # rotations in which a crop of N-content function 5 with a storage organ (sugar beet, org=S4) is FOLLOWED by crops of other
    # N functions: the classic reader leaves the beet's RGA / RGB / SubOrgan in place, the YAML reader resets them
    for b_ in range(4 if ctx.thorough or search else 2):
        seq = [("WW", ""), ("ZR", "chrnew" if b_ % 2 else ""), rnd.choice([("WW", ""), ("WG", "")]), ("SM", ""), rnd.choice([("K", ""), ("SW", "")]), ("SOY", "000")]
        name = "cb%d" % b_
        P = F.base_project(rnd, crops=tuple(seq), years=(1980, 1986))
        F.write_project(env, name, P)
        i0 = len(lines)
        lines += [F.line_for(name, P), F.line_for(name, P, extra="CropParameterFormat=yml"),
                  F.line_for(name, P, extra="CropParameterFormat=yml parameter=./parameter_conv")]
        groups.append(("crop-yaml-rotation:beet%d" % b_, i0, i0 + 1, "rotation with a sugar beet followed by other crops: classic vs shipped YAML"))
        groups.append(("crop-converter-rotation:beet%d" % b_, i0, i0 + 2, "rotation with a sugar beet followed by other crops: classic vs converter-made YAML"))
        stale_lines.append(lines[i0])
    rue = "project=rue WeatherFolder=historical fcode=109_120 plotNr=10001 soilId=001 Altitude=73 Latitude=52.6732 poligonID=29872"
    i0 = len(lines)
    lines += [rue, rue + " CropParameterFormat=yml", rue + " CropParameterFormat=yml parameter=./parameter_conv"]
    groups.append(("crop-yaml-rotation:shipped-rue", i0, i0 + 1, "shipped project rue (sugar beet in the rotation): classic vs shipped YAML"))
    groups.append(("crop-converter-rotation:shipped-rue", i0, i0 + 2, "shipped project rue: classic vs converter-made YAML"))
    stale_lines.append(rue)
    allf = {f[0]: f for f in F.classic_files(par)}
    for vname, fn, d in var_dirs:
        _, abbr, var = allf[fn]
        name = "cp%d" % pk; pk += 1
        P = F.base_project(rnd, crops=((abbr, var), (abbr, var)), years=(1980, 1982))
        F.write_project(env, name, P)
        i0 = len(lines)
        lines += [F.line_for(name, P, extra="parameter=%s" % d), F.line_for(name, P, extra="CropParameterFormat=yml parameter=%s" % d)]
        groups.append(("crop-converter-variant:" + vname, i0, i0 + 1, "generated classic crop file vs its converted YAML"))
    return lines, groups


def _encodings_clause(ctx, env, rnd, search):
    """one abstract project in every encoding of rotation / soil / measurements / dates"""
    lines, groups = [], []
    datefree = set()
    n = 40 if ctx.thorough or search else 6
    for k in range(n):
        allc = [(("SM", ""), ("SOY", "000")), (("WW", ""), ("SM", "")), (("ZR", "chrnew"), ("SW", "")), (("K", ""), ("WG", "")), (("SOY", "ii"), ("OA", ""))]
        crops = allc[k] if k < len(allc) else rnd.choice(allc)
        P = F.base_project(rnd, crops=crops, years=(1980, 1983))
        # profile depth: 16..19 dm in the quick tier (the 15-20 dm measurement interval is cut), every depth 3..20 dm in thorough
        total = [17, 20, 16, 18, 19, 20][k] if k < 6 else 3 + (k - 6) % 18
        P.soil = F.gen_soil(rnd, hydraulic=(k % 4 != 0), total=total)     # every 4th: table route (texture, density class, stone decide)
        P.cfg["PTF"] = 0 if k % 4 == 0 else rnd.choice([0, 0, 1, 2, 3, 4])
        P.cfg["LeachingDepth"] = min(15, total)
        if k % 6 in (1, 5):       # a shipped profile, python-rendered to CSV
            hs, first = F.parse_soil_txt(os.path.join(env.ex, "project", "ex1", "soil_ex1.txt"), rnd.choice(["002", "005", "075", "160", "041"]))
            if hs and first:
                P.soil = hs
                P.rootdepth, P.draindepth, P.drainpct, P.gw = first[32:34].strip(), first[62:64].strip(), first[67:70].strip(), first[70:72].strip()
        # measured initial water: mode 1 (share of the plant-available water), 2 (gravimetric, converted), 3 (volumetric); dated after the start
        md = ["1", "2", "3"][k % 3]
        e_ = list(P.endit)
        e_[4] = md
        if md != "1":
            for q_ in (5, 6, 7, 11, 12, 13):
                e_[q_] = "0.%03d" % rnd.randrange(100, 260 if md == "2" else 380)
        P.endit = tuple(e_)
        # a drain inside the profile; its share of the seepage as a fraction (0,1] or as a percentage (1,100]
        P.draindepth = "%02d" % rnd.randrange(4, 12)
        P.drainpct = ["0.5", "50", "1", "10", "0.3", "00"][k] if k < 6 else rnd.choice(["0.5", "0.3", "1", "10", "50", "100", "00", ".25"])
        base = "e%d" % k

        def add(tag, key, what, **kw):
            nm = "%s_%s" % (base, tag)
            F.write_project(env, nm, P, **kw)
            lines.append(F.line_for(nm, P))
            return len(lines) - 1
        b0 = add("base", None, None)
        groups.append(("rotation-txt-vs-csv:p%d" % k, b0, add("rot", None, None, rot="txt"), "rotation file as text vs CSV"))
        groups.append(("soil-txt-vs-csv:p%d" % k, b0, add("soil", None, None, soil="csv"), "soil profile as fixed-width text vs CSV"))
        groups.append(("measurement-txt-vs-csv:p%d" % k, b0, add("endit", None, None, endit="csv"), "measured initial values as text vs CSV"))
        groups.append(("all-csv:p%d" % k, b0, add("allcsv", None, None, rot="txt", soil="csv", endit="csv"), "all three alternative encodings at once"))
        d0 = add("d0", None, None, datefmt="DateDElong", drop_dates=True)
        for f in ("DateDEshort", "DateENshort", "DateENlong"):
            groups.append(("date-format:%s:p%d" % (f, k), d0, add(f, None, None, datefmt=f, drop_dates=True), "dates written as %s vs DateDElong" % f))
        groups.append(("date-format:separator:p%d" % k, d0, add("dsep", None, None, datefmt="DateDElong", sep=".", drop_dates=True),
                       "dates written dd.mm.yyyy vs ddmmyyyy"))
        if k == 0 or (ctx.thorough and k % 3 == 0):
            # the century split of the two-digit formats AT the first / last two-digit year of the run: all four formats pairwise
            for (ya, yb), cents in (((1980, 1981), (80, 79)), ((1998, 2000), (98, 1))):
                Q = F.base_project(rnd, crops=crops, years=(ya, yb))
                Q.soil, Q.cfg = P.soil, dict(P.cfg)
                for cent in cents:
                    qi = {}
                    for f in F.DATEFMTS:
                        nm = "%s_c%d%s%d" % (base, ya % 100, f[4:], cent)
                        F.write_project(env, nm, Q, datefmt=f, drop_dates=True, cfg={"DivideCentury": cent})
                        lines.append(F.line_for(nm, Q)); qi[f] = len(lines) - 1
                        datefree.add(len(lines) - 1)
                    for i1, f1 in enumerate(F.DATEFMTS):
                        for f2 in F.DATEFMTS[i1 + 1:]:
                            groups.append(("date-format:century-split-%d:%s-vs-%s:%d-%d:p%d" % (cent, f1[4:], f2[4:], ya, yb, k), qi[f1], qi[f2],
                                           "run %d-%d with DivideCentury %d, dates written as %s vs %s" % (ya, yb, cent, f1, f2)))
        if k % 3 == 0 or ctx.thorough:
            # fertiliser-demand prediction: the prediction date is written in the project's format too (19xx and 20xx, split at 50)
            for cy, (ya, yb) in (("19xx", (1980, 1983)), ("20xx", (1998, 2003))):
                Q = F.base_project(rnd, crops=crops, years=(ya, yb))
                Q.soil, Q.cfg = P.soil, dict(P.cfg)
                pd = datetime.date(ya + 2, 4, 5 + rnd.randrange(20))
                qi = {}
                for f in F.DATEFMTS:
                    nm = "%s_p%s%s" % (base, cy[:2], f[4:])
                    F.write_project(env, nm, Q, datefmt=f, drop_dates=True,
                                    cfg={"DivideCentury": 50, "VirtualDateFertilizerPrediction": "'%s'" % F.fmt_date(pd, f)})
                    lines.append(F.line_for(nm, Q)); qi[f] = len(lines) - 1
                    datefree.add(len(lines) - 1)
                for f in ("DateDEshort", "DateENshort", "DateENlong"):
                    groups.append(("date-format:prediction-%s:%s:p%d" % (cy, f, k), qi["DateDElong"], qi[f],
                                   "fertiliser prediction on %s, dates written as %s vs DateDElong" % (pd.isoformat(), f)))
    return lines, groups, datefree


def _weather_clause(ctx, env, rnd, search):
    lines, groups = [], []
    src = os.path.join(env.ex, "weather", "historical", "109_120.csv")
    D = datetime.date
    # periods: with the year 2000 (per-year file extensions .999 -> .000 -> .001), ending on 31 December of a leap year and of
    # a non-leap year; the series covers exactly the simulated years
    periods = [(1998, 2000), (1999, 2001)]
    if ctx.thorough or search:
        periods += [(1998, 2004), (2000, 2003), (1997, 1999), (1996, 2000), (1980, 1984), (2001, 2004), (1984, 1987), (1999, 2002)]
    for k, (y0, y1) in enumerate(periods):
        ser = F.read_weather_csv(src, y0, y1)
        P = F.base_project(rnd, years=(y0, y1))
        import copy as _copy
        P1 = _copy.deepcopy(P)                      # the simulation starts on 1 January (harvest of the preceding crop)
        P1.rot[0] = P1.rot[0][:2] + (D(y0, 1, 1),) + P1.rot[0][3:]

        def mod(date, **kv):
            return [(d, dict(r, **kv) if d == date else r) for d, r in ser]
        ymid = y0 + 1 + rnd.randrange(max(1, y1 - y0 - 1))
        serx = F.read_weather_csv(src, y0, y1 + 1)         # the series continues into the next year
        PA = _copy.deepcopy(P)                             # yearly output on 31.12 and end on 31.12: the run goes on to 1 January
        PA.annual = (12, 31)
        variants = [("plain", ser, (0, 1, 2), None),
                    ("annual-3112", serx, (0, 1, 2), None),
                    ("start-1jan", ser, (0, 1, 2), None),
                    ("heights", ser, (0, 1), None),          # third header line: station height, wind height 10 m
                    ("preco", ser, (0, 1, 2), None),         # monthly precipitation correction (shipped preco.txt)
                    ("precogen", ser, (0, 1, 2), None),      # ... with generated factors that change every month
                    ("sentinel-interior", mod(D(ymid, rnd.randrange(2, 12), rnd.randrange(2, 28)), tavg="-99.9"), (0, 1), None),
                    ("calm-31dec", mod(D(ymid, 12, 31), wind="0.1"), (0, 1, 2), None),
                    ("sentinel-31dec", mod(D(ymid, 12, 31), tavg="-99.9"), (0, 1), "weather-layout0-sentinel-at-year-edge"),
                    ("sentinel-1jan", mod(D(ymid + 1, 1, 1), tavg="-99.9"), (0, 1), "weather-layout0-sentinel-at-year-edge")]
        # an optional column that is USED (no global radiation: radiation and ET come from the sunshine hours) has values in the
        # first year(s) and only the none value in one later year: both layouts must treat that year alike (seeded C13-18)
        def sunshine(gap_year):
            out = []
            for d, r in ser:
                hrs = 2.0 + 9.0 * (1 - abs(d.timetuple().tm_yday - 183) / 183.0) * (0.35 + 0.65 * ((d.toordinal() * 7) % 11) / 10.0)
                # the day after the gap year has 0 h: the multi-year readers fill the LAST sentinel of the gap from its two neighbours (the
                # zeroed day before and the first day of the next year), the per-year reader has no next year loaded (finding F21's family)
                after = d.year == gap_year + 1 and d.month == 1 and d.day == 1
                out.append((d, dict(r, rad="0", sund=("-99.9" if d.year == gap_year else "0.0" if after else "%.1f" % hrs))))
            return out
        variants.append(("sunshine-gap-year", sunshine(ymid), (0, 1), None))
        if y1 > ymid:
            variants.append(("sunshine-gap-last-year", sunshine(y1), (0, 1), None))
        for vname, s, layouts, special in variants:
            idx = {}
            fac = ["%.2f" % (0.8 + 0.05 * ((m_ * 7 + k) % 12)) for m_ in range(12)]
            hts = (str(rnd.choice([5, 55, 120])), rnd.choice(["10", "10", "3.5"])) if vname == "heights" else None
            for lay in layouts:
                folder = "w%d_%s_%d" % (k, vname.replace("-", ""), lay)
                keys = F.render_weather(env.ex, folder, lay, "X", s, heights=hts)
                keys["WeatherFolder"] = '"%s"' % folder
                if vname.startswith("preco"):
                    keys["CorrectionPrecipitation"] = 1
                    with open(os.path.join(env.ex, "weather", folder, "preco.txt"), "w") as pf_:
                        if vname == "preco":
                            pf_.write(open(os.path.join(env.ex, "weather", "MUN", "preco.txt")).read())
                        else:
                            pf_.write("Mo Corr\n" + "\n".join("%2d %s" % (m_ + 1, fac[m_]) for m_ in range(12)))
                nm = "wx%d_%s_%d" % (k, vname.replace("-", ""), lay)
                Q = P1 if vname == "start-1jan" else PA if vname == "annual-3112" else P
                F.write_project(env, nm, Q, cfg=keys)
                lines.append(F.line_for(nm, Q, fcode="X"))
                idx[lay] = len(lines) - 1
            per = "%d-%d" % (y0, y1)
            for lay in layouts[1:]:
                key = ("%s:%s:%s:y%d" % (special, vname, per, ymid)) if special else ("weather-layout:0-vs-%d:%s:%s" % (lay, vname, per))
                groups.append((key, idx[0], idx[lay], "weather %s as one file per year vs %s (%s)" %
                               (per, "multi-year CSV" if lay == 1 else "day-of-year layout", vname)))
            if 1 in idx and 2 in idx:
                groups.append(("weather-layout:1-vs-2:%s:%s" % (vname, per), idx[1], idx[2],
                               "weather %s as multi-year CSV vs day-of-year layout (%s)" % (per, vname)))
    return lines, groups


def _sweep_clause(ctx, env, rnd):
    """CONFIGURATION SWEEP: every equivalence pair of a short project (1980-1982) with ONE configuration key away from the
    project's own configuration (pedotransfer functions, ET methods, CO2 methods, mineralisation method, ground-water source,
    the automation switches singly and in pairs, fertilisation scenario, InitSelection, leaching depth, file-extension override)"""
    lines, groups, datefree = [], [], set()
    P = F.base_project(rnd, crops=(("SM", ""), ("SOY", "000")), years=(1980, 1981 if not ctx.thorough else 1982))
    P.soil = F.gen_soil(rnd, hydraulic=True, total=20)
    P.draindepth, P.drainpct = "08", "0.5"
    F.sweep_endit(P)
    src = os.path.join(env.ex, "weather", "historical", "109_120.csv")
    ser = F.read_weather_csv(src, 1980, P.end.year)
    wk = {}
    for lay in (0, 1, 2):
        wk[lay] = F.render_weather(env.ex, "sw_w%d" % lay, lay, "X", ser)
        wk[lay]["WeatherFolder"] = '"sw_w%d"' % lay
    wke = F.render_weather(env.ex, "sw_we", 0, "X", ser, et0=True)
    wke["WeatherFolder"] = '"sw_we"'
    members = {"base": {}, "soil": {"soil": "csv"}, "rot": {"rot": "txt"}, "endit": {"endit": "csv"}, "dfmt": {"datefmt": "DateDEshort"}}
    for tag, cfgw in (("a", None), ("e", wke)):
        for m, kw in members.items():
            nm = "sw%s_%s" % (tag, m)
            F.write_project(env, nm, P, drop_dates=True, cfg=dict(cfgw) if cfgw else None, **kw)
            F.sweep_ready(env, nm, P, kw.get("datefmt", "DateENlong"))
    for lay in (0, 1, 2):
        F.write_project(env, "sww%d" % lay, P, drop_dates=True, cfg=wk[lay])
        F.sweep_ready(env, "sww%d" % lay, P)
    items = [("own configuration", "", False)] + F.sweep_items(ctx.thorough)
    for name, extra, et0 in items:
        tag = "e" if et0 else "a"
        fc = "X" if et0 else "109_120"
        ix = {}
        for m in members:
            lines.append(F.line_for("sw%s_%s" % (tag, m), P, fcode=fc, extra=extra)); ix[m] = len(lines) - 1
            datefree.add(len(lines) - 1)
        lines.append(F.line_for("sw%s_base" % tag, P, fcode=fc, extra=extra + " CropParameterFormat=yml")); ix["yml"] = len(lines) - 1
        datefree.add(len(lines) - 1)
        for m, what in (("soil", "soil txt vs csv"), ("rot", "rotation csv vs txt"), ("endit", "measurements txt vs csv"),
                        ("yml", "crop parameters classic vs YAML"), ("dfmt", "dates DateENlong vs DateDEshort")):
            groups.append(("sweep:%s:%s" % (m, name), ix["base"], ix[m], "%s with %s" % (what, name)))
        if not et0:
            w = {}
            for lay in (0, 1, 2):
                lines.append(F.line_for("sww%d" % lay, P, fcode="X", extra=extra)); w[lay] = len(lines) - 1
                datefree.add(len(lines) - 1)
            for a, b_ in ((0, 1), (0, 2), (1, 2)):
                groups.append(("sweep:weather-%d-vs-%d:%s" % (a, b_, name), w[a], w[b_], "weather layout %d vs %d with %s" % (a, b_, name)))
    return lines, groups, datefree


def _shipped_pairs(env):
    """format pairs shipped with the examples"""
    shutil.copy(os.path.join(env.ex, "project", "ex3", "endit_ex3_old_header.csv"), os.path.join(env.ex, "project", "ex3", "endit_ex3.csv"))
    t = "WeatherFolder=historical fcode=109_120 plotNr=10001 Altitude=73 Latitude=52.6732 poligonID=29872 EndDate=12311986"
    lines = ["project=ex1 soilId=075 %s CropFileFormat=txt" % t, "project=ex1 soilId=075 %s CropFileFormat=csv" % t,
             "project=ex3 soilId=075 %s MeasurementFileFormat=txt" % t, "project=ex3 soilId=075 %s MeasurementFileFormat=csv" % t,
             "project=ex1 soilId=160 %s" % t, "project=ex1 soilId=160 %s CropParameterFormat=yml" % t]
    groups = [("rotation-txt-vs-csv:shipped-ex1", 0, 1, "shipped crop_ex1.txt vs crop_ex1.csv"),
              ("measurement-txt-vs-csv:shipped-ex3", 2, 3, "shipped endit_ex3.txt vs endit_ex3_old_header.csv"),
              ("crop-yaml:shipped-ex1", 4, 5, "shipped project ex1 with classic vs YAML crop parameters")]
    return lines, groups


def input_states(ctx, env, lines):
    """{k: dump} of harness command inputstate (the real Input run in-process, arrays captured on the first day)"""
    import json, re as _re
    vh = ctx.harness()
    lf = os.path.join(ctx.work, "input_lines_%d.txt" % len(lines))
    with open(lf, "w") as f:
        for i, l in enumerate(lines):
            f.write("%s resultfolder=IST/l%d\n" % (l, i))
    out, start = {}, 0
    while start < len(lines):
        q = subprocess.run([vh, "inputstate", "-work", env.ex, "-lines", lf, "-from", str(start), "-n", "64"], stdout=subprocess.PIPE,
                           stderr=subprocess.PIPE, text=True, timeout=1200, cwd=env.ex)
        for line in q.stdout.split("\n"):
            if line.startswith("{"):
                o = json.loads(line); out[o["line"]] = o
        if q.returncode == 0:
            break
        last = [int(x) for x in _re.findall(r"(?m)^JOB (\d+)$", q.stderr)]
        kk = last[-1] if last else start
        out[kk] = {"line": kk, "success": False, "err": "fatal"}
        start = kk + 1
    shutil.rmtree(os.path.join(env.ex, "IST"), ignore_errors=True)
    return out


def _err_class(e):
    """a run error without what varies between two runs of the same failure (addresses, goroutine numbers, dates as printed)"""
    import re as _re
    e = _re.sub(r"0x[0-9a-f]+|goroutine \d+|\+0x[0-9a-f]+", "", e or "")
    e = _re.sub(r"\b\d\d\.\d\d\.\d\d(\d\d)?\b", "DATE", e)
    return ("process died" if e.startswith("process died") else e)[:160]


def stale_field_test(ctx, env, fails):
    """'does not read what the reader did not set': classic-format runs with RGA / RGB / SubOrgan overwritten every day while the
    current crop's N function is not 5 (harness stalerun) must give the results of the undisturbed runs"""
    import json
    ls = list(dict.fromkeys(_cache.get("stale_lines", [])))
    if not ls:
        return
    vh = ctx.harness()
    dig = {}
    info = {}
    for tag, flag in (("STA", []), ("STB", ["-perturb"])):
        lf = os.path.join(ctx.work, "stale_%s.txt" % tag)
        with open(lf, "w") as f:
            for i, l in enumerate(ls):
                f.write("%s resultfolder=%s/l%d\n" % (l, tag, i))
        q = subprocess.run([vh, "stalerun", "-work", env.ex, "-lines", lf] + flag, stdout=subprocess.PIPE, stderr=subprocess.PIPE,
                           text=True, timeout=1800, cwd=env.ex)
        info[tag] = {json.loads(x)["line"]: json.loads(x) for x in q.stdout.split("\n") if x.startswith("{")}
        for i in range(len(ls)):
            dig[(tag, i)] = F._digest(os.path.join(env.ex, tag, "l%d" % i))
        shutil.rmtree(os.path.join(env.ex, tag), ignore_errors=True)
    days = 0
    for i, l in enumerate(ls):
        a, b_ = dig[("STA", i)], dig[("STB", i)]
        days += info["STB"].get(i, {}).get("perturbed_days", 0)
        if not a or not b_:
            fails.append(Fail(key="stale-field-run-failed:%s" % l.split()[0], what="the classic-format run fails in-process: %s" %
                              (info["STA"].get(i) or info["STB"].get(i)), line=l))
        elif a != b_:
            d = sorted(k for k in set(a) | set(b_) if a.get(k) != b_.get(k))
            fails.append(Fail(key="stale-field-read:%s" % l.split()[0],
                              what="the results depend on RGA / RGB / SubOrgan while the current crop's N-content function is not 5 — fields the "
                                   "classic crop reader leaves at the previous crop's values and the YAML reader resets (result files %s differ)" % ",".join(d),
                              replay={"cwd": "scratch copy of /repo/examples with the generated project", "line": l,
                                      "how": "vh stalerun -perturb: every day with NGEFKT != 5 set RGA=7.25, RGB=-3.5, SubOrgan=2"}))
    ctx.extra["stale_field_runs"] = len(ls)
    ctx.extra["stale_field_days_overwritten"] = days


def oracle(ctx, search):
    env = F.setup(ctx)
    try:
        return _oracle(ctx, search, env)
    finally:
        shutil.rmtree(env.ex, ignore_errors=True)      # the scratch tree (generated projects, parameter folders) does not stay behind


def _oracle(ctx, search, env):
    rnd = random.Random(ctx.seed * 29 + 17)
    fails = []
    lines, groups = [], []
    env.datefree = set()
    for part in (_crop_clause(ctx, env, rnd, fails, search), _encodings_clause(ctx, env, rnd, search),
                 _weather_clause(ctx, env, rnd, search), _shipped_pairs(env), _sweep_clause(ctx, env, rnd)):
        off = len(lines)
        lines += part[0]
        groups += [(k, a + off, b_ + off, w) for k, a, b_, w in part[1]]
        if len(part) > 2:
            env.datefree |= {x + off for x in part[2]}
    stale_field_test(ctx, env, fails)
    runs = F.run_lines(env, "C13", lines, timeout=2400)
    # what the real Input left in the rotation arrays and the drain parameters, for the pairs of encodings
    want = sorted({x for key, a, b_, w in groups if key.startswith(("rotation-", "soil-", "all-csv", "measurement-", "date-format")) for x in (a, b_)})
    ist = input_states(ctx, env, [lines[x] for x in want])
    ist = {x: ist.get(k) for k, x in enumerate(want)}
    for key, a, b_, what in groups:
        if a in ist and b_ in ist:
            da, db = ist[a], ist[b_]
            if da is None or db is None or not da.get("success") or not db.get("success"):
                continue            # run errors are reported by the byte comparison below
            diff = [f for f in ("crop", "variety", "saat", "ernte", "ernte2", "saat1", "saat2", "odu", "jn", "ertr", "itag", "beginn", "draidep", "draifak")
                    if da.get(f) != db.get(f)]
            if diff:
                fails.append(Fail(key="input-state:" + key, what="%s: after Input the two encodings differ in %s" % (what, ", ".join(diff)),
                                  values={f: [da.get(f), db.get(f)] for f in diff[:4]},
                                  replay={"cwd": "scratch copy of /repo/examples with the generated project", "line_a": lines[a], "line_b": lines[b_]}))
    ctx.extra["input_states_compared"] = len(want)
    nontrivial = both_fail = 0
    both_fail_errors = {}
    for key, a, b_, what in groups:
        ra, rb = runs[a], runs[b_]
        if ra.err and rb.err:
            # both members end in a reported run error: no difference between the encodings (counted, never an alarm) — unless
            # the two errors are different ones
            ea, eb = _err_class(ra.err), _err_class(rb.err)
            if ea == eb:
                both_fail += 1
                both_fail_errors[ea] = both_fail_errors.get(ea, 0) + 1
            else:
                fails.append(Fail(key="different-run-errors:" + key, what="%s: the two runs end with different errors: %s | %s" % (what, ra.err[:200], rb.err[:200]),
                                  replay={"line_a": ra.line, "line_b": rb.line}))
            continue
        if F.same(ra, rb):
            nontrivial += 1
            continue
        fails.append(Fail(key=key, what="%s: %s" % (what, F.diff_what(ra, rb)), first_difference=F.first_diff(env, "C13", a, b_),
                          replay={"cwd": "scratch copy of /repo/examples with the generated project", "line_a": ra.line, "line_b": rb.line}))
    # several pairs in one session, in both orders: the sweep lines once more in reverse order
    sw = sorted({x for key, a, b_, w in groups if key.startswith("sweep:") for x in (a, b_)})
    if not ctx.thorough:
        sw = sw[ctx.seed % 3::3]
    if sw:
        env.datefree = set(range(len(sw)))
        rev = F.run_lines(env, "C13r", [lines[x] for x in reversed(sw)], timeout=1200)
        for pos, x in enumerate(reversed(sw)):
            if rev[pos].err != runs[x].err and (rev[pos].err is None or runs[x].err is None) or (rev[pos].err is None and rev[pos].files != runs[x].files):
                fails.append(Fail(key="sweep:session-order:%s" % lines[x].split("poligonID=G")[-1].strip().replace(" ", "_"),
                                  what="the same line gives other results when the session runs the lines in the reverse order",
                                  line=lines[x]))
    sweep_pairs = [g_ for g_ in groups if g_[0].startswith("sweep:")]
    ctx.extra["configuration_sweep"] = ("%d pairs: every equivalence pair (soil, rotation, measurements, crop parameters, date format, weather layouts pairwise) "
                                        "under the project's own configuration and under %d settings with one key changed (%s); all sweep lines also in reverse order"
                                        % (len(sweep_pairs), len(F.sweep_items(ctx.thorough)), ", ".join(i_[0] for i_ in F.sweep_items(ctx.thorough))))
    ctx.extra["paired_runs"] = len(lines)
    ctx.extra["pairs"] = len(groups)
    ctx.extra["pairs_identical"] = nontrivial
    ctx.extra["pairs_where_both_runs_end_with_the_same_run_error"] = both_fail
    ctx.extra["run_errors_common_to_both_members"] = both_fail_errors
    if groups and both_fail * 2 > len(groups):
        fails.append(Fail(key="oracle-vacuous", what="more than half of the pairs end in run errors on both sides: the run sets do not exercise the property",
                          errors=both_fail_errors))
    clause = {}
    for key, _, _, _ in groups:
        clause[key.split(":")[0]] = clause.get(key.split(":")[0], 0) + 1
    ctx.extra["pairs_per_clause"] = clause
    ctx.extra["run_wall_s"] = round(env.run_wall, 1)
    return fails
