"""C05 — output records: one per day, year and harvested crop, complete, in order.

proof:           Prop_C05.v  (daily_records, daily_dates, annual_records, ende_extension, crop_records, field_count;
                 annual_on_date refuted = F16)
correspondence:  whole runs of the real simulator over generated start/end/annual dates, output intervals 1..400, both
                 output styles, rotations of 1..6 entries and output configurations referencing every supported kind
                 of variable; the record dates / counts / field counts parsed from the V*/Y*/C* result files are
                 compared with CtrlModel.run_events and OutFmtModel evaluated in Coq
oracle:          the property itself, in python, on the same result files
"""
import datetime, os, random, re
from core import Corr, Fail, chunked_list
from props import wxlib, outfmtlib, c05fmtlib
from props.wxlib import daynum, date_of, doy, ylen, de, ONE

PROP_FILES = ["Prop_C05"]
RULE = ("one case = one whole run (start date, end date, annual date, interval, style, rotation, three output "
        "configurations); non-trivial = a record of a result file whose date/position/field count was compared")
TRUSTED = ["python datetime as the civil-calendar reference of the oracle",
           "the result files are parsed by python (header line skipped, CRLF records)",
           "python table of the Go types of the referenced variables (types.go) for the generated configurations; for the source's own "
           "configurations the Go types come from reflection (harness c05fmt)",
           "fmt.Sprintf renders %d %s %f with flags + - 0 and width/precision like python's % operator (both correctly rounded); "
           "fmt prints the operand for the verb/type pairs of OutFmtModel.verb_ok and '%!verb(...)' otherwise",
           "the exact-value twin column (same variable, format %x / %d / %s, no modifier) shows the value WriteLine saw"]
ASSUMPTIONS = ["weather complete for the simulated span (JTAG = days of the year); the incomplete case belongs to C04",
               "automatic sowing/harvest off (crop records of skipped crops are outside the property)",
               "fmt.Sprintf is modelled only as far as: one directive per format string, verb accepted for the column's type; the text of a "
               "field is tied on real runs (parse back + expected rendering), not proved",
               "a fixed-width field wider than its column shifts the rest of the line (counted in evidence, not an alarm: white-space "
               "separated field count stays the column count)",
               "rotation harvest dates strictly increasing (the rotation reader panics otherwise)"]

D = datetime.date
_cache = {}

DUAL = "(TStruct [(0%nat, TInt); (1%nat, TFloat); (2%nat, TInt)])"
# variable -> (Coq term of its Go type | None, sub-field number, format)
G_VARS = {
    "AKTUELL": ("TString", 0, "%s"), "TEMPdaily": ("TFloat", 0, "%x"), "N": ("TInt", 0, "%d"), "PKT": ("TString", 0, "%s"),
    "J": ("TInt", 0, "%d"), "JTAG": ("TInt", 0, "%d"), "REGENdaily": ("TFloat", 0, "%x"),
    "C1": ("(TArray 21 TFloat)", 0, "%x"), "WG": ("(TArray 3 (TArray 21 TFloat))", 0, "%.6f"), "UKT": ("(TArray 11 TInt)", 0, "%d"),
    "BART": ("(TArray 10 TString)", 0, "%s"), "TAG.Index": (DUAL, 0, "%d"), "TAG.Num": (DUAL, 1, "%v"), "DT.Num": (DUAL, 1, "%.1f"),
    "BREG": ("TSliceFloat", 0, "%v"), "NoSuchVariable": (None, 0, "%s"), "PRECO": ("TBool", 0, "%v"),
}
C_VARS = {
    "Crop": ("TString", 0, "%s"), "Code": ("TString", 0, "%s"), "HarvestYear": ("TInt", 0, "%d"), "HarvestDOY": ("TInt", 0, "%d"),
    "Yield": ("TFloat", 0, "%x"), "Biomass": ("TFloat", 0, "%.2f"), "BBCH_DOY": ("(TArray 100 TInt)", 0, "%d"),
    "SowDOY": ("TInt", 0, "%d"), "NoSuchVariable": (None, 0, "%s"), "SowDate": ("TString", 0, "%s"),
}


def _cols(rnd, table, first, n, allow_unsupported=False):
    names = [k for k in table if k not in first and (allow_unsupported or k != "PRECO")]
    pick = list(first) + [rnd.choice(names) for _ in range(n)]
    cols, spec = [], []
    for v in pick:
        ty, sub, fmt = table[v]
        i1 = i2 = None
        if ty and "TArray" in ty or ty == "TSliceFloat":
            i1 = rnd.randrange(0, 3)
            if v == "WG":
                i2 = rnd.randrange(0, 5)
            if rnd.random() < 0.1 and ty != "TSliceFloat":
                i1 = 400                                       # out of range -> NaValue
                fmt = "%s"
        mod = 10 if (ty == "TFloat" and rnd.random() < 0.2) else None
        cols.append(wxlib.column(v, fmt, 28, i1, i2, rnd.choice(["left", "right", "center"]), mod))
        spec.append("(%s, %d%%nat, %d%%nat, %d%%nat)" % ("Some %s" % ty if ty else "None", sub, i1 or 0, i2 or 0))
    return cols, spec


def gen_cases(ctx):
    rnd = random.Random(ctx.seed * 104729 + 5)
    n = 600 if ctx.thorough else 42
    cases = []
    for idx in range(n):
        sy = rnd.randrange(1952, 2050)
        start = D(sy, 1, 1) + datetime.timedelta(days=rnd.randrange(0, ylen(sy)))
        r = rnd.random()
        if r < 0.1:
            start = D(sy, 1, 1)
        elif r < 0.2:
            start = D(sy, 12, 31)
        span = rnd.choice([rnd.randrange(1, 60), rnd.randrange(300, 800), rnd.randrange(700, 1900)])
        end = start + datetime.timedelta(days=span)
        ann = D(end.year, rnd.randrange(1, 13), rnd.randrange(1, 29))
        r = rnd.random()
        if r < 0.15:
            ann = D(end.year, 12, 31)
        elif r < 0.25:
            ann = D(end.year, 1, 1)
        elif r < 0.35:
            ann = D(end.year, 3, 1)
        elif r < 0.45:
            ann = D(end.year, 10, 31)
        elif r < 0.5 and ylen(end.year) == 366:
            ann = D(end.year, 2, 29)
        if idx % 10 == 7:  # end date = annual date: ENDE is extended by one day (OUTY >= ENDE)
            ann = D(end.year, end.month, end.day)
        datefmt = "DateDElong"
        if idx in (1, 2):  # two-digit years across 31.12.1999 -> 01.01.2000 -> 2001 (century split 50)
            datefmt = ("DateDEshort", "DateENshort")[idx - 1]
            sy, start, end = 1998 + idx - 1, D(1998 + idx - 1, 11 - idx, 3 + 11 * idx), D(2001, 2 + idx, 9)
            ann = D(2001, rnd.choice([1, 6, 12]), rnd.choice([1, 15, 28]))
        elif idx in (8, 9):
            datefmt = ("DateENlong", "DateDEshort")[idx - 8]
            if datefmt.endswith("short") and not (1951 <= sy and end.year + 2 <= 2049):
                datefmt = "DateENlong"
        peryear = idx % 4 == 3
        if idx == 3:       # per-year weather files over seven years with leap years inside: JTAG (hence the day of the yearly record) must follow every file
            sy = rnd.choice([2009, 1977, 1993])
            start, end = D(sy, rnd.randrange(2, 11), rnd.randrange(1, 28)), D(sy + 7, rnd.randrange(1, 12), rnd.randrange(1, 28))
            ann = D(end.year, 9, 30)
            peryear = True
        special = None
        if idx == 6:
            # the year counter runs away (F9): per-year files, the 2012 file ends on 8 January, annual output on 5 January: a yearly
            # record every 8 days, more than 200 roll-overs (the yearly history arrays have 131 slots: F31) — every record must be written
            special, peryear, datefmt = "runaway", True, "DateDElong"
            sy, start, end, ann = 2011, D(2011, 12, 31), D(2018, rnd.randrange(6, 13), rnd.randrange(1, 28)), D(2018, 1, 5)
        if ctx.thorough and idx == n - 1:
            # more than 130 simulated years: a yearly record for every one of them
            special, peryear, datefmt = "long", False, "DateDElong"
            sy, start, end = 1951, D(1951, rnd.randrange(2, 6), rnd.randrange(1, 28)), D(2089, rnd.randrange(6, 12), rnd.randrange(1, 28))
            ann = D(2089, rnd.randrange(1, 13), rnd.randrange(1, 28))
        if idx == 0:       # the shipped ex3 pattern (F16): annual date 31 Oct, non-leap end year, leap years inside
            sy, start, end, ann = 1980, D(1980, 9, 30), D(1985, 12, 31), D(1985, 10, 31)
        eff = ann + ONE if ann >= end else end
        k = rnd.choice([1, 1, 1, 2, 3, 7, 10, 30, 365, rnd.randrange(1, 401), rnd.randrange(1, 401)])
        if idx in (1, 2):
            k = 1
        if special == "runaway":
            k = 30
        if special == "long":
            k = 365
        csv = rnd.random() < 0.5
        # rotation: first entry = previous crop (harvest = start); then crops with growing seasons
        rot = [("SM", None, start)]
        t = start
        for _ in range(0 if special else rnd.randrange(0, 6)):
            sow = t + datetime.timedelta(days=rnd.randrange(5, 260))
            har = sow + datetime.timedelta(days=rnd.randrange(90, 200))
            rot.append((rnd.choice(["SM", "SOY", "WW", "WG", "ZR", "K"]), sow, har))
            t = har
        unsupported = csv and rnd.random() < 0.12
        daily, dspec = _cols(rnd, G_VARS, ["AKTUELL"], rnd.randrange(0, 9), unsupported)
        if unsupported and not any(c["VariableName"] == "PRECO" for c in daily):
            daily.append(wxlib.column("PRECO", "%v", 28)); dspec.append("(Some TBool, 0%nat, 0%nat, 0%nat)")
        yearly, yspec = _cols(rnd, G_VARS, ["AKTUELL"], rnd.randrange(0, 6))
        crop, cspec = _cols(rnd, C_VARS, ["Crop", "HarvestYear", "HarvestDOY"] + (["SowDate"] if datefmt != "DateDElong" else []), rnd.randrange(0, 5))
        earlier = ()
        if special:
            pass
        elif idx % 5 == 2:
            earlier = ("longer",)
        elif idx % 5 == 4:
            earlier = rnd.choice([("same",), ("longer", "same"), ("longer", "longer")])
        rotmode = "contiguous" if special else ("contiguous", "interleaved", "first", "last", "interleaved")[idx % 5]
        cropcsv = (not special) and idx % 3 == 0
        pfcols = None
        if idx % 3 == 1 or special:
            pfcols, _sp = _cols(rnd, G_VARS, ["AKTUELL"], rnd.randrange(1, 6))     # optional pre-harvest output (pfout_conf.yml)
        mgmt = idx % 4 == 2
        if (not special) and idx % 11 == 10 and idx not in (1, 2):
            k = 0                                                                 # no time series: no daily file, no dailyout_conf.yml
            earlier = ()
        cases.append({"idx": idx, "sweep": None, "rotmode": rotmode, "cropcsv": cropcsv, "pfout": pfcols, "mgmt": mgmt, "special": special, "peryear": peryear, "datefmt": datefmt, "earlier": earlier, "sy": sy, "start": start, "end": end, "ann": ann, "eff": eff, "k": k, "csv": csv, "rot": rot,
                      "daily": daily, "yearly": yearly, "crop": crop, "spec": (dspec, yspec, cspec), "unsupported": unsupported})
    if not ctx.thorough or True:
        cases += sweep_cases(random.Random(ctx.seed * 7919 + 23), len(cases))
    return cases


def sweep_cases(rnd, idx0):
    """configuration sweep: short runs (two harvested crops, one year change, no leap year) with ONE configuration key or one pair of
    interacting switches away from the base: interval 1, fixed width, long German dates, txt rotation file, no optional output file"""
    out = []

    def add(name, **kw):
        sy = kw.pop("sy", None) or rnd.choice([1981, 1997, 2001, 2009, 2013, 2021])
        start = D(sy, rnd.randrange(3, 5), rnd.randrange(1, 28))
        rot = [("SM", None, start), ("SM", start + datetime.timedelta(days=rnd.randrange(10, 40)), D(sy, 9, rnd.randrange(5, 28))),
               ("SOY", D(sy + 1, 4, rnd.randrange(10, 28)), D(sy + 1, 9, rnd.randrange(5, 28)))]
        if kw.get("tillage"):
            # tillage events dated inside the standing first crop, on a day d and on d+1: a tillage waits in two-day hops for the automatic
            # harvest, whichever parity the harvest day has relative to it
            kw["tillage"] = [(20, 1, D(sy, 7, 10) + datetime.timedelta(days=kw["tillage"] - 1))]
        if kw.pop("late_crop", False):
            # a crop drilled 20-30 November with the latest harvest date 10 December: it cannot emerge, the automatic harvest has to
            # take it off on its latest date and the rotation goes on
            rot.insert(2, ("WG", D(sy, 11, 25), D(sy, 12, 10)))
            kw["automan_rows"] = [("WG", "1120", "1130", "1210")]
        end = D(sy + 1, 11 if kw.get("auto") else rnd.randrange(10, 12), rnd.randrange(1, 28))
        ann = D(sy + 1, 6, rnd.randrange(1, 28))
        datefmt = kw.pop("datefmt", "DateDElong")
        daily, dspec = _cols(rnd, G_VARS, ["AKTUELL"], 2)
        yearly, yspec = _cols(rnd, G_VARS, ["AKTUELL"], 1)
        crop, cspec = _cols(rnd, C_VARS, ["Crop", "HarvestYear", "HarvestDOY"] + (["SowDate"] if datefmt != "DateDElong" else []), 1)
        c = {"idx": idx0 + len(out), "sweep": name, "rotmode": "contiguous", "cropcsv": False, "pfout": None, "mgmt": False, "special": None,
             "peryear": False, "datefmt": datefmt, "earlier": (), "sy": sy, "start": start, "end": end, "ann": ann, "k": 1, "csv": False, "rot": rot,
             "daily": daily, "yearly": yearly, "crop": crop, "spec": (dspec, yspec, cspec), "unsupported": False}
        if kw.get("ann") == "end":
            kw["ann"] = end
        elif kw.get("ann") == "start":
            kw["ann"] = D(sy + 1, start.month, start.day)
        elif kw.get("ann"):
            kw["ann"] = D(sy + 1, kw["ann"][1], kw["ann"][0])
        if kw.get("pfout"):
            kw["pfout"] = _cols(rnd, G_VARS, ["AKTUELL"], 2)[0]
        c.update(kw)
        c["eff"] = c["ann"] + ONE if c["ann"] >= c["end"] else c["end"]
        out.append(c)
    for k in (0, 2, 7, 30, 365, 400):
        add("OutputIntervall=%d" % k, k=k)
    add("ResultFileFormat=1", csv=True)
    add("ResultFileExt=out", ext="out")
    add("ResultFileFormat=1 ResultFileExt=txt", csv=True, ext="txt")
    for nm, a in (("0101", (1, 1)), ("3112", (31, 12)), ("<end date>", "end"), ("<day and month of the start>", "start"), ("0103", (1, 3))):
        add("AnnualOutputDate=%s" % nm, ann=a)
    add("pfout_conf.yml", pfout=True)
    add("pfout_conf.yml ResultFileFormat=1", pfout=True, csv=True)
    add("pfout_conf.yml OutputIntervall=0", pfout=True, k=0)
    add("ManagementEvents=1", mgmt=True)
    add("ManagementEvents=1 ResultFileFormat=1", mgmt=True, csv=True)
    add("ManagementEvents=1 pfout_conf.yml", mgmt=True, pfout=True)
    add("CropFileFormat=csv", cropcsv=True)
    add("CropFileFormat=csv interleaved", cropcsv=True, rotmode="interleaved")
    add("rotation interleaved", rotmode="interleaved")
    add("WeatherFileFormat=0", peryear=True)
    for fmt, sy, div in (("DateDEshort", 2021, 30), ("DateENshort", 1981, 70), ("DateENlong", None, 50), ("DateDEshort", 2013, 15), ("DateENshort", 1997, 97)):
        add("Dateformat=%s DivideCentury=%d" % (fmt, div), datefmt=fmt, sy=sy, divide=div)
    for sw in ("AutoFertilization", "AutoIrrigation"):
        add("%s=1" % sw, auto={sw: 1})
    # the automan.txt of the base project spells its dates month-day: these lines run with Dateformat DateENlong
    add("AutoSowingHarvest=1 AutoHarvest=1 ManagementEvents=1 DateENlong", auto={"AutoSowingHarvest": 1, "AutoHarvest": 1}, mgmt=True, datefmt="DateENlong")
    add("AutoHarvest=1 ManagementEvents=1 DateENlong", auto={"AutoHarvest": 1}, mgmt=True, datefmt="DateENlong")
    add("AutoSowingHarvest=1 AutoHarvest=1 ManagementEvents=1 DateENlong late-sown crop", auto={"AutoSowingHarvest": 1, "AutoHarvest": 1}, mgmt=True,
        datefmt="DateENlong", late_crop=True)
    for par in (1, 2):
        add("AutoHarvest=1 ManagementEvents=1 DateENlong tillage inside the stand (day %d)" % par, auto={"AutoHarvest": 1}, mgmt=True,
            datefmt="DateENlong", tillage=par)
        add("AutoSowingHarvest=1 AutoHarvest=1 ManagementEvents=1 DateENlong tillage inside the stand (day %d)" % par,
            auto={"AutoSowingHarvest": 1, "AutoHarvest": 1}, mgmt=True, datefmt="DateENlong", tillage=par)
    add("AutoHarvest=1 ManagementEvents=1 DateENlong late-sown crop", auto={"AutoHarvest": 1}, mgmt=True, datefmt="DateENlong", late_crop=True)
    add("AutoSowingHarvest=1 ManagementEvents=1 DateENlong", auto={"AutoSowingHarvest": 1}, mgmt=True, datefmt="DateENlong")
    return out


def _describe(cs):
    return ("case %d%s%s start=%s EndDate=%s annual=%s OutputIntervall=%d ResultFileFormat=%d rotation harvests=%s columns=%d/%d/%d%s"
            % (cs["idx"], ((" Dateformat=%s" % cs["datefmt"]) if cs.get("datefmt", "DateDElong") != "DateDElong" else "") + (" WeatherFileFormat=0" if cs.get("peryear") else ""), (" [after %s run(s) into the same result folder: %s]" % (len(cs["earlier"]), "+".join(cs["earlier"]))) if cs.get("earlier") else "", cs["start"], cs["end"], cs["ann"], cs["k"], 1 if cs["csv"] else 0,
               [str(h) for _, _, h in cs["rot"]], len(cs["daily"]), len(cs["yearly"]), len(cs["crop"]),
               " rotation file: %s, plot's lines %s" % ("csv" if cs.get("cropcsv") else "txt", cs.get("rotmode", "contiguous"))
               + (" pfout_conf.yml=%d columns" % len(cs["pfout"]) if cs.get("pfout") else "") + (" ManagementEvents=1" if cs.get("mgmt") else "")
               + (" no dailyout_conf.yml" if cs["k"] == 0 else "") + ((" [sweep: %s]" % cs["sweep"]) if cs.get("sweep") else "")))


def _parse(path, cs, cols):
    """records of a result file: [(fields, raw line)]; the header line is skipped"""
    if not os.path.exists(path):
        return None
    data = open(path, newline="").read()
    lines = data.split("\r\n")
    if lines and lines[-1] == "":
        lines.pop()
    out = []
    widths = [c["Width"] for c in cols]
    for ln in lines[1:]:
        if cs["csv"]:
            out.append((ln.split(","), ln))
        elif len(ln) == sum(w + 1 for w in widths):
            # fixed width: column i occupies Width_i characters plus one fill character
            f, pos = [], 0
            for w in widths:
                f.append(ln[pos:pos + w].strip()); pos += w + 1
            out.append((f, ln))
        else:
            out.append((ln.split(), ln))
    return out


def _pdate(s):
    m = re.fullmatch(r"(\d\d)\.(\d\d)\.(\d\d\d\d)", s.strip())
    if not m:
        return None
    try:
        return D(int(m.group(3)), int(m.group(2)), int(m.group(1)))
    except ValueError:
        return None


def _run(ctx):
    if "runs" in _cache:
        return _cache["runs"]
    root = wxlib.make_tree(ctx, "c05")
    cases = gen_cases(ctx)
    rnd = random.Random(ctx.seed + 55)
    lo = min(c["sy"] for c in cases if not c.get("special"))
    hi = max(c["eff"].year for c in cases if not c.get("special"))
    ser = wxlib.gen_series(rnd, D(lo, 1, 1), D(hi + 1, 12, 31))
    # heavy rain on every harvest day: the day is computed in several sub-steps, the crop record must still be one
    harvest_days = set(h for c in cases for _, _, h in c["rot"])
    for d, r in ser:
        if d in harvest_days:
            r["prec"] = rnd.choice(["95.0", "160.0", "61.5"])
    wcfg1 = wxlib.write_weather(root, "w", 1, "WX", ser)
    wcfg0 = wxlib.write_weather(root, "w0", 0, "WX", ser)       # the same series as one file per year (layout 0)
    wspecial = {}
    if any(c.get("special") == "runaway" for c in cases):
        sr = wxlib.gen_series(rnd, D(2011, 1, 1), D(2012, 1, 8))
        wspecial["runaway"] = (wxlib.write_weather(root, "wr", 0, "WX", sr), "wr")
    if any(c.get("special") == "long" for c in cases):
        sl = wxlib.gen_series(rnd, D(1951, 1, 1), D(2090, 12, 31))
        wspecial["long"] = (wxlib.write_weather(root, "wl", 1, "WX", sl), "wl")
    lines, owner = [], []
    for c in cases:
        p = "r%03d" % c["idx"]
        dfm = c.get("datefmt", "DateDElong")
        wcfg, wfolder = (wcfg0, "w0") if c.get("peryear") else (wcfg1, "w")
        if c.get("special"):
            wcfg, wfolder = wspecial[c["special"]]
        cfg = dict(wcfg, WeatherFolder=wfolder, StartYear=c["sy"], EndDate=wxlib.fdate(c["end"], dfm), Dateformat=dfm, DivideCentury=c.get("divide", 50),
                   AnnualOutputDate=wxlib.fannual(c["ann"], dfm), OutputIntervall=c["k"],
                   ResultFileFormat=1 if c["csv"] else 0, ETpot=rnd.choice([1, 2, 3, 4]))
        if c.get("ext"):
            cfg["ResultFileExt"] = c["ext"]
        cfg.update(c.get("auto") or {})
        opts = dict(automan_rows=c.get("automan_rows"), tillage=c.get("tillage"), rot_mode=c.get("rotmode", "contiguous"), crop_csv=c.get("cropcsv", False), pfout=c.get("pfout"), management=c.get("mgmt", False))
        # a used result folder: one or two earlier runs into the SAME folder (same file names), longer / more records or
        # the same; the files must afterwards hold the records of the last run only
        for j, kind in enumerate(c.get("earlier", ())):
            pe = "%se%d" % (p, j)
            cfg0 = dict(cfg)
            if kind == "longer":
                cfg0["EndDate"] = wxlib.fdate(min(c["end"] + datetime.timedelta(days=400 + 150 * j), D(hi + 1, 6, 30)), dfm)
                cfg0["OutputIntervall"] = 1
            wxlib.write_project(root, pe, cfg0, c["rot"], c["daily"], c["yearly"], c["crop"], **opts)
            lines.append(wxlib.batch_line(pe, "WX", "R/" + p)); owner.append(None)
        c["pdir"] = wxlib.write_project(root, p, cfg, c["rot"], c["daily"], c["yearly"], c["crop"], no_daily_conf=(c["k"] == 0), **opts)
        lines.append(wxlib.batch_line(p, "WX", "R/" + p)); owner.append(c["idx"])
    rc, allruns, err = wxlib.run_lines(ctx, root, lines, False, "c05")
    runs = [r for r, o in zip(allruns, owner) if o is not None] if len(allruns) == len(lines) else []
    _cache["earlier_runs"] = [r for r, o in zip(allruns, owner) if o is None]
    obs = []
    for c, run in zip(cases, runs):
        rdir = os.path.join(root, "R", "r%03d" % c["idx"])
        ext = c.get("ext") or ("csv" if c["csv"] else "RES")
        o = {}
        present = sorted(os.listdir(rdir)) if os.path.isdir(rdir) else []
        for tag, cols in (("V", c["daily"]), ("Y", c["yearly"]), ("C", c["crop"]), ("P", c.get("pfout") or [])):
            files = [f for f in present if f.startswith(tag) and f.endswith("." + ext)]
            o[tag] = _parse(os.path.join(rdir, files[0]), c, cols) if len(files) == 1 else None
            if len(files) == 1:
                o.setdefault("hdr", {})[tag] = open(os.path.join(rdir, files[0]), newline="").read().split("\r\n")[0]
        if c["k"] == 0 and o["V"] is None:
            o["V"] = []                       # OutputIntervall 0: no daily file is the expected outcome
        mfiles = [f for f in present if f.startswith("M")]
        o["M"] = open(os.path.join(rdir, mfiles[0]), newline="").read() if len(mfiles) == 1 else None
        o["files"] = present
        obs.append(o)
    _cache["runs"] = (rc, cases, runs, obs, err)
    return _cache["runs"]


def _dates(recs, datefmt="DateDElong", split=50):
    """day numbers of the first column (AKTUELL) of the records; None when one does not parse"""
    out = []
    for f, ln in recs:
        d = wxlib.parse_out_date(f[0], datefmt, split) if f else None
        if d is None:
            return None
        out.append(daynum(d))
    return out


def _nfields(recs):
    ns = set(len(f) for f, ln in recs)
    if not ns:
        return "None"
    return "(Some %d%%Z)" % ns.pop() if len(ns) == 1 else "(Some (-1)%Z)"


def correspond(ctx):
    c = Corr()
    rc, cases, runs, obs, err = _run(ctx)
    ok, out = ctx.coq_make(["C04Corr", "OutFmtProofs"])
    if not ok:
        c.mismatches.append({"kind": "coq-build", "what": "C04Corr does not build", "output": out[-1500:]})
        return c
    if rc != 0 or len(runs) != len(cases):
        c.mismatches.append({"kind": "harness-crash", "rc": rc, "runs": len(runs), "of": len(cases), "stderr": err[-1500:]})
        return c
    ev_cases, fl_cases, ev_idx, fl_idx = [], [], [], []
    for cs, run, o in zip(cases, runs, obs):
        if _autoharv(cs):
            continue                      # sowing / harvest decided by the run: the oracle ties the crop records to the management events
        if any(o[t] is None for t in "VYC"):
            c.mismatches.append({"kind": "result-file-missing", "case": _describe(cs)})
            continue
        dd, yd = _dates(o["V"], cs.get("datefmt", "DateDElong"), cs.get("divide", 50)), _dates(o["Y"], cs.get("datefmt", "DateDElong"), cs.get("divide", 50))
        if dd is None or yd is None:
            c.mismatches.append({"kind": "record-date-unreadable", "case": _describe(cs)})
            continue
        st, en, an = cs["start"], cs["end"], cs["ann"]
        ev_cases.append("(mkcase5 %d (%d, %d, %d) (%d, %d, %d) (%d, %d) %d %s [%s] %s %s %s %d)" % (
            cs["sy"], st.day, st.month, st.year, en.day, en.month, en.year, an.day, an.month, cs["k"],
            "[(111, 365); (112, 8)]" if cs.get("special") == "runaway" else "[]",
            "; ".join("(%d, %d, %d)" % (h.day, h.month, h.year) for _, _, h in cs["rot"]),
            "true" if run["success"] else "false",
            chunked_list(["%d%%uint63" % x for x in dd], "int"), chunked_list(["%d%%uint63" % x for x in yd], "int"), len(o["C"])))
        ev_idx.append(cs)
        for tag, spec in zip("VYC", cs["spec"]):
            if not o[tag]:
                continue                  # no record in this file: nothing to count
            fl_cases.append("(%s, [%s], %s)" % ("true" if cs["csv"] else "false", "; ".join(spec), _nfields(o[tag])))
            fl_idx.append((cs, tag))
        c.nontrivial += len(o["V"]) + len(o["Y"]) + len(o["C"])
        c.bump("csv" if cs["csv"] else "fixed-width"); c.bump("interval-1" if cs["k"] == 1 else "interval>1")
        c.bump("rotation-%d" % len(cs["rot"]))
        c.bump("weather-per-year-files" if cs.get("peryear") else "weather-multi-year-file")
        if cs.get("earlier"):
            c.bump("after-earlier-runs-into-the-same-result-folder"); c.bump("earlier-" + "+".join(cs["earlier"]))
    hdr = ["From Coq Require Import ZArith List Bool Uint63.", "From Hermes Require Import CtrlModel C04Corr.",
           "Import ListNotations.", "Open Scope Z_scope."]
    items = []
    nsh = 8
    per = (len(ev_cases) + nsh - 1) // nsh or 1
    for k in range(0, len(ev_cases), per):
        items.append(("Cases_C05_ev%d" % (k // per), "\n".join(hdr + [
            "Definition cases : list c05case := [\n%s\n]." % ";\n".join(ev_cases[k:k + per]),
            "Definition M := Eval vm_compute in c05_mismatches %d cases." % k, "Print M."]) + "\n"))
    items.append(("Cases_C05_fields", "\n".join(hdr + [
        "Definition cases : list (bool * list colspec * option Z) := [\n%s\n]." % ";\n".join(fl_cases),
        "Definition F := Eval vm_compute in fields_mismatches 0 cases.", "Print F."]) + "\n"))
    for name, rc2, o in ctx.coq_eval_many(items, timeout=1500):
        if name.endswith("fields"):
            m = re.search(r"F\s*=\s*(.*?)\s*:\s*list nat", o, re.S)
            if rc2 != 0 or not m:
                c.mismatches.append({"kind": "coq-eval", "shard": name, "output": o[-1500:]}); continue
            for i in re.findall(r"\d+", m.group(1)):
                cs, tag = fl_idx[int(i)]
                c.mismatches.append({"kind": "field-count", "file": tag, "what": "records of the file have another number of fields than OutFmtModel",
                                     "observed": _nfields(obs[cs["idx"]][tag]), "case": _describe(cs)})
            continue
        m = re.search(r"M\s*=\s*(.*?)\s*:\s*list \(nat \* Z\)", o, re.S)
        if rc2 != 0 or not m:
            c.mismatches.append({"kind": "coq-eval", "shard": name, "output": o[-1500:]}); continue
        for i, code in re.findall(r"\(\s*(\d+)(?:%nat)?\s*,\s*(\d+)(?:%Z)?\s*\)", m.group(1)):
            code = int(code)
            c.mismatches.append({"kind": "events", "differs": [n for b, n in ((1, "daily record dates"), (2, "yearly record dates"), (4, "crop record count"), (8, "run result")) if code & b],
                                 "case": _describe(ev_idx[int(i)])})
        if m.group(1).strip() != "[]" and not re.search(r"\(\d+", m.group(1)):
            c.mismatches.append({"kind": "coq-eval", "shard": name, "output": o[-800:]})
    c.cases = len(ev_cases)
    c.samples = [_describe(cs) for cs in cases[:6]]
    # ---- formatting tie: the source's own configurations with exact-value twin columns, both styles
    fm, ff, fst = c05fmtlib.check(ctx)
    for m in fm[:20]:
        c.mismatches.append(m)
    for m in c05fmtlib.header_model_tie(ctx):
        c.mismatches.append(m)
    c.cases += len(c05fmtlib.run(ctx)[1])
    c.nontrivial += fst["fields"]
    for k, v in fst.items():
        c.dist["fmt_" + k] = v
    return c


def generate(ctx):
    """tie 3: the output configurations of the current source (built-in defaults of output_fmt.go, shipped yml files read by the
    real LoadHermesOutputConfig) -> gen/OutFmtConfigs.v + obligations gen/OutFmtCheck.v"""
    cfgs = outfmtlib.translate(ctx)
    _cache["gen_names"] = outfmtlib.write_gen(ctx, cfgs)
    _cache["gen_errors"] = [k for k in cfgs if "error" in cfgs[k]]
    rows = outfmtlib.scan_strings(ctx)
    _cache["gen_texts"], _cache["gen_dynamic"] = outfmtlib.write_strings_gen(ctx, cfgs, rows)


def gen_proofs(ctx):
    names = outfmtlib.GEN_THEOREMS
    broken = []
    ok, out = ctx.coq_make(["OutFmtProofs"])
    if not ok:
        return len(names), 0, [{"stage": "generated-proof", "what": "OutFmtProofs does not build: " + out[-1200:]}], names
    for k in _cache.get("gen_errors", []):
        broken.append({"stage": "generate", "what": "shipped output configuration %s is not readable by LoadHermesOutputConfig" % k})
    if not os.path.exists(os.path.join(ctx.gen, "OutFmtConfigs.v")):
        return len(names), 0, broken + [{"stage": "generate", "what": "OutFmtConfigs.v was not generated"}], names
    rc, out = ctx.coqc(os.path.join(ctx.gen, "OutFmtConfigs.v"), timeout=600)
    if rc:
        return len(names), 0, broken + [{"stage": "generated-proof", "what": "OutFmtConfigs.v does not compile: " + out[-1500:]}], names
    rc, out = ctx.coqc(os.path.join(ctx.gen, "OutFmtCheck.v"), timeout=900)
    closed = out.count("Closed under the global context")
    if rc or closed != len(names):
        broken.append({"stage": "generated-proof", "what": "OutFmtCheck.v (column kinds, format verbs, header cells of the configurations of the "
                                                           "current source) no longer checks: " + out[-1500:]})
        return len(names), 0, broken, names
    ctx.extra["output_configurations_checked"] = len(_cache.get("gen_names", []))
    # texts that can reach a text column: no separator, no line break
    names = names + ["text_sources_sepfree"]
    rc, out = ctx.coqc(os.path.join(ctx.gen, "OutFmtStrings.v"), timeout=600)
    if rc or out.count("Closed under the global context") != 1:
        bad = [(a, b, c_) for a, b, c_ in _cache.get("gen_texts", []) if any(ch in b for ch in ",;\n\r")]
        broken.append({"stage": "generated-proof", "what": "a text the source assigns to a text output column contains a CSV separator or a line break: "
                       + "; ".join("%s = %r (%s)" % x for x in bad[:5]) + " | " + out[-600:]})
        return len(names), len(names) - 1, broken, names
    ctx.extra["text_sources_checked"] = len(_cache.get("gen_texts", []))
    ctx.extra["text_sources_dynamic_not_checked"] = _cache.get("gen_dynamic", [])[:40]
    return len(names), len(names), broken, names


# ---------------------------------------------------------------------------------------------
# the property, directly

def _annual_expected(cs):
    out = []
    for y in range(cs["start"].year, cs["eff"].year + 1):
        try:
            d = D(y, cs["ann"].month, cs["ann"].day)
        except ValueError:
            continue                      # 29 Feb configured, year without one: the property names no date
        if cs["start"] <= d <= cs["eff"]:
            out.append(d)
    return out


def _autoharv(cs):
    a = cs.get("auto") or {}
    return bool(a.get("AutoSowingHarvest") or a.get("AutoHarvest"))


def _read_rotation(cs):
    """[(crop, sowing date | None, harvest date)] of the plot's field, read back from the project's rotation file"""
    dfm = cs.get("datefmt", "DateDElong")
    csvf = cs.get("cropcsv")
    path = os.path.join(cs["pdir"], "crop_%s.%s" % (os.path.basename(cs["pdir"]), "csv" if csvf else "txt"))
    def pd(t):
        t = t.strip()
        if not t or not t.isdigit():
            return None
        en, short = dfm.startswith("DateEN"), dfm.endswith("short")
        a, b, y = int(t[0:2]), int(t[2:4]), int(t[4:])
        if short:
            y = 2000 + y if y < cs.get("divide", 50) else 1900 + y
        dd, mm = (b, a) if en else (a, b)
        return D(y, mm, dd)
    out = []
    for ln in open(path).read().split("\n")[1:]:
        t = ln.split(",") if csvf else ln.split()
        if len(t) >= 4 and t[0].strip() == wxlib.FIELD:
            out.append((t[1].strip(), pd(t[2]), pd(t[3])))
    return out


def _annual_runaway(cs, jtag_by_key):
    """day loop calendar with JTAG taken from the per-year file found under the year's file NAME (path.go yearToExtension)"""
    def key(year):
        j = year - 1900
        return j if j < 100 else 100 + (j % 100 if j < 1000 else (j // 10) % 100)
    od = min(365, doy(cs["ann"]))
    tag, j = doy(cs["start"]) - 2, cs["sy"] - 1900
    jtag = jtag_by_key.get(key(cs["sy"]), 0)
    out, z = [], cs["start"]
    while z <= cs["eff"]:
        tag += 1
        if tag + 1 > jtag:
            j += 1; tag = 0
        if tag == 0:
            jtag = jtag_by_key.get(key(1900 + j), jtag)
        if tag + 1 == od:
            out.append(z)
        z += ONE
    return out


def _annual_f16(cs):
    """what F16 predicts: the record falls on day-of-year min(365, doy(annual date in the END year)) of every year"""
    od = min(365, doy(cs["ann"]))
    out = []
    for y in range(cs["start"].year, cs["eff"].year + 1):
        d = D(y, 1, 1) + datetime.timedelta(days=od - 1)
        if cs["start"] <= d <= cs["eff"]:
            out.append(d)
    return out


def oracle(ctx, search):
    rc, cases, runs, obs, err = _run(ctx)
    fails = []
    if rc != 0 or len(runs) != len(cases):
        fails.append(Fail(key="harness-crash", what="the simulator aborted (log.Fatal/panic) on a generated configuration",
                          stderr=err[-800:], completed_runs=len(runs)))
        return fails
    nrec = npre = nmgmt = nhdr = nauto = 0
    for cs, run, o in zip(cases, runs, obs):
        desc = _describe(cs)
        if not run["success"]:
            fails.append(Fail(key="run-error:%d" % cs["idx"], what="run ended with an error: %s" % run["err"], case=desc)); continue
        if any(o[t] is None for t in "VYC"):
            fails.append(Fail(key="result-file-missing:%d" % cs["idx"], what="a V/Y/C result file is missing", case=desc)); continue
        # ---- daily
        want = [date_of(z) for z in range(daynum(cs["start"]), daynum(cs["eff"]) + 1) if cs["k"] > 0 and z % cs["k"] == 0]
        dfm = cs.get("datefmt", "DateDElong")
        got = [wxlib.parse_out_date(f[0], dfm, cs.get("divide", 50)) if f else None for f, ln in o["V"]]
        if not cs["unsupported"] or cs["csv"]:
            if got != want:
                i = next((i for i, (a, b) in enumerate(zip(got, want)) if a != b), min(len(got), len(want)))
                fails.append(Fail(key="daily-records:interval%d:%d" % (cs["k"], cs["idx"]),
                                  what="daily file: %d records, expected %d; first difference at record %d: %s instead of %s"
                                       % (len(got), len(want), i, got[i] if i < len(got) else None, want[i] if i < len(want) else None), case=desc))
            elif any(b <= a for a, b in zip(got, got[1:])):
                fails.append(Fail(key="daily-order:%d" % cs["idx"], what="daily records not strictly increasing", case=desc))
        # ---- yearly
        wanty = _annual_expected(cs)
        goty = [wxlib.parse_out_date(f[0], dfm, cs.get("divide", 50)) if f else None for f, ln in o["Y"]]
        if cs.get("special") == "runaway":
            # no civil year behind the counter any more: the yearly record is due whenever the day-of-year counter reaches the annual
            # day — every 8 days here — also after the 131st roll-over
            wantr = _annual_runaway(cs, {111: 365, 112: 8})
            if goty != wantr:
                i = next((i for i, (a, b) in enumerate(zip(goty, wantr)) if a != b), min(len(goty), len(wantr)))
                fails.append(Fail(key="annual-records-after-many-rollovers:%d" % cs["idx"],
                                  what="yearly file: %d records, %d are due (one per pass of the day counter over the annual day); first "
                                       "difference at record %d: %s instead of %s" % (len(goty), len(wantr), i, goty[i] if i < len(goty) else None,
                                                                                   wantr[i] if i < len(wantr) else None), case=desc))
        elif goty != wanty:
            if goty == _annual_f16(cs) and (ylen(cs["eff"].year) == 366 or any(ylen(y) == 366 for y in range(cs["start"].year, cs["eff"].year + 1))):
                diffs = sorted(set(goty) ^ set(wanty))
                mode = "capped-365" if doy(cs["ann"]) == 366 else ("boundary-year-record" if len(goty) != len(wanty) else "displaced")
                fails.append(Fail(key="annual-record-off-by-one-leap:%s" % mode,
                                  what="yearly records on day-of-year %d of every year instead of %02d.%02d.: %s"
                                       % (min(365, doy(cs["ann"])), cs["ann"].day, cs["ann"].month, ", ".join(str(x) for x in diffs[:6])), case=desc))
            else:
                fails.append(Fail(key="annual-records:%d" % cs["idx"],
                                  what="yearly file: records %s, expected %s" % ([str(x) for x in goty][:8], [str(x) for x in wanty][:8]), case=desc))
        # ---- crops
        # one crop record per harvested rotation entry of the FILE: the rotation file is read back here, independently of how it
        # was generated (all lines whose first token is the plot's field, in file order; the first one is the previous crop)
        filerot = _read_rotation(cs)
        if [(a, c_) for a, b, c_ in filerot] != [(a, c_) for a, b, c_ in cs["rot"]]:
            fails.append(Fail(key="rotation-file-readback:%d" % cs["idx"], what="generator and read-back of the rotation file disagree", case=desc))
        wantc = [(crp, h) for crp, s, h in filerot[1:] if h <= cs["eff"]]
        if _autoharv(cs):
            # sowing / harvest decided by the run: one crop record per harvest event of the management file, dated like the event,
            # and one harvest per rotation entry (the run ends after the latest harvest date of the last crop)
            wantc, nauto = [], nauto + 1
            for ln in (o["M"] or "").split("\n"):
                t = ln.split(",") if "," in ln else ln.split()
                if len(t) >= 4 and t[1].strip() == "harvest":
                    wantc.append((t[3].strip(), wxlib.parse_out_date(t[0], dfm, cs.get("divide", 50))))
            if [a for a, b in wantc] != [crp for crp, s_, h in filerot[1:]]:
                fails.append(Fail(key="harvest-events:%d" % cs["idx"], what="management file: harvest events %s, the rotation file has the crops %s"
                                  % ([(a, str(b)) for a, b in wantc], [crp for crp, s_, h in filerot[1:]]), case=desc))
        gotc = []
        for f, ln in o["C"]:
            try:
                gotc.append((f[0].strip(), D(int(f[1]), 1, 1) + datetime.timedelta(days=int(f[2]) - 1)))
            except (ValueError, IndexError):
                gotc.append((ln, None))
        # the sowing date column of the crop records: the rotation's sowing date in the configured date format
        sd = [j for j, col in enumerate(cs["crop"]) if col["VariableName"] == "SowDate"]
        if sd and gotc == wantc and not _autoharv(cs):
            sows = [s_ for crp, s_, h in cs["rot"][1:] if h <= cs["eff"]]
            gots = [wxlib.parse_out_date(f[sd[0]], dfm, cs.get("divide", 50)) if len(f) > sd[0] else None for f, ln in o["C"]]
            if gots != sows:
                fails.append(Fail(key="crop-date-column:%d" % cs["idx"], what="crop file sowing dates %s, rotation says %s"
                                  % ([f[sd[0]].strip() for f, ln in o["C"]][:6], [str(x) for x in sows][:6]), case=desc))
        if _autoharv(cs) and [a for a, b in gotc] != [crp for crp, s_, h in filerot[1:]]:
            fails.append(Fail(key="crop-records-automatic-harvest:%d" % cs["idx"], what="crop file: records %s, the rotation file has the crops %s, all with "
                              "their latest harvest date inside the simulated period" % ([(a, str(b)) for a, b in gotc][:8], [crp for crp, s_, h in filerot[1:]]), case=desc))
        elif gotc != wantc:
            fails.append(Fail(key="crop-records:%d" % cs["idx"], what="crop file: records %s, expected %s"
                              % ([(a, str(b)) for a, b in gotc][:8], [(a, str(b)) for a, b in wantc][:8]), case=desc))
        # ---- optional pre-harvest file (pfout_conf.yml present and a time series written): one record on the day before every harvest
        exp_files = {"Y", "C"} | ({"V"} if cs["k"] > 0 else set()) | ({"P"} if (cs.get("pfout") and cs["k"] > 0) else set()) | ({"M"} if cs.get("mgmt") else set())
        got_files = set(f[0] for f in o["files"])
        if got_files != exp_files or len(o["files"]) != len(exp_files):
            fails.append(Fail(key="result-files:%d" % cs["idx"], what="result folder holds %s, the configuration asks for one file each of %s"
                              % (o["files"], sorted(exp_files)), case=desc))
        if "P" in exp_files and o["P"] is not None:
            wantp = [h - ONE for crp, s_, h in filerot[1:] if cs["start"] <= h - ONE <= cs["eff"]]
            gotp = [wxlib.parse_out_date(f[0], dfm, cs.get("divide", 50)) if f else None for f, ln in o["P"]]
            npre += len(wantp)
            if gotp != wantp:
                fails.append(Fail(key="pre-harvest-records:%d" % cs["idx"], what="pre-harvest file: records %s, expected the day before each harvest %s"
                                  % ([str(x) for x in gotp][:8], [str(x) for x in wantp][:8]), case=desc))
        # ---- management events file: every line is one event of one writer: date, event name, attributes
        if cs.get("mgmt") and o["M"] is not None:
            for ln in o["M"].split("\n"):
                if ln == "":
                    continue
                nmgmt += 1
                if os.environ.get("C05_DEBUG") and nmgmt < 6:
                    print("M:", repr(ln))
                t = ln.split(",") if "," in ln else ln.split()
                if wxlib.parse_out_date(t[0], dfm, cs.get("divide", 50)) is None or len(t) < 2 or t[1].strip() not in ("tillage", "irrigation", "sowing", "harvest", "fertilization", "fertilizer", "Sowing", "Harvest"):
                    fails.append(Fail(key="management-line:%d" % cs["idx"], what="management file line is not 'date, event, attributes': %r" % ln[:120], case=desc))
                    break
        # ---- fields
        for tag, cols in (("V", cs["daily"]), ("Y", cs["yearly"]), ("C", cs["crop"]), ("P", cs.get("pfout") or [])):
            if o.get(tag) is None:
                continue
            if cs["unsupported"] and tag == "V":
                continue
            width = sum(c["Width"] + 1 for c in cols)
            # one writer per file: the head line carries this file's column names, every record this file's column count
            hdr = (o.get("hdr") or {}).get(tag)
            names = [c["VariableName"].replace(".", "_") for c in cols]
            if hdr is not None and not cs["special"]:
                nhdr += 1
                toks = [t.strip() for t in hdr.split(",")] if cs["csv"] else hdr.split()
                if toks != names:
                    fails.append(Fail(key="head-line:%s:%d" % (tag, cs["idx"]), what="%s file: head line %r, the configuration of this file names the columns %s"
                                      % (tag, hdr[:200], names), case=desc))
            for f, ln in o[tag]:
                nrec += 1
                if len(f) != len(cols) or (not cs["csv"] and len(ln) != width):
                    fails.append(Fail(key="field-count:%s:%d" % (tag, cs["idx"]),
                                      what="%s file: a record has %d fields (line length %d), the configuration defines %d columns (width %d): %r"
                                           % (tag, len(f), len(ln), len(cols), width, ln[:200]), case=desc))
                    break
    ctx.extra["oracle_records_checked"] = nrec
    ctx.extra["oracle_pre_harvest_records_expected"] = npre
    ctx.extra["oracle_management_lines_checked"] = nmgmt
    ctx.extra["oracle_head_lines_checked"] = nhdr
    sw = [(cs, run) for cs, run in zip(cases, runs) if cs.get("sweep")]
    ctx.extra["configuration_sweep"] = {
        "what": "short runs (two harvested crops, one year change) with one configuration key or one pair of interacting switches away from the "
                "base (interval 1, fixed width, long German dates, txt rotation file, no optional output file); same oracles on every result file; "
                "under automatic sowing/harvest the crop records are tied to the harvest events of the management file",
        "lines": len(sw), "lines_run_ok": sum(1 for cs, run in sw if run["success"]), "automatic_harvest_lines": nauto,
        "keys": [cs["sweep"] for cs, run in sw]}
    ctx.extra["run_set"] = {"rotation_file_layouts": sorted(set(c["rotmode"] + ("/csv" if c["cropcsv"] else "/txt") for c in cases)),
                            "with_pfout_conf": sum(1 for c in cases if c.get("pfout")), "without_daily_conf": sum(1 for c in cases if c["k"] == 0),
                            "with_management_file": sum(1 for c in cases if c.get("mgmt"))}
    fm, ff, fst = c05fmtlib.check(ctx)
    for key, what in ff:
        fails.append(Fail(key=key, what=what))
    # the one text no example run shows: the instability flag of the nitrate transport, produced by the real nmove on a crafted
    # state and written in the CSV style with every configuration of the source
    tr = outfmtlib.unstable_text_records(ctx, os.path.join(ctx.work, "c05text"))
    if not tr.get("C1NotStableErr"):
        fails.append(Fail(key="instability-text-not-produced", what="the crafted transport step was not flagged as unstable (harness c05text)"))
    ntext = 0
    for r in tr.get("records", []):
        if r.get("err"):
            fails.append(Fail(key="text-record:%s" % r["config"], what="record not written: %s" % r["err"])); continue
        sep = (r.get("sep") or ",")[:1]
        body = r["line"].rstrip("\r\n")
        got = len(body.split(sep)) if "\n" not in body else -1
        ntext += 1
        if got != r["ncols"]:
            fails.append(Fail(key="text-field-with-separator:%s" % r["config"],
                              what="CSV record with the instability text %r has %d fields, the configuration defines %d columns: %r"
                                   % (tr.get("C1NotStableErr"), got, r["ncols"], body[:200])))
    ctx.extra["oracle_text_records_checked"] = ntext
    ctx.extra["oracle_formatted_fields_checked"] = fst["fields"]
    ctx.extra["fixed_width_lines_not_positional"] = fst["overflows"]
    return fails


LEVEL_TEXT = ("Machine-checked proof (Coq) about the model of the output triggers of the day loop for every start/end/annual "
              "date 1901-2099, interval and rotation; the model is run against the record dates, counts and field counts of "
              "the result files of whole runs of the real simulator each check; the property itself is evaluated on the same files.")
LEVEL_NOTE = ("F16 (yearly record on day-of-year OUTDAY of the END year) is a known finding: annual_on_date is refuted at "
              "model level next to annual_records. Header/record field counts and header cell positions are proved for every "
              "configuration of the current source (regenerated obligations); the text of a field is tied on real runs (parse back at "
              "the format's precision, byte-exact lines), not proved. No axioms.")
TECHNIQUE = "Coq proof (induction over the day loop + lia over the C12 calendar results) + whole-run model/code correspondence + direct oracle"
