"""C02 — soil mineral nitrogen mass balance closes on every simulated day (DESIGN.md §6 C02)."""
import os, re
from core import Corr, Fail
from props import waterlib, nitrolib, daynlib

PROP_FILES = ["Prop_C02", "Prop_C02b"]
RULE = ("synthetic nmove/mineral/Denitr states (3-20 layers; all four flux sign patterns at every interface incl. upward flow "
        "at the drain layer; drain depth anywhere; leaching depth inside and at the profile bottom; first and later "
        "sub-steps; near-zero contents that engage the clamps) and transitions replayed from traced real runs with the "
        "leaching depth at the profile bottom; a case is non-trivial when distinct and some flux or source term is non-zero")
TRUSTED = ["binary64 semantics of Go on amd64 = Coq primitive floats",
           "oracle inputs: math.Exp / math.Pow values are taken from Go (dispersion coefficient, rate constants, "
           "denitrification factors); the theorems use no fact about them except where stated (0 <= k <= 1)",
           "R->F gap: balances proved in exact real arithmetic; at binary64 observed residual <= 1e-8*(1+scale) on every traced day"]
ASSUMPTIONS = ["drain outflow occurs only on infiltration sub-steps (Water sets QDRAIN = 0 otherwise): hypothesis of the "
               "convection telescoping lemma", "leaching depth = profile bottom (as the property says)",
               "measurement-overwrite days and the annual counter reset are outside the day window used (evatra-pre .. dayend)"]
LEVEL_TEXT = ("Coq proof over the reals that the transport kernel conserves N for every layer count >= 2, every flux sign "
              "pattern and every sub-step length, with the non-negativity clamps as explicit non-negative terms, plus the "
              "instability-flag characterisation, the mineralisation source-term identity and the denitrification "
              "inequality; the same Gallina kernels are executed on binary64 and compared bit for bit with nmove, mineral "
              "and Denitr on synthetic and traced states; the whole-day N budget (uptake, mineralisation, dissolved "
              "fertiliser, N2O, leaching, drain loss, denitrification, deposition) is evaluated on every traced day.")
LEVEL_NOTE = ("Trusted: Coq kernel/vm_compute, Reals axioms of the standard library, primitive floats; rate constants and "
              "dispersion exponentials are oracle inputs; the day-level composition in run.go/Nitro (fertiliser, tillage, "
              "harvest bookkeeping) is covered by the trace oracle, not by a theorem.")
TECHNIQUE = "Coq proof (telescoping interface fluxes over seq, lra/nra) + bit-exact kernel correspondence + traced daily N budget"

_tr = {}


def n_trace(ctx):
    """traced runs with LeachingDepth at the profile bottom and nitrogen kernel replays"""
    if "r" in _tr:
        return _tr["r"]
    ex = waterlib.prepare_examples(ctx)
    nl, endy = (18, 1995) if ctx.thorough else (15, 1982)    # the same scenario lines as waterlib.run_trace
    lf = os.path.join(ctx.work, "ntrace_lines.txt")
    with open(lf, "w") as f:
        f.write("\n".join(l + " LeachingDepth=20" for l in waterlib.trace_lines(ctx, nl, endy)) + "\n")
    ne = 30 if ctx.thorough else 12
    rc, cases, orc, other, err = waterlib.run_harness(
        ctx, "trace", ["-work", ex, "-lines", lf, "-seed", str(ctx.seed), "-water-every", "1000000000", "-nitro-every", str(ne)])
    src, scases, sorc, serr = waterlib.run_sweep(ctx, " LeachingDepth=20")
    rc, cases, orc, err = rc or src, cases + scases, orc + sorc, err + serr
    _tr["r"] = (rc, cases, orc, err)
    return _tr["r"]


def _args(ctx):
    return ["-seed", str(ctx.seed), "-synth", str(2500 if ctx.thorough else 250), "-work", ctx.work]


def correspond(ctx):
    c = Corr()
    rc, cases, orc, other, err = waterlib.run_harness(ctx, "c02", _args(ctx))
    if rc != 0:
        c.mismatches.append({"kind": "harness-crash", "stderr": err[-1500:]}); return c
    trc, tcases, torc, terr = n_trace(ctx)
    if trc != 0:
        c.mismatches.append({"kind": "trace-crash", "stderr": terr[-1500:]})
    for r_ in [x for x in tcases if x["k"] == "run"]:
        if not r_["success"]:
            c.mismatches.append({"kind": "traced-run-failed", "run": r_})
    allc = cases + [x for x in tcases if x["k"] in ("nmove", "mineral", "denit", "denitmo", "till", "harv", "prog")]
    nitrolib.eval_cases(ctx, c, allc)
    seen = set()
    for x in allc:
        if x["k"] == "nmove":
            i = x["in"]
            seen.add((i["fluss0"], tuple(i["c1"]), tuple(i["q1"]), i["subd1"]))
            c.bump("nmove:" + i["tag"]); c.bump("nmove:substep=" + ("first" if i["subd1"] else "later"))
            c.bump("nmove:outn=" + ("bottom" if i["outn"] == i["n"] else "inside"))
            if i["draidep"] > 0 and float.fromhex(i["qdrain"]) > 0:
                neg = float.fromhex(i["q1"][i["draidep"]]) < 0 if i["draidep"] <= i["n"] else False
                c.bump("nmove:drain-active" + ("-with-upward-flow" if neg else ""))
        elif x["k"] == "mineral":
            seen.add(("m", tuple(map(tuple, x["layers"]))))
        elif x["k"] == "harv":
            i = x["in"]
            seen.add(("h", i["pesum"], i["jn"], tuple(i["nfos"])))
            jn = float.fromhex(i["jn"])
            c.bump("harvest:residues=" + {0.0: "stay", 1.0: "removed", 2.0: "whole-plant-stays"}.get(jn, "share-removed")
                   + ("/permanent-crop" if i["dauer"] else "") + ("/first-entry" if i["first"] else ""))
            c.bump("harvest:crop-row=" + ("last" if i["row"] == i["rows"] - 1 else "first" if i["row"] == 0 else "middle")
                   + ("" if i["final_newline"] else "/no-final-newline"))
        elif x["k"] == "prog":
            i = x["in"]
            seen.add(("p", i["c10"], i["dtgesn"]))
            capped = float.fromhex(x["out"]["c1"]) - float.fromhex(i["c10"]) < float.fromhex(i["dtgesn"]) - float.fromhex(i["angebot"]) - 1e-12
            c.bump("prognosis-dressing:" + ("supply-covers" if float.fromhex(i["angebot"]) >= float.fromhex(i["dtgesn"]) else "capped" if capped else "full"))
        elif x["k"] == "till":
            seen.add(("t", x["pre"]["eint"], tuple(x["pre"]["nfos"])))
            c.bump("tillage:depth=%g" % float.fromhex(x["pre"]["eint"]))
        else:
            seen.add(("d", tuple(x["in"]["c1"]), str(x["in"]["fth"])))
    c.nontrivial = len(seen)
    days = [x for x in tcases if x["k"] == "nday"]
    ctx.extra["traced_days_n_budget"] = len(days)
    ctx.extra["file_irrigation_events_checked_against_the_file"] = sum(x.get("file_irrigations_checked", 0) for x in tcases if x["k"] == "run")
    runs_ = [x for x in tcases if x["k"] == "run"]
    ctx.extra["traced_days_with_an_unstable_substep"] = max([x.get("unstable_days", 0) for x in runs_] or [0])
    ctx.extra["traced_days_with_an_unstable_substep_before_the_last"] = max([x.get("unstable_early_days", 0) for x in runs_] or [0])
    ctx.extra["nitro_calls_of_later_substeps_checked_for_bookings"] = max([x.get("later_substep_nitro_calls", 0) for x in runs_] or [0])
    ctx.extra["pre_harvest_days_checked_for_the_per_crop_fixation_figure"] = max([x.get("per_crop_fixation_checked", 0) for x in runs_] or [0])
    ctx.extra["resprouting_events_of_a_permanent_crop_checked"] = max([x.get("resprouting_events", 0) for x in runs_] or [0])
    ctx.extra["max_abs_n_residual"] = max([abs(d["res"]) for d in days] or [0.0])
    ctx.extra["traced_days_clamp_free"] = sum(1 for d in days if d["clean"])
    c.samples = [{k: (v if not isinstance(v, list) else v[:4]) for k, v in x["in"].items()} for x in allc[:2] if x["k"] == "nmove"]
    # whole-day tie: run.go's N glue + Nitro bookkeeping + mineral + k transport sub-steps + denitrification composed (DayNitroModel)
    daynlib.correspond_day(ctx, c)
    return c


ORACLE_KEYS = ("transport-balance", "transport-removes-n", "instability-flag", "n-balance-loss", "n-balance-gain",
               "deposition", "n-counter-not-carried", "instability-flag-lost", "irrigation-n", "irrigation-file-n", "irrigation-not-in-file", "negative-dissolution", "mineral-n-below-profile",
               "denit-removes-more-than-counted", "denit-balance")


def oracle(ctx, search):
    fails = []
    rc, cases, orc, other, err = waterlib.run_harness(ctx, "c02", _args(ctx))
    if rc != 0:
        fails.append(Fail(key="harness-crash", what="nitrogen kernel aborted", stderr=err[-800:]))
    trc, tcases, torc, terr = n_trace(ctx)
    if trc != 0:
        fails.append(Fail(key="trace-crash", what="traced run aborted", stderr=terr[-800:]))
    for l in orc + torc:
        if l.startswith(ORACLE_KEYS):
            fails.append(Fail(key=re.sub(r"(residual|delta|expected|before|after|counted|min-preclamp|zeit|water|file-mm|delta-minus-deposition|file-n|value|end-of-yesterday|ums-before|ums-after|dsumm|value|cell)=\S+", "", l)[:100].strip(), what=l))
    fails += daynlib.oracle_day(ctx, daynlib.C02_KEYS if ctx.id == "C02" else daynlib.C07_KEYS) or []
    return fails
