"""C11 — runs are isolated, always terminate, and failures are reported per run.

proof:           Prop_C11.v  (DispatchModel: termination / exactly-once, summary_exact, isolation;
                 LongdayModel: longday_terminates for every day-length oracle, day loop and sub-step loop)
correspondence:  (a) hermes.LangTagConverter against LongdayModel on the real day-length oracle of fixed and
                 random latitudes; (b) the real batch binary on batches mixing valid lines with ONE failing
                 line of each reported class at a seed-chosen position, concurrency 1/2/8, per-process
                 timeout: DispatchModel (executed in Coq) must predict summary, count and started lines from
                 the SOLO outcomes of the lines; (c) the sites that can change the bounds of the day loop /
                 sub-step loop (generated LOOPVAR inventory) are the ones LongdayModel documents
oracle:          every listed error class, run alone, exits normally with exactly its own line in the summary;
                 in every mixed batch the process exits, the summary lists exactly the failed lines, the valid
                 lines' result folders are byte-identical to their solo runs, a failed line writes only files
                 carrying its own id, and nothing is written outside the lines' own result folders
"""
import os, random, re, subprocess
from core import Corr, Fail, BuildError
import core
from props import batchlib as B

PROP_FILES = ["Prop_C11"]
RULE = ("one case = one execution of the real batch binary (solo line, or 3-4 valid lines + failing line(s)) or one "
        "LangTag call at one latitude; non-trivial when (error class, position, concurrency) resp. latitude is distinct")
TRUSTED = ["sharedstate translator (LOOPVAR inventory: go/ast positions)",
           "hermes.CalculateDayLenght values as the day-length oracle of the LangTag correspondence"]
ASSUMPTIONS = ["a run is a deterministic, terminating program over its own batch line and file contents (prog is inductive); "
               "termination of a run itself is proved only for its loops modelled in LongdayModel (day loop, sub-step loop, day-length searches)",
               "with fertiliser prediction g.ENDE is reassigned inside the day loop: only the bound E-BEGINN+1 for an upper bound E of the assigned values is proved (existence of E exercised, not proved)",
               "concurrency >= 1 (-concurrent 0 blocks forever in the first select: outside the property)",
               "log.Fatal paths (unreadable files, malformed configuration, ...) are outside the listed error classes: exercised only",
               "'Number of errors: -1' with zero executed lines (-lines window beyond the file) is outside the quantifier; recorded in C11_summary_exact"]

_cache = {}
TIMEOUT = 30

EXPECTED_LOOPVARS = {
    ("BEGINN", "Input", 0), ("DT", "Input", 0), ("DT", "NewGlobalVarsMain", 0),
    ("ENDE", "readConfig", 0), ("ENDE", "Run", 0), ("ENDE", "PrognoseTime", 0),
    ("ENDE", "SimulateFertilizationAfterPrognose", 0), ("ENDE", "progout", 0),
    ("STEPS", "Run", 1), ("SUBD", "Run", 1), ("ZEIT", "Run", 0),
    ("dayloop", "Run", 0), ("subloop", "Run", 1),
}
EXPECTED_DETAIL = {"dayloop": {"ZEIT<=g.ENDE;ZEIT=ZEIT+g.DT.Index"}, "subloop": {"SUBD<=int(STEPS);SUBD++"},
                   "DT": {"call:SetByIndex(1)", "literal:NewDualType(1,0)"}}


def _cs(s):
    return '"' + s.replace('"', '""') + '"'


def generate(ctx):
    """tie 3: the shipped texture tables as Coq string lists (gen/TextureTables.v)"""
    B.ensure_coqproject()
    defs = []
    for name, fn in (("parcap_lines", "PARCAP.TRU"), ("hypar_lines", "HYPAR.TRU")):
        raw = open(os.path.join(core.REPO, "examples", "parameter", fn), "rb").read()
        if any(b > 127 for b in raw):
            raise BuildError("%s is not ASCII: TextureModel does not cover it" % fn)
        lines = raw.decode("ascii").replace("\r\n", "\n").split("\n")
        if lines and lines[-1] == "":
            lines.pop()                      # bufio.Scanner: no empty token after the final newline
        defs.append("Definition %s : list string := [\n  %s\n]." % (name, ";\n  ".join(_cs(l) for l in lines)))
    with open(os.path.join(ctx.gen, "TextureTables.v"), "w") as f:
        f.write("(* generated from %s/examples/parameter — do not edit *)\nFrom Coq Require Import List String.\n"
                "Import ListNotations.\nLocal Open Scope string_scope.\n%s\n" % (core.REPO, "\n".join(defs)))


TABLES_CHECK_V = """From Coq Require Import List Bool String.
From Hermes Require Import TextureModel TextureProofs.
From HermesGen Require Import TextureTables.
Theorem shipped_tables_wf : tables_wf parcap_lines hypar_lines = true.
Proof. vm_compute. reflexivity. Qed.
Theorem shipped_texture_validation_iff_lookup :
  forall code, validate parcap_lines code = true <-> lookup parcap_lines hypar_lines code = true.
Proof. exact (texture_validation_iff_lookup_lemma parcap_lines hypar_lines shipped_tables_wf). Qed.
Theorem shipped_texture_path_never_kills :
  forall raws, profile_outcome parcap_lines hypar_lines raws <> ProcessDies.
Proof. intros raws. exact (proj1 (texture_path_never_kills_lemma parcap_lines hypar_lines shipped_tables_wf raws)). Qed.
Theorem shipped_tables_nonempty : Nat.leb 40 (List.length (valid_textures parcap_lines)) = true.
Proof. vm_compute. reflexivity. Qed.
Print Assumptions shipped_texture_validation_iff_lookup.
Print Assumptions shipped_texture_path_never_kills.
"""


def gen_proofs(ctx):
    names = ["shipped_tables_wf", "shipped_texture_validation_iff_lookup", "shipped_texture_path_never_kills", "shipped_tables_nonempty"]
    src = os.path.join(ctx.gen, "TextureTables.v")
    if not os.path.exists(src):
        return len(names), 0, [{"stage": "generated-proof", "what": "TextureTables.v was not generated"}], names
    rc, out = ctx.coqc(src, timeout=300)
    if rc == 0:
        rc, out = ctx.coq_eval("TextureTablesCheck", TABLES_CHECK_V, timeout=300)
    if rc != 0 or out.count("Closed under the global context") != 2:
        return len(names), 0, [{"stage": "generated-proof", "theorem": "shipped_tables_wf",
                                "what": "the shipped PARCAP.TRU / HYPAR.TRU no longer satisfy tables_wf (validation and Hydro look-up disagree on some key)",
                                "coq": out[-1200:]}], names
    return len(names), len(names), [], names


def _texture_harness(vh, ex, bf, n):
    """runs the lines of bf in-process (vh c11tex); a log.Fatal ends the harness: restart after that line"""
    obs, skip = {}, 0
    while skip < n:
        try:
            p = subprocess.run([vh, "c11tex", "-dir", ex, "-batch", bf, "-skip", str(skip)],
                               stdout=subprocess.PIPE, stderr=subprocess.PIPE, text=True, timeout=4 * TIMEOUT, errors="replace")
            rc, out, err = p.returncode, p.stdout, p.stderr
        except subprocess.TimeoutExpired as te:
            rc, out, err = -9, (te.stdout or b"").decode(errors="replace") if isinstance(te.stdout, bytes) else (te.stdout or ""), "timeout"
        last = None
        for l in out.split("\n"):
            if l.startswith("CASE "):
                last = int(l.split()[1])
            elif l.startswith("T "):
                tt = l.split(" ", 3)
                obs[int(tt[1])] = (tt[2], tt[3] if len(tt) > 3 else "")
        if rc == 0 and last is not None and last in obs and last == n - 1:
            break
        if last is None or last in obs:
            obs.setdefault(skip, ("harness", err[-300:]))
            skip = (last if last is not None else skip) + 1
        else:
            obs[last] = ("timeout" if rc == -9 else "fatal", err[-300:])
            skip = last + 1
    return obs


def _own_id(line):
    f = dict(t.split("=", 1) for t in line.split() if "=" in t)
    return f.get("poligonID", "") + f.get("plotNr", "")


def _run(ctx):
    if "solo" in _cache:
        return _cache
    rng = random.Random(ctx.seed)
    vh = ctx.harness()
    binary = ctx.repo_bin("src/hermes2go", "hermes2go")
    # (a) longday cases from the harness
    try:
        p = subprocess.run([vh, "c11", "-seed", str(ctx.seed), "-n", "150" if ctx.thorough else "40"],
                           stdout=subprocess.PIPE, stderr=subprocess.PIPE, text=True, timeout=TIMEOUT)
        _cache["longday"] = (p.returncode, p.stdout, p.stderr)
    except subprocess.TimeoutExpired:
        _cache["longday"] = (-9, "", "timeout: LangTag did not return within %d s" % TIMEOUT)
    p = subprocess.run([vh, "sharedstate", core.REPO], stdout=subprocess.PIPE, stderr=subprocess.PIPE, text=True, timeout=300)
    _cache["loopvars"] = [l.split() for l in p.stdout.split("\n") if l.startswith("LOOPVAR ")] if p.returncode == 0 else None
    _cache["bounds"] = [l.split() for l in p.stdout.split("\n") if l.startswith("BOUND ")]
    # (b) batches
    ex = B.setup_examples(ctx)
    B.make_failing_inputs(ex)
    # texture spellings: soil files with one id per spelling; every case through the real Input/Hydro in-process
    B.make_variant_inputs(ex)
    B.make_gap_weather(ex)
    B.make_fraction_inputs(ex)
    B.make_sweep_inputs(ex)
    B.make_autosow_inputs(ex)
    B.make_long_irrigation(ex)
    # lines sharing input files and ids, differing in one interpretation key ("same results alone or together")
    _cache["ik"] = B.run_interp_groups(binary, ex, rng, concs=(1, 2, 8) if ctx.thorough else (1, 2), timeout=TIMEOUT)
    tcases = B.make_texture_inputs(ex, rng, 120 if ctx.thorough else 30)
    before = B.tree_snapshot(ex)
    bf = os.path.join(ex, "TX_batch.txt")
    with open(bf, "w") as f:
        for i, tc in enumerate(tcases):
            f.write("%s resultfolder=TX/l%d\n" % (tc["line"], i))
    tobs = _texture_harness(vh, ex, bf, len(tcases))
    _cache.update(tcases=tcases, tobs=tobs)
    pool = dict(B.VALID); pool.update(B.FAILING); pool.update(B.TEXTURE_FAILING); pool.update(B.TEXTURE_VALID); pool.update(B.VARIANTS)
    pool.update(B.GAPS); pool.update(B.LONG_IRRIGATION); pool.update(B.FRACTIONS); pool.update(B.FRACTIONS_VALID)
    # every listed class under the other configurations (ex3, rue, zuc, bulk, MUN) + weather gaps on the boundaries of years / of the file
    variants = list(B.VARIANTS) + list(B.GAPS) + list(B.FRACTIONS)   # + fraction / texture errors by position in the profile, PTF 0..4
    longk = list(B.LONG_IRRIGATION)      # valid line that outgrows the irrigation slices (> 1200 events)
    # configuration sweep: valid lines one key away from the project's configuration, and the error classes under non-default routes
    pool.update(B.SWEEP); pool.update(B.ROUTED)
    vsw = [k for k in B.SWEEP if k not in B.SWEEP_NOT_VALID]
    sweepk = vsw if ctx.thorough else rng.sample(vsw, 40)
    routedk = list(B.ROUTED) if ctx.thorough else rng.sample(list(B.ROUTED), 14)
    vkeys = list(B.VALID); rng.shuffle(vkeys)
    valid = vkeys[:(8 if ctx.thorough else 4)]
    if "pred" not in valid:
        valid[-1] = "pred"
    pool.update(B.VARIANTS_VALID); pool.update(B.AUTOSOW); pool.update(B.OVR_IGNORED); pool.update(B.OVR_ACCEPTED); pool.update(B.OVR_PARSE_ERRORS)
    valid += list(B.TEXTURE_VALID) + list(B.FRACTIONS_VALID) + list(B.VARIANTS_VALID) + list(B.AUTOSOW)
    ovrk = list(B.OVR_IGNORED) + list(B.OVR_ACCEPTED)     # crop parameter overrides at / next to their bounds: valid lines
    # (malformed override keys, B.OVR_PARSE_ERRORS, are rejected before the result folder is made: not part of the run set)
    classes = list(B.FAILING) + list(B.TEXTURE_FAILING)
    solo = {}
    jobs = [lambda k=k: (k, B.run_batch(binary, ex, "solo_" + re.sub(r"\W", "_", k), [k], pool, 1, 4, timeout=TIMEOUT))
            for k in valid + classes + variants + longk + sweepk + routedk + ovrk]
    for k, e in B.parallel(jobs, 6):
        solo[k] = e
    mixed, jobs = [], []
    concs = (1, 2, 8)
    for ci, cl in enumerate(classes):
        for c in concs:
            for pos in (range(4) if ctx.thorough else (rng.randint(0, 3),)):
                vs = rng.sample(valid, 3)
                batch = vs[:pos] + [cl] + vs[pos:]
                if rng.random() < 0.3:
                    batch.append(vs[0])                      # a repeated valid line
                jobs.append(lambda cl=cl, c=c, batch=batch, pos=pos: B.run_batch(
                    binary, ex, "m_%s_p%d_c%d" % (re.sub(r"\W", "_", cl), pos, c), batch, pool, c, rng.choice((1, 4, 16)), timeout=TIMEOUT))
    for v in variants:
        for c in (concs if ctx.thorough else (rng.choice(concs),)):
            vs = rng.sample(valid, 3)
            pos = rng.randint(0, 3)
            batch = vs[:pos] + [v] + vs[pos:]
            jobs.append(lambda v=v, c=c, batch=batch, pos=pos: B.run_batch(
                binary, ex, "v_%s_p%d_c%d" % (re.sub(r"\W", "_", v), pos, c), batch, pool, c, rng.choice((1, 4, 16)), timeout=TIMEOUT))
    for v in routedk:                      # the failing line FIRST and LAST
        vs = rng.sample(valid, 2) + [rng.choice(sweepk)]
        for tagp, batch in (("first", [v] + vs), ("last", vs + [v])):
            c = rng.choice(concs)
            jobs.append(lambda v=v, c=c, batch=batch, tagp=tagp: B.run_batch(
                binary, ex, "r_%s_%s_c%d" % (re.sub(r"\W", "_", v), tagp, c), batch, pool, c, rng.choice((1, 4, 16)), timeout=TIMEOUT))
    atb = [k for k in B.OVR_IGNORED if k.endswith("=0") and ("TSUM" in k or "KC" in k)]
    for v in atb + rng.sample([k for k in B.OVR_IGNORED if k not in atb], 3 if not ctx.thorough else 15):   # override at its bound FIRST and LAST
        vs = rng.sample(valid, 2)
        for tagp, batch in (("first", [v] + vs), ("last", vs + [v])):
            c = rng.choice(concs)
            jobs.append(lambda v=v, c=c, batch=batch, tagp=tagp: B.run_batch(
                binary, ex, "o_%s_%s_c%d" % (re.sub(r"\W", "_", v), tagp, c), batch, pool, c, 4, timeout=TIMEOUT))
    batch = list(ovrk) + [rng.choice(classes)]
    rng.shuffle(batch)
    jobs.append(lambda batch=batch: B.run_batch(binary, ex, "ovr_all_c8", batch, pool, 8, 4, timeout=4 * TIMEOUT))
    for c in (2, 8):
        batch = list(sweepk) + [rng.choice(classes)]
        rng.shuffle(batch)
        jobs.append(lambda c=c, batch=batch: B.run_batch(binary, ex, "sweep_c%d" % c, batch, pool, c, 4, timeout=4 * TIMEOUT))
    for c in (1, 8):
        vs = rng.sample(valid, 2) + [rng.choice(classes)]
        batch = vs[:1] + longk + vs[1:]
        jobs.append(lambda c=c, batch=batch: B.run_batch(binary, ex, "long_c%d" % c, batch, pool, c, 4, timeout=TIMEOUT))
    batch = variants + valid + longk
    rng.shuffle(batch)
    jobs.append(lambda batch=batch: B.run_batch(binary, ex, "allvar_c8", batch, pool, 8, 4, timeout=TIMEOUT))
    for c in concs + ((3, 16) if ctx.thorough else ()):
        batch = classes + valid + [valid[0]]
        rng.shuffle(batch)
        jobs.append(lambda c=c, batch=batch: B.run_batch(binary, ex, "all_c%d" % c, batch, pool, c, 4, timeout=TIMEOUT))
    # -lines window over a mixed batch
    batch = classes[:4] + valid
    rng.shuffle(batch)
    jobs.append(lambda batch=batch: B.run_batch(binary, ex, "win", batch, pool, 2, 4, lines_opt="2-6", timeout=TIMEOUT))
    if ctx.thorough:     # the same fault mix under the race detector (supporting evidence)
        try:
            rbin = ctx.repo_bin("src/hermes2go", "hermes2go", race=True)
            for c in (3, 8):
                batch = classes + valid
                rng.shuffle(batch)
                jobs.append(lambda c=c, batch=batch: B.run_batch(rbin, ex, "race_all_c%d" % c, batch, pool, c, 4, timeout=600,
                                                                 extra_env={"GORACE": "halt_on_error=0"}))
        except BuildError as e:
            _cache["race_build_error"] = str(e)[-600:]
    mixed = B.parallel(jobs, 6)
    # how many irrigation events the long-irrigation line booked (management output of its solo run)
    nev = 0
    ld = os.path.join(solo[longk[0]].root, "l0")
    if os.path.isdir(ld):
        for fn in os.listdir(ld):
            if fn.startswith("M"):
                nev = sum(1 for l in open(os.path.join(ld, fn), errors="replace") if "rrigat" in l)
    _cache["irrigation_events"] = nev
    after = B.tree_snapshot(ex)
    _cache.update(solo=solo, mixed=mixed, pool=pool, valid=valid, classes=classes + variants + routedk, ex=ex,
                  sweep_info={"lines_in_sweep": len(B.SWEEP), "valid": len(vsw), "valid_run_this_time": len(sweepk),
                              "error_class_x_route_lines": len(B.ROUTED), "error_class_x_route_run_this_time": len(routedk)}, new_files=sorted(after - before))
    return _cache


def _solo_failed(e):
    """outcome of a line run alone: True = reported as run error, False = success, None = process died"""
    if e.died():
        return None
    return e.summary == [0] and e.count == 1


def correspond(ctx):
    c = Corr()
    r = _run(ctx)
    # ---- (a) LangTag
    rc, out, err = r["longday"]
    lcases, raw = [], []
    if rc != 0:
        c.mismatches.append({"kind": "longday-harness", "what": "harness c11 failed or timed out", "stderr": err[-800:]})
    for line in out.split("\n"):
        if not line.startswith("L "):
            continue
        _, lat, year, tag, p1, p2, rest = line.split(" ", 6)
        d14, d16 = rest.split("|")
        zl = lambda s: "[" + "; ".join(x for x in s.split(",") if x) + "]"
        lcases.append("(LCase %s %s (%s) ((%s), (%s), (%s)))" % (zl(d14), zl(d16), year, tag, p1, p2))
        raw.append("lat=%s year=%s -> TAG=%s P1=%s P2=%s" % (float.fromhex(lat), year, tag, p1, p2))
    if lcases:
        text = "\n".join(["From Coq Require Import ZArith List.", "From Hermes Require Import LongdayModel C11Corr.",
                          "Import ListNotations.", "Local Open Scope Z_scope.",
                          "Definition cases : list lcase := [\n  %s]." % ";\n  ".join(lcases),
                          "Definition LM := Eval vm_compute in lmismatches 0 cases.", "Print LM."]) + "\n"
        rc2, o = ctx.coq_eval("Cases_C11_longday", text, timeout=600)
        m = re.search(r"LM\s*=\s*(.*?)\s*:\s*list Z", o, re.S)
        if rc2 != 0 or not m:
            c.mismatches.append({"kind": "coq-eval", "shard": "Cases_C11_longday", "output": o[-1500:]})
        elif m.group(1).strip() != "[]":
            idx = [int(x) for x in re.findall(r"\d+", m.group(1))]
            c.mismatches.append({"kind": "longday", "what": "LongdayModel and hermes LangTag differ", "cases": [raw[i] for i in idx[:10]]})
    c.dist["longday_latitudes"] = len(lcases)
    # ---- (a2) texture path: real Input/Hydro (in-process) against TextureModel on the generated tables
    tcs, tobs = r["tcases"], r["tobs"]
    def obs_code(i):
        o, msg = tobs.get(i, ("harness", "no observation"))
        if o == "ok":
            return 0
        if o == "error":
            return 1 if "texture" in msg else 3
        return 2 if o in ("panic", "fatal", "timeout") else 3
    terms = ["(TCase [%s] %d)" % ("; ".join(_cs(x) for x in tc["raws"]), obs_code(i)) for i, tc in enumerate(tcs)]
    text = "\n".join(["From Coq Require Import ZArith List String.", "From Hermes Require Import TextureModel C11Corr.",
                      "From HermesGen Require Import TextureTables.", "Import ListNotations.", "Local Open Scope string_scope.",
                      "Definition cases : list tcase := [\n  %s]." % ";\n  ".join(terms),
                      "Definition TM := Eval vm_compute in tmismatches parcap_lines hypar_lines 0%Z cases.", "Print TM."]) + "\n"
    rc3, o3 = ctx.coq_eval("Cases_C11_texture", text, timeout=300)
    m = re.search(r"TM\s*=\s*(.*?)\s*:\s*list Z", o3, re.S)
    if rc3 != 0 or not m:
        c.mismatches.append({"kind": "coq-eval", "shard": "Cases_C11_texture", "output": o3[-1500:]})
    elif m.group(1).strip() != "[]":
        idx = [int(x) for x in re.findall(r"\d+", m.group(1))]
        c.mismatches.append({"kind": "texture", "what": "TextureModel (exact 3-character key match) and the real Input/Hydro differ: "
                             "0 = accepted, 1 = run error about the texture, 2 = process/goroutine died, 3 = other",
                             "cases": [{"name": tcs[i]["name"], "raw_codes": tcs[i]["raws"], "observed": list(tobs.get(i, ("none", ""))),
                                        "line": tcs[i]["line"]} for i in idx[:12]]})
    c.dist["texture_spellings"] = len(tcs)
    iks, ikr = r["ik"]
    c.dist["interpretation_key_lines"] = len(iks); c.dist["interpretation_key_group_runs"] = len(ikr)
    for e, _ in ikr:
        if e.died():
            c.mismatches.append({"kind": "execution", "tag": e.tag, "what": "process did not finish normally", "rc": e.rc, "stderr": e.stderr[-500:]})
    # ---- (c) loop-bound sites
    lv = r["loopvars"]
    if lv is None:
        c.mismatches.append({"kind": "loopvars", "what": "sharedstate translator failed"})
    else:
        got = {(t[1], t[2], int(t[4])) for t in lv}
        if got != EXPECTED_LOOPVARS:
            c.mismatches.append({"kind": "loopvars", "what": "sites that can change the day-loop / sub-step-loop bounds changed",
                                 "new": sorted(got - EXPECTED_LOOPVARS), "missing": sorted(EXPECTED_LOOPVARS - got),
                                 "lines": [" ".join(t) for t in lv if (t[1], t[2], int(t[4])) in got - EXPECTED_LOOPVARS]})
        for t in lv:
            if t[1] in EXPECTED_DETAIL and t[5] not in EXPECTED_DETAIL[t[1]] and not (t[1] == "DT" and not t[5].startswith(("call", "literal"))):
                c.mismatches.append({"kind": "loopvars", "what": "loop header / time step differs from the model", "site": " ".join(t)})
        sub = [int(t[3].split(":")[1]) for t in lv if t[1] == "subloop"]
        for t in lv:
            if t[1] == "STEPS" and sub and int(t[3].split(":")[1]) >= min(sub):
                c.mismatches.append({"kind": "loopvars", "what": "STEPS assigned inside/after the sub-step loop header", "site": " ".join(t)})
    # ---- (d) fixed sizes an event counter can run into (regenerated inventory) and what the run set reaches
    bounds = {}
    for bt in r.get("bounds") or []:
        bounds.setdefault(int(bt[3]), []).append(bt[2])
    make_sizes = sorted({int(bt[3]) for bt in (r.get("bounds") or []) if bt[1] == "make"})
    ctx.extra["irrigation_events_of_long_run"] = r["irrigation_events"]
    ctx.extra["fixed_sizes"] = {str(n): {"names": sorted(set(v))[:12] + (["..."] if len(set(v)) > 12 else []),
                                         "reached_by_the_run_set": ("yes: long-irrigation line books %d events" % r["irrigation_events"]) if n in make_sizes and r["irrigation_events"] >= n
                                         else ("yes: every run over a leap year uses day 366" if 366 <= n <= 368 else "no (not exercised up to the bound by C11's runs)")}
                                for n, v in sorted(bounds.items())}
    if make_sizes and r["irrigation_events"] < max(make_sizes):
        c.mismatches.append({"kind": "bounds", "what": "the long-irrigation line no longer reaches the initial length of the irrigation slices",
                             "events": r["irrigation_events"], "initial_lengths": make_sizes})
    if make_sizes != [1200]:
        c.notes.append("make([]T, n) sites changed: %s (the long-irrigation line is built for 1200)" % make_sizes)
    # ---- (b) dispatcher prediction from solo outcomes
    errs = {}
    for k, e in r["solo"].items():
        f = _solo_failed(e)
        errs[k] = bool(f)
    done = [e for e in list(r["solo"].values()) + r["mixed"] if not e.died()]
    for e in list(r["solo"].values()) + r["mixed"]:
        if e.died():
            c.mismatches.append({"kind": "execution", "tag": e.tag, "what": "process did not finish normally (no model run to compare)",
                                 "rc": e.rc, "timed_out": e.timed_out, "stderr": e.stderr[-500:]})
    bad, out2 = B.coq_dispatch_mismatches(ctx, "Cases_C11_dispatch", done, errs, ctx.seed)
    if bad is None:
        c.mismatches.append({"kind": "coq-eval", "shard": "Cases_C11_dispatch", "output": out2[-1500:]})
    else:
        for i in bad:
            e = done[i]
            c.mismatches.append({"kind": "dispatch", "tag": e.tag, "concurrency": e.c,
                                 "what": "DispatchModel prediction from the solo outcomes differs from the binary",
                                 "observed_summary": e.summary, "observed_count": e.count, "started": B.ran_indices(e),
                                 "batch": e.contents, "solo_failed": {k: errs[k] for k in e.contents}})
    allx = list(r["solo"].values()) + r["mixed"]
    c.cases = len(allx) + len(lcases) + len(tcs) + len(iks) + len(ikr)
    c.nontrivial = len({(tuple(e.contents), e.c) for e in allx}) + len(set(lcases)) + len({(tc["project"], tuple(tc["raws"])) for tc in tcs})
    for e in r["mixed"]:
        c.bump("mixed concurrency=%d" % e.c)
    c.dist["solo_runs"] = len(r["solo"]); c.dist["error_classes"] = len(r["classes"])
    c.samples = raw[9:12] + ["%s: c=%d %s -> summary %s count %s" % (e.tag, e.c, e.contents, e.summary, e.count) for e in r["mixed"][:4]]
    return c


def _replay(e, pool):
    return ("cd <copy of /repo/examples with the variants of lib/props/batchlib.py make_failing_inputs>; batch file lines: "
            + " || ".join("%s resultfolder=%s/l%d" % (pool[k], e.tag, i) for i, k in enumerate(e.contents))
            + " ; GOMAXPROCS=%d hermes2go -module batch -concurrent %d -batch <file>%s" % (e.gmp, e.c, (" -lines " + e.lines_opt) if e.lines_opt else ""))


def oracle(ctx, search):
    r = _run(ctx)
    pool, solo = r["pool"], r["solo"]
    fails = []
    rc, out, err = r["longday"]
    if rc == -9:
        fails.append(Fail(key="longday:timeout", what="hermes LangTag did not return (day-length search not bounded)", detail=err))
    for line in out.split("\n"):
        if line.startswith("ORACLE "):
            fails.append(Fail(key=line[7:40], what=line[7:]))
    # texture spellings through the real Input/Hydro: a run error or a completed run, never a death
    for i, tc in enumerate(r["tcases"]):
        o, msg = r["tobs"].get(i, ("harness", "no observation"))
        if o in ("panic", "fatal", "timeout"):
            pos = "single" if len(tc["raws"]) == 1 else ("top" if tc["name"].find("deep") < 0 else "deep")
            fails.append(Fail(key="texture-spelling:%s:%s:process-died" % ("txt" if tc["project"] == "ttx" else "csv", pos),
                              what="a soil texture code that is not a key of the tables passes the validation and kills the process in Hydro (%s)" % o,
                              raw_codes_top_to_bottom=tc["raws"], message=msg[:300],
                              replay="cd <copy of /repo/examples>; project %s = copy of %s with soil id %s whose horizons carry the texture codes %r (lib/props/batchlib.py make_texture_inputs); "
                                     "batch line: %s ; hermes2go -module batch -concurrent 1 -batch <file>" % (
                                         tc["project"], "ex1 (txt soil file, columns 10-12)" if tc["project"] == "ttx" else "bulk (csv soil file, Texture column)",
                                         tc["sid"], tc["raws"], tc["line"])))
    fails += B.interp_fails(Fail, *r["ik"])
    # every listed class alone
    failed = {}
    for k, e in solo.items():
        f = _solo_failed(e)
        failed[k] = f
        if k in r["classes"]:
            if e.timed_out:
                fails.append(Fail(key="error-class:%s:timeout" % k, what="the run never returned (killed after %d s)" % TIMEOUT, replay=_replay(e, pool)))
            elif f is None:
                fails.append(Fail(key="error-class:%s:process-died" % k, what="the input error kills the whole batch process instead of failing its line",
                                  rc=e.rc, stderr=e.stderr[-700:], replay=_replay(e, pool)))
            elif not f:
                fails.append(Fail(key="error-class:%s:not-reported" % k, what="the input error is silently accepted: not reported as a run error",
                                  summary=e.summary, count=e.count, replay=_replay(e, pool)))
        else:
            if f is None or f:
                fails.append(Fail(key="valid-line-failed:%s" % k, what="a valid shipped line does not run alone", rc=e.rc,
                                  stdout=e.stdout[-400:], stderr=e.stderr[-400:], replay=_replay(e, pool)))
    solodig = {k: B.folder_digest(os.path.join(e.root, "l0")) for k, e in solo.items()}
    # an override outside its range is ignored: the bytes of the line without the c_ keys
    for k in B.OVR_IGNORED:
        if k in solodig and failed.get(k) is False and solodig[k] != solodig.get("ovb:none"):
            fails.append(Fail(key="crop-override-at-bound:%s:applied" % k.split(":", 1)[1],
                              what="a crop parameter override on / outside the bound of its range is applied instead of being ignored",
                              line=pool[k], reference_line=pool["ovb:none"], replay=_replay(solo[k], pool)))
    compared = 0
    for e in r["mixed"]:
        if e.race_reports:
            m = re.search(r"WARNING: DATA RACE.*?\n\s+(\S+)\(", e.stderr, re.S)
            fails.append(Fail(key="data-race:%s" % (m.group(1) if m else "?"), what="race detector report",
                              report=e.stderr[e.stderr.find("WARNING: DATA RACE"):][:1500], replay=_replay(e, pool)))
        if e.died():
            cls = [k for k in e.contents if k in r["classes"]]
            fails.append(Fail(key="mixed-batch:%s:%s" % (cls[0] if len(cls) == 1 else "all", "timeout" if e.timed_out else "process-died"),
                              what="batch process did not exit normally", rc=e.rc, stderr=e.stderr[-700:], replay=_replay(e, pool)))
            continue
        s, n = B.window(e)
        inwin = [i for i in range(len(e.contents)) if i >= s and not (n > 0 and i >= n)]
        expected = sorted(i for i in inwin if failed.get(e.contents[i]))
        if sorted(e.summary) != expected or e.count != len(expected):
            fails.append(Fail(key="summary:%s:c=%d" % (e.tag.rsplit("_c", 1)[0], e.c),
                              what="error summary does not list exactly the failed lines", expected_failed_lines=expected,
                              observed_summary=e.summary, observed_count=e.count, replay=_replay(e, pool)))
        for i in inwin:
            k = e.contents[i]
            d = B.folder_digest(os.path.join(e.root, "l%d" % i))
            if failed.get(k) is False:
                compared += 1
                if d != solodig[k]:
                    diff = sorted(f for f in set(d) | set(solodig[k]) if d.get(f) != solodig[k].get(f))
                    fails.append(Fail(key="isolation:%s:%s" % (e.tag.rsplit("_c", 1)[0], k),
                                      what="result files of a valid line differ from its solo run", files=diff[:6], replay=_replay(e, pool)))
            own = _own_id(pool[k])
            foreign = [f for f in d if own not in f]
            if foreign:
                fails.append(Fail(key="foreign-files:%s" % k, what="a line wrote result files not carrying its own id", files=foreign[:6], replay=_replay(e, pool)))
        outside = [i for i in B.ran_indices(e) if i not in inwin]
        if outside:
            fails.append(Fail(key="window:%s" % e.tag, what="lines outside the -lines window were executed", lines=outside, replay=_replay(e, pool)))
    tags = {e.tag for e in list(solo.values()) + r["mixed"]} | {"TX"}
    stray = [f for f in r["new_files"]
             if not (f.endswith("_batch.txt") and f[:-10] in tags) and not (f.split("/")[0] in tags and re.match(r"l\d+$", f.split("/")[1] if "/" in f else ""))]
    if stray:
        fails.append(Fail(key="stray-files:%s" % stray[0].split("/")[0], what="files written outside the lines' own result folders", files=stray[:10]))
    ctx.extra["valid_line_folders_compared_with_solo"] = compared
    ctx.extra["error_classes"] = r["classes"]
    ctx.extra["configuration_sweep"] = dict(r["sweep_info"], what="valid lines one configuration key (or one pair of switches) away from the project's "
                                            "configuration: run alone and together in one batch (concurrency 2 and 8), byte-equal; every ex1-based error "
                                            "class also under non-default routes (yml crop parameters, PTF, csv results, layout-2 weather, txt rotation, ...) "
                                            "placed first and last in a mixed batch; thorough tier runs all of them")
    seen = set(); uniq = []
    for f in fails:
        if f["key"] not in seen:
            seen.add(f["key"]); uniq.append(f)
    return uniq


LEVEL_TEXT = ("Machine-checked proof (Coq): for every concurrency >= 1 and every maximal schedule of an adversarial scheduler the "
              "dispatcher starts every selected line exactly once, terminates (bounded schedules, 2 transitions per line + reads), "
              "its final error summary is exactly the multiset of failed logIDs with the printed count equal to its size, and a "
              "line's result equals its solo result; the two day-length searches of the fertiliser prediction terminate within 367 "
              "iterations for EVERY day-length oracle and return (0,0,0) iff no qualifying day exists; the day loop performs exactly "
              "ENDE-BEGINN+1 iterations (bounded by E-BEGINN+1 when the prediction reassigns ENDE) and the sub-step loop int(STEPS). "
              "Tied to the code by LangTag correspondence, a regenerated inventory of loop-bound assignments, and real-binary "
              "batches with one failing line of each listed class. PARTIAL: process-level effects (log.Fatal outside the listed "
              "classes, OS errors, goroutine scheduling/data races) are runtime behaviour, exercised only.")
LEVEL_NOTE = ("Partial claim. The kernels inside the loop bodies are not modelled (bodies are arbitrary functions); the detection of "
              "each listed error class is exercised on the real binary, not proved. Known finding F9 (weather gap in layout 0 not "
              "reported) is matched by key error-class:weather-gap-layout0-*:not-reported. Trusted: Coq kernel + vm_compute, std++, "
              "harness/driver, translator.")
TECHNIQUE = ("Coq proof (labelled transition system with adversarial scheduler; fuel-bounded loop models proved never to run out) "
             "+ LangTag/dispatcher correspondence + fault-injection batches on the real binary with per-process timeout")
