"""C04 — every simulated day is driven by the weather record of exactly that date.

proof:           Prop_C04.v  (calendar lock-step, loader placement, alignment, layouts agree, gap/uncovered errors,
                 gap filling; F9 refuted at model level)
correspondence:  whole runs of the real simulator (in-process, probe at the end of every day) over python-generated
                 weather series in the three layouts; the calendar state (ZEIT, TAG, J, JTAG) and the echoed weather
                 record of every day are compared bit for bit with WeatherModel ∘ CtrlModel evaluated in Coq
oracle:          the property itself, in python: echo of day z = normalised file record of the civil date of z; a
                 deficient input must end the run with an error
"""
import datetime, os, random, re
from core import Corr, Fail, chunked_list
from props import wxlib, toklib
from props.wxlib import daynum, date_of, doy, ylen, de, hexf, ONE

PROP_FILES = ["Prop_C04"]
RULE = ("one case = one whole run (layout x scenario x seed: complete series with leap years / series starting before, at, "
        "after 1 Jan of the start year / sentinels at year ends and mid-year / calm wind / truncated last year / missing "
        "year / gap / start-year mismatch); non-trivial = a simulated day whose (ZEIT, TAG, J, JTAG, 7 echoed values) "
        "were compared")
TRUSTED = ["python datetime as the civil-calendar reference of the oracle",
           "Go strconv.ParseFloat / time.Parse and python float()/date agree on the generated decimal texts (exercised, not modelled)",
           "verif probe at 'dayend' reads g.TEMPdaily..g.REGENdaily, g.TAG, g.J, g.JTAG",
           "harness c04tok calls the exported readers directly and classifies a process exit with status 1 and a log line as log.Fatal"]
ASSUMPTIONS = ["strconv.ParseFloat modelled for plain decimal texts ([+-]digits[.digits], < 2^53 as digit string, <= 22 fraction digits: "
               "value = correctly rounded m/10^k); texts with a character outside the float alphabet are errors; exponent/hex/inf/"
               "nan spellings: model abstains (TUnk)",
               "time.Parse modelled for the layouts 2006-01-02 and 2006002 (fixed widths, civil-calendar validity); bytes = runes (ASCII)",
               "a header line carrying two synonyms of one column (Go map iteration order decides) is outside the model",
               "VERD/SUND/ETNULL columns are not modelled (not echoed)",
               "generated records keep tmin <= tmax + 0.5 (LoadYear swaps them otherwise; the swap is in the model, not in the oracle)",
               "Go int arithmetic on unbounded Z (all values < 2^31)"]

D = datetime.date
_cache = {}
NONE = "-99.9"


# ---------------------------------------------------------------------------------------------
# scenarios

def _pick_dates(rnd, sy, span_days):
    start = D(sy, 1, 1) + datetime.timedelta(days=rnd.randrange(0, ylen(sy)))
    if rnd.random() < 0.15:
        start = D(sy, 1, 1)
    elif rnd.random() < 0.1:
        start = D(sy, 12, 31)
    end = start + datetime.timedelta(days=span_days)
    ann = D(end.year, rnd.randrange(1, 13), rnd.randrange(1, 29))
    r = rnd.random()
    if r < 0.2:
        ann = D(end.year, 12, 31)
    elif r < 0.3:
        ann = D(end.year, 1, 1)
    return start, end, ann


def _ende_eff(end, ann):
    """run.go:133-140 as the documentation of the annual output states it: the run is extended to the day after the
    annual output date of the end year when the end date precedes it"""
    return ann + ONE if ann >= end else end


def scenarios(layout):
    s = ["complete", "complete", "complete-early", "late-start", "truncated", "ends-31dec", "missing-year", "gap", "startyear-mismatch", "preco",
         "annual-31dec-covered"]
    if layout != 0:
        s.append("gap-to-jan1")
    if layout == 0:
        s.append("runaway-year-counter")   # series stops in January: JTAG stays tiny, the year counter passes 2100 and re-opens old files
        s.append("rollovers-past-131")     # regression F31: > 200 year roll-overs with the annual output day reached: the process survives
        s.append("leap-then-two-years")    # per-year files over a leap year and two more years: JTAG must follow each file
    if layout != 2:
        s.append("wind-height")        # three-line header with a wind measuring height other than 2 m, calm days
    return s


OPTCOLS = ("verd", "sund", "et0")      # optional columns of the per-year layout, in the order of the harness' "opt" echo


def make_case(rnd, idx, layout, scen, long_spans=False, variant=0, fixed=None):
    fixed = fixed or {}
    sy = rnd.choice([1951, 1963, 1979, 1983, 1991, 1995, 1999, 2003, 2007, 2011, 2019, 2023, 2047])
    if scen.startswith("complete") and rnd.random() < 0.5:
        sy = rnd.choice([1952, 1980, 1996, 2000, 2004, 2024])
    span = rnd.randrange(380, 800) if scen != "preco" else rnd.randrange(560, 800)     # preco: reach the leap year's month ends
    if long_spans and rnd.random() < 0.3:
        span = rnd.randrange(800, 2200)
    if scen == "rollovers-past-131":
        sy = 2011
    if scen == "runaway-year-counter":
        sy = rnd.choice([2003, 2007, 2011, 2019, 2023])      # extensions "0jj": the counter reaches 21xx/22xx and finds the old names
        span = rnd.randrange(1700, 2000)
    if scen == "leap-then-two-years":
        span = rnd.randrange(1150, 1400)
    start, end, ann = _pick_dates(rnd, sy, span)
    if scen == "leap-then-two-years":
        start = D(sy, rnd.randrange(1, 13), rnd.randrange(1, 28)); end = start + datetime.timedelta(days=span)
        ann = D(end.year, ann.month, min(ann.day, 28))
    if scen.startswith("sweep:"):
        # configuration sweep: short run over a year change, annual date before the end date (no extension of the run)
        start = D(sy, rnd.choice([10, 11, 12]), rnd.randrange(1, 29)); end = start + datetime.timedelta(days=rnd.randrange(70, 150))
        ann = D(end.year, 1, rnd.randrange(2, 29))
    if scen == "rollovers-past-131":
        # the 2012 file ends on 8 January (JTAG 8): a roll-over every 8 days, annual output on 5 January = reached in every "year";
        # g.AUS/SIC/AUFNA have 131 slots (run.go:717, repaired as F31): more than 200 roll-overs must not end the process
        start, end, ann = D(2011, 12, 31), D(2018, rnd.randrange(6, 13), rnd.randrange(1, 28)), D(2018, 1, 5)
    if scen == "annual-31dec-covered":
        # annual output on 31 December: ENDE is moved to 1 January of the year after the end year, the series covers that day
        if rnd.random() < 0.3:
            end = D(end.year, 12, 31)
        ann = D(end.year, 12, 31)
    eff = _ende_eff(end, ann)
    first = D(sy, 1, 1)
    if scen.startswith("sweep:") and layout != 0 and "shared" not in scen:
        first = D(sy, 9, 1)              # multi-year file starting inside the start year, before the first simulated day (October or later)
    delta = 0
    if scen == "startyear-mismatch":
        # StartYear one or two years before / one year after the year of the first simulated day; the series covers the earlier years
        delta = (-1, -2, 1)[variant % 3]
        first = D(sy + min(delta, 0), 1, 1)
    if scen == "complete-early":
        first = D(sy - 1, rnd.randrange(1, 13), rnd.randrange(1, 28))
    last = D(eff.year, 12, 31)
    if rnd.random() < 0.3 and not scen.startswith("sweep:"):
        last = D(eff.year + 1, 12, 31)           # more years than slots
    none = rnd.choice(["-99.9", "-99", "999.9"])
    none = fixed.get("none", none)
    c = {"idx": idx, "layout": layout, "scen": scen, "sy": sy, "start": start, "end": end, "ann": ann, "eff": eff,
         "none": none, "anjahr": sy, "skip_years": (), "preco": None, "etpot": rnd.choice([1, 2, 3, 3, 4])}
    if scen == "late-start":
        if start < D(sy, 2, 1):
            start = c["start"] = start + datetime.timedelta(days=60)
            end = c["end"] = end + datetime.timedelta(days=60)
            ann = c["ann"] = D(end.year, ann.month, ann.day)
            eff = c["eff"] = _ende_eff(end, ann)
            last = D(eff.year, 12, 31)
        first = D(sy, 1, 1) + datetime.timedelta(days=rnd.randrange(1, (start - D(sy, 1, 1)).days + 1))
    ser = wxlib.gen_series(rnd, first, last, none=none, p_none=0.004, p_calm=0.35 if scen == "wind-height" else 0.1)
    c["windhi"] = None
    c["order"] = None
    if layout != 0 and rnd.random() < 0.6:
        keys = ["date", "tmin", "tavg", "tmax", "prec", "rad", "wind", "rh"] if layout == 1 else ["date", "tmin", "tmax", "rad", "prec", "wind", "rh"]
        rnd.shuffle(keys)
        if rnd.random() < 0.4:
            keys.remove("rad"); keys.insert(0, "rad")     # the optional radiation column is the first header column
        c["order"] = keys
    if scen == "wind-height":
        c["windhi"] = rnd.choice(["3.5", "10", "10.0", "1.5"])
        c["etpot"] = rnd.choice([1, 2, 4])     # ETpot 3 converts g.WIND in place with a logarithm (after the echo): not in the model
        for d, r in ser:
            if rnd.random() < 0.12:
                r["wind"] = rnd.choice(["0", "0.2", "0.49", "0.0"])
    # sentinels at the year ends and one in the middle, wherever they fall inside the series
    for y in range(sy, eff.year + 1):
        for (dd, col) in ((D(y, 12, 31), "tavg"), (D(y + 1, 1, 1), "tavg"), (D(y, 7, 2), "tavg"), (D(y, 3, 1), "rad"), (D(y, 12, 31), "prec")):
            if rnd.random() < 0.6:
                wxlib.put_sentinel(ser, dd, col, none)
    if rnd.random() < 0.3:
        ser[0][1]["tavg"] = none
    c["optcols"] = ()
    if layout == 0:
        # optional columns of the yearly files: values on (nearly) every day, the sentinel on the first/last record of a year file
        # and on isolated days; whether a column "is there" is state of the reader that survives from year file to year file
        c["optcols"] = tuple(k for k in OPTCOLS if rnd.random() < 0.8) or ("verd",)
        for k in c["optcols"]:
            forced = D(min(sy + 1, eff.year), 12, 31)
            for d, r in ser:
                r[k] = "%.2f" % (rnd.uniform(0.1, 14) if k == "verd" else rnd.uniform(0, 3) if k == "sund" else rnd.uniform(0.1, 6))
                edge = (d.month, d.day) in ((12, 31), (1, 1))
                if d == forced or (edge and rnd.random() < 0.5) or rnd.random() < 0.004:
                    r[k] = none
            # the column is there in the first simulated year and holds only the sentinel from the next year file on / the reverse
            # (whether a column "is there" is reader state that outlives the year file)
            mode = ("values", "gone-next-year", "values", "appears-next-year")[(idx + OPTCOLS.index(k)) % 4]
            c.setdefault("optmode", {})[k] = mode
            for d, r in ser:
                if (mode == "gone-next-year" and d.year > start.year) or (mode == "appears-next-year" and d.year <= start.year):
                    r[k] = none
    if scen == "rollovers-past-131":
        ser = [(d, r) for d, r in ser if d <= D(2012, 1, 8)]
    elif scen == "runaway-year-counter":
        cut = D(start.year + 1, 1, rnd.randrange(3, 25))
        ser = [(d, r) for d, r in ser if d <= cut]
    elif scen == "truncated":
        cut = start + datetime.timedelta(days=rnd.randrange(20, (eff - start).days - 5))
        if cut.month == 12 and cut.day == 31:
            cut -= ONE
        ser = [(d, r) for d, r in ser if d <= cut]
    elif scen == "ends-31dec":
        # the series ends on 31 Dec of the end year while the annual date pushes ENDE to 1 Jan (the MUN example)
        end = c["end"] = D(end.year, rnd.randrange(1, 13), rnd.randrange(1, 28))
        ann = c["ann"] = D(end.year, 12, 31)
        eff = c["eff"] = _ende_eff(end, ann)
        ser = [(d, r) for d, r in ser if d <= D(end.year, 12, 31)]
    elif scen == "missing-year":
        my = rnd.randrange(sy + 1, eff.year + 1) if eff.year > sy else sy
        if layout == 0:
            c["skip_years"] = (my,)
        else:
            ser = [(d, r) for d, r in ser if d.year != my]
        c["missing"] = my
    elif scen == "gap":
        g0 = start + datetime.timedelta(days=rnd.randrange(10, (eff - start).days - 5))
        if g0.month == 12 and g0.day >= 29:
            g0 -= datetime.timedelta(days=5)
        n = rnd.randrange(1, 3)
        gap = [g0 + datetime.timedelta(days=k) for k in range(n)]
        gap = [g for g in gap if g.year == g0.year and not (g.month == 12 and g.day == 31)]
        ser = [(d, r) for d, r in ser if d not in gap]
        c["gap"] = gap
    elif scen == "gap-to-jan1":
        gy = rnd.randrange(sy, eff.year) if eff.year > sy else sy
        g0 = max(start + datetime.timedelta(days=3), D(gy, 3, 1) + datetime.timedelta(days=rnd.randrange(0, 250)))
        if g0.year != gy:
            g0 = D(gy, 12, 20)
        ser = [(d, r) for d, r in ser if not (g0 <= d <= D(gy, 12, 31))]
        c["gapjan"] = g0
    elif scen == "startyear-mismatch":
        c["anjahr"] = sy + delta
    elif scen == "preco":
        c["preco"] = ["%4.2f" % rnd.uniform(0.9, 1.3) for _ in range(12)]
    if fixed.get("preco_mode"):
        # on: switch and file; off-file: file present, switch off (factors must not be applied)
        fac = ["%4.2f" % rnd.uniform(0.9, 1.3) for _ in range(12)]
        c["preco_mode"] = fixed["preco_mode"]
        c["preco"] = fac if fixed["preco_mode"] == "on" else None
        c["preco_file"] = fac if fixed["preco_mode"] in ("on", "off-file") else None
    for k in ("etpot", "numheader", "windhi", "wroot", "wfolder", "decoy"):
        if k in fixed:
            c[k] = fixed[k]
    c["series"] = ser
    return c


def sweep_cases(rnd, idx0):
    """configuration sweep: short runs with ONE configuration key (or one pair of interacting switches) away from the
    set-up of the other runs, for every key the weather path of the day loop reads"""
    out = []

    def add(layout, name, **fixed):
        c = make_case(rnd, idx0 + len(out), layout, "sweep:" + name, fixed=fixed)
        out.append(c)
        return c
    for layout in (0, 1, 2):
        for none in ("-99", "-99.9", "999.9"):
            add(layout, "WeatherNoneValue=%s" % none, none=none)
        for mode in ("on", "off-file"):            # switch on without preco.txt ends the process (log.Fatal): an error by design, not runnable in-process
            add(layout, "CorrectionPrecipitation:%s" % mode, preco_mode=mode)
        for et in ((1, 2, 3, 4, 5) if layout == 0 else (1, 5)):     # which weather columns Evatra consumes (optional columns: per-year layout)
            add(layout, "ETpot=%d" % et, etpot=et)
    for layout, nh, wh in ((0, 0, None), (0, 1, None), (0, 2, None), (0, 3, "2"), (1, 1, None), (1, 3, "2.0"), (2, 2, None)):
        add(layout, "WeatherNumHeader=%d" % nh, numheader=nh, windhi=wh, etpot=rnd.choice([1, 2, 4]))
    for layout in (0, 1, 2):
        # the weather files outside the default place; the default place holds a decoy (the same series shifted by one day)
        add(layout, "WeatherRootFolder=./wx2/", wroot="./wx2/", decoy=True)
        add(layout, "WeatherRootFolder=<absolute>", wroot="<abs>/wx3", decoy=True)
        add(layout, "WeatherFolder=<nested>", wfolder="nested/%s", decoy=True)
        add(layout, "WeatherRootFolder=''", wroot="", wfolder="wx4/%s", decoy=True)
    for layout in (0, 1, 2):
        # two runs of one session on the same weather file(s): the second starts a year later (the file starts before its start year)
        a = add(layout, "shared-weather-file:first")
        b = make_case(rnd, idx0 + len(out), layout, "sweep:shared-weather-file:second", fixed={"none": a["none"]})
        b["series"], b["order"], b["windhi"], b["optcols"], b["share"] = a["series"], a["order"], a["windhi"], a["optcols"], a["idx"]
        y = a["eff"].year
        b["sy"] = b["anjahr"] = y
        b["start"] = D(y, rnd.randrange(1, 4), rnd.randrange(1, 29)); b["end"] = b["eff"] = b["start"] + datetime.timedelta(days=rnd.randrange(60, 200))
        b["ann"] = D(y, b["start"].month, 1)
        if b["ann"] >= b["end"]:
            b["ann"] = b["start"]
        out.append(b)
    for layout in (1, 2):
        # two runs of one session on the SAME DEFICIENT multi-year file (a gap), same window and configuration: the second run must end
        # in the reader's error like the first - an error seen once per session is not an error reported once (seeded C04-18)
        import copy as _copy
        a = make_case(rnd, idx0 + len(out), layout, "gap")
        out.append(a)
        b = _copy.deepcopy(a)
        b["idx"], b["share"] = idx0 + len(out), a["idx"]
        out.append(b)
    return out


def gen_cases(ctx):
    rnd = random.Random(ctx.seed * 7919 + 4)
    reps = 14 if ctx.thorough else 1
    cases = []
    for rep in range(reps):
        for layout in (0, 1, 2):
            for scen in scenarios(layout):
                cases.append(make_case(rnd, len(cases), layout, scen, ctx.thorough, variant=layout + rep + ctx.seed))
    cases += sweep_cases(random.Random(ctx.seed * 104729 + 17), len(cases))
    return cases


# ---------------------------------------------------------------------------------------------

def _run(ctx):
    if "runs" in _cache:
        return _cache["runs"]
    root = wxlib.make_tree(ctx, "c04")
    cases = gen_cases(ctx)
    lines = []
    wcfgs = {}
    for c in cases:
        p = "q%03d" % c["idx"]
        ser = c["series"]
        wroot, wfolder = c.get("wroot"), (c.get("wfolder") or "%s") % p
        if c.get("share") is not None:
            # second run of a session on the weather file(s) of the run before
            wcfg, fcode = wcfgs[c["share"]]
        else:
            fcode = "F" + p
            place = {None: "weather", "./wx2/": "wx2", "<abs>/wx3": "wx3", "": ""}[wroot]
            wcfg = wxlib.write_weather(root, wfolder, c["layout"], fcode, ser, skip_years=c["skip_years"], windhi=c.get("windhi"), order=c.get("order"),
                                       none=c["none"], numheader=c.get("numheader"), wroot=place)
            if c.get("decoy"):
                # the place the other runs use holds the same series shifted by one day
                shifted = [(d, r2) for (d, r1), (d2, r2) in zip(ser, ser[1:] + ser[:1])]
                wxlib.write_weather(root, p, c["layout"], fcode, shifted, windhi=c.get("windhi"), order=c.get("order"), none=c["none"],
                                    numheader=c.get("numheader"))
            wcfg = dict(wcfg, WeatherFolder=wfolder)
            if wroot is not None:
                wcfg["WeatherRootFolder"] = wroot.replace("<abs>", root)
            wcfgs[c["idx"]] = (wcfg, fcode)
        cfg = dict(wcfg, WeatherNoneValue=c["none"], StartYear=c["anjahr"], EndDate=de(c["end"]),
                   AnnualOutputDate="%02d%02d" % (c["ann"].day, c["ann"].month), OutputIntervall=0,
                   ETpot=c["etpot"])
        if c["preco"]:
            cfg["CorrectionPrecipitation"] = 1
        fac = c.get("preco_file") or (c["preco"] if not c.get("preco_mode") else None)
        if fac:
            wdir = os.path.join(root, {None: "weather", "./wx2/": "wx2", "<abs>/wx3": "wx3", "": ""}[wroot], wfolder)
            with open(os.path.join(wdir, "preco.txt"), "w") as f:
                f.write("Mo corr\n" + "".join("%02d %s\n" % (m + 1, v) for m, v in enumerate(fac)))
        st = c["start"]
        rot = [("SM", None, st), ("SOY", st + datetime.timedelta(days=200), st + datetime.timedelta(days=330)),
               ("SM", st + datetime.timedelta(days=560), st + datetime.timedelta(days=700))]
        wxlib.write_project(root, p, cfg, rot)
        lines.append(("+" if c.get("share") is not None else "") + wxlib.batch_line(p, fcode, "R/" + p))
    rc, runs, err = wxlib.run_lines(ctx, root, lines, True, "c04")
    _cache["runs"] = (rc, cases, runs, err)
    return _cache["runs"]


def _fl(s):
    return "(%s)" % s if s.startswith("-") else s


def _recf(c, r):
    vals = [r["tavg"] if c["layout"] != 2 else "0", r["tmin"], r["tmax"], r["rh"], r["rad"], r["wind"], r["prec"]]
    return "[" + "; ".join(hexf(float(v)) for v in vals) + "]"


def coq_case(c, run):
    lay = c["layout"]
    if lay == 0:
        byyear = {}
        for d, r in c["series"]:
            if d.year in c["skip_years"]:
                continue
            byyear.setdefault(d.year, []).append("(%d%%uint63, %s)" % (doy(d), _recf(c, r)))
        files = ["(%d%%Z, [%s])" % (y, ";\n   ".join(v)) for y, v in byyear.items()]
    else:
        files = ["(0%%Z, [%s])" % ";\n   ".join("(%d%%uint63, %s)" % (d.year * 1000 + doy(d), _recf(c, r)) for d, r in c["series"])]
    corr = c["preco"] or ["1"] * 12
    days = []
    for (z, tag, j, jt), e in zip(run.get("days") or [], run.get("echo") or []):
        if not (0 <= tag < 1000 and 0 <= j < 1000 and 0 <= jt < 1000 and 0 < z < 100000):
            return None
        days.append("(%d%%uint63, [%s])" % (((z * 1000 + tag) * 1000 + j) * 1000 + jt, "; ".join(_fl(x) for x in e)))
    st, en, an = c["start"], c["end"], c["ann"]
    return ("(mkcase %d%%Z %s %s [%s] %d%%Z (%d%%Z, %d%%Z, %d%%Z) (%d%%Z, %d%%Z, %d%%Z) (%d%%Z, %d%%Z)\n [%s]\n %s\n [%s])"
            % (lay, "true" if c["etpot"] == 3 else "false", hexf(float(c["none"])), "; ".join(hexf(float(x)) for x in corr), c["anjahr"], st.day, st.month, st.year,
               en.day, en.month, en.year, an.day, an.month, ";\n  ".join(files), "true" if run["success"] else "false",
               ";\n  ".join(days)))


def correspond(ctx):
    c = Corr()
    rc, cases, runs, err = _run(ctx)
    ok, out = ctx.coq_make(["C04Corr", "C04TokCorr"])
    if not ok:
        c.mismatches.append({"kind": "coq-build", "what": "C04Corr / C04TokCorr do not build", "output": out[-1500:]})
        return c
    if rc != 0 or len(runs) != len(cases):
        c.mismatches.append({"kind": "harness-crash", "rc": rc, "runs": len(runs), "of": len(cases), "stderr": err[-1500:]})
        return c
    hdr = ["From Coq Require Import ZArith List Bool Floats Uint63.", "From Hermes Require Import Num WeatherModel CtrlModel C04Corr.",
           "Import ListNotations.", "Open Scope float_scope."]
    recs = []
    for cs, run in zip(cases, runs):
        t = coq_case(cs, run)
        if t is None:
            c.mismatches.append({"kind": "unpackable-observation", "case": _describe(cs)})
            continue
        recs.append((cs, t, len(run.get("days") or [])))
        c.bump("layout%d" % cs["layout"]); c.bump(cs["scen"])
        c.bump("run-error" if not run["success"] else "run-ok")
        c.nontrivial += len(run.get("days") or [])
    nsh = min(16, max(1, len(recs)))
    shards = [[] for _ in range(nsh)]
    for k, r in enumerate(sorted(recs, key=lambda r: -r[2])):
        shards[k % nsh].append(r)
    items = []
    for k, sh_ in enumerate(shards):
        if not sh_:
            continue
        items.append(("Cases_C04_%d" % k, "\n".join(hdr + [
            "Definition cases : list c04case := [\n%s\n]." % ";\n".join(r[1] for r in sh_),
            "Definition M := Eval vm_compute in c04_mismatches 0 cases.", "Print M."]) + "\n"))
    for (name, rc2, o), sh_ in zip(ctx.coq_eval_many(items, timeout=1500), [s for s in shards if s]):
        m = re.search(r"M\s*=\s*(.*?)\s*:\s*list \(nat \* list Z\)", o, re.S)
        if rc2 != 0 or not m:
            c.mismatches.append({"kind": "coq-eval", "shard": name, "output": o[-1500:]})
            continue
        body = m.group(1).strip()
        if body != "[]":
            for mm in re.finditer(r"\((\d+)(?:%nat)?,\s*\[([^\]]*)\]\)", body):
                cs = sh_[int(mm.group(1))][0]
                c.mismatches.append({"kind": "whole-run", "what": "model and run differ (day indices; -1 day count, -2 result kind, -3 model panic)",
                                     "days": mm.group(2), "case": _describe(cs)})
            if not re.search(r"\(\d+", body):
                c.mismatches.append({"kind": "coq-eval", "shard": name, "output": o[-800:]})
    c.cases = len(recs)
    c.samples = [_describe(cs) for cs in cases[:6]]
    # ---- character level: generated files through the real readers vs WeatherTokModel
    tcases, tres, restarts = _run_tok(ctx)
    mm, broken, unusable = toklib.evaluate(ctx, tcases, tres)
    for b in broken:
        c.mismatches.append(b)
    for i in unusable:
        c.mismatches.append({"kind": "reader-crash", "what": "the reader process ended in neither log.Fatal nor a recovered panic",
                             "class": tres[i]["class"], "stderr": tres[i].get("err", ""), "file": tcases[i]["text"][:400]})
    abst = 0
    for i, code in mm:
        if code == 9:
            abst += 1
            continue
        tc = tcases[i]
        c.mismatches.append({"kind": "tokenisation", "what": "character-level model and real reader differ (%s)"
                             % {1: "result class", 2: "stored arrays / LoadYear values", 3: "optional columns SUND / VERD / ETNULL of the year file"}.get(code, code),
                             "layout": tc["layout"], "numheader": tc["nh"], "real_class": tres[i]["class"], "mutation": tc.get("mut"),
                             "file": tc["text"][:600]})
    pm, pf = _run_preco(ctx)
    for m_ in pm:
        c.mismatches.append(m_)
    c.cases += 6; c.nontrivial += 3 * (365 + 366); c.dist["preco_sweep_days"] = 3 * (365 + 366)
    c.cases += len(tcases) - abst
    c.nontrivial += sum(len(s_["cells"]) for o in tres for s_ in o.get("slots", []))
    cls = {}
    for o in tres:
        cls[o["class"]] = cls.get(o["class"], 0) + 1
    c.dist["tok_files"] = len(tcases); c.dist["tok_model_abstains"] = abst
    for k, v in cls.items():
        c.dist["tok_class_" + k] = v
    return c


def _run_tok(ctx):
    if "tok" not in _cache:
        root = wxlib.make_tree(ctx, "c04")
        tcases = toklib.gen_files(ctx)
        tres, restarts = toklib.run_real(ctx, root, tcases)
        _cache["tok"] = (tcases, tres, restarts)
    return _cache["tok"]


def _run_preco(ctx):
    """every day number of a 365- and a 366-day year through the three real readers with twelve different monthly factors"""
    if "preco" not in _cache:
        root = wxlib.make_tree(ctx, "c04")
        pcases = toklib.preco_cases(root)
        pres, _ = toklib.run_real(ctx, root, pcases, sub="precofiles")
        _cache["preco"] = toklib.evaluate_preco(ctx, pcases, pres)
    return _cache["preco"]


def _describe(cs):
    return ("case %d layout=%d scenario=%s StartYear=%d start=%s EndDate=%s annual=%s none=%s series=%s..%s (%d records)%s"
            % (cs["idx"], cs["layout"], cs["scen"], cs["anjahr"], cs["start"], cs["end"], cs["ann"], cs["none"],
               cs["series"][0][0], cs["series"][-1][0], len(cs["series"]),
               " skip_year_files=%s" % (cs["skip_years"],) if cs["skip_years"] else ""))


# ---------------------------------------------------------------------------------------------
# the property, directly



def _expect(cs, inp, z):
    """normalised record of civil date z (None entries = the property does not fix the value)"""
    r = inp[z]
    none = float(cs["none"])
    f = lambda k, rr=r: float(rr[k])
    tav = (f("tmax") + f("tmin")) / 2 if cs["layout"] == 2 else f("tavg")
    if tav == none:
        tav = None
        a, b = inp.get(z - ONE), inp.get(z + ONE)
        same_file = cs["layout"] != 0 or (a is not None and b is not None and (z - ONE).year == z.year == (z + ONE).year)
        if a is not None and b is not None and same_file:
            ta = (float(a["tmax"]) + float(a["tmin"])) / 2 if cs["layout"] == 2 else float(a["tavg"])
            tb = (float(b["tmax"]) + float(b["tmin"])) / 2 if cs["layout"] == 2 else float(b["tavg"])
            if ta != none and tb != none:
                tav = (ta + tb) / 2
    rad = None if f("rad") == none else f("rad") / 2
    corr = float(cs["preco"][z.month - 1]) if cs["preco"] else 1.0
    prec = None if f("prec") == none else f("prec") / 10 * corr
    w = f("wind")
    return [tav, f("tmin"), f("tmax"), f("rh"), rad, max(w, 0.5), prec]


def _expect_opt(cs, inp, z, name):
    """value of the optional column handed to Evatra for date z; a tuple = any of these (a sentinel that cannot be filled from its two
    neighbours in the file reaches the model as the sentinel itself or as 0 — never as the value of another day)"""
    none = float(cs["none"])
    v = float(inp[z][name])
    if v != none:
        return v
    a, b = inp.get(z - ONE), inp.get(z + ONE)
    if a is not None and b is not None and (z - ONE).year == z.year == (z + ONE).year:
        fa, fb = float(a[name]), float(b[name])
        if fa != none and fb != none:
            return (fa + fb) / 2
    # what the reader's pass over the year file leaves (in place, in file order: an earlier sentinel of the sunshine column has become 0
    # by the time its successor is looked at)
    key = (name, z.year)
    cache = cs.setdefault("_optpass", {})
    if key not in cache:
        ds = sorted(d for d in inp if d.year == z.year)
        v = [float(inp[d][name]) for d in ds]
        for i in range(len(v)):
            if 0 < i < len(v) - 1:
                if v[i] == none and v[i - 1] != none and v[i + 1] != none:
                    v[i] = (v[i - 1] + v[i + 1]) / 2
            elif v[i] == none:
                v[i] = 0.0
            if name == "sund" and v[i] == none:
                v[i] = 0.0
        cache[key] = dict(zip(ds, v))
    return (none, 0.0, cache[key][z])


def _problem(cs, beginn, eff):
    """first simulated date at which the input is deficient (not covered / gap / missing year file / year file not
    starting at day 1), with the failure mode; None when every simulated day is covered"""
    inp = {d: r for d, r in cs["series"] if d.year not in cs["skip_years"]}
    if cs["layout"] == 0:
        # the unit of the per-year layout is the year file: it has to start at day 1 and be consecutive; a file
        # that is not is deficient from the first simulated day that falls into its year
        for y in range(beginn.year, eff.year + 1):
            ds = sorted(d for d in inp if d.year == y)
            if not ds:
                continue
            mode = None
            if ds[0] != D(y, 1, 1):
                mode = "year-file-not-from-day-1"
            elif any(b - a != ONE for a, b in zip(ds, ds[1:])):
                mode = "gap-in-year-file"
            if mode:
                first_bad = max(beginn, D(y, 1, 1))
                z = beginn
                while z < first_bad:            # an earlier uncovered day wins
                    if z not in inp:
                        break
                    z += ONE
                if z == first_bad:
                    return first_bad, mode, inp
                break
    z = beginn
    while z <= eff:
        if z not in inp:
            has_year = any(d.year == z.year for d in inp)
            later = any(d > z for d in inp)
            if not has_year:
                mode = ("missing-year-file" if cs["layout"] == 0 else "uncovered-day") if later or cs["layout"] == 0 else "uncovered-day"
            elif any(d.year == z.year and d > z for d in inp):
                mode = "gap-in-year-file" if cs["layout"] == 0 else "gap"
            else:
                mode = "short-year"
            return z, mode, inp
        z += ONE
    return None, None, inp


def oracle(ctx, search):
    rc, cases, runs, err = _run(ctx)
    fails = []
    if rc != 0 or len(runs) != len(cases):
        fails.append(Fail(key="harness-crash", what="the simulator aborted (log.Fatal/panic) on a generated weather input",
                          stderr=err[-800:], completed_runs=len(runs)))
        return fails
    checked = nopt = 0
    for cs, run in zip(cases, runs):
        beginn, eff = cs["start"], cs["eff"]
        p, mode, inp = _problem(cs, beginn, eff)
        desc = _describe(cs)
        days = run.get("days") or []
        echo = run.get("echo") or []
        optv = run.get("opt") or []
        mismatch = cs["anjahr"] != beginn.year
        # StartYear differing from the year of the first simulated day: the run has to end with the start-year error or, if it
        # runs, every day has to be driven by the record of its own date like in any other run
        if not run["success"]:
            if p is None and not mismatch:
                fails.append(Fail(key="unexpected-run-error:layout%d:%s" % (cs["layout"], cs["scen"]),
                                  what="run ended with an error although the weather input covers every simulated day",
                                  error=run["err"], case=desc))
            continue
        # the run reported success
        want_days = (eff - beginn).days + 1
        bad = None
        for k in range(want_days):
            z = beginn + datetime.timedelta(days=k)
            if p is not None and z >= p:
                break
            if k >= len(days):
                bad = (z, "no simulated day for this date")
                break
            if days[k][0] != daynum(z):
                bad = (z, "simulated day number %d, expected %d" % (days[k][0], daynum(z)))
                break
            want = _expect(cs, inp, z)
            got = [float.fromhex(x) for x in echo[k]]
            for name, wv, gv in zip(wxlib.COLS, want, got):
                if wv is None:
                    continue
                ok = (gv in wv) if isinstance(wv, tuple) else (gv == wv)
                if not ok:
                    bad = (z, "%s: consumed %r, record of that date normalised = %r" % (name, gv, wv))
                    break
            if bad:
                break
            # optional columns of the per-year layout as Evatra gets them (the value of that date, the mean of the neighbours
            # for an isolated sentinel inside the file; first/last record and sentinel neighbours: not fixed)
            for j, name in enumerate(OPTCOLS):
                if name not in cs["optcols"] or k >= len(optv):
                    continue
                wv = _expect_opt(cs, inp, z, name)
                if wv is not None:
                    nopt += 1
                    gv = float.fromhex(optv[k][j])
                    if (gv not in wv) if isinstance(wv, tuple) else (gv != wv):
                        bad = (z, "optional column %s: consumed %r, record of that date normalised = %r" % (name, gv, wv))
                        break
            if bad:
                break
            checked += 1
        if bad and mismatch:
            fails.append(Fail(key="startyear-mismatch-not-reported:layout%d" % cs["layout"],
                              what="StartYear %d, first simulated day %s: the run reports success, and day %s is not driven by the weather "
                                   "record of that date: %s" % ((cs["anjahr"], beginn) + bad), case=desc))
            continue
        if bad:
            fails.append(Fail(key="misaligned:layout%d:%s:%s" % (cs["layout"], cs["scen"], bad[0]),
                              what="day %s is not driven by the weather record of that date: %s" % bad, case=desc))
            continue
        if p is not None:
            fails.append(Fail(key="weather-not-covering-not-reported:%s:layout%d" % (mode, cs["layout"]),
                              what="weather input deficient from %s (%s) but the run reports success with %d simulated days"
                                   % (p, mode, len(days)), case=desc))
        elif len(days) != want_days:
            fails.append(Fail(key="day-count:layout%d:%s" % (cs["layout"], cs["scen"]),
                              what="%d simulated days, expected %d" % (len(days), want_days), case=desc))
    ctx.extra["oracle_days_checked"] = checked
    sw = [(cs, run) for cs, run in zip(cases, runs) if cs["scen"].startswith("sweep:")]
    ctx.extra["configuration_sweep"] = {
        "what": "short runs over a year change with one configuration key (or one pair of interacting switches) away from the set-up of the other "
                "runs; same oracle (error, or every day driven by its own date's record, optional columns included) and same model correspondence",
        "lines": len(sw), "lines_run_ok": sum(1 for cs, run in sw if run["success"]),
        "keys": sorted(set(cs["scen"][6:] + " layout %d" % cs["layout"] for cs, run in sw)),
        "dropped_as_invalid": ["CorrectionPrecipitation=1 without preco.txt (log.Fatal: error by design, ends the process)"]}
    ctx.extra["oracle_optional_column_values_checked"] = nopt
    # ---- character level, the property's domain: well-formed files are read back value for value
    tcases, tres, restarts = _run_tok(ctx)
    badwf, nwf = toklib.oracle_wellformed(tcases, tres)
    for tc, what in badwf:
        fails.append(Fail(key="well-formed-file-misread:layout%d:%d" % (tc["layout"], tc["idx"]), what=what,
                          layout=tc["layout"], numheader=tc["nh"], file=tc["text"][:800]))
    ctx.extra["oracle_wellformed_lines_checked"] = nwf
    pm, pf = _run_preco(ctx)
    for key, what in pf:
        fails.append(Fail(key=key, what=what))
    # malformed lines are outside the property's quantifier (decision of the lead): observed, never an alarm
    shifted, stats = toklib.oracle_malformed(tcases, tres)
    if os.environ.get("C04_DEBUG"):
        for f_ in fails:
            open("/tmp/c04fails.txt", "a").write("%s | %s\n" % (f_["key"], str(dict(f_))[:500]))
    ctx.extra["observed_outside_property"] = {
        "what": "malformed data lines (empty field, decimal comma, dropped field) that the multi-year readers accept as a record "
                "shifted by one column because Explode drops empty fields and the token count is never compared with the header; "
                "characterised by Prop_C04.C04_tok_csv_line_characterised, witnesses C04_tok_malformed_line_witnesses",
        "shifted_records_this_run": len(shifted),
        "examples": [{"layout": tc["layout"], "mutation": tc["mut"], "what": w} for tc, w in shifted[:5]],
        "malformed_line_outcomes": {"%s->%s" % k: v for k, v in sorted(stats.items())}}
    return fails


LEVEL_TEXT = ("Machine-checked proof (Coq) about the model of the weather loaders and the calendar stepping, for every series "
              "and every simulation window 1901-2099; the model is run against whole runs of the real simulator (all three "
              "layouts) each check, bit-exact per simulated day; the property itself is evaluated on the same runs.")
LEVEL_NOTE = ("Tokenisation modelled at character level (Explode, TrimSpace, plain-decimal ParseFloat/ParseInt, the two date "
              "layouts, header lines) and tied bit-exact through the real readers; exponent/hex/inf/nan spellings are outside the "
              "modelled fragment (model abstains). F9 (discarded loader errors) is a known "
              "finding: uncovered_is_error is refuted at model level next to its conditional version. No axioms.")
TECHNIQUE = "Coq proof (lia over the C12 calendar results, induction over record lists) + whole-run model/code correspondence + direct oracle"
