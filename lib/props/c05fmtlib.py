"""C05, formatting tie: whole runs with the configurations OF THE CURRENT SOURCE (the three built-in ones; thorough: the
shipped ones too), each column followed by an exact-value twin column, both output styles.  Every emitted field is
parsed back and compared with the traced state at the precision its format string keeps; the traced state is (a) the twin
column (the value WriteLine saw) and (b), for the variables the day loop does not touch between the end-of-day probe and
the write, the value the harness reads from the run state with its own reflection (catches a column bound to another
variable / index)."""
import datetime, os, random
from props import wxlib, outfmtlib
from props.wxlib import daynum, de

D = datetime.date
_cache = {}
STRING = object()

# assigned by run.go between the 'dayend' probe and the daily / yearly WriteLine (run.go:653-673, 716-724)
AFTER_PROBE = {"AKTUELL", "HARVEST", "NAOSAKT", "NFOSAKT", "Nmin9to20", "SickerDaily", "SickerDailyDiff", "SumMINAOS", "SumMINFOS",
               "AvgTSoil", "AUS", "SIC", "AUFNA", "PerY", "SWCY1", "SWCY2", "SOC1", "Crop", "NAbgbio", "DRflowsum", "Ndrflow",
               "Nleach", "Percsum", "NfixP"}


def cases_for(ctx, cfgs):
    sets = [("default", cfgs["default:daily"], cfgs["default:yearly"], cfgs["default:crop"])]
    if ctx.thorough:
        projs = sorted(set(k.split(":")[1].split("/")[0] for k in cfgs if k.startswith("shipped:")))
        for p in projs:
            d, y, c = (cfgs.get("shipped:%s/%s" % (p, f)) for f in ("dailyout_conf.yml", "yearlyout_conf.yml", "cropout_conf.yml"))
            if d and y and c and not any("error" in x for x in (d, y, c)):
                sets.append((p, d, y, c))
    out = []
    for name, d, y, c in sets:
        for csv in (False, True):
            out.append({"name": name, "csv": csv, "daily": d, "yearly": y, "crop": c})
    return out


def run(ctx):
    if "res" in _cache:
        return _cache["res"]
    cfgs = outfmtlib.translate(ctx)
    root = wxlib.make_tree(ctx, "c05f")
    rnd = random.Random(ctx.seed + 505)
    start, end = D(1991, 9, 25), D(1993, 11, 30)
    ser = wxlib.gen_series(rnd, D(1991, 1, 1), D(1994, 12, 31))
    wcfg = wxlib.write_weather(root, "w", 1, "WX", ser)
    rot = [("SM", None, start), ("WW", D(1991, 10, 10), D(1992, 8, 5)), ("SM", D(1993, 5, 2), D(1993, 10, 12))]
    cases = cases_for(ctx, cfgs)
    lines = []
    allvars, index = [], {}
    for k, c in enumerate(cases):
        p = "f%03d" % k
        cfg = dict(wcfg, WeatherFolder="w", StartYear=1991, EndDate=de(end), AnnualOutputDate="3110", OutputIntervall=1,
                   ResultFileFormat=1 if c["csv"] else 0, ETpot=3)
        wxlib.write_project(root, p, cfg, rot, raw_confs={"daily": outfmtlib.conf_text(c["daily"]), "yearly": outfmtlib.conf_text(c["yearly"]),
                                                          "crop": outfmtlib.conf_text(c["crop"])})
        lines.append(wxlib.batch_line(p, "WX", "R/" + p))
        for col in c["daily"]["cols"] + c["yearly"]["cols"]:
            key = (col["name"], col["sub"], col["i1"], col["i2"])
            if key not in index:
                index[key] = len(allvars); allvars.append(list(key))
    rc, runs, err = wxlib.run_lines(ctx, root, lines, True, "c05f", vars_spec=allvars)
    _cache["res"] = (rc, cases, runs, err, root, index, start, end)
    return _cache["res"]


def _records(path, cfg, csv):
    """(header lines, [fields]) — CSV: split at the separator; fixed width: by the configured widths when the line has
    the configured length, else by white space"""
    if not os.path.exists(path):
        return None, None
    data = open(path, newline="", encoding="utf-8", errors="replace").read()
    lines = data.split("\r\n")
    if lines and lines[-1] == "":
        lines.pop()
    nh = len(cfg["heads"])
    heads, body = lines[:nh], lines[nh:]
    widths = [c["width"] for c in cfg["cols"]] + [outfmtlib.TWIN_WIDTH] * len(cfg["cols"])
    sep = (cfg.get("sep") or ",")[:1]
    recs = []
    for ln in body:
        if csv:
            recs.append((ln.split(sep), ln, True))
        elif len(ln) == sum(w + 1 for w in widths):
            f, pos = [], 0
            for w in widths:
                f.append(ln[pos:pos + w]); pos += w + 1
            recs.append((f, ln, True))
        else:
            recs.append((ln.split(), ln, False))
    return heads, recs


def check(ctx):
    """returns (model/real disagreements, property failures, statistics)"""
    if "chk" in _cache:
        return _cache["chk"]
    rc, cases, runs, err, root, index, start, end = run(ctx)
    mism, fails, st = [], [], {"fields": 0, "probe_crosschecks": 0, "overflows": 0, "header_lines": 0, "records": 0}
    if rc != 0 or len(runs) != len(cases):
        mism.append({"kind": "harness-crash", "stderr": err[-800:]})
        _cache["chk"] = (mism, fails, st)
        return _cache["chk"]
    for k, (c, r) in enumerate(zip(cases, runs)):
        tag0 = "%s/%s" % (c["name"], "csv" if c["csv"] else "fixed")
        if not r["success"]:
            fails.append(("run-error:%s" % tag0, "run with the source's own output configuration ended with an error: %s" % r["err"]))
            continue
        rdir = os.path.join(root, "R", "f%03d" % k)
        ext = "csv" if c["csv"] else "RES"
        day_of = {z: i for i, (z, _, _, _) in enumerate(r["days"])}
        for tag, cfg in (("V", c["daily"]), ("Y", c["yearly"]), ("C", c["crop"])):
            files = [f for f in os.listdir(rdir) if f.startswith(tag) and f.endswith("." + ext)]
            heads, recs = _records(os.path.join(rdir, files[0]), cfg, c["csv"]) if len(files) == 1 else (None, None)
            if recs is None:
                fails.append(("result-file-missing:%s:%s" % (tag0, tag), "no %s file" % tag)); continue
            n = len(cfg["cols"])
            widths = [x["width"] for x in cfg["cols"]] + [outfmtlib.TWIN_WIDTH] * n
            arr = [0]
            for w in widths:
                arr.append(arr[-1] + w + 1)
            if not c["csv"]:
                _cache.setdefault("hdrlens", {})[(c["name"], tag)] = [len(x) for x in heads]
            # ---- header lines
            for hk, hl in zip(sorted(cfg["heads"], key=int), heads):
                st["header_lines"] += 1
                cells = cfg["heads"][hk]
                if c["csv"]:
                    sep = (cfg.get("sep") or ",")[:1]
                    if len(hl.split(sep)) != 2 * n:
                        fails.append(("header-count:%s:%s" % (tag0, tag), "header line %s has %d fields, records have %d columns: %r"
                                      % (hk, len(hl.split(sep)), 2 * n, hl[:160])))
                else:
                    exp = header_line(cells, widths, (cfg.get("fillchar") or " ")[:1])
                    if hl != exp:
                        i0 = next((i for i, (a, b) in enumerate(zip(hl, exp)) if a != b), min(len(hl), len(exp)))
                        fails.append(("header-position:%s:%s" % (tag0, tag), "header line %s: cells not above their columns; differs at character %d: "
                                      "written %r, expected %r" % (hk, i0, hl[max(0, i0 - 15):i0 + 25], exp[max(0, i0 - 15):i0 + 25])))
            # ---- records
            for ri, (f, ln, positional) in enumerate(recs):
                st["records"] += 1
                if len(f) != 2 * n:
                    if not c["csv"] and not positional:
                        st["overflows"] += 1       # a field wider than its column (or an empty text): not countable by white space
                        continue
                    fails.append(("field-count:%s:%s" % (tag0, tag), "record %d has %d fields, the configuration defines %d columns" % (ri, len(f), 2 * n)))
                    break
                if not c["csv"] and not positional:
                    st["overflows"] += 1
                date = wxlib_date(f[0]) if tag in ("V", "Y") else None
                di = day_of.get(daynum(date)) if date else None
                bad = None
                wants = []
                for j, col in enumerate(cfg["cols"]):
                    kind = outfmtlib.kind_of(col)
                    shown, twin = f[j].strip(), f[n + j].strip()
                    st["fields"] += 1
                    if kind == "float":
                        try:
                            v = float.fromhex(twin)
                        except ValueError:
                            bad = (col, "twin %r is not a hex float" % twin); break
                        val = v * col["mod"] if col["mod"] else v
                        want = outfmtlib.render(col["fmt"], val)
                        sp = outfmtlib.parse_fmt(col["fmt"])
                        if want is None or sp is None:
                            bad = (col, "format %r not understood" % col["fmt"]); break
                        wants.append(want)
                        if shown != want.strip():
                            mism.append({"kind": "field-text", "what": "emitted %r, format %r of %r gives %r" % (shown, col["fmt"], val, want),
                                         "config": tag0, "file": tag, "variable": col["var"]})
                        if val == val and abs(val) != float("inf"):
                            try:
                                back = float(shown)
                            except ValueError:
                                bad = (col, "field %r is not a number (value %r, format %r)" % (shown, val, col["fmt"])); break
                            tol = 0.5 * 10.0 ** (-(sp["prec"] if sp["prec"] is not None else 6))
                            if abs(back - val) > tol * (1 + 1e-9) + 1e-12 * abs(val):
                                bad = (col, "field %r differs from the traced value %r by more than the precision of %r" % (shown, val, col["fmt"])); break
                        probe_val = None
                        if tag in ("V", "Y") and di is not None and col["name"] not in AFTER_PROBE:
                            pv = r["vals"][di][index[(col["name"], col["sub"], col["i1"], col["i2"])]]
                            if pv != "?":
                                st["probe_crosschecks"] += 1
                                if float.fromhex(pv) != v and not (v != v):
                                    bad = (col, "column shows %r but the run state holds %s[%d][%d] = %r on that day"
                                           % (v, col["var"], col["i1"], col["i2"], float.fromhex(pv))); break
                    elif kind == "int":
                        try:
                            if int(shown) != int(twin):
                                bad = (col, "integer field %r, traced value %r" % (shown, twin)); break
                            wants.append(outfmtlib.render(col["fmt"], int(twin)))
                        except ValueError:
                            bad = (col, "integer field %r / twin %r not numeric" % (shown, twin)); break
                        if tag in ("V", "Y") and di is not None and col["name"] not in AFTER_PROBE:
                            pv = r["vals"][di][index[(col["name"], col["sub"], col["i1"], col["i2"])]]
                            if pv != "?":
                                st["probe_crosschecks"] += 1
                                if int(pv) != int(twin):
                                    bad = (col, "column shows %s, the run state holds %s" % (twin, pv)); break
                    elif kind in ("string", "na"):
                        if shown != twin:
                            bad = (col, "text field %r, traced value %r" % (shown, twin)); break
                        if kind == "na" and twin != (cfg.get("na") or "n.a."):
                            bad = (col, "unknown variable shown as %r, NaValue is %r" % (twin, cfg.get("na"))); break
                        raw = f[n + j] if c["csv"] else None      # the text itself, blanks included, is only visible in the CSV style
                        wants.append(outfmtlib.render(col["fmt"], raw) if raw is not None else STRING)
                    else:
                        bad = (col, "column of an unsupported kind in a configuration of the source"); break
                if bad:
                    fails.append(("field-value:%s:%s:%s" % (tag0, tag, bad[0]["var"]), "record %d (%s): %s" % (ri, f[0].strip(), bad[1])))
                    break
                # ---- the line itself, byte for byte: fields in column order, padded to the column width on the configured side
                # (fixed width) / joined by the separator (CSV).  Text values with blanks cannot be traced through a
                # white-space split: such records are compared field by field only.
                if len(wants) == n and all(w is not None for w in wants) and (positional or c["csv"]):
                    if c["csv"]:
                        sep = (cfg.get("sep") or ",")[:1]
                        exp = sep.join(wants) + sep
                    else:
                        # text columns: placed as written (their own blanks are not recoverable from a fixed-width line)
                        exp = "".join((f[j] if w is STRING else _pad(w, col["width"], col["align"])) + " "
                                      for j, (w, col) in enumerate(zip(wants, cfg["cols"])))
                    st["lines_exact"] = st.get("lines_exact", 0) + 1
                    if not ln.startswith(exp):
                        i0 = next((i for i, (a, b) in enumerate(zip(ln, exp)) if a != b), min(len(ln), len(exp)))
                        fails.append(("record-line:%s:%s" % (tag0, tag), "record %d is not its fields in column order padded to the column widths: "
                                      "differs at character %d: written %r, expected %r" % (ri, i0, ln[max(0, i0 - 20):i0 + 20], exp[max(0, i0 - 20):i0 + 20])))
                        break
    _cache["chk"] = (mism, fails, st)
    return _cache["chk"]


def _pad(t, width, align):
    """writeHermesString: fill on the right (left alignment), on the left (right), on both sides (centre / none)"""
    k = width - len(t)
    if k <= 0:
        return t
    if align == 1:
        return " " * k + t
    if align == 0:
        return t + " " * k
    a = k // 2
    return " " * a + t + " " * (a + k % 2)


def header_line(cells, widths, fill=" "):
    """WriteHeader, fixed-width style, rune for rune: the gap before a cell is drawn with the PREVIOUS cell's fill character up
    to one position before the cell, then one configuration fill character; text and alignment padding use the cell's own"""
    arr = [0]
    for w in widths:
        arr.append(arr[-1] + w + 1)
    out, cur, last, filler = [], 0, 0, fill
    for h in cells:
        a, e = arr[h["start"] - 1], arr[h["end"]]
        last = e
        while cur < a - 1:
            out.append(filler); cur += 1
        filler = fill
        while cur < a:
            out.append(filler); cur += 1
        cf = (h.get("fill") or " ")[:1]
        filler = cf
        R = e - a - 1
        t = h["text"]
        L = len(t)
        if h["align"] == 0:
            w = t[:max(R, 0)]
        elif h["align"] == 1:
            w = cf * (R - L) + t if R - L > 0 else t[:max(R, 0)]
        else:
            f = max(int((R - L) / 2), 0)
            w = cf * f + t[:max(R - f, 0)]
        out.append(w); cur += len(w)
    while cur < last:
        out.append(filler); cur += 1
    return "".join(out)


def wxlib_date(s):
    import re
    m = re.fullmatch(r"(\d\d)\.(\d\d)\.(\d\d\d\d)", s.strip())
    if not m:
        return None
    try:
        return D(int(m.group(3)), int(m.group(2)), int(m.group(1)))
    except ValueError:
        return None


def header_model_tie(ctx):
    """lengths of the real fixed-width header lines vs OutFmtModel.hermes_header evaluated in Coq on the generated
    configurations; returns a list of disagreements"""
    import re
    check(ctx)
    lens = _cache.get("hdrlens", {})
    if not lens:
        return []
    keyname = {"V": "daily", "Y": "yearly", "C": "crop"}
    fname = {"V": "dailyout_conf.yml", "Y": "yearlyout_conf.yml", "C": "cropout_conf.yml"}
    items = []
    for (name, tag) in sorted(lens):
        k = "default:%s" % keyname[tag] if name == "default" else "shipped:%s/%s" % (name, fname[tag])
        items.append(((name, tag), outfmtlib.ident(k)))
    body = ["From Coq Require Import ZArith List String.", "From Hermes Require Import CtrlModel OutFmtModel.", "From HermesGen Require Import OutFmtConfigs.",
            "Import ListNotations.", "Open Scope Z_scope.",
            "Definition lens (o : oconfig) : list Z := let widths := map (fun c => c_width (col_of c)) (o_cols o) in map (fun cells => fst (hermes_header widths cells)) (o_heads o).",
            "Definition L := Eval vm_compute in [%s]." % "; ".join("lens %s" % i for _, i in items), "Print L."]
    rc, out = ctx.coq_eval("Cases_C05_hdr", "\n".join(body) + "\n")
    m = re.search(r"L\s*=\s*(\[.*\])\s*:\s*list \(list Z\)", out, re.S)
    if rc != 0 or not m:
        return [{"kind": "coq-eval", "shard": "Cases_C05_hdr", "output": out[-1200:]}]
    groups = re.findall(r"\[([^\[\]]*)\]", m.group(1)[1:-1])
    bad = []
    for ((name, tag), _), g in zip(items, groups):
        model = [int(x) for x in re.findall(r"-?\d+", g)]
        if model != lens[(name, tag)]:
            bad.append({"kind": "header-model", "what": "fixed-width header line lengths: real %r, OutFmtModel.hermes_header %r" % (lens[(name, tag)], model),
                        "config": name, "file": tag})
    return bad
