"""C10 — scheduled management actions take effect exactly once, on time, in full.

proof:           Prop_C10.v over SchedModel (event readers of input.go incl. slot reuse for pre-start events, the
                 strictly-increasing shift loops, the irrigation compaction, cursors and firing tests of nitro.go/run.go over the whole day loop, dueng split,
                 payload application) and RotationModel (sowing/harvest cursor); induction over the file lines and the days
correspondence:  whole runs of the REAL simulator (in-process, day-loop probe) on generated fert_/til_/irr_/crop_ files
                 (4 date formats, several fields per file, split blocks, events before start / after end / on consecutive
                 days / same-day pairs / cascades, every row of FERTILIZ.TXT, fertilisation factor) — event arrays after
                 Input, every cursor advance (day, sub-step, slot), DSUMM/NH4Sum/REGEN/C1[0] jumps, all compared in Coq
                 with SchedModel (bit-exact for floats); dueng kernel through hermes.VerifDueng
oracle:          the property itself on the management log (every field '%x') and the probe: expected exec-days by the
                 property's reading, each event exactly once in order, payload by the table formula, fertiliser payload by
                 re-running Nitro on the pre-state with the split added by hand (bit-exact), nothing fires otherwise
"""
import os, re, json, shutil, random, subprocess, datetime, math
from core import Corr, Fail, REPO, chunked_list
from props import waterlib

PROP_FILES = ["Prop_C10"]
RULE = ("one case = one whole run (2-3 years) of a generated project; generated schedules cover: pre-start events of all "
        "three kinds (incl. the day before start), events on BEGINN / ENDE-1 / ENDE / after ENDE, consecutive days, same-day "
        "pairs, pair + next-day cascades, pairs reached by a displacement, three on one day, other fields' lines "
        "before/between/after, every FERTILIZ.TXT row, 4 date formats, fertilisation factors; five regression cases of "
        "repaired defects (two fertilisations on BEGINN, displaced pairs fert/tillage, all-pre-start tillage with one on "
        "BEGINN-1, pre-start + later irrigation); non-trivial = distinct (date format, schedule shape)")
TRUSTED = ["python calendar (datetime) for day numbers of generated dates (the converters are C12's subject)",
           "Go reflect/unsafe used by the harness to mute the management log on a COPY of the state for the Nitro replay"]
ASSUMPTIONS = ["Go int arithmetic modelled on unbounded Z (day numbers < 2^31)",
               "fewer events per field than array slots (299 fertiliser, 199 tillage, 499 irrigation): beyond that Go panics",
               "strconv.ParseFloat of the decimal tokens = python float() (both correctly rounded)",
               "tillage dates outside (sowing, harvest] of every crop (inside: the run is aborted with an error — not modelled)",
               "scheduled events: automation switches off (AUTOFERT replaces the fertiliser file, AUTOIRRI the irrigation file); the organic "
               "fertiliser of automatic management and the crop-skip branch are covered by separate runs with AUTOFERT on",
               "crop skip: cursor, ZTDG[k], the next tillage date and the pool changes (against a replay of the same harvest call without skip) are tied"]

FMTS = ["DateDEshort", "DateDElong", "DateENshort", "DateENlong"]
D0 = datetime.date(1900, 12, 31)
MGMT_CONF = """eventformats:
  tillage:
    eventname: tillage
    enabled: true
    additionalfields:
      Depth: '%d'
      Type: '%d'
  irrigation:
    eventname: irrigation
    enabled: true
    additionalfields:
      Amount: '%d'
      NO3: '%x'
  sowing:
    eventname: sowing
    enabled: true
    additionalfields:
      Crop: '%s'
  harvest:
    eventname: harvest
    enabled: true
    additionalfields:
      Crop: '%s'
      Residue: '%x'
  fertilization:
    eventname: fertilization
    enabled: true
    additionalfields:
      Fertilizer: '%s'
      Ndirect: '%x'
      NH4: '%x'
seperatorrune: 32
"""

_cache = {}

# configuration sweep: one key (or one interacting pair) away from the project's value on the batch line; every entry was run on the
# unchanged tree for all switch combinations (a key that needs further input files — GroundWaterFrom=2 — is not in the list)
SWEEP = ["ETpot=1", "ETpot=2", "ETpot=3", "ETpot=4", "ETpot=5", "CO2method=1", "CO2method=2", "CO2method=3", "CO2StomataInfluence=0",
         "PTF=1", "PTF=2", "PTF=3", "PTF=4", "PotMineralisation=1", "GroundWaterFrom=0", "GroundWaterFrom=1", "LeachingDepth=10", "LeachingDepth=20",
         "InitSelection=1", "InitSelection=2", "InitSelection=4", "CropParameterFormat=yml", "ResultFileFormat=1 ResultFileExt=csv", "ResultFileExt=out",
         "OutputIntervall=1", "OutputIntervall=10", "NDeposition=0", "NDeposition=45", "KcFactorBareSoil=0.6", "WeatherFileFormat=2 WeatherFile=%s.w6d",
         "DivideCentury=50", "DivideCentury=70", "AnnualAverageTemperature=11.5", "CO2concentration=550", "OrganicMatterMineralProportion=0.2",
         "GroundWaterPhase=20", "CoastDistance=10", "Latitude=48.1", "Altitude=500"]


def sweep_of(seed):
    r = random.Random(seed)
    return r.choice(SWEEP) if r.random() < 0.7 else ""


def apply_sweep(line, sw):
    if not sw:
        return line
    if "OutputIntervall" in sw:
        line = line.replace("OutputIntervall=0 ", "")
    if "WeatherFileFormat" in sw:
        line = line.replace("WeatherFolder=extreme", "WeatherFolder=historical")      # the generated rain scenario only has the csv layout
    return line + " " + sw



def daynum(d):
    return (d - D0).days


def numday(n):
    return D0 + datetime.timedelta(days=n)


def fmt_date(d, f):
    if f == 0:
        return "%02d%02d%02d" % (d.day, d.month, d.year % 100)
    if f == 1:
        return "%02d%02d%04d" % (d.day, d.month, d.year)
    if f == 2:
        return "%02d%02d%02d" % (d.month, d.day, d.year % 100)
    return "%02d%02d%04d" % (d.month, d.day, d.year)


def log_date(d, f):
    if f == 0:
        return "%02d.%02d.%02d" % (d.day, d.month, d.year % 100)
    if f == 1:
        return "%02d.%02d.%04d" % (d.day, d.month, d.year)
    if f == 2:
        return "%02d.%02d.%02d" % (d.month, d.day, d.year % 100)
    return "%02d.%02d.%04d" % (d.month, d.day, d.year)


def read_table(path=None):
    rows = []
    for i, ln in enumerate(open(path or os.path.join(REPO, "examples", "parameter", "FERTILIZ.TXT"))):
        t = ln.split()
        if i == 0 or len(t) < 7:
            continue
        rows.append((t[0],) + tuple(float(x) for x in t[1:7]))
    return rows


def hexf(x):
    return float(x).hex() if x >= 0 or x != x else "(%s)" % float(x).hex()


def go_hex(s):
    """hex float literal printed by Go -> python float"""
    return float.fromhex(s)


# ---------------------------------------------------------------------------------------------
# schedule generation

def shifted(dates, first_prev=None):
    """the property's reading: exec-date of consecutive events (greedy, one per day); returns the date each waits for"""
    out, prev = [], first_prev
    for d in dates:
        s = d if prev is None or d > prev else prev + 1
        out.append(s); prev = s
    return out


def fits(p, l):
    """python twin of SchedProofs.fits (class of schedules the one-pass shift handles)"""
    for j, d in enumerate(l):
        if d < p + j:
            return False
        for i in range(j):
            if d - l[i] < j - i - 1:
                return False
    return True


def gen_dates(rnd, lo, hi, n, allow_pairs=True, avoid=None):
    """n ascending day numbers in [lo, hi] with consecutive days, same-day pairs, cascades, displaced pairs, triples"""
    if hi < lo or n <= 0:
        return []
    out = []
    d = lo + rnd.randrange(0, max(1, (hi - lo) // max(n, 1)))
    while len(out) < n and d <= hi:
        shape = rnd.random()
        if allow_pairs and shape < 0.05 and len(out) + 3 <= n:
            out += [d, d, d]                    # three on one day (outside the property's quantifier; carried out on d+1..d+3)
            d += rnd.choice([0, 1, 4, 30])
        elif allow_pairs and shape < 0.22 and len(out) + 2 <= n:
            out += [d, d]                       # same-day pair
            if rnd.random() < 0.5 and len(out) < n and d + 1 <= hi:
                out.append(d + 1)               # cascade: next day as well
                if rnd.random() < 0.4 and len(out) < n and d + 2 <= hi:
                    out.append(d + 2)
                d += 3
            else:
                d += 2
            d += rnd.choice([-1, 0, 1, 1, 2, 5, 20, 60])   # sometimes the next group starts on a day a displaced event occupies
        elif shape < 0.45:
            out.append(d); d += 1                      # consecutive days
        else:
            out.append(d); d += rnd.choice([1, 2, 3, 7, 15, 40, 90, 150])
    return sorted(x for x in out if x <= hi)


def make_case(rnd, idx, table, special=None):
    f = idx % 4
    y0 = rnd.randrange(1980, 1989)
    nyears = 2 if rnd.random() < 0.7 else 3
    begin = datetime.date(y0, rnd.choice([8, 9, 10]), rnd.randrange(1, 29))
    end = datetime.date(y0 + nyears, rnd.choice([11, 12]), rnd.randrange(2, 29))
    B, E = daynum(begin), daynum(end)
    # rotation: initial crop harvested on BEGINN, then one crop per year
    crops = [(rnd.choice(["SM", "WW", "SOY", "WG", "ZR"]), None, begin)]
    y = y0
    while True:
        y += 1
        code = rnd.choice(["SM", "SOY", "SM", "SOY", "ZR", "K"])
        sow = datetime.date(y, rnd.choice([4, 5]), rnd.randrange(1, 29))
        har = datetime.date(y, rnd.choice([9, 10]), rnd.randrange(1, 29))
        if y > y0 + nyears:
            break
        crops.append((code, sow, har))
    # windows where tillage is allowed: (harvest, sowing - 3]
    wins = []
    for k in range(len(crops)):
        lo = daynum(crops[k][2]) + 1
        hi = daynum(crops[k + 1][1]) - 3 if k + 1 < len(crops) else E + 30
        wins.append((lo, hi))
    fid = "F%d" % rnd.randrange(1, 9)
    others = ["G7", "SOYSM1", fid + "X"]
    c = {"idx": idx, "fmt": f, "begin": begin, "end": end, "B": B, "E": E, "crops": crops, "fid": fid,
         "special": special, "fertilization": rnd.choice([100, 100, 0, 1, 50, 150, 80, 33]), "fert_from": rnd.choice(["line", "config"]),
         "soil": rnd.choice(["001", "041", "075", "160"]), "fcode": rnd.choice(["109_120", "109_121"])}

    def pre(n):
        return sorted(B - rnd.choice([1, 1, 2, 3, 10, 40, 200, 400]) for _ in range(n))

    # ---- fertiliser
    nf = rnd.randrange(0, 11)
    fd = pre(rnd.choice([0, 0, 1, 2, 3]))
    body = gen_dates(rnd, B + rnd.choice([0, 1, 1, 2, 30, 100]), E + 5, nf)
    if body and rnd.random() < 0.4:
        body[-1:] = [rnd.choice([E - 2, E - 1, E, E + 1])]
        body = sorted(body)
    if special == "f18":
        body = [B, B] + sorted(set([x for x in body if x > B + 3][:3] + [B + 200]))
    if special == "pp-fert":
        d = B + 150
        body = [d, d, d + 1, d + 1, d + 40]
    if special is None and rnd.random() < 0.6:
        # fertilisations 0..14 days before, and on, the annual output date (31 October) of the years of the run
        for yy in range(begin.year, end.year + 1):
            d = daynum(datetime.date(yy, 10, 31)) - rnd.choice([0, 0, 1, 3, 7, 14])
            if B < d < E - 20 and rnd.random() < 0.7:
                body.append(d)
        body.sort()
    leap = [daynum(datetime.date(yy, 2, 29)) for yy in range(begin.year, end.year + 1) if yy % 4 == 0 and B < daynum(datetime.date(yy, 2, 29)) < E - 10]
    c["leap"] = leap
    if special is None and leap and rnd.random() < 0.7:
        # events ON 29 February of a leap year and on its neighbours
        body = sorted(body + rnd.choice([[leap[0]], [leap[0] - 1, leap[0], leap[0] + 1], [leap[0], leap[0] + 1]]))
    if special is None and rnd.random() < 0.3:
        # a fertilisation dated exactly on the simulation start day (= harvest day of the initial crop) and the day after
        body = sorted([x for x in body if x > B + 3] + rnd.choice([[B], [B, B + 1], [B + 1]]))
    names = [r[0] for r in table]
    fert = []
    for i, d in enumerate(fd + body):
        nm = names[(idx * 7 + i * 3 + rnd.randrange(3)) % len(names)]
        if rnd.random() < 0.04:
            nm = "XXQ"
        amt = rnd.choice(["%d" % rnd.randrange(1, 300), "%d.%d" % (rnd.randrange(0, 200), rnd.randrange(0, 10)), "%03d" % rnd.randrange(1, 100)])
        fert.append((d, amt, nm))
    c["fert"] = fert
    # ---- tillage
    till = [(d, rnd.choice([5, 10, 15, 20, 30]), rnd.choice([1, 1, 2])) for d in pre(rnd.choice([0, 0, 1, 2]))]
    tb = []
    for (lo, hi) in wins:
        if rnd.random() < 0.75:
            tb += gen_dates(rnd, lo + rnd.choice([0, 0, 1, 5, 30]), min(hi, E + 5), rnd.randrange(1, 4))
    if special == "pp-till":
        lo, hi = wins[0]
        tb = [lo + 20, lo + 20, lo + 21, lo + 21, lo + 60]
    if special == "pre-till":
        till = [(B - 30, 10, 1), (B - 1, 15, 1)]
        tb = []
    if special is None and leap and rnd.random() < 0.6:
        tb = sorted(tb + [leap[0]])
    # original and displaced dates must stay outside (sowing, harvest] of every crop (else the run is aborted)
    ok = all(any(lo <= s <= hi for (lo, hi) in wins) for s in shifted(tb)) and tb == sorted(tb)
    if not ok:
        tb = [w[0] + 3 for w in wins if w[0] + 3 <= w[1]][:2]
    if not tb and not till and special is None and rnd.random() < 0.5:
        tb = [wins[0][0] + 2]
    for d in tb:
        till.append((d, rnd.choice([0, 5, 10, 15, 20, 25, 30]), rnd.choice([1, 1, 1, 2])))
    c["till"] = till
    # ---- irrigation (at most one per day)
    ni = rnd.randrange(0, 8)
    idates = sorted(set(pre(rnd.choice([0, 0, 1, 2])) + gen_dates(rnd, B + rnd.choice([0, 1, 200, 250]), E + 3, ni, allow_pairs=False)))
    if idates and rnd.random() < 0.3:
        idates = sorted(set(idates + [rnd.choice([E, E - 1, E + 1, B])]))
    if special == "pre-irr":
        idates = sorted(set([B - 20, B - 1] + [d for d in idates if B <= d <= E][:3] + [B + 250]))
    if special is None and leap and rnd.random() < 0.7:
        idates = sorted(set(idates + rnd.choice([[leap[0], leap[0] + 1], [leap[0] - 1, leap[0]], [leap[0]]])))
    c["irr"] = [(d, rnd.choice([5, 10, 15, 20, 25, 40]), rnd.choice([0, 0, 5, 20, 50])) for d in idates]
    # boundary amounts: an entry of exactly 0 mm / 0 kg is an event like any other (the cursor must pass it)
    inp = [i for i, (d, _, _) in enumerate(c["irr"]) if B <= d <= E]
    if inp and rnd.random() < 0.5:
        for i in set([rnd.choice([inp[0], inp[len(inp) // 2], inp[-1]])] + ([inp[0]] if rnd.random() < 0.3 else [])):
            c["irr"][i] = (c["irr"][i][0], 0, c["irr"][i][2])
    if c["fert"] and rnd.random() < 0.4:
        i = rnd.choice([0, len(c["fert"]) // 2, len(c["fert"]) - 1])
        c["fert"][i] = (c["fert"][i][0], rnd.choice(["0", "000", "0.0"]), c["fert"][i][2])
    # ---- other fields' lines and block layout: list of ("own", i) / ("other", text)
    c["others"] = others
    c["layout_seed"] = rnd.randrange(1 << 30)
    return c


def interleave(rnd, own_lines, other):
    """file order of the field's lines among other fields' lines: blocked, split blocks, round-robin (file sorted by
    season: F1 1980, F2 1980, F1 1981, ...) or a random merge; the simulated field at any position"""
    mode = rnd.choice(["blocked", "blocked", "split", "round", "round", "random"])
    n = len(own_lines)
    out = []
    if mode in ("blocked", "split"):
        out = [("other", other()) for _ in range(rnd.choice([0, 1, 3]))]
        split = rnd.randrange(1, n) if (mode == "split" and n > 1) else None
        for i, ln in enumerate(own_lines):
            if split is not None and i == split:
                out += [("other", other()) for _ in range(rnd.choice([1, 2]))]
            out.append(("own", ln))
        out += [("other", other()) for _ in range(rnd.choice([0, 2]))]
    elif mode == "round":
        nf = rnd.choice([1, 2, 3])                  # number of other fields in the round
        pos = rnd.randrange(0, nf + 1)              # position of the simulated field inside each round
        for ln in own_lines:
            rnd_ = [("other", other()) for _ in range(nf)]
            rnd_.insert(pos, ("own", ln))
            out += rnd_
        if rnd.random() < 0.5:
            out += [("other", other()) for _ in range(nf)]
    else:
        slots = sorted(rnd.randrange(0, n + 1) for _ in range(rnd.randrange(n, 2 * n + 3)))
        k = 0
        for i in range(n + 1):
            while k < len(slots) and slots[k] == i:
                out.append(("other", other())); k += 1
            if i < n:
                out.append(("own", own_lines[i]))
    return out


def layout(case, kind, own_lines):
    rnd = random.Random(case["layout_seed"] + {"fert": 1, "till": 2, "irr": 3, "crop": 4}[kind])
    f = case["fmt"]
    def other():
        d = numday(case["B"] + rnd.randrange(-300, 700))
        o = rnd.choice(case["others"])
        if kind == "fert":
            return "%-9s %3d %-3s %s" % (o, rnd.randrange(10, 200), "KAS", fmt_date(d, f))
        if kind == "till":
            return "%-9s %2d %d   %s" % (o, 10, 1, fmt_date(d, f))
        if kind == "crop":
            return "%-9s %-3s %s %s 000 000 %d" % (o, rnd.choice(["SM", "WW", "ZR", "K"]), fmt_date(d, f), fmt_date(d + datetime.timedelta(days=120), f), rnd.choice([0, 1]))
        return "%-9s %2d %3d %s" % (o, 15, 20, fmt_date(d, f))
    return interleave(rnd, own_lines, other)


def write_project(ex, case):
    name = "c10_%d" % case["idx"]
    src, dst = os.path.join(ex, "project", "ex1"), os.path.join(ex, "project", name)
    shutil.rmtree(dst, ignore_errors=True)
    shutil.copytree(src, dst)
    for fn in os.listdir(dst):
        if fn.startswith("init_"):
            os.remove(os.path.join(dst, fn))      # no measurement file (other checks add one to the scratch copy of ex1)
        elif "_ex1" in fn:
            os.rename(os.path.join(dst, fn), os.path.join(dst, fn.replace("_ex1", "_" + name)))
    f, fid = case["fmt"], case["fid"]
    # the shipped measurement file (other checks put a measurement day into the scratch copy of ex1; its dates are EN-long)
    shutil.copy(os.path.join(REPO, "examples", "project", "ex1", "endit_ex1.txt"), os.path.join(dst, "endit_%s.txt" % name))
    open(os.path.join(dst, "managementout_conf.yml"), "w").write(MGMT_CONF)
    fl = layout(case, "fert", ["%-9s %5s %-3s %s" % (fid, a, nm, fmt_date(numday(d), f)) for (d, a, nm) in case["fert"]])
    tl = layout(case, "till", ["%-9s %2d %d   %s" % (fid, dep, ty, fmt_date(numday(d), f)) for (d, dep, ty) in case["till"]])
    il = layout(case, "irr", ["%-9s %2d %3d %s" % (fid, mm, cz, fmt_date(numday(d), f)) for (d, mm, cz) in case["irr"]])
    case["fert_layout"], case["till_layout"], case["irr_layout"] = fl, tl, il
    open(os.path.join(dst, "fert_%s.txt" % name), "w").write("Field_ID  N   Frt date\n" + "".join(l + "\n" for _, l in fl) + "end\n")
    open(os.path.join(dst, "til_%s.txt" % name), "w").write("Field_ID  Ti Typ date\n          cm\n" + "".join(l + "\n" for _, l in tl) + "end\n")
    open(os.path.join(dst, "irr_%s.txt" % name), "w").write("Field_ID  Ir N03 date\n          mm mg/l\n" + "".join(l + "\n" for _, l in il) + "end\n")
    open(os.path.join(dst, "poly_%s.txt" % name), "w").write(
        "Polyg SID  Field_ID  GH GL Ir comment\n10002 001 %sX   99 99 0 other\n10001 001 %s    99 99 1 own\nend\n" % (fid, fid))
    rows = []
    arnd = random.Random(case["layout_seed"] + 77)
    case["autorg"] = [1 if arnd.random() < 0.4 else 0 for _ in case["crops"]]     # "organic fertiliser" flag: without effect while AutoFertilization is off
    for k, (code, sow, har) in enumerate(case["crops"]):
        sw = fmt_date(sow, f) if sow else fmt_date(har - datetime.timedelta(days=120), f)
        rows.append("%-9s %-3s %s %s %s %d" % (fid, code, sw, fmt_date(har, f), "080 050" if k == 0 else "000 000", case["autorg"][k]))
    cl = layout(case, "crop", rows)
    case["crop_layout"] = cl
    # the rotation file in the classic column format or as csv table (CropFileFormat on the batch line), csv columns in the shipped
    # order (header names of the shipped example) or permuted with the names the reader maps
    case["crop_fmt"] = arnd.choice(["txt", "txt", "csv", "csvperm"])
    for ext in ("txt", "csv"):
        pth = os.path.join(dst, "crop_%s.%s" % (name, ext))
        if os.path.exists(pth):
            os.remove(pth)
    if case["crop_fmt"] == "txt":
        open(os.path.join(dst, "crop_%s.txt" % name), "w").write(
            "Field_ID    crp  sowing harvst Rex yld autorg variety comment\n" + "".join(l + "\n" for _, l in cl) + "end\n")
    else:
        cols = ["Field_ID", "crop", "sowing", "harvest", "Rex", "yld", "autorg", "variety"]
        if case["crop_fmt"] == "csvperm":
            perm = list(range(8)); arnd.shuffle(perm)
            hdr = ",".join(cols[i] for i in perm)
        else:
            perm = list(range(8))
            hdr = "Field_ID,crp,sowing,harvst,Rex,yld,autorg,variety,comment"
        def csvline(text):
            t = text.split()
            t = (t + [""] * 8)[:8]
            return ",".join(t[i] for i in perm)
        open(os.path.join(dst, "crop_%s.csv" % name), "w").write(hdr + "\n" + "".join(csvline(l) + "\n" for _, l in cl) + "end\n")
    annual = "3110" if f < 2 else "1031"
    # the global fertilisation factor (percent) comes from the batch line or from the project's config.yml
    cfgp = os.path.join(dst, "config.yml")
    cfg = open(cfgp).read()
    cfg2 = re.sub(r"(?m)^Fertilization:.*$", "Fertilization: %d" % (case["fertilization"] if case["fert_from"] == "config" else 77), cfg)
    assert cfg2 != cfg or "Fertilization: 100" in cfg
    open(cfgp, "w").write(cfg2)
    case["sweep"] = sweep_of(case["layout_seed"] + 123)
    # management event output on, off or not mentioned (the program default is off): the events must be carried out either way
    case["me"] = case.get("me") or random.Random(case["layout_seed"] + 5).choice(["1", "1", "1", "0", "absent"])
    return apply_sweep("project=%s WeatherFolder=historical soilId=%s fcode=%s plotNr=10001 Altitude=73 Latitude=52.6 poligonID=1 "
            "CropFileFormat=%s AutoIrrigation=0 AutoFertilization=0 AutoSowingHarvest=0 AutoHarvest=0 %s"
            "OutputIntervall=0 Dateformat=%d StartYear=%d EndDate=%s AnnualOutputDate=%s %sresultfolder=%s"
            % (name, case["soil"], case["fcode"], "txt" if case["crop_fmt"] == "txt" else "csv",
               {"1": "ManagementEvents=1 ", "0": "ManagementEvents=0 ", "absent": ""}[case["me"]] +
               (("parameter=%s " % case["param"]) if case.get("param") else "") + (("vsession=%s " % case["vsession"]) if case.get("vsession") else ""),
               f, case["begin"].year, fmt_date(case["end"], f), annual,
               ("Fertilization=%d " % case["fertilization"]) if case["fert_from"] == "line" else "", os.path.join(ex, "R", name)), case["sweep"])


def _run(ctx):
    if "run" in _cache:
        return _cache["run"]
    ex = waterlib.prepare_examples(ctx, extreme_rain=False)
    rnd = random.Random(ctx.seed * 7919 + 10)
    table = read_table()
    n = 4000 if ctx.thorough else 44
    specials = ["f18", "pp-fert", "pp-till", "pre-till", "pre-irr"]
    cases = [make_case(rnd, i, table, specials[i - n] if i >= n else None) for i in range(n + len(specials))]
    # two runs in ONE session with different parameter folders whose FERTILIZ.TXT differ, in both orders
    alt = os.path.join(ex, "parameter_alt")
    if not os.path.isdir(alt):
        shutil.copytree(os.path.join(ex, "parameter"), alt)
        out = []
        for i, ln in enumerate(open(os.path.join(alt, "FERTILIZ.TXT")).read().split("\n")):
            t = ln.split()
            if i == 0 or len(t) < 7:
                out.append(ln); continue
            v = [float(x) for x in t[1:7]]
            v = [v[0] * 1.5 + 0.1, max(0.0, min(1.0, 0.9 - v[1] * 0.5)), min(1.0, v[2] * 0.5 + 0.1), min(1.0, v[3] * 0.5 + 0.2), min(1.0, 0.3 + v[4] * 0.4), min(0.5, v[5] + 0.05)]
            out.append("%-3s %05.2f %.2f %.2f %.2f %.2f %.2f %s" % (t[0], v[0], v[1], v[2], v[3], v[4], v[5], " ".join(t[7:])))
        open(os.path.join(alt, "FERTILIZ.TXT"), "w").write("\n".join(out))
    alt_table = read_table(os.path.join(alt, "FERTILIZ.TXT"))
    npairs = 40 if ctx.thorough else 3
    for j in range(npairs):
        a = make_case(rnd, len(cases), table); b = make_case(rnd, len(cases) + 1, table)
        first_alt = j % 2 == 0
        for cs_, is_alt in ((a, first_alt), (b, not first_alt)):
            cs_["vsession"] = "s%d" % j
            cs_["me"] = "1"
            if is_alt:
                cs_["param"], cs_["table"] = "parameter_alt", alt_table
            if not [1 for d, _, _ in cs_["fert"] if cs_["B"] <= d < cs_["E"] - 5]:
                cs_["fert"] = sorted(cs_["fert"] + [(cs_["B"] + 40 + 30 * i_, str(50 + 25 * i_), nm_) for i_, nm_ in enumerate(["KAS", "RM", "SG"])])
        cases += [a, b]
    lines = [write_project(ex, c) for c in cases]
    lf = os.path.join(ctx.work, "c10_lines.txt")
    open(lf, "w").write("\n".join(lines) + "\n")
    slots = 6 + max(max(len(c["fert"]), len(c["till"]), len(c["irr"])) for c in cases)
    rc, recs, orc, other, err = waterlib.run_harness(ctx, "c10", ["-work", ex, "-lines", lf, "-slots", str(slots)])
    for c in cases:
        c["init"], c["ev"], c["run"], c["log"] = None, [], None, None
    for r in recs:
        c = cases[r["line"]]
        if r["k"] == "init":
            c["init"] = r
        elif r["k"] == "ev":
            c["ev"].append(r)
        elif r["k"] == "run":
            c["run"] = r
    for c in cases:
        d = os.path.join(ex, "R", "c10_%d" % c["idx"])
        if os.path.isdir(d):
            for fn in os.listdir(d):
                if fn.startswith("M") and fn.endswith(".txt"):
                    c["log"] = open(os.path.join(d, fn)).read().split("\n")
    _cache["run"] = (rc, cases, err, slots, table, ex)
    return _cache["run"]


# ---------------------------------------------------------------------------------------------
# correspondence

def _coq_run(c, slots):
    ini, f = c["init"], c["fmt"]
    def dn(tok):
        # day number of a date token written by fmt_date (python calendar)
        if f == 0: d, m, y = int(tok[0:2]), int(tok[2:4]), 1900 + int(tok[4:6])
        elif f == 1: d, m, y = int(tok[0:2]), int(tok[2:4]), int(tok[4:8])
        elif f == 2: m, d, y = int(tok[0:2]), int(tok[2:4]), 1900 + int(tok[4:6])
        else: m, d, y = int(tok[0:2]), int(tok[2:4]), int(tok[4:8])
        return daynum(datetime.date(y, m, d))
    def fconv(t):
        return (dn(t[3]), '(%s, "%s"%%string)' % (hexf(float(t[1])), t[2])) if t else (0, '(0x0p+0, ""%string)')
    def tconv(t):
        return (dn(t[3]), "(%s, %d%%uint63)" % (hexf(float(t[1])), int(t[2]))) if t else (0, "(0x0p+0, 0%uint63)")
    def iconv(t):
        return (dn(t[3]), "(%s, %s)" % (hexf(float(t[1])), hexf(float(t[2])))) if t else (0, "(0x0p+0, 0x0p+0)")
    def ints(l):
        return "[" + "; ".join("%d%%uint63" % x for x in l) + "]"
    def fls(l):
        return "[" + "; ".join(waterlib.fl(x) for x in l) + "]"
    def fired(kind):
        return "[" + "; ".join("(%d%%uint63, %d%%uint63, %d%%uint63)" % (e["zeit"], e["subd"], e["slot"] + j)
                               for e in c["ev"] if e["kind"] == kind for j in range(max(1, e["adv"]))) + "]"
    fjump = "[" + "; ".join("(%d%%uint63, (%s, %s), (%s, %s))" % (e["slot"], waterlib.fl(e["dsumm"][0]), waterlib.fl(e["dsumm"][1]),
                                                                   waterlib.fl(e["nh4"][0]), waterlib.fl(e["nh4"][1]))
                            for e in c["ev"] if e["kind"] == "fert" and not e["harvest"] and e["slot"] >= 1) + "]"
    ijump = "[" + "; ".join("(%d%%uint63, (%s, %s), (%s, %s), %s)" % (e["slot"], waterlib.fl(e["regen_pre"]), waterlib.fl(e["regen_post"]),
                                                                       waterlib.fl(e["c1_prev"]), waterlib.fl(e["c1_post"]), waterlib.b(e["c1_usable"]))
                            for e in c["ev"] if e["kind"] == "irr") + "]"
    fpay = "[" + "; ".join("(%s, %s, %s, %s)" % tuple(waterlib.fl(ini[k][i]) for k in ("ndir", "nh4n", "nsas", "nlas")) for i in range(slots)) + "]"
    return ("{| r_B := %d%%uint63; r_E := %d%%uint63; r_M := %d%%uint63; r_fertilization := %s; r_depos := %s; r_dt := %s;\n"
            "   r_fert := [%s];\n   r_till := [%s];\n   r_irr := [%s];\n"
            "   o_ztdg := %s; o_fpay := %s;\n   o_einte := %s; o_eint := %s; o_tilart := %s;\n"
            "   o_ztbr := %s; o_breg := %s; o_brkz := %s;\n   o_ffired := %s; o_tfired := %s; o_ifired := %s;\n"
            "   o_fjump := %s;\n   o_ijump := %s;\n   o_harv_arrays := %s;\n   o_dungszen := %s |}"
            % (ini["beginn"], ini["ende"], slots, hexf(float(c["fertilization"])), waterlib.fl(ini["depos"]), waterlib.fl(ini["dt"]),
               "; ".join("(%s, %d%%uint63, %s)" % (k, d, p) for (k, d, p) in _triples(c["fert_layout"], fconv)),
               "; ".join("(%s, %d%%uint63, %s)" % (k, d, p) for (k, d, p) in _triples(c["till_layout"], tconv)),
               "; ".join("(%s, %d%%uint63, %s)" % (k, d, p) for (k, d, p) in _triples(c["irr_layout"], iconv)),
               ints(ini["ztdg"]), fpay, ints(ini["einte"]), fls(ini["eint"]), ints(ini["tilart"]),
               ints(ini["ztbr"]), fls(ini["breg"]), fls(ini["brkz"]), fired("fert"), fired("till"), fired("irr"), fjump, ijump,
               "[" + "; ".join("(%s, %s)" % (ints(e["ztdg"]), ints(e["einte"])) for e in c["ev"] if e["kind"] == "harv") + "]",
               waterlib.fl(ini["dungszen"])))


def _triples(layout_, conv):
    out = []
    for kind, text in layout_:
        if kind == "own":
            d, p = conv(text.split())
            out.append(("0%uint63", d, p))
        else:
            out.append(("1%uint63", 0, conv(None)[1]))
    out.append(("1%uint63", 0, conv(None)[1]))      # "end"
    return out


def _table_coq(table):
    return "[" + ";\n  ".join('{| f_name := "%s"%%string; f_ntot := %s; f_ndir := %s; f_nfst := %s; f_nslo := %s; f_nh4 := %s; f_loss := %s |}'
                              % ((r[0],) + tuple(hexf(x) for x in r[1:])) for r in table) + "]"


HDR = ["From Coq Require Import ZArith List Bool Floats Uint63 String.", "From Hermes Require Import Num SchedModel C10Corr.",
       "Import ListNotations.", "Open Scope float_scope."]
MASK = ["fertiliser-dates", "fertiliser-split", "fertiliser-firings", "tillage-dates", "tillage-payload", "tillage-firings",
        "irrigation-arrays", "irrigation-firings", "DSUMM/NH4Sum-jump", "REGEN/C1-jump", "date-arrays-after-harvest",
        "fertilisation-factor (DUNGSZEN vs configured Fertilization/100)"]


def correspond(ctx):
    c = Corr()
    rc, cases, err, slots, table, ex = _run(ctx)
    if rc != 0:
        c.mismatches.append({"kind": "harness-crash", "stderr": err[-1500:]})
        return c
    good = []
    for cs in cases:
        if cs["init"] is None or cs["run"] is None or not cs["run"]["success"]:
            c.mismatches.append({"kind": "run-failed", "case": cs["idx"], "special": cs["special"],
                                 "err": (cs["run"] or {}).get("err", "no run record")})
            continue
        if cs["init"]["autofert"] or cs["init"]["autoirri"] or cs["init"]["automan"] or cs["init"]["autohar"]:
            c.mismatches.append({"kind": "automation-switches", "case": cs["idx"], "what": "all four switches are off on the batch line",
                                 "state": [cs["init"][k] for k in ("automan", "autofert", "autoirri", "autohar")]})
        # rotation arrays after Input against the rows of the field in file order (python twin of the rotation reader)
        nc = len(cs["crops"])
        want_r = ([0] + [daynum(s_) for _, s_, _ in cs["crops"][1:]] + [0], [daynum(h_) for _, _, h_ in cs["crops"]] + [0])
        got_r = (cs["init"]["saat"][:nc + 1], cs["init"]["ernte"][:nc + 1])
        if got_r != want_r:
            c.mismatches.append({"kind": "rotation-arrays", "case": cs["idx"], "observed (SAAT, ERNTE)": got_r, "rotation file rows of the field": want_r,
                                 "crop_file": [l for _, l in cs["crop_layout"]]})
        if cs["init"]["beginn"] != cs["B"] or cs["init"]["ende"] != cs["E"]:
            c.mismatches.append({"kind": "period", "case": cs["idx"], "expected": [cs["B"], cs["E"]],
                                 "observed": [cs["init"]["beginn"], cs["init"]["ende"]]})
            continue
        if cs["run"].get("overnight_changes"):
            # model: DSUMM changes only in a fertiliser firing (nitro_fert) / harvest, UMS only in the mineralisation step of a Nitro call
            c.mismatches.append({"kind": "fertiliser-sums-between-days", "case": cs["idx"], "changes": cs["run"]["overnight_changes"],
                                 "first": cs["run"]["overnight_first"]})
        good.append(cs)
        c.bump(FMTS[cs["fmt"]]); c.bump("fertilisation %d %% from %s" % (cs["fertilization"], cs["fert_from"])); c.bump("rotation file " + cs["crop_fmt"]); c.bump("sweep " + (cs["sweep"] or "(project configuration)"))
        c.bump("fert-events", len(cs["fert"])); c.bump("till-events", len(cs["till"])); c.bump("irr-events", len(cs["irr"]))
        c.bump("fired", len(cs["ev"]))
    tab = "Definition tab : list (frow float) := %s." % _table_coq(table)
    items = []
    shard = 16 if ctx.thorough else 4
    # cases are evaluated against the fertiliser table of THEIR parameter folder
    good = [cs for cs in good if not cs.get("table")] + [cs for cs in good if cs.get("table")]
    nd = len([cs for cs in good if not cs.get("table")])
    for lo, hi, tb in ((0, nd, table), (nd, len(good), good[nd]["table"] if nd < len(good) else table)):
        tabdef = "Definition tab : list (frow float) := %s." % _table_coq(tb)
        for k in range(lo, hi, shard):
            body = HDR + [tabdef, "Definition cases : list c10_run := [\n%s\n]." % ";\n".join(_coq_run(cs, slots) for cs in good[k:min(k + shard, hi)]),
                          "Definition M := Eval vm_compute in mismatches (c10_check tab) %d%%nat cases." % k, "Print M."]
            items.append(("Cases_C10_%d" % len(items), "\n".join(body) + "\n"))
    c.dist["runs sharing a session with another parameter folder"] = len(good) - nd
    # dueng kernel
    rc2, drecs, _, _, err2 = waterlib.run_harness(ctx, "c10dueng", ["-root", ex, "-seed", str(ctx.seed), "-per", "12" if ctx.thorough else "5"])
    if rc2 != 0:
        c.mismatches.append({"kind": "harness-crash", "cmd": "c10dueng", "stderr": err2[-1500:]})
    drecs = [r for r in drecs if r.get("k") == "dueng"]
    dbody = HDR + [tab, "Definition cases : list (string * float * (float * float * float * float)) := %s." % chunked_list(
        ['("%s"%%string, %s, (%s, %s, %s, %s))' % (r["name"], waterlib.fl(r["dgmg"]), waterlib.fl(r["ndir"]), waterlib.fl(r["nh4n"]),
                                                    waterlib.fl(r["nsas"]), waterlib.fl(r["nlas"])) for r in drecs],
        "(string * float * (float * float * float * float))", 100),
        "Definition M := Eval vm_compute in mismatches (dueng_check tab) 0%nat cases.", "Print M."]
    items.append(("Cases_C10_dueng", "\n".join(dbody) + "\n"))
    for nm, rc3, o in ctx.coq_eval_many(items, timeout=900):
        m = re.search(r"M\s*=\s*(.*?)\s*:\s*list \(nat \* nat\)", o, re.S)
        if rc3 != 0 or not m:
            c.mismatches.append({"kind": "coq-eval", "shard": nm, "output": o[-1500:]})
            continue
        pairs = re.findall(r"\(\s*(\d+)(?:%nat)?\s*,\s*(\d+)(?:%nat)?\s*\)", m.group(1))
        if m.group(1).strip() != "[]" and not pairs:
            c.mismatches.append({"kind": "coq-eval", "shard": nm, "output": o[-1500:]})
        for idx, mask in pairs:
            idx, mask = int(idx), int(mask)
            if nm.endswith("dueng"):
                c.mismatches.append({"kind": "dueng-kernel", "case": drecs[idx]})
            else:
                cs = good[idx]
                c.mismatches.append({"kind": "whole-run", "case": cs["idx"], "special": cs["special"],
                                     "differs": [MASK[j] for j in range(12) if mask >> j & 1],
                                     "line": "c10_%d" % cs["idx"], "fert": cs["fert"], "till": cs["till"], "irr": cs["irr"],
                                     "begin": str(cs["begin"]), "end": str(cs["end"]), "format": FMTS[cs["fmt"]]})
    # organic fertiliser of automatic management and the crop-skip branch: runs with automatic fertilisation
    from props import c16
    orc, ocases, oerr, _ = c16.org_run(ctx)
    if orc != 0:
        c.mismatches.append({"kind": "harness-crash", "cmd": "c16 (organic runs)", "stderr": oerr[-1500:]})
    else:
        oc = Corr()
        groups = c16.build_records(ocases, oc, table)
        c16.eval_groups(ctx, oc, groups, "C10org", only=("af", "hcur", "skip", "odueng", "till"))
        c.mismatches += oc.mismatches
        g = {name: lst for name, lst, _, _, _ in groups}
        for _, cs_, r in g["af"]:
            if r["replay"] == "differs":
                c.mismatches.append({"kind": "organic-payload-replay", "case": cs_["name"], "record": r})
        c.dist["organic-runs"] = len([x for x in ocases if x.get("final")])
        c.dist["organic-after-harvest"] = sum(1 for _, _, r in g["af"] if r["h_fire"])
        c.dist["organic-after-sowing"] = sum(1 for _, _, r in g["af"] if r["s_fire"])
        c.dist["organic-replays-ok"] = sum(1 for _, _, r in g["af"] if r["replay"] == "ok")
        c.dist["crop-skips"] = sum(1 for _, _, r in g["hcur"] if r["adv"] >= 2)
        c.dist["harvest-cursor-records"] = len(g["hcur"])
        c.dist["crop-skip-replays"] = len(g["skip"])
        c.dist["organic-split-records"] = len(g["odueng"])
        c.cases += oc.cases
    # fixed sowing dates with automatic harvest (AutoHarvest on the batch line): harvest decisions and the sowing/harvest sequence
    hrc, hcases, herr, _ = c16.hs_run(ctx)
    if hrc != 0:
        c.mismatches.append({"kind": "harness-crash", "cmd": "c16 (fixed sowing + automatic harvest)", "stderr": herr[-1500:]})
    else:
        hc = Corr()
        hgroups = c16.build_records(hcases, hc, None)
        c16.eval_groups(ctx, hc, hgroups, "C10hs", only=("hdec", "hdec2", "hcur", "rot", "till"))
        c.mismatches += hc.mismatches
        c.dist["fixed-sowing+automatic-harvest runs"] = len([x for x in hcases if x.get("final")])
        c.dist["second-pass sowing offsets"] = sorted(x["second_pass"]["offset"] for x in hcases if x.get("second_pass"))
        c.cases += hc.cases
    c.cases += len(good) + len(drecs)
    c.nontrivial = len(set((cs["fmt"], len(cs["fert"]), len(cs["till"]), len(cs["irr"]), cs["special"]) for cs in good)) + len(set(r["name"] for r in drecs))
    c.samples = ["c10_%d %s %s..%s fert=%s" % (cs["idx"], FMTS[cs["fmt"]], cs["begin"], cs["end"], [(str(numday(d)), a, n) for d, a, n in cs["fert"][:4]])
                 for cs in good[:4]]
    c.dist["dueng-kernel"] = len(drecs)
    c.dist["table-rows-used"] = len(set(n for cs in good for _, _, n in cs["fert"]))
    ctx.extra["runs"] = len(good)
    ctx.extra["simulated_days"] = sum(cs["run"]["days"] for cs in good)
    ctx.extra["days_with_substeps"] = sum(cs["run"]["substeps_gt1"] for cs in good)
    return c


# ---------------------------------------------------------------------------------------------
# oracle: the property itself on the management log and the probe

def _expected(cs, table):
    """what the property demands, from the input files alone"""
    B, E = cs["B"], cs["E"]
    exp = []
    tab = {r[0]: r[1:] for r in table}
    q = cs["fertilization"] / 100.0
    # fertiliser: slot 0 = residues of the initial crop dated BEGINN (reading fixed in DESIGN.md), then the events >= BEGINN
    kept = [(d, a, n) for (d, a, n) in cs["fert"] if d >= B]
    ex = shifted([B] + [d for d, _, _ in kept])
    for i, s in enumerate(ex):
        if s + 1 <= E:
            if i == 0:
                exp.append((s + 1, "fertilization", {"residues": True}))
            else:
                d, a, n = kept[i - 1]
                pay = {"Fertilizer": n}
                if n in tab:
                    ntot, ndir, nfst, nslo, nh4, loss = tab[n]
                    g = float(a) * q * ntot
                    nd0 = g * ndir
                    pay.update(ndir=nd0 * (1 - nh4 * loss), nh4n=nd0 * nh4 * (1 - loss))
                    pay.update(nsas=(g - pay["ndir"]) * nfst, nlas=(g - pay["ndir"]) * nslo)
                else:
                    pay.update(ndir=0.0, nh4n=0.0, nsas=0.0, nlas=0.0)
                exp.append((s + 1, "fertilization", pay))
    kt = [(d, dep, ty) for (d, dep, ty) in cs["till"] if d >= B]
    for (d, dep, ty), s in zip(kt, shifted([d for d, _, _ in kt])):
        if s + 1 <= E:
            exp.append((s + 1, "tillage", {"Depth": dep, "Type": ty}))
    for (d, mm, cz) in cs["irr"]:
        if B <= d <= E:
            exp.append((d, "irrigation", {"mm": mm, "n": cz * mm * 0.01}))
    for k, (code, sow, har) in enumerate(cs["crops"]):
        if k >= 1 and daynum(sow) <= E:
            exp.append((daynum(sow), "sowing", {"Crop": code}))
        if daynum(har) <= E:
            exp.append((daynum(har), "harvest", {"Crop": code, "initial": k == 0}))
    return exp


def _close(a, b, scale=0.0):
    return abs(a - b) <= 1e-9 * (1 + abs(a) + abs(b) + scale)


def oracle(ctx, search):
    rc, cases, err, slots, table, ex = _run(ctx)
    fails = []
    if rc != 0:
        return [Fail(key="harness-crash", what="the in-process runs aborted (log.Fatal/panic)", stderr=err[-800:])]
    checked = 0
    for cs in cases:
        tag = "c10_%d" % cs["idx"]
        def fail(key, what, **kw):
            cls = key.split('-')[0]
            fails.append(Fail(key="%s:%s:%s" % (cls, tag, key), what=what, case=tag, special=cs["special"], format=FMTS[cs["fmt"]],
                              begin=str(cs["begin"]), end=str(cs["end"]), fert=[(str(numday(d)), a, n) for d, a, n in cs["fert"]],
                              till=[(str(numday(d)), dep, ty) for d, dep, ty in cs["till"]],
                              irr=[(str(numday(d)), mm, cz) for d, mm, cz in cs["irr"]],
                              crops=[(c_, str(s), str(h)) for c_, s, h in cs["crops"]], **kw))
        run = cs["run"]
        if run is None or not run["success"] or (cs["log"] is None and cs["me"] == "1"):
            fail("run", "the run failed or wrote no management log: %s" % ((run or {}).get("err")))
            continue
        f = cs["fmt"]
        exp = _expected(cs, cs.get("table") or table)
        if cs["me"] != "1":
            # management event output off (or not configured): the events are judged on the cursors and state jumps of the probe
            checked += 1
            if cs["log"] is not None:
                fail("run", "a management log was written although ManagementEvents is %s" % cs["me"])
            for kind, ek in (("fertilization", "fert"), ("tillage", "till"), ("irrigation", "irr"), ("harvest", "harv")):
                want = [z for (z, k, p) in exp if k == kind]
                got = [e["zeit"] for e in cs["ev"] if e["kind"] == ek for _ in range(max(1, e["adv"]))]
                if want != got:
                    fail(kind + "-firing", "%s (management output off): carried out on days %s, the schedule demands %s"
                         % (kind, [str(numday(z)) for z in got][:10], [str(numday(z)) for z in want][:10]))
            for (z, p), e in zip([(z, p) for (z, k, p) in exp if k == "irrigation"], [e for e in cs["ev"] if e["kind"] == "irr"]):
                rj = go_hex(e["regen_post"]) - go_hex(e["regen_pre"])
                if e["zeit"] == z and not _close(rj, p["mm"] / 10.0):
                    fail("irrigation-water", "day %d: rain of the day rose by %r cm, file gives %r mm" % (z, rj, p["mm"]))
            continue
        # parse the log
        obs = []
        for ln in cs["log"]:
            if not ln.strip():
                continue
            t = ln.split(" ")
            obs.append((t[0], t[1], dict(re.findall(r"(\w+): (\S*)", ln))))
        for kind in ("fertilization", "tillage", "irrigation", "sowing", "harvest"):
            e = [(z, p) for (z, k, p) in exp if k == kind]
            if kind == "tillage":
                e = [(z, p) for (z, p) in e if p["Depth"] > 0]       # a tillage of depth 0 leaves no log line
            if kind == "harvest":
                e = [(z, p) for (z, p) in e if not p["initial"]]       # the initial crop's harvest is the start of the run
            o = [(d, p) for (d, k, p) in obs if k == kind]
            ed = [log_date(numday(z), f) for z, _ in e]
            od = [d for d, _ in o]
            if ed != od:
                missing = [d for d in ed if d not in od]
                extra = [d for d in od if d not in ed]
                fail(kind + "-dates", "%s: log has %d lines, the schedule demands %d; missing %s, unexpected %s, order ok: %s"
                     % (kind, len(od), len(ed), missing[:6], extra[:6], sorted(od, key=lambda s: od.index(s)) == od),
                     expected=ed, observed=od)
                continue
            for (z, p), (d, q_) in zip(e, o):
                checked += 1
                if kind == "fertilization" and not p.get("residues"):
                    ndir = go_hex(q_["Ndirect"]) if "Ndirect" in q_ else 0.0
                    nh4 = go_hex(q_["NH4"]) if "NH4" in q_ else 0.0
                    if q_.get("Fertilizer") != p["Fertilizer"] or not _close(ndir, p["ndir"]) or not _close(nh4, p["nh4n"]):
                        fail("fertilization-payload", "%s on %s: log says %s N direct %r NH4 %r, table formula gives %r / %r"
                             % (p["Fertilizer"], d, q_.get("Fertilizer"), ndir, nh4, p["ndir"], p["nh4n"]))
                if kind == "tillage" and (int(q_.get("Depth", -1)) != p["Depth"] or int(q_.get("Type", -1)) != p["Type"]):
                    fail("tillage-payload", "tillage on %s: log %s, file %s" % (d, q_, p))
                if kind == "irrigation":
                    n = go_hex(q_["NO3"]) if "NO3" in q_ else 0.0
                    if not _close(n, p["n"]):
                        fail("irrigation-N", "irrigation on %s: N %r, file gives %r" % (d, n, p["n"]))
                if kind in ("sowing", "harvest") and q_.get("Crop", "").strip() != p["Crop"]:
                    fail(kind + "-crop", "%s on %s: crop %r, rotation says %r" % (kind, d, q_.get("Crop"), p["Crop"]))
        # state jumps seen by the probe
        fe = [(z, p) for (z, k, p) in exp if k == "fertilization"]
        fo = [e for e in cs["ev"] if e["kind"] == "fert"]
        if len(fe) == len(fo):
            for (z, p), e in zip(fe, fo):
                if e["zeit"] != z or e["subd"] != 1 or e["adv"] != 1:
                    fail("fertilization-firing", "cursor advance on day %d sub-step %d by %d, expected day %d sub-step 1 by 1" % (e["zeit"], e["subd"], e["adv"], z))
                if p.get("residues") or e["harvest"]:
                    continue
                dj = go_hex(e["dsumm"][1]) - go_hex(e["dsumm"][0]); nj = go_hex(e["nh4"][1]) - go_hex(e["nh4"][0])
                if not _close(dj, p["ndir"], go_hex(e["dsumm"][0])) or not _close(nj, p["nh4n"], go_hex(e["nh4"][0])):
                    fail("fertilization-jump", "day %d: DSUMM jumped by %r (expected %r), NH4Sum by %r (expected %r)" % (z, dj, p["ndir"], nj, p["nh4n"]))
                ns, nl = go_hex(cs["init"]["nsas"][e["slot"]]), go_hex(cs["init"]["nlas"][e["slot"]])
                if not _close(ns, p["nsas"]) or not _close(nl, p["nlas"]):
                    fail("fertilization-organic", "%s on day %d: fast/slow organic N of the event are %r / %r, the table formula gives %r / %r"
                         % (p["Fertilizer"], z, ns, nl, p["nsas"], p["nlas"]))
                if e["replay"] not in ("ok", "skipped"):
                    fail("fertilization-pools", "day %d: Nitro on the pre-state with the split (%r, %r fast/slow organic) added by hand "
                         "does not reproduce the real post-state (NFOS/NAOS/C1/DSUMM/NH4Sum): %s" % (z, p["nsas"], p["nlas"], e["replay"]))
        elif [log_date(numday(z), f) for z, _ in fe] == [d for d, k, _ in obs if k == "fertilization"]:
            fail("fertilization-firing", "log and cursor disagree: %d log lines, %d cursor advances" % (len(fe), len(fo)))
        ie = [(z, p) for (z, k, p) in exp if k == "irrigation"]
        io = [e for e in cs["ev"] if e["kind"] == "irr"]
        if len(ie) == len(io):
            for (z, p), e in zip(ie, io):
                rj = go_hex(e["regen_post"]) - go_hex(e["regen_pre"])
                if e["zeit"] != z or not _close(rj, p["mm"] / 10.0):
                    fail("irrigation-water", "day %d: rain of the day rose by %r cm, file gives %r mm on day %d" % (e["zeit"], rj, p["mm"], z))
                if e["c1_usable"]:
                    cj = go_hex(e["c1_post"]) - go_hex(e["c1_prev"])
                    dep = go_hex(cs["init"]["depos"]) / 365 * go_hex(cs["init"]["dt"])
                    if not _close(cj, p["n"] + dep, go_hex(e["c1_prev"])) and go_hex(e["c1_prev"]) + p["n"] + dep >= 0:
                        fail("irrigation-N-jump", "day %d: C1[0] rose by %r, irrigation N + deposition = %r" % (z, cj, p["n"] + dep))
        te = [(z, p) for (z, k, p) in exp if k == "tillage"]
        to = [e for e in cs["ev"] if e["kind"] == "till"]
        if [z for z, _ in te] != [e["zeit"] for e in to] or any(e["subd"] != 1 or e["adv"] != 1 for e in to):
            fail("tillage-firing", "tillage cursor advanced on days %s, the schedule demands %s" % ([e["zeit"] for e in to][:12], [z for z, _ in te][:12]))
        if run.get("overnight_changes"):
            o1 = run["overnight_first"][0]
            fail("fertiliser-N-discarded", "applied mineral fertiliser N changed between the end of a day and the start of the next without a measurement "
                 "day (%d times); first: before day %s DSUMM %r -> %r, released part UMS %r -> %r"
                 % (run["overnight_changes"], numday(o1["zeit"]), go_hex(o1["dsumm"][0]), go_hex(o1["dsumm"][1]), go_hex(o1["ums"][0]), go_hex(o1["ums"][1])))
        if run["regen_unexplained"] or run["dsumm_unexplained"]:
            fail("unscheduled-jump", "%d days with rain changed without irrigation, %d Nitro calls changed DSUMM/NH4Sum without a scheduled event"
                 % (run["regen_unexplained"], run["dsumm_unexplained"]))
    from props import c16
    orc, ocases, oerr, _ = c16.org_run(ctx)
    if orc == 0:
        ofails, ochecked = c16.org_oracle(ocases, table)
        fails += ofails
        ctx.extra["oracle_organic_checks"] = ochecked
    hrc, hcases, herr, _ = c16.hs_run(ctx)
    if hrc == 0:
        # clause "each sowing the input files schedule is carried out not before its scheduled date and at most one day after it",
        # with fixed sowing dates and automatic harvest: unless the date had already passed when the previous harvest was decided
        for cs in hcases:
            if c16.rejected(cs) or cs["run"] is None or not cs["run"]["success"] or cs["log"] is None:
                if not c16.rejected(cs):
                    fails.append(Fail(key="run:%s" % cs["name"], what="the run failed: %s" % ((cs["run"] or {}).get("err")), case=cs["name"]))
                continue
            sowlog = [z for (z, k, p) in cs["log"] if k == "sowing"]
            harlog = [z for (z, k, p) in cs["log"] if k == "harvest"]
            # tillage with automatic harvest: dated before sowing -> carried out the day after its date; dated inside the stand ->
            # it waits for the harvest and is carried out 2 or 3 days after it (put on harvest + 1, or still 2 days ahead)
            tlog = [z for (z, k, p) in cs["log"] if k == "tillage"]
            want_t = []
            for (d, dep, ty, where, k) in cs.get("till_plan", []):
                hz = harlog[k - 1] if k - 1 < len(harlog) else None
                prev_h = cs["B"] if k == 1 else (harlog[k - 2] if k - 2 < len(harlog) else None)
                if where == "before" and prev_h is not None and prev_h < d and d + 1 <= cs["E"]:
                    want_t.append((d + 1, d + 1, "before sowing of entry %d, dated %s" % (k, numday(d))))
                elif where == "inside" and hz is not None and hz + 3 <= cs["E"]:
                    # ... or later still, when the next crop is already in the ground by then: it then waits for that harvest
                    nxt = [hz2 for sz2, hz2 in zip(sowlog[k:], harlog[k:]) if sz2 <= hz + 3]
                    want_t.append((hz + 2, max([hz + 3] + [h2 + 3 for h2 in nxt]), "inside the stand of entry %d (dated %s, harvest %s)" % (k, numday(d), numday(hz))))
                elif where == "inside" or prev_h is None or prev_h >= d:
                    want_t = None
                    break
            if want_t is not None and cs.get("till_plan"):
                checked += 1
                stands = list(zip(sowlog, harlog + [cs["E"] + 1] * (len(sowlog) - len(harlog))))
                ok = (len(tlog) == len(want_t) and all(lo <= z <= hi for z, (lo, hi, _) in zip(tlog, want_t)) and
                      not any(s2 + 1 < z <= h2 + 1 for z in tlog for (s2, h2) in stands))
                if not ok:
                    fails.append(Fail(key="tillage-date:%s:%s" % (c16.sws_of(cs), cs["name"]),
                                      what="tillage carried out on %s; the tillage file with automatic harvest demands %s"
                                      % ([str(numday(z)) for z in tlog], [(str(numday(lo)), str(numday(hi)), w) for lo, hi, w in want_t]),
                                      case=cs["name"], switches=c16.sws_of(cs), crops=[(a, str(b), str(c_)) for a, b, c_, _ in cs["crops"]]))
            for k in range(1, len(cs["crops"])):
                code, s_, h_, w_ = cs["crops"][k]
                prev_h = cs["B"] if k == 1 else (harlog[k - 2] if k - 2 < len(harlog) else None)
                if prev_h is None or daynum(s_) > cs["E"] or daynum(s_) <= prev_h:
                    continue          # previous crop not harvested in the run / date after the end / date overtaken by the harvest
                checked += 1
                sz = sowlog[k - 1] if k - 1 < len(sowlog) else None
                if sz is None or not (daynum(s_) <= sz <= daynum(s_) + 1):
                    fails.append(Fail(key="sowing-date:%s:%s" % (c16.sws_of(cs), cs["name"]),
                                      what="entry %d (%s): the rotation file schedules sowing on %s (previous harvest %s), carried out on %s"
                                      % (k, code, s_, numday(prev_h), sz and numday(sz)), case=cs["name"], switches=c16.sws_of(cs),
                                      crops=[(a, str(b), str(c_)) for a, b, c_, _ in cs["crops"]], second_pass=cs.get("second_pass"),
                                      log=[(str(numday(z)), k_, p) for (z, k_, p) in cs["log"] if k_ in ("sowing", "harvest")]))
    ctx.extra["oracle_events_checked"] = checked
    ctx.extra["oracle_runs"] = len(cases)
    return fails


LEVEL_TEXT = ("Machine-checked proof (Coq) over the model of the event readers, the shift loops, the irrigation compaction, the "
              "cursors/firing tests over the whole day loop and the payload arithmetic: exactly-once/in-order/sub-step-1 for EVERY "
              "file content, start/end date and sub-step count; the waited-for dates are the least strictly increasing dates not "
              "earlier than the file dates, at most one day later in the class 'fits' (<= 2 per day, no pair reached by a "
              "displacement). The model is compared with the real simulator on whole runs (arrays, every cursor advance, state "
              "jumps, bit-exact) and the property is evaluated directly on the management log and the probe each run.")
LEVEL_NOTE = ("Trusted: Coq kernel + vm_compute; harness/driver; python calendar for generated dates. NFOS[0]/NAOS[0] jumps are "
              "checked on the real code by replaying Nitro on the pre-state with the split added by hand (bit-exact), not "
              "through Coq (mineralisation runs in the same call). Axioms: only those of Coq's Reals library (payload theorems).")
TECHNIQUE = "Coq proof (induction over file lines and the day loop; witnesses by vm_compute) + whole-run model/code correspondence + log oracle"
