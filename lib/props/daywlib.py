"""C01, whole-day level: tie of DayWaterModel.day_water (irrigation added to the rain -> Evatra's structural
part -> sub-step choice -> STEPS Water calls) with whole traced days of real runs, and the day-level property
(rain + irrigation - actual evaporation - uptake - bottom flux - drain) evaluated on the real code.

    correspond_day(ctx, corr)   adds cases / mismatches to `corr`, statistics to ctx.extra["day_tie"]
    oracle_day(ctx) -> [Fail]

standalone:  python3 lib/props/daywlib.py [quick|thorough] [seed]     (DAYW_PID=<ctx id>, default C01)
"""
import os, re, sys, time

if __name__ == "__main__":
    sys.path.insert(0, os.path.join(os.path.dirname(os.path.abspath(__file__)), ".."))

from core import Corr, Fail
from props import waterlib
from props.waterlib import fl, fls, b

GROUPS = ["REGEN'", "Evatra FLUSS0/ETA/GWAUF/NFK", "STEPS/WDT", "WG1", "sub-steps (count, Q1[1..N], QDRAIN)", "counters", "TP/EV end of day"]
HDR = ["From Coq Require Import ZArith List Bool Floats.",
       "From Hermes Require Import Num WaterModel EvatraModel DayWaterModel C01Corr DayWaterCorr.",
       "Import ListNotations.", "Open Scope float_scope."]
CNT = ["c_pftrans", "c_tray", "c_trag", "c_etag", "c_tp3", "c_tp6", "c_tp9", "c_draisum", "c_sicker", "c_capsum", "c_perg", "c_infilt"]


def _z(n):
    return "(%d)%%Z" % n


def record(i, o):
    cnt = "{| " + "; ".join("%s := %s" % (nm, fl(v)) for nm, v in zip(CNT, i["cnt"])) + " |}"
    subs = "[" + "; ".join("(%s, %s)" % (fls(s["q1"]), fl(s["qdrain"])) for s in (o["subs"] or [])) + "]"
    return ("({| di_rain := %s; di_irr_due := %s; di_breg := %s; di_wg1 := %s; di_ev_last := %s; di_q10 := %s; di_cnt := %s; "
            "di_crop := %s; di_verdu := %s; di_elai := %s; di_expw := %s; di_wmin := %s; di_w := %s; di_wnor := %s; "
            "di_porges := %s; di_wurz := %d%%nat; di_wudich := %s; di_grw := %s; di_lukrit := %s; di_lumday := %s; "
            "di_lured := %s; di_etrel := %s; di_trrel := %s; di_draidep := %d%%nat; di_draifak := %s; di_outn := %d%%nat; "
            "di_caps := %s; di_after_sow := %s; di_after_sow_later := %s; di_season_reset := %s |}, "
            "{| db_regen := %s; db_fluss0 := %s; db_eta := %s; db_gwauf := %s; db_nfk := %s; db_steps := %s; db_wdt := %s; "
            "db_wg1 := %s; db_subs := %s; db_cnt := %s; db_tp := %s; db_ev := %s |})"
            % (fl(i["rain"]), b(i["irr_due"]), fl(i["breg"]), fls(i["wg1"]), fl(i["ev_last"]), fl(i["q10"]), cnt,
               b(i["crop"]), fl(i["verdu"]), fl(i["elai"]), fls(i["expw"]), fls(i["wmin"]), fls(i["w"]), fls(i["wnor"]),
               fls(i["porges"]), max(i["wurz"], 0), fls(i["wudich"]), fl(i["grw"]), fl(i["lukrit"]), _z(i["lumday"]),
               fl(i["lured"]), fl(i["etrel"]), fl(i["trrel"]), max(i["draidep"], 0), fl(i["draifak"]), i["outn"],
               fls(i["caps"]), b(i["after_sow"]), b(i["after_sow_later"]), b(i["season_reset"]),
               fl(o["regen"]), fl(o["fluss0"]), fl(o["eta"]), fl(o["gwauf"]), fls(o["nfk"]), _z(o["steps"]), fl(o["wdt"]),
               fls(o["wg1"]), subs, fls(o["cnt"]), fls(o["tp"]), fls(o["ev"])))


def _parse(o):
    """-> (ok, pairs): any printed M other than [] must parse into pairs"""
    m = re.search(r"M\s*=\s*(.*?)\s*:\s*list \(nat \* nat\)", o, re.S)
    if not m:
        return False, []
    body = m.group(1).strip()
    # Coq wraps long lists: "( 3%nat, 2%nat)" occurs; every "(" of the body must be one parsed pair
    pairs = [(int(a), int(c)) for a, c in re.findall(r"\(\s*(\d+)(?:%nat)?\s*,\s*(\d+)(?:%nat)?\s*\)", body)]
    if (body != "[]" and not pairs) or len(pairs) != body.count("("):
        return False, []
    return True, pairs


def _lines(ctx):
    """traced batch lines: waterlib.TRACE_LINES (extreme weather, ETpot overrides) with their own result folders"""
    nl, endy = (8, 1995) if ctx.thorough else (4, 1982)
    out = []
    for i, (ln, fmt) in enumerate(waterlib.common_period_lines()[:nl]):
        end = ("1231%d" if fmt == "EN" else "3112%d") % endy
        out.append("%s EndDate=%s resultfolder=R/dayw%d" % (ln, end, i))
    return out


def _run(ctx):
    ex = waterlib.prepare_examples(ctx)
    lf = os.path.join(ctx.work, "dayw_lines.txt")
    with open(lf, "w") as f:
        f.write("\n".join(_lines(ctx)) + "\n")
    every, special = (6, 100000) if ctx.thorough else (10, 150)
    return waterlib.run_harness(ctx, "dayw", ["-work", ex, "-lines", lf, "-seed", str(ctx.seed), "-every", str(every),
                                              "-special", str(special)])


def eval_day_cases(ctx, corr, cases, shard=None):
    recs = [record(c["in"], c["obs"]) for c in cases]
    if shard is None:
        shard = max(8, (len(recs) + 15) // 16)
    items = []
    for k in range(0, len(recs), shard):
        body = HDR + ["Definition cases : list (day_in (T:=float) * day_obs) := [\n%s\n]." % ";\n".join(recs[k:k + shard]),
                      "Definition M := Eval vm_compute in mismatches day_check %d%%nat cases." % k, "Print M."]
        items.append(("Cases_dayw_%d" % (k // shard), "\n".join(body) + "\n"))
    for nm, rc, o in ctx.coq_eval_many(items, timeout=1500):
        ok, pairs = _parse(o)
        if rc != 0 or not ok:
            corr.mismatches.append({"kind": "coq-eval", "shard": nm, "output": o[-1200:]})
            continue
        for idx, mask in pairs:
            ci, co = cases[idx]["in"], cases[idx]["obs"]
            corr.mismatches.append({"kind": "day-water-composition", "line": ci["line"], "zeit": ci["zeit"],
                                    "differs": [GROUPS[j] for j in range(len(GROUPS)) if mask >> j & 1],
                                    "steps": co["steps"], "wdt": co["wdt"], "irrigation_due": ci["irr_due"],
                                    "input": {k: v for k, v in ci.items() if k != "caps"},
                                    "observed": {k: v for k, v in co.items() if k != "subs"}})
    corr.cases += len(recs)
    return corr


def correspond_day(ctx, corr):
    t0 = time.time()
    ok, out = ctx.coq_make(["DayWaterCorr"])
    if not ok:
        corr.mismatches.append({"kind": "coq-build", "target": "DayWaterCorr", "output": out[-1500:]})
        return corr
    rc, cases, oracle, other, err = _run(ctx)
    if rc != 0:
        corr.mismatches.append({"kind": "dayw-harness-crash", "stderr": err[-1500:]})
        return corr
    runs = [x for x in cases if x["k"] == "daywrun"]
    days = [x for x in cases if x["k"] == "dayw"]
    for r_ in runs:
        if not r_["success"]:
            corr.mismatches.append({"kind": "traced-run-failed", "run": r_})
    # a write to a value Water reads later by code outside the model: the composition claim is wrong
    for ln in other:
        if ln.startswith("FOREIGN "):
            corr.mismatches.append({"kind": "day-water-foreign-write", "what": ln[8:]})
    eval_day_cases(ctx, corr, days)
    skipped, hist = {}, {}
    for r_ in runs:
        for k, v in r_["skipped"].items():
            skipped[k] = skipped.get(k, 0) + v
        for k, v in r_["hist"].items():
            hist[k] = hist.get(k, 0) + v
    for d in days:
        corr.bump("day-steps=%d" % d["obs"]["steps"])
        if d["in"]["irr_due"]:
            corr.bump("day-with-irrigation")
        if d["in"]["season_reset"]:
            corr.bump("day-with-season-reset")
        if d["in"]["crop"]:
            corr.bump("day-crop-branch")
    ctx.extra["day_tie"] = {
        "traced_runs": len(runs), "traced_days": sum(r_["days"] for r_ in runs),
        "days_compared_bit_exact": len(days),
        "days_skipped_by_reason": skipped, "days_skipped": sum(skipped.values()),
        "foreign_writes": sum(sum(r_["foreign"].values()) for r_ in runs),
        "substep_histogram_all_days": {k: hist[k] for k in sorted(hist, key=int)},
        "irrigation_days": sum(r_["irrigation_days"] for r_ in runs),
        "season_reset_days": sum(r_["season_reset_days"] for r_ in runs),
        "crop_index_advanced_days": sum(r_["crop_index_advanced_days"] for r_ in runs),
        "measurement_days_included": sum(r_["measurement_days"] for r_ in runs),
        "max_abs_day_residual_full": max([r_["max_abs_residual"] for r_ in runs] or [0.0]),
        "seconds": round(time.time() - t0, 1),
    }
    return corr


def oracle_day(ctx):
    rc, cases, oracle_lines, other, err = _run(ctx)
    fails = []
    if rc != 0:
        fails.append(Fail(key="dayw-crash", what="traced run aborted", stderr=err[-800:]))
    for l in oracle_lines:
        if l.startswith(("day-water-balance-full", "substeps-cover-day-full")):
            fails.append(Fail(key=l.split(" wdt=")[0][:90], what=l))
    return fails


if __name__ == "__main__":
    import core
    tier = sys.argv[1] if len(sys.argv) > 1 else "quick"
    seed = int(sys.argv[2]) if len(sys.argv) > 2 else int(os.environ.get("VERIF_SEED", "1"))
    ctx = core.Ctx(os.environ.get("DAYW_PID", "C01"), tier, seed)
    c = Corr()
    t0 = time.time()
    correspond_day(ctx, c)
    fails = oracle_day(ctx)
    import json
    print(json.dumps(ctx.extra.get("day_tie"), indent=1))
    print("cases", c.cases, "mismatches", len(c.mismatches), "oracle fails", len(fails), "dist", c.dist)
    for m in c.mismatches[:6]:
        print(json.dumps({k: v for k, v in m.items() if k not in ("input", "observed")})[:1500])
    for f in fails[:6]:
        print("ORACLE", f.__dict__ if hasattr(f, "__dict__") else f)
    print("wall %.1fs" % (time.time() - t0))
    import shutil
    for d_ in (ctx.work,) + (() if c.mismatches else (ctx.gen,)):      # gen kept after a mismatch for inspection
        shutil.rmtree(d_, ignore_errors=True)
