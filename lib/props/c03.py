"""C03 — results are deterministic and independent of scheduling.

proof:           Prop_C03.v  (PoolModel: pool_coherent / cache irrelevance; DispatchModel: exactly-once,
                 bounded concurrency, termination, results_schedule_independent, scheduler soundness)
                 + generated obligation shared_state_inert over gen/SharedState.v (tie 3: inventory of
                 package-level variables / session fields and of every site changing them, regenerated
                 from /repo by `vh sharedstate`, go/ast + go/types)
correspondence:  the REAL batch binary on generated batch files (mixed projects, repeated lines, one
                 failing line, shuffled orders, -lines windows) at concurrency 1,2,3,8,16 x GOMAXPROCS
                 1,4,16, several executions at a time (scheduling pressure); DispatchModel is executed in
                 Coq (pseudo-random adversarial scheduler) on every execution and its error summary,
                 printed count and set of started lines are compared with what the binary printed/wrote
oracle:          every result folder of every execution is byte-identical to the folder the same line
                 produced in the concurrency-1 reference execution; the -race build reports no data race
"""
import os, random, re, shutil, subprocess
from core import Corr, Fail, BuildError, sh
import core
from props import batchlib as B

PROP_FILES = ["Prop_C03"]
RULE = ("one case = one execution of the real batch binary (8-24 batch lines) at one (concurrency, GOMAXPROCS, "
        "line order, -lines window); non-trivial when the configuration is distinct; every result folder of every "
        "execution is a byte comparison against the concurrency-1 reference")
TRUSTED = ["sharedstate translator (go/parser + go/types with stubbed imports; lock regions by source position)",
           "Go race detector (supporting evidence for freedom from data races)",
           "the abstraction run = deterministic program over (own batch line, file contents read through the pool)"]
ASSUMPTIONS = ["a run reads shared files only through FilePool.Get and keeps all other state private (checked "
               "syntactically by the SharedState inventory: no mutable package-level variable, pool map accessed under its mutex)",
               "input files are not modified during a session (disk is a fixed function)",
               "os.ReadFile failure = log.Fatal = process exit, outside the model",
               "log-message arms of the dispatcher's select are stutter steps (not counted as transitions)",
               "goroutine interleavings at memory-model level are NOT modelled: race-detector runs only (partial)"]

_cache = {}
CONC = (1, 2, 3, 8, 16)
GMPS = (1, 4, 16)


# ------------------------------------------------------------------ tie 3: SharedState.v
def _coq_str(s):
    return '"' + s.replace('"', '""') + '"'


def _kind(k):
    if k.startswith("ptrcall:"):
        return "(KPtrCall %s)" % _coq_str(k.split(":", 1)[1])
    return {"assign": "KAssign", "incdec": "KIncDec", "addr": "KAddr", "delete": "KDelete", "read": "KRead", "synctype": "KSyncType"}[k]


def generate(ctx):
    B.ensure_coqproject()
    vh = ctx.harness()
    p = subprocess.run([vh, "sharedstate", core.REPO], stdout=subprocess.PIPE, stderr=subprocess.PIPE, text=True, timeout=300)
    if p.returncode != 0:
        raise BuildError("sharedstate translator failed:\n" + p.stderr[-2000:])
    entries, order = {}, []
    for line in p.stdout.split("\n"):
        t = line.split()
        if not t:
            continue
        if t[0] == "VAR":
            entries.setdefault(t[1], []); order.append(t[1])
        elif t[0] == "SITE":
            entries.setdefault(t[1], []).append((t[2], t[3], t[4], t[5]))
    _cache["inventory"] = entries
    body = []
    for name in order:
        sites = "; ".join("Site %s %s %s" % (_kind(k), _coq_str(fn), "true" if lk == "1" else "false")
                          for (k, fn, pos, lk) in entries[name])
        body.append("  Entry %s [%s]" % (_coq_str(name), sites))
    src = ("(* generated from %s by `vh sharedstate` — do not edit *)\n"
           "From Coq Require Import List String.\nFrom Hermes Require Import SharedStateModel.\n"
           "Import ListNotations.\nLocal Open Scope string_scope.\n"
           "Definition inventory : list entry := [\n%s\n].\n") % (core.REPO, ";\n".join(body))
    with open(os.path.join(ctx.gen, "SharedState.v"), "w") as f:
        f.write(src)


CHECK_V = """From Coq Require Import List Bool String.
From Hermes Require Import SharedStateModel.
From HermesGen Require Import SharedState.
Import ListNotations.
Definition offenders := Eval vm_compute in map ename (filter (fun e => negb (inert_or_guarded e)) inventory).
Print offenders.
Theorem shared_state_inert : forallb inert_or_guarded inventory = true.
Proof. vm_compute. reflexivity. Qed.
Theorem shared_state_inert_all : forall e, In e inventory -> inert_or_guarded e = true.
Proof. exact (inventory_all inventory shared_state_inert). Qed.
Theorem shared_state_inventory_plausible : inventory_plausible inventory = true.
Proof. vm_compute. reflexivity. Qed.
Print Assumptions shared_state_inert_all.
Print Assumptions shared_state_inventory_plausible.
"""


def gen_proofs(ctx):
    names = ["shared_state_inert", "shared_state_inert_all", "shared_state_inventory_plausible"]
    broken = []
    src = os.path.join(ctx.gen, "SharedState.v")
    if not os.path.exists(src):
        return len(names), 0, [{"stage": "generated-proof", "what": "SharedState.v was not generated"}], names
    rc, out = ctx.coqc(src, timeout=300)
    if rc != 0:
        return len(names), 0, [{"stage": "generated-proof", "what": "SharedState.v does not compile:\n" + out[-1500:]}], names
    rc, out = ctx.coq_eval("SharedStateCheck", CHECK_V, timeout=300)
    m = re.search(r"offenders\s*=\s*(\[.*?\])\s*:\s*list string", out, re.S)
    offenders = re.findall(r'"([^"]+)"', m.group(1)) if m else []
    _cache["offenders"] = offenders
    closed = out.count("Closed under the global context")
    if rc != 0 or closed != 2:
        inv = _cache.get("inventory", {})
        detail = {o: ["%s in %s at %s%s" % (k, fn, pos, "" if lk == "1" else " (not under the pool mutex)")
                      for (k, fn, pos, lk) in inv.get(o, []) if k != "read" or o.endswith("FilePool.list")] for o in offenders}
        broken.append({"stage": "generated-proof", "theorem": "shared_state_inert",
                       "what": "forallb inert_or_guarded inventory = true no longer holds (or the inventory is implausible)",
                       "not_inert_and_not_classified": detail, "coq": out[-1200:]})
        return len(names), 0, broken, names
    return len(names), len(names), broken, names


# ------------------------------------------------------------------ executions of the real binary
def _round(ctx, j, rng, binary, rbin, ex, pool):
    keys = list(B.VALID)
    rng.shuffle(keys)
    nlines = 11
    if ctx.thorough:
        keys += list(B.LONG); rng.shuffle(keys); nlines = 14 + 2 * (j % 3)
    # two repeated lines; several lines of the process read the same weather file with handled oddities in year 2+
    batch = keys[:nlines] + ["bad"] + [keys[0], keys[1]] + ["odd1", "odd2", "odd3", "odd1"]
    rng.shuffle(batch)
    pre = "r%d_" % j
    ref = B.run_batch(binary, ex, pre + "ref", batch, pool, 1, 4)
    execs, jobs = [ref], []
    k = 0
    for c in CONC:
        for g in GMPS:
            if (c, g) == (1, 4):
                continue
            order = list(batch)
            if k % 2 == 1 or c == 1:
                rng.shuffle(order)
            k += 1
            jobs.append(lambda c=c, g=g, order=order: B.run_batch(binary, ex, pre + "c%d_g%d" % (c, g), order, pool, c, g))
    n = len(batch)
    a = rng.randint(2, n // 2); b_ = rng.randint(a, n - 1)
    for tag, opt, c in (("win1", "%d-%d" % (a, b_), 2), ("win2", "%d" % rng.randint(1, n - 1), 3),
                        ("win3", "%d-end" % rng.randint(2, n), 8)):
        jobs.append(lambda tag=tag, opt=opt, c=c: B.run_batch(binary, ex, pre + tag, batch, pool, c, 4, lines_opt=opt))
    execs += B.parallel(jobs, 4)
    races = []
    if rbin:   # race-detector executions (supporting evidence)
        rbatch = batch if ctx.thorough else batch[:6] + [batch[0]]
        rconc = (2, 3, 8, 16) if ctx.thorough else (3, 8)
        rjobs = [lambda c=c: B.run_batch(rbin, ex, pre + "race_c%d" % c, rbatch, pool, c, 4, timeout=900,
                                         extra_env={"GORACE": "halt_on_error=0"}) for c in rconc]
        races = B.parallel(rjobs, 2 if ctx.thorough else 2)
    for e in execs[1:] + races:            # keep the disk footprint small: digest now, delete the folders
        e.digests = {i: B.folder_digest(os.path.join(e.root, "l%d" % i)) for i in range(len(e.contents))}
        e.ran = B.ran_indices(e)
        shutil.rmtree(e.root, ignore_errors=True)
    ref.digests = {i: B.folder_digest(os.path.join(ref.root, "l%d" % i)) for i in range(len(ref.contents))}
    ref.ran = B.ran_indices(ref)
    shutil.rmtree(ref.root, ignore_errors=True)
    return {"ref": ref, "execs": execs, "races": races, "batch": batch}


REUSE_KEYS = ("ex1a", "ex3a", "rue1", "bulk", "pred", "mun", "myP")


def _longer(line):
    """the same line with a later EndDate (longer V/C/Y/M result files under the same names)"""
    return re.sub(r"EndDate=(\d{4})(\d{4})", lambda m: "EndDate=%s%04d" % (m.group(1), int(m.group(2)) + 3), line)


def _reuse(ctx, rng, binary, ex):
    """runs into a USED result folder: (longer run, then the shorter run) across two sessions, inside one
    session (two lines sharing resultfolder and ids, concurrency 1), and into a folder pre-filled with longer
    files of the same names; reference = the shorter run into an empty folder"""
    keys = list(REUSE_KEYS) if ctx.thorough else rng.sample(REUSE_KEYS[:4], 2) + ["pred", rng.choice(("mun", "myP"))]
    pool = {k: B.VALID[k] for k in keys}
    pool.update({k + "#long": _longer(B.VALID[k]) for k in keys})
    longs = [k + "#long" for k in keys]
    n = len(keys)
    ref = B.run_batch(binary, ex, "reuse_ref", keys, pool, 1, 4)
    refdig = [B.folder_digest(os.path.join(ref.root, "l%d" % i)) for i in range(n)]
    out = {"keys": keys, "pool": pool, "ref": ref, "refdig": refdig, "modes": {}}
    # across sessions
    first = B.run_batch(binary, ex, "reuse_x", longs, pool, rng.choice((1, 3)), 4, batch_name="reuse_x_first")
    longdig = [B.folder_digest(os.path.join(first.root, "l%d" % i)) for i in range(n)]
    second = B.run_batch(binary, ex, "reuse_x", keys, pool, rng.choice((1, 3)), 4, keep_root=True)
    out["modes"]["two-sessions"] = (second, [B.folder_digest(os.path.join(second.root, "l%d" % i)) for i in range(n)], [first, second])
    out["long_really_longer"] = sum(1 for i in range(n) if longdig[i] != refdig[i])
    # one session
    both = B.run_batch(binary, ex, "reuse_s", longs + keys, pool, 1, 4, folders=list(range(n)) * 2)
    out["modes"]["one-session"] = (both, [B.folder_digest(os.path.join(both.root, "l%d" % i)) for i in range(n)], [both])
    # pre-filled folder: every file of the reference exists already, longer
    root = os.path.join(ex, "reuse_p")
    shutil.rmtree(root, ignore_errors=True)
    for i in range(n):
        src = os.path.join(ref.root, "l%d" % i)
        dst = os.path.join(root, "l%d" % i)
        os.makedirs(dst, exist_ok=True)
        if os.path.isdir(src):
            for fn in os.listdir(src):
                with open(os.path.join(dst, fn), "wb") as f:
                    f.write(open(os.path.join(src, fn), "rb").read() + b"\n# stale tail of an earlier, longer result file\n" * 40)
    pre = B.run_batch(binary, ex, "reuse_p", keys, pool, rng.choice((1, 3)), 4, keep_root=True)
    out["modes"]["prefilled"] = (pre, [B.folder_digest(os.path.join(pre.root, "l%d" % i)) for i in range(n)], [pre])
    out["kinds"] = sorted({fn[:1] for d in refdig for fn in d})
    for tag in ("reuse_ref", "reuse_x", "reuse_s", "reuse_p"):
        shutil.rmtree(os.path.join(ex, tag), ignore_errors=True)
    return out


_SH = ("project=ex1 WeatherFolder=historical fcode=109_120 Altitude=73 Latitude=52.6732 EndDate=12311983 "
       "VirtualDateFertilizerPrediction=04011981 ")
SHARED = {   # the pattern of examples/all_muencheberg_batch.txt: one result folder, same plotNr under several polygon ids (and the reverse)
    "sh_a": _SH + "soilId=075 plotNr=10001 poligonID=29872",
    "sh_b": _SH + "soilId=160 plotNr=10001 poligonID=29873",
    "sh_c": _SH + "soilId=075 plotNr=10001 poligonID=30169 fcode=109_121",
    "sh_d": _SH + "soilId=075 plotNr=10002 poligonID=29872",
    "sh_e": _SH + "soilId=160 plotNr=10002 poligonID=30169",
    "sh_f": "project=ex1 WeatherFolder=historical fcode=109_120 Altitude=73 Latitude=52.6732 EndDate=12311982 soilId=075 plotNr=10001 poligonID=29876",
}


def _shared(ctx, rng, binary, ex):
    """several lines writing into ONE result folder (distinct output ids), prediction on: every file of every line byte-equal to
    its solo run, and the set of files = the union of the solo sets; all concurrency levels"""
    keys = list(SHARED)
    solo = B.run_batch(binary, ex, "sh_solo", keys, SHARED, 1, 4)
    want = {}
    per_line = {}
    for i, k in enumerate(keys):
        d = B.folder_digest(os.path.join(solo.root, "l%d" % i))
        per_line[k] = d
        want.update(d)
    runs = []
    for c in CONC:
        order = list(keys); rng.shuffle(order)
        e = B.run_batch(binary, ex, "sh_c%d" % c, order, SHARED, c, rng.choice(GMPS), folders=[0] * len(order))
        runs.append((e, B.folder_digest(os.path.join(e.root, "l0"))))
        shutil.rmtree(e.root, ignore_errors=True)
    # the SAME line several times in one batch, same result folder: the folder equals the line's solo folder
    twins = []
    tk = ["sh_a", "sh_f", "sh_d"]
    for c in CONC:
        order = [tk[0]] * 3 + [tk[1]] * 2 + [tk[2]] * 2
        rng.shuffle(order)
        e = B.run_batch(binary, ex, "tw_c%d" % c, order, SHARED, c, rng.choice(GMPS), folders=[tk.index(k) for k in order])
        twins.append((e, [B.folder_digest(os.path.join(e.root, "l%d" % i)) for i in range(len(tk))]))
        shutil.rmtree(e.root, ignore_errors=True)
    shutil.rmtree(solo.root, ignore_errors=True)
    return {"solo": solo, "want": want, "per_line": per_line, "runs": runs, "name_clash": sum(len(d) for d in per_line.values()) != len(want),
            "twins": twins, "twin_keys": tk}


def _overrides(ctx, rng, binary, ex):
    """repeated evaluation of (a) lines with several interacting overrides and (b) the configuration sweep (one key / one pair of
    switches away from the project's configuration): in one batch, at several concurrency levels and in several sessions; all
    result folders of a line byte-identical"""
    keys = list(B.OVERRIDES)
    valid_sweep = [k for k in B.SWEEP if k not in B.SWEEP_NOT_VALID]
    sweep = valid_sweep if ctx.thorough else rng.sample(valid_sweep, 48)
    pool = dict(B.OVERRIDES); pool.update(B.SWEEP)
    reps = 12 if ctx.thorough else 8
    runs = []
    for tag, c, orep, srep in (("ov_a_c1", 1, reps, 0), ("ov_b_c8", 8, reps, 2), ("ov_c_c3", 3, reps, 1), ("ov_d_c16", 16, 0, 1)):
        order = keys * orep + sweep * srep
        rng.shuffle(order)
        e = B.run_batch(binary, ex, tag, order, pool, c, rng.choice(GMPS), timeout=900)
        runs.append((e, [B.folder_digest(os.path.join(e.root, "l%d" % i)) for i in range(len(order))]))
        shutil.rmtree(e.root, ignore_errors=True)
    _cache["sweep_info"] = {"lines_in_sweep": len(B.SWEEP), "valid": len(valid_sweep), "run_this_time": len(sweep), "evaluations_per_line": 4,
                            "not_valid_for_the_project_files": len(B.SWEEP_NOT_VALID)}
    return runs, pool


_MCL = "project=%s WeatherFolder=historical soilId=075 fcode=109_120 Altitude=73 Latitude=52.6732 poligonID=29872 EndDate=12311981 plotNr=%s%s"
MISSING_CONF = {"daily": ("dailyout_conf.yml", ""), "yearly": ("yearlyout_conf.yml", ""), "crop": ("cropout_conf.yml", ""),
                "management": ("managementout_conf.yml", " ManagementEvents=1")}


def _missing_conf(ctx, rng, binary, ex):
    """project folders WITHOUT one of the output configuration files.  By design the first invocation writes the default file and
    stops; whatever an invocation that finishes normally writes for a line must be the same bytes in every invocation
    (first one included), in both line orders and in later sessions."""
    def one(kind, fn, extra, first_order):
            proj = "mc%s%d" % (kind[:1], first_order[0])
            d = B._clone(ex, "ex1", proj)
            p = os.path.join(d, fn)
            if os.path.exists(p):
                os.remove(p)
            pool = {"L0": _MCL % (proj, "10001", extra), "L1": _MCL % (proj, "10002", extra)}
            evals = {"L0": [], "L1": []}
            sessions = []
            for s, order in enumerate((first_order, (0, 1), (1, 0), first_order)):
                keys = ["L%d" % i for i in order]
                e = B.run_batch(binary, ex, "mc_%s_%d" % (proj, s), keys, pool, 1 if s < 3 else 2, 4)
                sessions.append((keys, e.rc, e.count, (e.stderr or "")[-200:]))
                if not e.died() and e.count == 0:
                    for i, k in enumerate(keys):
                        evals[k].append((s, B.folder_digest(os.path.join(e.root, "l%d" % i))))
                shutil.rmtree(e.root, ignore_errors=True)
            return {"kind": kind, "file": fn, "project": proj, "pool": pool, "evals": evals, "sessions": sessions,
                    "generated": os.path.exists(p)}
    jobs = [lambda kind=kind, fn=fn, extra=extra, fo=fo: one(kind, fn, extra, fo)
            for kind, (fn, extra) in MISSING_CONF.items() for fo in ((0, 1), (1, 0))]
    return B.parallel(jobs, 4)


def _fout(ctx):
    vh = ctx.harness()
    d = os.path.join(ctx.work, "fout"); os.makedirs(d, exist_ok=True)
    p = subprocess.run([vh, "c03fout", "-seed", str(ctx.seed), "-n", "1500" if ctx.thorough else "300", "-dir", d, "-repo", core.REPO],
                       stdout=subprocess.PIPE, stderr=subprocess.PIPE, text=True, timeout=300)
    return p.returncode, p.stdout, p.stderr


def _run(ctx):
    if "rounds" in _cache:
        return _cache
    rng = random.Random(ctx.seed)
    binary = ctx.repo_bin("src/hermes2go", "hermes2go")
    rbin = None
    try:
        rbin = ctx.repo_bin("src/hermes2go", "hermes2go", race=True)
    except BuildError as e:
        _cache["race_build_error"] = str(e)[-600:]
    ex = B.setup_examples(ctx)
    B.make_odd_weather(ex)
    B.make_sweep_inputs(ex)
    pool = dict(B.VALID); pool["bad"] = B.FAILING["unknown-soil-id"]; pool.update(B.ODD)
    if ctx.thorough:
        pool.update(B.LONG)
    rounds = [_round(ctx, j, rng, binary, rbin, ex, pool) for j in range(6 if ctx.thorough else 1)]
    # every line of round 0 alone in its own process (the in-process history of a line must not matter)
    b0 = rounds[0]["batch"]
    skeys = sorted(set(b0)) if ctx.thorough else sorted({"odd1", "odd2", "odd3"} | set(rng.sample([k for k in b0 if k != "bad"], 3)))
    solos = dict(B.parallel([lambda k=k: (k, B.run_batch(binary, ex, "solo_" + k, [k], pool, 1, 4)) for k in skeys], 4))
    solodig = {k: (None if e.died() else B.folder_digest(os.path.join(e.root, "l0"))) for k, e in solos.items()}
    for k in skeys:
        shutil.rmtree(os.path.join(ex, "solo_" + k), ignore_errors=True)
    _cache.update(rounds=rounds, pool=pool, ex=ex, reuse=_reuse(ctx, rng, binary, ex), fout=_fout(ctx),
                  solos=solos, solodig=solodig, shared=_shared(ctx, rng, binary, ex),
                  overrides=_overrides(ctx, rng, binary, ex), missing=_missing_conf(ctx, rng, binary, ex),
                  ik=B.run_interp_groups(binary, ex, rng, concs=(1, 3, 8, 16) if ctx.thorough else (1, 3)))
    return _cache


def correspond(ctx):
    c = Corr()
    r = _run(ctx)
    for j, rd in enumerate(r["rounds"]):
        ref = rd["ref"]
        if ref.died():
            c.mismatches.append({"kind": "reference-run", "what": "concurrency-1 reference execution did not finish normally",
                                 "rc": ref.rc, "timed_out": ref.timed_out, "stderr": ref.stderr[-800:]})
            continue
        errs = {k: False for k in r["pool"]}
        for i in ref.summary:
            errs[ref.contents[i]] = True
        allx = rd["execs"] + rd["races"]
        done = [e for e in allx if not e.died()]
        for e in allx:
            if e.died():
                c.mismatches.append({"kind": "execution", "tag": e.tag, "what": "process did not finish normally",
                                     "rc": e.rc, "timed_out": e.timed_out, "stderr": e.stderr[-800:]})
        bad, out = B.coq_dispatch_mismatches(ctx, "Cases_C03_dispatch_%d" % j, done, errs, ctx.seed + j)
        if bad is None:
            c.mismatches.append({"kind": "coq-eval", "output": out[-1500:]})
        else:
            for i in bad:
                e = done[i]
                c.mismatches.append({"kind": "dispatch", "tag": e.tag, "concurrency": e.c, "lines": e.lines_opt,
                                     "what": "DispatchModel prediction (summary multiset / count / started lines) differs from the binary",
                                     "observed_summary": e.summary, "observed_count": e.count, "observed_started": e.ran,
                                     "batch": e.contents})
        c.cases += len(allx)
        c.nontrivial += len({(e.c, e.gmp, tuple(e.contents), e.lines_opt) for e in done})
        for e in allx:
            c.bump("concurrency=%d" % e.c); c.bump("GOMAXPROCS=%d" % e.gmp)
        c.bump("batch_lines", len(rd["batch"])); c.bump("race_executions", len(rd["races"]))
        if j == 0:
            c.samples = ["%s: c=%d GOMAXPROCS=%d lines=%s -> summary %s count %s started %d (%.1fs)" %
                         (e.tag, e.c, e.gmp, e.lines_opt, e.summary, e.count, len(e.ran), e.wall) for e in allx[:6]]
    # ---- result-file writer: DefaultFoutGenerator against OutFileModel; append argument of every open site
    rc, out, err = r["fout"]
    if rc != 0:
        c.mismatches.append({"kind": "fout-harness", "stderr": err[-800:]})
    hb = lambda h: "[" + "; ".join(str(b) for b in (bytes.fromhex(h) if h != "e" else b"")) + "]"
    fcs, hcs = [], []
    for line in out.split("\n"):
        t = line.split()
        if t and t[0] == "F":
            old = "None" if t[1] == "-" else "(Some %s)" % hb(t[1])
            chunks = "[]" if t[3] == "-" else "[" + "; ".join(hb(x) for x in t[3].split(",")) + "]"
            fcs.append(("(FCase %s %s %s %s)" % (old, "true" if t[2] == "1" else "false", chunks, hb(t[4])), line))
        elif t and t[0] == "H":
            left, right = line[2:].split(" | ")
            lt = left.split()
            rl = lambda s: "[]" if s == "-" else "[" + "; ".join("(%s, %s)" % tuple(x.split(":")) for x in s.split(",")) + "]"
            evs = []
            for ev in lt[1:]:
                f = ev[1:].split(":")
                evs.append("HOpen %s %s" % (f[0], "true" if f[1] == "1" else "false") if ev[0] == "O" else "HWrite %s %s %s" % (f[0], f[1], f[2]))
            hcs.append(("(HCase %s [%s] %s)" % (rl(lt[0]), "; ".join(evs), rl(right.strip())), line))
        elif t and t[0] == "OPEN":
            ok = (t[3] == "false") or (t[1] == "OpenResultFile" and t[3] == "append")
            if not ok:
                c.mismatches.append({"kind": "open-sites", "what": "a result file is opened with an append argument other than false "
                                     "(OutFileModel: every result file of a run is opened truncating)", "site": line})
    if fcs:
        text = "\n".join(["From stdpp Require Import gmap.", "From Hermes Require Import OutFileModel C03Corr.", "Local Open Scope Z_scope.",
                          "Definition cases : list fcase := [\n  %s]." % ";\n  ".join(x[0] for x in fcs),
                          "Definition FM := Eval vm_compute in fmismatches 0 cases.", "Print FM."]) + "\n"
        rc2, o = ctx.coq_eval("Cases_C03_fout", text, timeout=300)
        m = re.search(r"FM\s*=\s*(.*?)\s*:\s*list Z", o, re.S)
        if rc2 != 0 or not m:
            c.mismatches.append({"kind": "coq-eval", "shard": "Cases_C03_fout", "output": o[-1500:]})
        elif m.group(1).strip() != "[]":
            idx = [int(x) for x in re.findall(r"\d+", m.group(1))]
            c.mismatches.append({"kind": "fout", "what": "OutFileModel (not append => truncate) and hermes.DefaultFoutGenerator differ: "
                                 "F <old content> <append> <chunks> <file afterwards> (hex)", "cases": [fcs[i][1] for i in idx[:8]]})
    if hcs:
        text = "\n".join(["From stdpp Require Import gmap.", "From Hermes Require Import HandleModel C03Corr.", "Local Open Scope Z_scope.",
                          "Definition cases : list hcase := [\n  %s]." % ";\n  ".join(x[0] for x in hcs),
                          "Definition HM := Eval vm_compute in hmismatches 0 cases.", "Print HM."]) + "\n"
        rc2, o = ctx.coq_eval("Cases_C03_handles", text, timeout=300)
        m = re.search(r"HM\s*=\s*(.*?)\s*:\s*list Z", o, re.S)
        if rc2 != 0 or not m:
            c.mismatches.append({"kind": "coq-eval", "shard": "Cases_C03_handles", "output": o[-1500:]})
        elif m.group(1).strip() != "[]":
            idx = [int(x) for x in re.findall(r"\d+", m.group(1))]
            c.mismatches.append({"kind": "handles", "what": "HandleModel (not append => O_TRUNC, every handle writes at its own offset) and "
                                 "hermes.DefaultFoutGenerator differ with several writers open on one path: "
                                 "H <old v:n> <O<h>:<append> | W<h>:<byte>:<n> ...> | <file afterwards, run-length encoded>",
                                 "cases": [hcs[i][1][:400] for i in idx[:6]]})
    c.cases += len(fcs) + len(hcs); c.nontrivial += len({x[0] for x in fcs}) + len({x[0] for x in hcs})
    c.dist["fout_cases"] = len(fcs); c.dist["fout_multi_handle_cases"] = len(hcs)
    ru = r["reuse"]
    for mode, (e, digs, execs) in ru["modes"].items():
        c.cases += len(execs); c.nontrivial += len(execs)
        for x in execs:
            if x.died():
                c.mismatches.append({"kind": "execution", "tag": x.tag, "what": "process did not finish normally", "rc": x.rc, "stderr": x.stderr[-600:]})
    c.cases += 4 * len(r["missing"]); c.nontrivial += len(r["missing"]); c.dist["missing_output_config_projects"] = len(r["missing"])
    for e, digs in r["overrides"][0]:
        c.cases += 1; c.nontrivial += 1
        if e.died():
            c.mismatches.append({"kind": "execution", "tag": e.tag, "what": "process did not finish normally", "rc": e.rc, "stderr": e.stderr[-600:]})
    c.dist["override_lines"] = len(B.OVERRIDES); c.dist["configuration_sweep_lines_run"] = r["sweep_info"]["run_this_time"]
    iks, ikr = r["ik"]
    c.cases += len(iks) + len(ikr); c.nontrivial += len(iks) + len(ikr)
    c.dist["interpretation_key_lines"] = len(iks); c.dist["interpretation_key_group_runs"] = len(ikr)
    for e, _ in ikr:
        if e.died():
            c.mismatches.append({"kind": "execution", "tag": e.tag, "what": "process did not finish normally", "rc": e.rc, "stderr": e.stderr[-600:]})
    sh = r["shared"]
    c.cases += len(sh["runs"]) + 1 + len(r["solos"]); c.nontrivial += len(sh["runs"]) + len(r["solos"])
    for e, _ in sh["runs"]:
        if e.died():
            c.mismatches.append({"kind": "execution", "tag": e.tag, "what": "process did not finish normally", "rc": e.rc, "stderr": e.stderr[-600:]})
    c.cases += len(sh["twins"]); c.nontrivial += len(sh["twins"])
    c.dist["repeated_line_runs"] = len(sh["twins"])
    c.dist["shared_folder_runs"] = len(sh["runs"]); c.dist["solo_runs"] = len(r["solos"])
    c.dist["reuse_lines"] = len(ru["keys"]); c.dist["reuse_file_kinds"] = "".join(ru["kinds"])
    if "race_build_error" in r:
        c.notes.append("race build failed: " + r["race_build_error"])
        if ctx.thorough:
            c.mismatches.append({"kind": "race-build", "what": r["race_build_error"]})
    return c


def oracle(ctx, search):
    r = _run(ctx)
    fails = []
    pool = r["pool"]
    compared = nrace = nreports = 0
    for rd in r["rounds"]:
        ref = rd["ref"]
        if ref.died():
            fails.append(Fail(key="reference-run:died", what="the concurrency-1 execution of the generated batch did not finish",
                              batch=[pool[k] for k in ref.contents], rc=ref.rc, stderr=ref.stderr[-600:]))
            continue
        refdig = {}
        for i, k in enumerate(ref.contents):
            d = ref.digests[i]
            if k in refdig and refdig[k] != d:
                fails.append(Fail(key="nondeterminism:%s:repeated-line" % k, what="the same line twice in one batch gave different result files",
                                  line=pool[k]))
            refdig[k] = d
        nrace += len(rd["races"])
        for e in rd["execs"][1:] + rd["races"]:
            replay = ("cd <copy of /repo/examples>; batch file lines: " + " || ".join(
                "%s resultfolder=%s/l%d" % (pool[x], e.tag, i) for i, x in enumerate(e.contents)) +
                " ; GOMAXPROCS=%d hermes2go%s -module batch -concurrent %d -batch <file>%s" % (
                    e.gmp, " (built with -race)" if "race" in e.tag else "", e.c, (" -lines " + e.lines_opt) if e.lines_opt else ""))
            if e.race_reports:
                nreports += e.race_reports
                m = re.search(r"WARNING: DATA RACE.*?\n\s+(\S+)\(", e.stderr, re.S)
                fails.append(Fail(key="data-race:%s" % (m.group(1) if m else "?"), what="race detector report",
                                  concurrency=e.c, report=e.stderr[e.stderr.find("WARNING: DATA RACE"):][:1500], replay=replay))
            if e.died():
                fails.append(Fail(key="execution-died:c=%d" % e.c, what="batch execution did not finish normally",
                                  tag=e.tag, rc=e.rc, timed_out=e.timed_out, stderr=e.stderr[-600:], replay=replay))
                continue
            s, n = B.window(e)
            for i, k in enumerate(e.contents):
                if i < s or (n > 0 and i >= n):
                    continue
                d = e.digests[i]
                compared += 1
                if d != refdig[k]:
                    diff = sorted(f for f in set(d) | set(refdig[k]) if d.get(f) != refdig[k].get(f))
                    fails.append(Fail(key="nondeterminism:%s:%s" % (k, diff[0][:1] if diff else "?"),
                                      what="result files differ from the concurrency-1 reference for the same batch line",
                                      line=pool[k], files=diff[:6], concurrency=e.c, gomaxprocs=e.gmp, tag=e.tag, replay=replay))
    # a line inside a batch process vs the same line alone in its own process
    r0 = r["rounds"][0]["ref"]
    if not r0.died():
        for i, k in enumerate(r0.contents):
            sd = r["solodig"].get(k)
            if k not in r["solodig"]:
                continue
            compared += 1
            if sd is None:
                fails.append(Fail(key="execution-died:solo:%s" % k, what="a line of the batch does not run alone", line=pool[k]))
            elif sd != r0.digests[i]:
                diff = sorted(f for f in set(sd) | set(r0.digests[i]) if sd.get(f) != r0.digests[i].get(f))
                fails.append(Fail(key="batch-vs-solo:%s:%s" % (k, diff[0][:1] if diff else "?"),
                                  what="a line gives other result files inside a batch process (concurrency 1, after other lines) than alone in its own process",
                                  line=pool[k], files=diff[:6], position_in_batch=i,
                                  replay="cd <copy of /repo/examples> (+ weather/odd of lib/props/batchlib.py make_odd_weather); batch A = the single line `%s resultfolder=A/l0`; "
                                         "batch B = " % pool[k] + " || ".join("%s resultfolder=B/l%d" % (pool[x], j) for j, x in enumerate(r0.contents)) +
                                         " ; hermes2go -module batch -concurrent 1 -batch <file>; compare A/l0 with B/l%d" % i))
    # project folders without an output configuration file
    for mc in r["missing"]:
        how = ("cd <copy of /repo/examples>; cp -r project/ex1 project/%s (files renamed to *_%s.*); rm project/%s/%s; batch lines: %s ; run "
               "`hermes2go -module batch -concurrent 1 -batch <file>` several times (the first invocation may stop after generating the file: by design), "
               "also with the two lines swapped; every invocation that finishes must leave the same bytes for a line" % (
                   mc["project"], mc["project"], mc["project"], mc["file"], " || ".join("%s resultfolder=M/l%d" % (v, i) for i, v in enumerate(mc["pool"].values()))))
        if not mc["generated"] or sum(len(v) for v in mc["evals"].values()) < 4:
            fails.append(Fail(key="missing-output-config:%s:no-clean-run" % mc["kind"],
                              what="a project without %s never reaches clean runs (file generated: %s)" % (mc["file"], mc["generated"]),
                              sessions=mc["sessions"], replay=how))
            continue
        for k, ev in mc["evals"].items():
            compared += len(ev)
            for s, d in ev[1:]:
                if d != ev[0][1]:
                    diff = sorted(f for f in set(d) | set(ev[0][1]) if d.get(f) != ev[0][1].get(f))
                    fails.append(Fail(key="missing-output-config:%s:%s" % (mc["kind"], diff[0][:1] if diff else "?"),
                                      what="in a project without %s a line's result files depend on which invocation / which position it ran in "
                                           "(in-memory default configuration vs the generated file)" % mc["file"],
                                      line=mc["pool"][k], files=diff[:6], invocation_a=ev[0][0], invocation_b=s, sessions=mc["sessions"], replay=how))
                    break
    # several interacting overrides on one line: every evaluation of the line gives the same files
    first = {}
    ovpool = r["overrides"][1]
    for e, digs in r["overrides"][0]:
        if e.died() or e.count != 0:
            fails.append(Fail(key="overrides:%s" % ("died" if e.died() else "errors"), what="batch of lines with several overrides did not finish cleanly",
                              rc=e.rc, summary=e.summary, stderr=e.stderr[-500:],
                              failed_lines=[ovpool[e.contents[i]] for i in (e.summary or [])][:6]))
            continue
        for i, k in enumerate(e.contents):
            compared += 1
            if k not in first:
                first[k] = (digs[i], e.tag, i)
            elif digs[i] != first[k][0]:
                d0 = first[k][0]
                diff = sorted(f for f in set(digs[i]) | set(d0) if digs[i].get(f) != d0.get(f))
                fails.append(Fail(key="%s:%s:%s" % ("sweep-repeat" if k.startswith("sw:") else "override-order", k, diff[0][:1] if diff else "?"),
                                  what="the same batch line (non-default configuration key / several interacting overrides on one line) gives different "
                                       "result files from one evaluation to the next (same session or another session)",
                                  line=ovpool[k], files=diff[:6], first_seen="%s line %d" % first[k][1:], differs="%s line %d" % (e.tag, i),
                                  replay="cd <copy of /repo/examples>; batch file with the line `%s resultfolder=O/l<i>` 16 times (i = 0..15); "
                                         "hermes2go -module batch -concurrent 1 -batch <file>; compare O/l0 .. O/l15 byte for byte" % ovpool[k]))
    # lines sharing input files and ids, differing in one interpretation key: each equal to its solo run
    fails += B.interp_fails(Fail, *r["ik"])
    compared += sum(len(e.contents) for e, _ in r["ik"][1])
    sh = r["shared"]
    if sh["solo"].died():
        fails.append(Fail(key="shared-folder:reference", what="solo reference of the shared-folder stage did not finish", stderr=sh["solo"].stderr[-500:]))
    elif sh["name_clash"]:
        owners = {}
        for k, d in sh["per_line"].items():
            for f in d:
                owners.setdefault(f, []).append(k)
        clash = {f: ks for f, ks in owners.items() if len(ks) > 1}
        f0 = sorted(clash)[0]
        fails.append(Fail(key="shared-folder:output-name-clash:%s" % f0[:1],
                          what="lines with distinct (poligonID, plotNr) write a result file of the SAME name: in a shared result folder "
                               "(the pattern of examples/all_muencheberg_batch.txt) the file holds whichever run finished last",
                          files={f: [SHARED[k] for k in ks] for f, ks in list(clash.items())[:3]},
                          replay="cd <copy of /repo/examples>; batch: " + " || ".join("%s resultfolder=S/l0" % SHARED[k] for k in clash[f0]) +
                                 " ; hermes2go -module batch -concurrent 2 -batch <file>; S/l0/%s is written by both lines" % f0))
    else:
        for e, got in sh["runs"]:
            replay = ("cd <copy of /repo/examples>; batch: " + " || ".join("%s resultfolder=S/l0" % SHARED[k] for k in e.contents) +
                      " ; GOMAXPROCS=%d hermes2go -module batch -concurrent %d -batch <file>; each file of S/l0 must equal the file of the same name "
                      "written by that line alone into its own folder, and no other file may exist" % (e.gmp, e.c))
            if e.died():
                fails.append(Fail(key="execution-died:shared-folder:c=%d" % e.c, what="batch execution did not finish normally", stderr=e.stderr[-600:], replay=replay))
                continue
            compared += len(e.contents)
            if got != sh["want"]:
                extra = sorted(set(got) - set(sh["want"])); missing = sorted(set(sh["want"]) - set(got))
                differ = sorted(f for f in set(got) & set(sh["want"]) if got[f] != sh["want"][f])
                first = (extra + missing + differ)[0]
                fails.append(Fail(key="shared-folder:%s:%s" % ("file-set" if extra or missing else "content", first[:1]),
                                  what="lines sharing a result folder (distinct output ids) do not leave exactly their solo files",
                                  unexpected_files=extra[:6], missing_files=missing[:6], differing_files=differ[:6], concurrency=e.c, replay=replay))
    if not sh["solo"].died():
        for e, digs in sh["twins"]:
            replay = ("cd <copy of /repo/examples>; batch: " + " || ".join("%s resultfolder=T/l%d" % (SHARED[k], sh["twin_keys"].index(k)) for k in e.contents) +
                      " ; GOMAXPROCS=%d hermes2go -module batch -concurrent %d -batch <file>; T/l<j> must equal the folder of that line run once alone" % (e.gmp, e.c))
            if e.died():
                fails.append(Fail(key="execution-died:repeated-line:c=%d" % e.c, what="batch execution did not finish normally", stderr=e.stderr[-600:], replay=replay))
                continue
            for j, k in enumerate(sh["twin_keys"]):
                compared += 1
                if digs[j] != sh["per_line"][k]:
                    diff = sorted(f for f in set(digs[j]) | set(sh["per_line"][k]) if digs[j].get(f) != sh["per_line"][k].get(f))
                    fails.append(Fail(key="repeated-line:%s:%s" % (k, diff[0][:1] if diff else "?"),
                                      what="the same batch line occurring several times in one batch (same result folder) does not leave the result files of its solo run",
                                      line=SHARED[k], files=diff[:6], concurrency=e.c, replay=replay))
    ru = r["reuse"]
    if ru["ref"].died():
        fails.append(Fail(key="reference-run:died", what="reference execution of the re-use stage did not finish", stderr=ru["ref"].stderr[-600:]))
    else:
        for mode, (e, digs, execs) in ru["modes"].items():
            if any(x.died() for x in execs):
                fails.append(Fail(key="execution-died:reuse:%s" % mode, what="batch execution did not finish normally", stderr=e.stderr[-600:]))
                continue
            for i, k in enumerate(ru["keys"]):
                compared += 1
                if digs[i] != ru["refdig"][i]:
                    diff = sorted(f for f in set(digs[i]) | set(ru["refdig"][i]) if digs[i].get(f) != ru["refdig"][i].get(f))
                    how = {"two-sessions": "session 1: the line with the later EndDate; session 2: the line itself, same resultfolder",
                           "one-session": "one batch at -concurrent 1: the line with the later EndDate, then the line itself, same resultfolder",
                           "prefilled": "the result folder already holds files of the same names that are longer (result of the line + extra lines)"}[mode]
                    fails.append(Fail(key="stale-result:%s:%s:%s" % (mode, k, diff[0][:1] if diff else "?"),
                                      what="result files written into a USED result folder differ from the same run into an empty folder",
                                      files=diff[:6], how=how,
                                      replay="cd <copy of /repo/examples>; reference: `%s resultfolder=A/l0` into an empty folder; then %s: "
                                             "first `%s resultfolder=B/l0`, then `%s resultfolder=B/l0`; compare A/l0 with B/l0 byte for byte "
                                             "(hermes2go -module batch -concurrent 1 -batch <file>)" % (
                                                 ru["pool"][k], how, ru["pool"][k + "#long"], ru["pool"][k])))
    ctx.extra["configuration_sweep"] = dict(r["sweep_info"], what="batch lines with one configuration key (or one pair of interacting switches) away "
                                            "from the project's configuration, 6 projects; each evaluated 4 times (twice in one batch at concurrency 8, "
                                            "once at 3, once at 16, three sessions), all result folders byte-identical; thorough tier runs the whole sweep")
    ctx.extra["reuse_modes"] = list(ru["modes"]); ctx.extra["reuse_file_kinds"] = ru["kinds"]
    ctx.extra["reuse_longer_first_runs_differ"] = ru.get("long_really_longer")
    ctx.extra["result_folders_compared"] = compared
    ctx.extra["race_detector_executions"] = nrace
    ctx.extra["race_detector_reports"] = nreports
    seen = set(); uniq = []
    for f in fails:
        if f["key"] not in seen:
            seen.add(f["key"]); uniq.append(f)
    return uniq


LEVEL_TEXT = ("Machine-checked proof (Coq) of the scheduling logic: pool coherence for every interleaving of Get/Close, "
              "dispatcher exactly-once / bounded concurrency / termination for every concurrency >= 1 and every maximal "
              "schedule of an adversarial scheduler, and independence of the (line, result) pairs from schedule, concurrency "
              "level, line order and cache state, given that a run is a deterministic program over its own line and file "
              "contents; that premise is tied to the source by a regenerated inventory of shared state (generated theorem "
              "shared_state_inert) and by byte comparison of the real binary's result folders across concurrency 1..16 x "
              "GOMAXPROCS 1/4/16 x shuffled orders. PARTIAL: goroutine interleavings at memory-model level and freedom from "
              "data races are runtime behaviour; they are covered only by race-detector executions (supporting evidence, not proof).")
LEVEL_NOTE = ("Partial claim. Proved: PoolModel/DispatchModel theorems (no axioms). Not proved: data-race freedom and the Go "
              "scheduler (race detector = supporting evidence); the run-as-deterministic-program abstraction rests on the "
              "SharedState inventory (syntactic, go/types with stubbed imports, lock regions by source position) and on the "
              "byte-for-byte comparisons. Trusted: Coq kernel + vm_compute, std++ gmap, translator, driver.")
TECHNIQUE = ("Coq proof over a labelled transition system with adversarial scheduler (std++ gmap pool) + generated inventory "
             "obligation (vm_compute) + real-binary correspondence/byte-comparison + race detector")
