"""C15: scratch projects with a moving groundwater table (time series and sinusoid) for every parameter route.

project c15g = copy of ex3 (gwTimeSeries), project c15p = the same with GroundWaterFrom: polygonfile.
Soils (csv soil format of ex3): table route (no FC/WP given), explicit route, sand/silt/clay for the PTF routes, stones,
organic-carbon classes; groundwater series that leave and re-enter levels they had before, with fractional levels."""
import os, random, re, shutil, datetime

HDR = "SID,C_org,Texture,LayerDepth,BulkDensityClass,Stone,C/N,C/S,RootDepth,NumberHorizon,FieldCapacity,WiltingPoint,PoreVolume,Sand,Silt,Clay,DrainageDepth,Drainage%,GroundWaterLevel"

# (sid, [(corg, texture, depth_dm, ld, stone%, fc, wp, pv, sand, silt, clay)], route)
SMALL_STONES = [0.5, 1, 1.5, 2]      # percent; a reader that took values <= 1 for fractions would turn 1 % into "all stones"


def soils(seed):
    """soils of the moving-groundwater projects (csv reader).  T1: sandy horizons on the table route whose organic carbon
    lies above Hydro's humus thresholds (pore-volume bonus KRG > 0), T3: small stone percentages"""
    rnd = random.Random(seed * 17 + 3)
    ss = lambda: rnd.choice(SMALL_STONES + [5, 10])
    return [
        ("T1", [(rnd.choice([1.20, 1.40, 2.00, 2.60]), "SL2", 3, 3, 0, 0, 0, 0, 73, 21, 6), (rnd.choice([0.60, 0.70, 0.90, 1.30]), "SL4", 9, 3, 0, 0, 0, 0, 61, 27, 12),
                (rnd.choice([0.10, 0.65]), "SS", 20, 2, 0, 0, 0, 0, 90, 6, 4)], "table"),
        ("T2", [(1.40, "LT3", 3, 2, 0, 0, 0, 0, 30, 30, 40), (0.50, "LT3", 12, 3, 0, 0, 0, 0, 30, 30, 40), (0.20, "TU3", 20, 4, 0, 0, 0, 0, 10, 50, 40)], "table"),
        ("T3", [(2.50, "ULS", 4, 1, ss(), 0, 0, 0, 26, 63, 11), (0.60, "UT3", 15, 3, ss(), 0, 0, 0, 10, 70, 20)], "table"),   # stones
        ("T4", [(5.00, "UU", 3, 1, 0, 0, 0, 0, 5, 85, 10), (1.00, "UU", 20, 3, 0, 0, 0, 0, 5, 85, 10)], "table"),         # F13 class in a run
        ("T5", [(1.20, "ULS", 3, 1, 30, 0, 0, 0, 26, 63, 11), (0.40, "ULS", 20, 2, 15, 0, 0, 0, 26, 63, 11)], "table"),   # many stones in the top horizon
        ("T7", [(rnd.choice([0.80, 1.50, 3.00]), "SU3", 3, 2, rnd.choice([0, 1]), 0, 0, 0, 60, 32, 8), (rnd.choice([0.60, 1.20]), "SL3", 20, 3, 0, 0, 0, 0, 65, 25, 10)], "table"),
        ("E1", [(1.14, "ULS", 3, 2, 0, 31, 16, 45, 26, 63, 11), (0.40, "ULS", 20, 2, 0, 29, 19, 45, 26, 63, 11)], "explicit"),
        ("E2", [(0.90, "SL2", 3, 3, 0, 22, 9, 38, 73, 21, 6), (0.30, "SL4", 10, 3, 0, 22, 12, 43, 61, 27, 12), (0.10, "SS", 20, 3, 0, 15, 5, 38, 88, 7, 5)], "explicit"),
        ("P1", [(1.14, "ULS", 3, 2, 0, 31, 16, 45, 26, 63, 11), (0.40, "LT2", 20, 2, 0, 29, 19, 48, 30, 35, 35)], "ptf"),
        ("P2", [(2.10, "SL3", 4, 3, 0, 24, 10, 47, 65, 25, 10), (0.30, "SL4", 20, 3, 0, 22, 12, 46, 61, 27, 12)], "ptf"),
        # PTF soils WITHOUT explicit field capacity / wilting point (only the pore volume, which the PTF routes take from the file)
        ("P3", [(1.60, "ULS", 3, 2, 0, 0, 0, 46, 26, 63, 11), (0.50, "LT2", 11, 2, 0, 0, 0, 48, 30, 35, 35), (0.20, "SL4", 20, 3, 0, 0, 0, 44, 61, 27, 12)], "ptf"),
        ("P4", [(rnd.choice([0.90, 2.40]), "SL3", 4, 3, rnd.choice([0, 2]), 0, 0, 47, 65, 25, 10), (0.30, "SL4", 20, 3, 0, 0, 0, 46, 61, 27, 12)], "ptf"),
    ]


# incl. the boundary levels: table inside the top layer (0, 0.1, 0.5, 0.9), exactly 1, and at / around the profile bottom (N = 20)
PALETTE = [0.0, 0.1, 0.5, 0.9, 1.0, 19.0, 21.0, 2.0, 2.5, 3.0, 3.25, 4.0, 4.75, 5.0, 6.5, 7.0, 7.5, 8.0, 8.5, 9.0, 9.25, 11.0, 12.0, 14.6, 19.5, 20.0, 22.0, 29.0, 30.0, 36.0]


def file_soils(seed):
    """soils for the constant-groundwater projects, written in BOTH soil file formats (3-character ids):
    explicit values x stones in the top horizon (incl. a sandy top soil), mixed profiles (explicit values in the top horizon and
    empty optional columns below, and the other way round), table route with stones.  (sid, groundwater level dm, horizons);
    a horizon = (corg, texture, depth, ld, stone%, fc, wp, pv, sand, silt, clay), fc/wp/pv None = columns left empty"""
    rnd = random.Random(seed * 31 + 5)
    st = lambda: rnd.choice([24, 27, 30, 35, 40, 48, 55, 60])
    ex = lambda: rnd.choice([(22, 9, 38), (31, 16, 45), (29, 19, 45), (25, 8, 40), (35, 12, 47), (18, 6, 36)])
    E = None
    return [
        ("E3S", rnd.choice([99, 12, 6]), [(1.14, "ULS", 3, 2, st()) + ex() + (26, 63, 11), (0.40, "ULS", 20, 2, rnd.choice([0, 10])) + ex() + (26, 63, 11)]),
        ("E4S", rnd.choice([99, 15]), [(0.90, "SL2", 4, 3, st()) + ex() + (73, 21, 6), (0.30, "SL4", 12, 3, st()) + ex() + (61, 27, 12),
                                       (0.10, "SS", 20, 3, 0) + (15, 5, 38) + (88, 7, 5)]),
        ("M1X", rnd.choice([99, 14]), [(1.10, "SL3", 3, 2, rnd.choice([0, 20])) + ex() + (65, 25, 10), (0.40, "SL4", 9, 3, 0, E, E, E, 61, 27, 12),
                                       (0.10, "SS", 20, 3, 0, E, E, E, 90, 6, 4)]),
        ("M2X", rnd.choice([99, 9]), [(1.30, "LT3", 3, 2, rnd.choice([0, 15]), E, E, E, 30, 30, 40), (0.40, "LT3", 20, 3, 0) + ex() + (30, 30, 40)]),
        ("M3X", 99, [(0.90, "SL2", 3, 3, 0) + ex() + (73, 21, 6), (0.30, "SL4", 10, 3, 0, E, E, E, 61, 27, 12), (0.10, "SS", 20, 3, 0) + (15, 5, 38) + (88, 7, 5)]),
        # small stone percentages: exactly 1 % in the top horizon (table route), others from 0.5 / 1.5 / 2 / 99 ("." forms fit the
        # two fixed columns of the txt format only for .5)
        ("S1T", rnd.choice([99, 13]), [(1.00, "SL3", 3, 2, 1, E, E, E, 65, 25, 10), (0.40, "SL4", 10, 3, rnd.choice([0.5, 2]), E, E, E, 61, 27, 12),
                                       (0.10, "SS", 20, 3, rnd.choice([0.5, 2, 99]), E, E, E, 90, 6, 4)]),
        ("S2E", 99, [(1.14, "ULS", 3, 2, rnd.choice([0.5, 1, 2])) + ex() + (26, 63, 11), (0.40, "ULS", 20, 2, rnd.choice([1, 99])) + ex() + (26, 63, 11)]),
        ("T6S", rnd.choice([99, 11]), [(1.20, "ULS", 3, 1, st(), E, E, E, 26, 63, 11), (0.40, "ULS", 20, 2, 15, E, E, E, 26, 63, 11)]),
    ]


def soil_lines_csv(soils):
    out = []
    f = lambda v: "" if v is None else "%d" % v
    for sid, gwl, hz in soils:
        for i, (c, tex, dep, ld, st, fc, wp, pv, sa, si, cl) in enumerate(hz):
            first = i == 0
            out.append("%s,%.2f,%s,%02d,%d,%s,10,00,%s,%s,%s,%s,%s,%d,%d,%d,20,00,%s" % (
                sid, c, tex, dep, ld, "%g" % st, "12" if first else "", "%02d" % len(hz) if first else "", f(fc), f(wp), f(pv), sa, si, cl,
                "%02d" % gwl if first else "   "))
    return out


def soil_file_txt(soils):
    """fixed columns of LoadSoil (soil.go:96-190): SID [0:3] Corg [4:8] texture [9:12] depth [13:15] LD [16] stones [18:20] C/N [21:24]
    root depth [32:34] horizons [35:37] FC [40:42] WP [43:45] PS [46:48] sand/silt/clay [49:51] [52:54] [55:57] drain [62:64] [67:70] GW [70:72]"""
    out = ["SID Corg Te  Lb B ST C/N C/S Hy Rd NUHo  FC WP PS S% Si C% Lmd  drdp drfGW"]
    f = lambda v: "  " if v is None else "%02d" % v
    for sid, gwl, hz in soils:
        for i, (c, tex, dep, ld, st, fc, wp, pv, sa, si, cl) in enumerate(hz):
            first = i == 0
            sts = ("%02d" % st) if st == int(st) else ("%g" % st).lstrip("0")     # 0.5 -> ".5"
            ln = "%-3s %4.2f %-3s %02d %d %2s 010 xxx 00 %2s %2s   %s %s %s %02d %02d %02d 00  20   0.0%02d" % (
                sid, c, tex, dep, ld, sts, "12" if first else "  ", "%02d" % len(hz) if first else "  ", f(fc), f(wp), f(pv), sa, si, cl, gwl)
            assert len(ln) == 72 and ln[40:42] == f(fc) and float(ln[18:20]) == st and ln[35:37].strip() in ("", "%02d" % len(hz)), ln
            out.append(ln)
    return "\n".join(out) + "\n"


def soil_file(seed):
    out = [HDR]
    for sid, hz, _ in soils(seed):
        for i, (c, tex, dep, ld, st, fc, wp, pv, sa, si, cl) in enumerate(hz):
            first = i == 0
            out.append("%s,%.2f,%s,%02d,%d,%s,10,00,%s,%s,%d,%d,%d,%d,%d,%d,20,00,%s" % (
                sid, c, tex, dep, ld, "%g" % st, "12" if first else "", "%02d" % len(hz) if first else "", fc, wp, pv, sa, si, cl,
                "99" if first else "   "))
    return "\n".join(out) + "\n"


def expected_horizons(seed):
    """soil id -> what the readers must hand to Input per horizon: (texture padded, LD, Corg, stone FRACTION = file value / 100,
    UKT, FKA, WP, GPV) — the tie between the generated files and the model's inputs"""
    exp = {}
    for sid, hz, _ in soils(seed):
        exp[sid] = [((tex + "   ")[:3], ld, c, st / 100, dep, float(fc), float(wp), float(pv)) for (c, tex, dep, ld, st, fc, wp, pv, sa, si, cl) in hz]
    for sid, gwl, hz in file_soils(seed) + sweep_soils(seed):
        exp[sid] = [((tex + "   ")[:3], ld, c, st / 100, dep, float(fc or 0), float(wp or 0), float(pv or 0)) for (c, tex, dep, ld, st, fc, wp, pv, sa, si, cl) in hz]
    return exp


def gw_series(seed, start_year, n_entries=760):
    """ids G1..G4, one explicit value per day: the first entry lies 20-40 days after the start (so the initial state is
    observable and equals the first level); ~150 days from a small palette (plateaus, fast steps, exact returns); then slow
    drifts: a rise of the table by 0.004-0.0095 dm per day over 2.3-3 dm (several layer boundaries), a fast move away and
    back, the same levels revisited in the other direction at twice the step (exact returns at <= 0.02 dm per day), a
    stretch with steps of 1e-4..1e-3 dm; then palette and drifts again until n_entries; later constant"""
    rnd = random.Random(seed * 7919 + 13)
    rows = ["SID,DATE,Level"]
    info = {}
    for gid in ("G1", "G2", "G3", "G4"):
        # the run starts at the harvest date of the preceding crop (ex3: 1 October of the start year)
        d = datetime.date(start_year, 10, 1) + datetime.timedelta(days=rnd.randint(20, 40))
        # G1 always contains the F7 pattern: 8 -> 9 -> 8
        pal = PALETTE if gid != "G2" else [p for p in PALETTE if p <= 12]
        first = 8.0 if gid == "G1" else rnd.choice(pal)
        seq = ["%g" % first] * rnd.randint(2, 5)
        if gid == "G1":
            seq += ["9", "9", "8", "8"]
        # the table rises into the top decimetre, stands at the surface, and drops again (every series, early in the run)
        seq += ["1", "0.9", "0.5", "0.5", "0.1", "0", "0.5", "4", "0.9", "6.5", "%g" % first, "0.1", "1", "20", "19", "21", "%g" % first]
        drifts = []
        while len(seq) < n_entries:
            stop = len(seq) + 150
            while len(seq) < stop:
                lvl = rnd.choice(pal) if rnd.random() < 0.8 else first
                seq += ["%g" % lvl] * rnd.randint(1, 4)
                if rnd.random() < 0.15:
                    seq += ["%g" % first] * rnd.randint(1, 2)
            # slow rise of the table (level decreases), crossing layer boundaries
            step = rnd.choice([0.004, 0.005, 0.0075, 0.009, 0.0095])
            total = rnd.uniform(2.3, 3.0)
            n = int(total / step)
            top = rnd.choice([6.2, 9.3, 11.6, 14.45]) if gid != "G2" else rnd.choice([6.2, 9.3, 11.6])
            up = ["%.6f" % (top - k * step) for k in range(n + 1)]
            seq += up
            # fast move away and back to the end of the drift
            seq += ["%g" % rnd.choice(pal)] * 2 + [up[-1]] * 2
            # slow fall through the same levels, every second one (<= 0.019 dm per day): exact returns
            seq += up[::-1][::2]
            # a nearly standing table
            tiny = rnd.choice([0.0001, 0.0003, 0.001])
            base = float(seq[-1])
            seq += ["%.6f" % (base - k * tiny) for k in range(1, 40)]
            drifts.append({"step": step, "days": n, "from": top, "to": float(up[-1]), "tiny": tiny})
        for lvl in seq:
            rows.append("%s,%02d%02d%04d,%s" % (gid, d.month, d.day, d.year, lvl))
            d += datetime.timedelta(days=1)
        info[gid] = {"first_level": first, "entries": len(seq), "slow_drifts": drifts}
    return "\n".join(rows) + "\n", info


def make_projects(ex, seed, thorough=False):
    """ex = scratch copy of the examples tree; returns the batch lines' building blocks"""
    src = os.path.join(ex, "project", "ex3")
    info = {}
    for name, gwfrom in (("c15g", "gwTimeSeries"), ("c15p", "polygonfile")):
        dst = os.path.join(ex, "project", name)
        shutil.rmtree(dst, ignore_errors=True)
        shutil.copytree(src, dst, ignore=shutil.ignore_patterns("RESULT*"))
        for fn in os.listdir(dst):
            if "ex3" in fn:
                os.rename(os.path.join(dst, fn), os.path.join(dst, fn.replace("ex3", name)))
        cfgp = os.path.join(dst, "config.yml")
        cfg = open(cfgp).read()
        cfg, n1 = re.subn(r"(?m)^GroundWaterFrom:.*$", "GroundWaterFrom: " + gwfrom, cfg)
        assert n1 == 1
        open(cfgp, "w").write(cfg)
        open(os.path.join(dst, "soil_%s.csv" % name), "w").write(soil_file(seed))
        start_year = int(re.search(r"(?m)^StartYear:\s*(\d+)", cfg).group(1))
        txt, ginfo = gw_series(seed, start_year, 3400 if thorough else 760)
        open(os.path.join(dst, "gw_%s.csv" % name), "w").write(txt)
        info["gw"] = ginfo
        # polygon file: GH GL give mean level and amplitude of the sinusoid
        poly = ["Polyg SID  Field_ID  GH GL Ir comment",
                "10001 T1  SOYSM1    04 16 0 soy_maize",      # GW 10, AMPL 6
                "10002 T1  SMSOY2    07 08 0 maize_soy",      # GW 7.5, AMPL 0.5
                "10003 T1  SOYSM1    02 30 0 soy_maize",      # GW 16, AMPL 14
                "end"]
        open(os.path.join(dst, "poly_%s.txt" % name), "w").write("\n".join(poly) + "\n")
    # constant groundwater (GroundWaterFrom: soilfile), one project per soil file reader
    fs = file_soils(seed)
    for name, ext in (("c15s", "csv"), ("c15t", "txt")):
        dst = os.path.join(ex, "project", name)
        shutil.rmtree(dst, ignore_errors=True)
        shutil.copytree(os.path.join(ex, "project", "c15g"), dst)
        for fn in os.listdir(dst):
            if "c15g" in fn:
                os.rename(os.path.join(dst, fn), os.path.join(dst, fn.replace("c15g", name)))
        os.remove(os.path.join(dst, "soil_%s.csv" % name))
        cfgp = os.path.join(dst, "config.yml")
        cfg = open(cfgp).read()
        cfg, n1 = re.subn(r"(?m)^GroundWaterFrom:.*$", "GroundWaterFrom: soilfile", cfg)
        cfg, n2 = re.subn(r"(?m)^SoilFileExtension:.*$", "SoilFileExtension: '%s'" % ext, cfg)
        assert n1 == 1 and n2 == 1
        open(cfgp, "w").write(cfg)
        if ext == "csv":
            open(os.path.join(dst, "soil_%s.csv" % name), "w").write("\n".join([HDR] + soil_lines_csv(fs)) + "\n")
        else:
            open(os.path.join(dst, "soil_%s.txt" % name), "w").write(soil_file_txt(fs))
    # configuration sweep: one project, both soil files, all three groundwater sources selectable from the batch line
    dst = os.path.join(ex, "project", "c15w")
    shutil.rmtree(dst, ignore_errors=True)
    shutil.copytree(os.path.join(ex, "project", "c15g"), dst)
    for fn in os.listdir(dst):
        if "c15g" in fn:
            os.rename(os.path.join(dst, fn), os.path.join(dst, fn.replace("c15g", "c15w")))
    ws = sweep_soils(seed)
    open(os.path.join(dst, "soil_c15w.csv"), "w").write("\n".join([HDR] + soil_lines_csv(ws)) + "\n")
    open(os.path.join(dst, "soil_c15w.txt"), "w").write(soil_file_txt(ws))
    poly = open(os.path.join(dst, "poly_c15w.txt")).read().replace("end\n", "10004 T1  SOYSM1    09 09 0 soy_maize\nend\n")
    open(os.path.join(dst, "poly_c15w.txt"), "w").write(poly)
    info["file_soils"] = [{"sid": sid, "gw": gwl, "stones_top": hz[0][4], "kinds": ["table" if h[5] is None else "explicit" for h in hz]} for sid, gwl, hz in fs]
    return info


def expected_fractions(seed):
    """soil id -> (sand, silt, clay) per horizon as written to the soil files (the PTF routes' inputs)"""
    fr = {}
    for sid, hz, _ in soils(seed):
        fr[sid] = [(float(h[8]), float(h[9]), float(h[10])) for h in hz]
    for sid, gwl, hz in file_soils(seed) + sweep_soils(seed):
        fr[sid] = [(float(h[8]), float(h[9]), float(h[10])) for h in hz]
    return fr


# ---------------------------------------------------------------- configuration sweep of the parameter routes
SWEEP_FACTORS = [
    ("ptf", [0, 1, 2, 3, 4]),
    ("vals", ["explicit", "none", "porevolume"]),          # what the soil file gives: FC/WP/PS, nothing, PS only
    ("reader", ["csv", "txt"]),
    ("stones", [0, 1]),
    ("gw", ["polygon-constant", "polygon-sinus", "soilfile", "timeseries"]),
    ("phase", [0, 80, 200]),                               # GroundWaterPhase (days)
    ("autoirr", [0, 1]),
]


def sweep_valid(c):
    # a PTF route takes the pore volume from the soil file: without it FC <= PS cannot hold (input condition, not a line of the sweep)
    return not (c["ptf"] > 0 and c["vals"] == "none")


def sweep_configs(seed, extra=0):
    """pairwise cover of SWEEP_FACTORS (greedy over random candidates), + `extra` random valid configurations"""
    rnd = random.Random(seed * 101 + 7)
    names = [n for n, _ in SWEEP_FACTORS]
    need = set()
    for i in range(len(names)):
        for j in range(i + 1, len(names)):
            for a in SWEEP_FACTORS[i][1]:
                for b in SWEEP_FACTORS[j][1]:
                    if sweep_valid({"ptf": 1, "vals": "explicit", names[i]: a, names[j]: b} if {names[i], names[j]} == {"ptf", "vals"} else {"ptf": 0, "vals": "none"}):
                        need.add((names[i], a, names[j], b))
    pairs = lambda c: {(names[i], c[names[i]], names[j], c[names[j]]) for i in range(len(names)) for j in range(i + 1, len(names))}
    out = []
    while need:
        best, gain = None, -1
        for _ in range(60):
            c = {n: rnd.choice(l) for n, l in SWEEP_FACTORS}
            if not sweep_valid(c):
                continue
            g = len(pairs(c) & need)
            if g > gain:
                best, gain = c, g
        if gain <= 0:
            continue
        out.append(best); need -= pairs(best)
    while extra > 0:
        c = {n: rnd.choice(l) for n, l in SWEEP_FACTORS}
        if sweep_valid(c):
            out.append(c); extra -= 1
    return out


def sweep_soils(seed):
    """one soil per (values given, stones) in both file formats; valid sand/silt/clay for the PTF routes"""
    rnd = random.Random(seed * 13 + 1)
    E = None
    out = []
    for code, vals in (("E", "explicit"), ("N", "none"), ("P", "porevolume")):
        for stn in (0, 1):
            st1, st2 = (rnd.choice([1, 2, 10, 30]), rnd.choice([0, 5])) if stn else (0, 0)
            f = {"explicit": ((31, 16, 45), (29, 19, 47)), "none": ((E, E, E), (E, E, E)), "porevolume": ((E, E, 46), (E, E, 48))}[vals]
            out.append(("X%s%d" % (code, stn), rnd.choice([12, 7, 16]),
                        [(rnd.choice([1.14, 1.60]), "ULS", 3, 2, st1) + f[0] + (26, 63, 11), (0.40, rnd.choice(["SL4", "LT2"]), 20, 3, st2) + f[1] + (45, 35, 20)]))
    # corners of the PTF domain (every fraction >= 5, sand <= 85): silt, clay and sand corner, lowest / highest organic carbon;
    # pore volume only (wide enough for the PTF's field capacity)
    lo = lambda: rnd.choice([5, 6, 7])
    a, b = lo(), lo()
    out.append(("XC1", 99, [(rnd.choice([0.00, 0.05, 0.10]), "UU", 3, 2, 0, E, E, 55, a, 100 - a - b, b), (0.10, "UU", 20, 3, 0, E, E, 55, 5, 90, 5)]))
    a, b = lo(), lo()
    out.append(("XC2", 99, [(rnd.choice([0.05, 6.00]), "TT", 3, 2, 0, E, E, 85, a, b, 100 - a - b), (0.00, "TT", 20, 3, 0, E, E, 85, 5, 5, 90)]))
    a, b = lo(), lo()
    out.append(("XC3", 99, [(rnd.choice([0.05, 6.00]), "SS", 3, 2, 0, E, E, 60, 85, 15 - b, b), (0.10, "SS", 20, 3, 0, E, E, 60, 85, 10, 5)]))
    return out


def sweep_lines(seed, thorough):
    """batch lines of project c15w: every configuration of the pairwise cover, short runs"""
    lines, cfgs = [], sweep_configs(seed, 30 if thorough else 0)
    rnd = random.Random(seed * 7 + 2)
    base = "WeatherFolder=historical fcode=109_120 Altitude=73 Latitude=52.6732 poligonID=29872"
    for i, c in enumerate(cfgs):
        sid = "X%s%d" % ({"explicit": "E", "none": "N", "porevolume": "P"}[c["vals"]], c["stones"])
        gwfrom = {"polygon-constant": 0, "polygon-sinus": 0, "soilfile": 1, "timeseries": 2}[c["gw"]]
        plot = 10004 if c["gw"] == "polygon-constant" else rnd.choice([10001, 10002, 10003])
        s = ("project=c15w %s soilId=%s plotNr=%d EndDate=1231%d resultfolder=R/c15w_%d PTF=%d SoilFileExtension=%s GroundWaterFrom=%d "
             "GroundWaterPhase=%d AutoIrrigation=%d" % (base, sid, plot, 1982 if thorough else 1981, i, c["ptf"], c["reader"], gwfrom, c["phase"], c["autoirr"]))
        if c["gw"] == "timeseries":
            s += " gwId=" + rnd.choice(["G1", "G2", "G3", "G4"])
        lines.append((s, "sweep:" + ",".join("%s=%s" % kv for kv in sorted(c.items()))))
    # the corners of the PTF domain on every PTF (silt corner with PTF 4 always: its third argument is sand, not silt)
    combos = [(k, "XC%d" % (1 + (k + seed + j) % 3)) for k in (1, 2, 3, 4) for j in ((0, 1, 2) if thorough else (0,))]
    if (4, "XC1") not in combos:
        combos.append((4, "XC1"))
    for k, sid in combos:
        lines.append(("project=c15w %s soilId=%s plotNr=10001 EndDate=12311980 resultfolder=R/c15c_%d%s PTF=%d SoilFileExtension=%s GroundWaterFrom=1"
                      % (base, sid, k, sid, k, rnd.choice(["csv", "txt"])), "ptf-corner:ptf%d:%s" % (k, sid)))
    return lines, cfgs


def batch_lines(thorough, seed, end_year_quick=1982, end_year_thorough=1990):
    """(line, what) — every route under both groundwater sources"""
    rnd = random.Random(seed)
    base = "WeatherFolder=historical fcode=109_120 Altitude=73 Latitude=52.6732 poligonID=29872"
    lines = []

    def add(proj, soil, plot, gw, ptf, tag, end_year=None):
        end = "1231%d" % (end_year or (end_year_thorough if thorough else end_year_quick))
        s = "project=%s %s soilId=%s plotNr=%d EndDate=%s resultfolder=R/c15_%d" % (proj, base, soil, plot, end, len(lines))
        if gw:
            s += " gwId=" + gw
        if ptf:
            s += " PTF=%d" % ptf
        lines.append((s, tag))

    if thorough:
        for soil in ("T1", "T2", "T3", "T4", "T5", "T7", "E1", "E2"):
            add("c15g", soil, 10001, rnd.choice(["G1", "G2", "G3", "G4"]), 0, soil)
            add("c15p", soil, rnd.choice([10001, 10002, 10003]), None, 0, soil)
        for k in (1, 2, 3, 4):
            add("c15g", rnd.choice(["P1", "P2"]), 10001, rnd.choice(["G1", "G2", "G3", "G4"]), k, "ptf%d" % k)
            add("c15p", rnd.choice(["P1", "P2"]), rnd.choice([10001, 10002, 10003]), None, k, "ptf%d" % k)
        for k in (1, 2, 3, 4):
            for soil in ("P3", "P4"):
                add("c15g", soil, 10001, rnd.choice(["G1", "G2", "G3", "G4"]), k, "ptf%d-%s-no-explicit" % (k, soil))
            add("c15p", rnd.choice(["P3", "P4"]), rnd.choice([10001, 10003]), None, k, "ptf%d-no-explicit-sinus" % k)
        add("c15g", "T1", 10001, "G1", 0, "T1-G1")
        add("c15g", "E1", 10001, "G1", 0, "E1-G1")
    else:
        add("c15g", "T1", 10001, "G1", 0, "T1-G1")                      # F7 pattern on the table route
        add("c15g", "E1", 10001, "G1", 0, "E1-G1")                      # ... and on the restore route
        add("c15g", "T5", 10001, "G2", 0, "T5-stones")                  # regression: ULS, 30 % stones in the top horizon (fixed d7a6e7d)
        add("c15g", rnd.choice(["T2", "T3", "T4", "T7"]), 10001, rnd.choice(["G2", "G3", "G4"]), 0, "table")
        add("c15p", rnd.choice(["T1", "T7", "T3", "E2"]), rnd.choice([10001, 10002, 10003]), None, 0, "sinus")
        k = rnd.choice([1, 2, 3, 4])
        add("c15g", rnd.choice(["P1", "P2"]), 10001, rnd.choice(["G2", "G3"]), k, "ptf%d" % k)
        k2 = rnd.choice([1, 2, 3, 4])
        add("c15p", rnd.choice(["P1", "P2"]), rnd.choice([10001, 10003]), None, k2, "ptf%d-sinus" % k2)
    if not thorough:
        # every PTF on a soil without explicit FC/WP under a table that moves and returns to its first level (short runs)
        for k in (1, 2, 3, 4):
            add("c15g", ["P3", "P4"][(k + seed) % 2], 10001, ["G1", "G2", "G3", "G4"][(k + seed) % 4], k, "ptf%d-no-explicit" % k, 1981)
    # constant groundwater: stones x explicit values, mixed profiles, both soil file readers (short runs: nothing moves)
    fsids = ["E3S", "E4S", "M1X", "M2X", "M3X", "S1T", "S2E", "T6S"]
    if thorough:
        for sid in fsids:
            add("c15s", sid, 10001, None, 0, sid + "-csv", 1981)
            add("c15t", sid, 10001, None, 0, sid + "-txt", 1981)
    else:
        flip = rnd.random() < 0.5
        for i, sid in enumerate(["E3S", "M1X", "E4S", "M2X"]):
            add("c15s" if (i % 2 == 0) != flip else "c15t", sid, 10001, None, 0, sid, 1981)
        add("c15s", "S1T", 10001, None, 0, "S1T-csv", 1981)                 # 1 % stones through the csv reader
        add("c15t" if flip else "c15s", "S2E", 10001, None, 0, "S2E", 1981)
    sw, cfgs = sweep_lines(seed, thorough)
    lines += sw
    return lines
