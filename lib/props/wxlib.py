"""shared by C04 and C05: python generators for scratch projects (config, rotation, output configurations,
weather series in the three layouts), calendar helpers (python's datetime = the civil-calendar reference of
the oracles) and the in-process runner (harness command c04)."""
import datetime, json, os, shutil, subprocess
from core import REPO

D0 = datetime.date(1900, 12, 31)          # day number 0; 1 = 1 Jan 1901 (hermes MASDAT)
ONE = datetime.timedelta(days=1)


def daynum(d):
    return (d - D0).days


def date_of(n):
    return D0 + datetime.timedelta(days=n)


def doy(d):
    return d.timetuple().tm_yday


def ylen(y):
    return 366 if (y % 4 == 0 and (y % 100 != 0 or y % 400 == 0)) else 365


def de(d):                                 # DateDElong
    return "%02d%02d%04d" % (d.day, d.month, d.year)


def fdate(d, datefmt="DateDElong"):
    """a date as the input files / the configuration spell it in the given Dateformat"""
    a, b = (d.month, d.day) if datefmt.startswith("DateEN") else (d.day, d.month)
    return ("%02d%02d%02d" % (a, b, d.year % 100)) if datefmt.endswith("short") else ("%02d%02d%04d" % (a, b, d.year))


def fannual(d, datefmt="DateDElong"):
    return ("%02d%02d" % (d.month, d.day)) if datefmt.startswith("DateEN") else ("%02d%02d" % (d.day, d.month))


def parse_out_date(s, datefmt="DateDElong", century_split=50):
    """a date of a result file (KalenderConverter with separator '.') back to the civil date; None when it is not one"""
    import re
    s = s.strip()
    short = datefmt.endswith("short")
    m = re.fullmatch(r"(\d\d)\.(\d\d)\.(\d\d)" if short else r"(\d\d)\.(\d\d)\.(\d\d\d\d)", s)
    if not m:
        return None
    a, b, y = int(m.group(1)), int(m.group(2)), int(m.group(3))
    if short:
        y = 2000 + y if y < century_split else 1900 + y
    dd, mm = (b, a) if datefmt.startswith("DateEN") else (a, b)
    try:
        return datetime.date(y, mm, dd)
    except ValueError:
        return None


def hexf(x):
    """exact hex literal of a python float in a form Coq's float_scope reads"""
    if x != x:
        return "nan"
    if x in (float("inf"), float("-inf")):
        return "infinity" if x > 0 else "neg_infinity"
    s = float(x).hex()
    return "(%s)" % s if s.startswith("-") else s


# ---------------------------------------------------------------------------------------------
# scratch tree  <root>/project/<p>/..., <root>/weather/<folder>/..., <root>/parameter

BASE = "ex1"
FIELD = "SOYSM1"
LINE_TAIL = "soilId=075 plotNr=10001 Altitude=73 Latitude=52.6732 poligonID=29872"


def make_tree(ctx, name):
    root = os.path.join(ctx.work, name)
    if os.path.isdir(root):
        return root
    os.makedirs(os.path.join(root, "project"))
    os.makedirs(os.path.join(root, "weather"))
    shutil.copytree(os.path.join(REPO, "examples", "parameter"), os.path.join(root, "parameter"))
    return root


CONFIG_DEFAULT = {
    "Dateformat": "DateDElong", "DivideCentury": 60, "GroundWaterFrom": "soilfile", "ResultFileFormat": 0,
    "OutputIntervall": 1, "InitSelection": 3, "SoilFile": "soil", "SoilFileExtension": "'txt'", "CropFileFormat": "'txt'",
    "PolygonGridFileName": "poly", "CropParameterFormat": "'txt'", "WeatherFile": "'%s.csv'", "WeatherFileFormat": 1,
    "WeatherFolder": "w", "WeatherRootFolder": "./weather/", "WeatherNoneValue": -99.9, "WeatherNumHeader": 2,
    "CorrectionPrecipitation": 0, "AnnualAverageTemperature": 8.7, "ETpot": 3, "CO2method": 2, "CO2concentration": 360,
    "CO2StomataInfluence": 1, "NDeposition": 20, "StartYear": 1980, "EndDate": "31121981", "AnnualOutputDate": "3110",
    "VirtualDateFertilizerPrediction": "'--------'", "Latitude": 52.52, "Altitude": 0, "CoastDistance": 300,
    "LeachingDepth": 15, "OrganicMatterMineralProportion": 0.13, "PTF": 0, "KcFactorBareSoil": 0.4, "Fertilization": 100,
    "AutoSowingHarvest": 0, "AutoFertilization": 0, "AutoIrrigation": 0, "AutoHarvest": 0,
}


def column(var, fmt="%v", width=26, idx1=None, idx2=None, align="left", modifier=None):
    c = {"Format": fmt, "DataAlignment": align, "Width": width, "VariableName": var}
    if idx1 is not None:
        c["VarIndex1"] = idx1
    if idx2 is not None:
        c["VarIndex2"] = idx2
    if modifier is not None:
        c["Modifier"] = modifier
    return c


def out_conf_text(cols, sep=","):
    out = ["FillCharacter: ' '", "SeperatorCharacter: '%s'" % sep, "NaValue: n.a.", "DataColumns:"]
    for c in cols:
        first = True
        for k in ("Format", "DataAlignment", "Width", "Modifier", "VariableName", "VarIndex1", "VarIndex2"):
            if k not in c:
                continue
            v = c[k]
            if k == "Format":
                v = "'%s'" % v
            out.append("%s %s: %s" % ("-" if first else " ", k, v))
            first = False
    out.append("Headlines:")
    out.append("  1:")
    for c in cols:
        out.append("  - ColumnName: %s" % c["VariableName"].replace(".", "_"))
        out.append("    TextAlignment: left")
    return "\n".join(out) + "\n"


DEFAULT_DAILY = [column("AKTUELL", "%s", 12)]
DEFAULT_YEARLY = [column("AKTUELL", "%s", 12)]
DEFAULT_CROP = [column("Crop", "%s", 8), column("HarvestYear", "%d", 6), column("HarvestDOY", "%d", 6)]


def write_project(root, pname, cfg, rotation, daily=None, yearly=None, crop=None, raw_confs=None, rot_mode="contiguous", crop_csv=False,
                  pfout=None, management=False, no_daily_conf=False, automan_rows=None, tillage=None):
    """rotation: [(crop, sow date|None, harvest date)]; the first entry is the previous crop (harvest = start)"""
    pdir = os.path.join(root, "project", pname)
    os.makedirs(pdir)
    src = os.path.join(REPO, "examples", "project", BASE)
    for f in ("soil", "poly", "endit"):
        shutil.copy(os.path.join(src, "%s_%s.txt" % (f, BASE)), os.path.join(pdir, "%s_%s.txt" % (f, pname)))
    shutil.copy(os.path.join(src, "automan.txt"), pdir)
    if automan_rows:
        # further rows of the automation table: the SM row of the base project with another crop code, sowing window and latest harvest date
        rows = open(os.path.join(pdir, "automan.txt")).read().split("\n")
        sm = next(r for r in rows if r.startswith("SM "))
        keep = [r for r in rows if len(r) >= 3]
        for code, sow1, sow2, har2 in automan_rows:
            keep.append("%-3s %s %s %s" % (code, sow1, sow2, har2) + sm[18:])
        open(os.path.join(pdir, "automan.txt"), "w").write("\n".join(keep) + "\n")
    open(os.path.join(pdir, "fert_%s.txt" % pname), "w").write("Field_ID  N   Frt date\nend\n")
    open(os.path.join(pdir, "til_%s.txt" % pname), "w").write("Field_ID  Ti Typ date\n          cm\n" + "".join(
        "%-10s %2d %d   %s\n" % (FIELD, depth, typ, fdate(d, cfg.get("Dateformat", "DateDElong"))) for depth, typ, d in (tillage or [])) + "end\n")
    open(os.path.join(pdir, "irr_%s.txt" % pname), "w").write("Field_ID  Ir N03 date\n          mm mg/l \nend\n")
    c = dict(CONFIG_DEFAULT); c.update(cfg)
    if crop_csv:
        c["CropFileFormat"] = "'csv'"
    if management:
        c["ManagementEvents"] = 1
    with open(os.path.join(pdir, "config.yml"), "w") as f:
        for k, v in c.items():
            if k in ("EndDate", "AnnualOutputDate", "WeatherFolder", "WeatherRootFolder"):
                v = '"%s"' % v
            f.write("%s: %s\n" % (k, v))
    # rotation file: the lines of the plot's field need not be contiguous — files sorted by date hold several fields interleaved
    mine = []
    for i, (crp, sow, har) in enumerate(rotation):
        mine.append((FIELD, crp, fdate(sow, c["Dateformat"]) if sow else "-" * len(fdate(har, c["Dateformat"])), fdate(har, c["Dateformat"]),
                     "080" if i == 0 else "000", "050" if i == 0 else "000"))
    def other(k, name):
        d0 = rotation[0][2] + datetime.timedelta(days=100 * k)
        return (name, "WW", fdate(d0, c["Dateformat"]), fdate(d0 + datetime.timedelta(days=200), c["Dateformat"]), "000", "000")
    rows = []
    if rot_mode == "contiguous":
        rows = mine
    elif rot_mode == "first":
        rows = mine + [other(k, "ZZOTHER") for k in range(3)]
    elif rot_mode == "last":
        rows = [other(k, "AAOTHER") for k in range(3)] + mine
    else:   # interleaved: another field's line(s) between the plot's lines, two different other fields
        rows = [other(0, "AAOTHER")]
        for k, m_ in enumerate(mine):
            rows.append(m_)
            rows.append(other(k + 1, "AAOTHER" if k % 2 else "ZZOTHER"))
            if k % 3 == 2:
                rows.append(other(k + 2, "ZZOTHER"))
    if crop_csv:
        with open(os.path.join(pdir, "crop_%s.csv" % pname), "w") as f:
            f.write("Field_ID,crop,sowing,harvest,Rex,yld,autorg,variety,comment\n")
            for r_ in rows:
                f.write("%s,%s,%s,%s,%s,%s,0,,\n" % r_)
    else:
        with open(os.path.join(pdir, "crop_%s.txt" % pname), "w") as f:
            f.write("Field_ID    crp  sowing harvst Rex yld autorg variety comment\n")
            for r_ in rows:
                f.write("%-9s %-3s %s %s %s %s 0 \n" % r_)
            f.write("end\n")
    raw_confs = raw_confs or {}
    if not no_daily_conf:
        open(os.path.join(pdir, "dailyout_conf.yml"), "w").write(raw_confs.get("daily") or out_conf_text(daily or DEFAULT_DAILY))
    if pfout:
        open(os.path.join(pdir, "pfout_conf.yml"), "w").write(out_conf_text(pfout))
    if management:
        shutil.copy(os.path.join(REPO, "examples", "project", "ex3", "managementout_conf.yml"), pdir)
    open(os.path.join(pdir, "yearlyout_conf.yml"), "w").write(raw_confs.get("yearly") or out_conf_text(yearly or DEFAULT_YEARLY))
    open(os.path.join(pdir, "cropout_conf.yml"), "w").write(raw_confs.get("crop") or out_conf_text(crop or DEFAULT_CROP))
    return pdir


def batch_line(pname, fcode, resultfolder):
    return "project=%s fcode=%s %s resultfolder=%s" % (pname, fcode, LINE_TAIL, resultfolder)


# ---------------------------------------------------------------------------------------------
# weather: a series is a list of (date, rec) with rec = dict of decimal STRINGS (what is written is what both
# Go's ParseFloat and python's float() round correctly): tavg tmin tmax rh rad wind prec

COLS = ("tavg", "tmin", "tmax", "rh", "rad", "wind", "prec")


def year_ext(j):
    """path.go yearToExtension(J), J = year-1900"""
    s = str(j)
    return "0" + s[1:3] if j >= 100 else "9" + s


def write_weather(root, folder, layout, fcode, series, numheader=None, skip_years=(), windhi=None, order=None, none="-99.9", wroot="weather"):
    """layout 0: one file per year 'MET_<fcode>.<ext>' (day-of-year column); 1: '<fcode>.csv' (iso-date);
    2: '<fcode>.w6d' (@YYYYJJJ, no tavg column).  Returns the config keys selecting it."""
    wdir = os.path.join(root, wroot, folder)
    os.makedirs(wdir, exist_ok=True)
    if layout == 0:
        nh = 3 if numheader is None else numheader
        byyear = {}
        for d, r in series:
            byyear.setdefault(d.year, []).append((d, r))
        for y, recs in byyear.items():
            if y in skip_years:
                continue
            with open(os.path.join(wdir, "MET_%s.%s" % (fcode, year_ext(y - 1900))), "w") as f:
                hdr = ["tavg;tmin;tmax;ET0;relhumid;vapp14;wind;sundu;globrad;precip;jday",
                       "C_deg;C_deg;C_deg;mm;%;mm_Hg;m/s;hours;MJ m-2;mm;", "55;%s;-----;-----;-----;-----;-----;-----;------;-- -;-" % (windhi or "2")]
                if nh != 3:
                    hdr = hdr[:nh]
                f.write("".join(h + "\n" for h in hdr))
                for d, r in recs:
                    # optional columns (reference evapotranspiration, saturation deficit, sunshine hours): the record's value or the sentinel
                    f.write(";".join([r["tavg"], r["tmin"], r["tmax"], r.get("et0", none), r["rh"], r.get("verd", none), r["wind"], r.get("sund", none), r["rad"],
                                      r["prec"], str(r.get("jday", doy(d)))]) + "\n")
        return {"WeatherFile": "'MET_%s.'", "WeatherFileFormat": 0, "WeatherNumHeader": nh}
    if layout == 1:
        nh = (3 if windhi else 2) if numheader is None else numheader
        with open(os.path.join(wdir, "%s.csv" % fcode), "w") as f:
            keys = order or ["date", "tmin", "tavg", "tmax", "prec", "rad", "wind", "rh"]          # any column at any position
            names = {"date": "iso-date", "tmin": "tmin", "tavg": "tavg", "tmax": "tmax", "prec": "precip", "rad": "globrad", "wind": "wind", "rh": "relhumid"}
            hdr = [",".join(names[k] for k in keys), ",".join("-" for k in keys),
                   ("73;%s;-----" % windhi) if windhi else "# extra header line"]
            f.write("\n".join(hdr[:nh]) + "\n")
            for d, r in series:
                f.write(",".join(d.isoformat() if k == "date" else r[k] for k in keys) + "\n")
        return {"WeatherFile": "'%s.csv'", "WeatherFileFormat": 1, "WeatherNumHeader": nh}
    nh = 1 if numheader is None else numheader
    with open(os.path.join(wdir, "%s.w6d" % fcode), "w") as f:
        keys = order or ["date", "tmin", "tmax", "rad", "prec", "wind", "rh"]
        names = {"date": "@YYYYJJJ", "tmin": "TMIN", "tmax": "TMAX", "rad": "RAD", "prec": "PREC", "wind": "WIND", "rh": "RH"}
        hdr = ["   ".join("%7s" % names[k] for k in keys), "# extra header line"]
        f.write("\n".join(hdr[:nh]) + "\n")
        for d, r in series:
            f.write(" " + " ".join("%7s" % (("%04d%03d" % (d.year, doy(d))) if k == "date" else r[k]) for k in keys) + "\n")
    return {"WeatherFile": "'%s.w6d'", "WeatherFileFormat": 2, "WeatherNumHeader": nh}


def gen_series(rnd, first, last, none="-99.9", p_none=0.0, p_calm=0.1):
    """plausible daily records first..last (dates, inclusive); isolated sentinels; some wind below the floor"""
    out = []
    d = first
    while d <= last:
        season = 10.0 - 11.0 * __import__("math").cos((doy(d) - 15) / 365.0 * 6.283185307)
        tav = season + rnd.uniform(-6, 6)
        lo = tav - rnd.uniform(0.5, 7)
        hi = tav + rnd.uniform(0.5, 7)
        r = {"tavg": "%.1f" % tav, "tmin": "%.1f" % lo, "tmax": "%.1f" % hi, "rh": "%.1f" % rnd.uniform(35, 100),
             "rad": "%.2f" % rnd.uniform(0.4, 28), "wind": "%.1f" % (rnd.uniform(0, 0.49) if rnd.random() < p_calm else rnd.uniform(0.5, 9)),
             "prec": "%.1f" % (0 if rnd.random() < 0.55 else rnd.uniform(0.1, 35))}
        if float(r["tmin"]) > float(r["tmax"]):
            r["tmin"], r["tmax"] = r["tmax"], r["tmin"]
        out.append((d, r))
        d += ONE
    if p_none > 0:
        for i in range(len(out)):
            if rnd.random() < p_none:
                out[i][1][rnd.choice(["tavg", "tavg", "rad", "prec"])] = none
    return out


def put_sentinel(series, d, col, none="-99.9"):
    for dd, r in series:
        if dd == d:
            r[col] = none


# ---------------------------------------------------------------------------------------------
def run_lines(ctx, root, lines, probe, tag, timeout=1800, vars_spec=None):
    """runs batch lines in-process (harness c04); returns (rc, [run dict per line], stderr)"""
    vh = ctx.harness()
    lf = os.path.join(root, "lines_%s.txt" % tag)
    with open(lf, "w") as f:
        f.write("\n".join(lines) + "\n")
    extra = []
    if vars_spec is not None:
        vf = os.path.join(root, "vars_%s.json" % tag)
        with open(vf, "w") as f:
            json.dump(vars_spec, f)
        extra = ["-vars", vf]
    p = subprocess.run([vh, "c04", "-work", root, "-lines", lf] + (["-probe"] if probe else []) + extra,
                       stdout=subprocess.PIPE, stderr=subprocess.PIPE, text=True, timeout=timeout, cwd=root)
    runs = [json.loads(l) for l in p.stdout.split("\n") if l.startswith("{")]
    return p.returncode, runs, p.stderr
