"""C04, character level: generated weather files (well-formed spellings and malformed lines) for the three layouts,
run through the REAL readers (harness command c04tok calls hermes.WetterK / ReadWeatherCSV / ReadWeatherCZ) and
through WeatherTokModel in Coq; plus the property-level expectation for a malformed line (an error class, never a
silently shifted record)."""
import datetime, json, os, random, re, subprocess
from core import chunked_list

D = datetime.date
ONE = datetime.timedelta(days=1)


def _num(rnd, lo, hi, nd=1):
    return "%.*f" % (nd, rnd.uniform(lo, hi))


def _spell(rnd, s):
    """other spellings of the same decimal number that strconv accepts"""
    r = rnd.random()
    if r < 0.08 and not s.startswith("-"):
        return "+" + s
    if r < 0.14 and s.startswith("0."):
        return s[1:]                       # .5
    if r < 0.20 and s.endswith(".0"):
        return s[:-1]                      # 5.
    if r < 0.26:
        return s + "0"
    if r < 0.30:
        return ("-00" + s[1:]) if s.startswith("-") else "00" + s
    return s


def base_series(rnd, first, n, none):
    out = []
    d = first
    for _ in range(n):
        tmin = rnd.uniform(-12, 18)
        r = {"tavg": "%.1f" % (tmin + rnd.uniform(0, 6)), "tmin": "%.1f" % tmin, "tmax": "%.1f" % (tmin + rnd.uniform(6, 12)),
             "rh": _num(rnd, 35, 100), "rad": _num(rnd, 0.4, 28, 2),
             "wind": rnd.choice(["0", "0.2", "0.49", "0.0", "0.5"]) if rnd.random() < 0.15 else _num(rnd, 0, 9), "prec": _num(rnd, 0, 30),
             "et0": _num(rnd, 0, 5), "verd": _num(rnd, 0, 9), "sund": _num(rnd, 0, 14)}
        if rnd.random() < 0.1:
            r[rnd.choice(["tavg", "rad", "prec", "sund", "verd", "et0"])] = none
        for k in r:
            if r[k] != none:
                r[k] = _spell(rnd, r[k])
        out.append((d, r))
        d += ONE
    return out


def doy(d):
    return d.timetuple().tm_yday


# ---------------------------------------------------------------------------------------------
# line printers; `mut` = (line index, kind) mutations applied to the token list / the line

YEAR_COLS = ["tavg", "tmin", "tmax", "et0", "rh", "verd", "wind", "sund", "rad", "prec"]
CSV_NAMES = {"date": "iso-date", "tmin": "tmin", "tavg": "tavg", "tmax": "tmax", "prec": "precip", "rad": "globrad",
             "wind": "wind", "rh": "relhumid", "sund": "sunhours", "verd": "verd"}
CZ_NAMES = {"date": "@YYYYJJJ", "tmin": "TMIN", "tmax": "TMAX", "rad": "RAD", "prec": "PREC", "wind": "WIND", "rh": "RH",
            "co2": "CO2", "sund": "SUNH"}

MUTS_ALL = ["drop-last", "drop-mid", "empty-mid", "empty-last", "nonnum", "comma", "blank", "space-pad", "lead-space",
            "exp", "dash", "letters-in-float-alphabet"]


def mutate(rnd, toks, kind, sep, numeric_idx):
    """returns the line text for the token list under a malformation"""
    t = list(toks)
    if kind == "drop-last":
        t = t[:-1]
    elif kind == "drop-mid":
        del t[rnd.choice(numeric_idx)]
    elif kind == "empty-mid":
        t[rnd.choice(numeric_idx)] = ""
    elif kind == "empty-last":
        t.append("")
    elif kind == "nonnum":
        t[rnd.choice(numeric_idx)] = rnd.choice(["abc", "4.1b", "#", "n/a", "12:30", "1.2.3", "--1", "."])
    elif kind == "comma":
        i = rnd.choice(numeric_idx)
        t[i] = t[i].replace(".", ",") if "." in t[i] else t[i] + ",0"
    elif kind == "space-pad":
        t = [" " + x + "  " for x in t]
    elif kind == "lead-space":
        i = rnd.choice(numeric_idx)
        t[i] = " " + t[i]
    elif kind == "exp":
        t[rnd.choice(numeric_idx)] = rnd.choice(["1e1", "2.5E-1", "0x1p-1", "inf", "NaN", "1_0"])
    elif kind == "dash":
        t[rnd.choice(numeric_idx)] = "-----"
    elif kind == "letters-in-float-alphabet":
        t[rnd.choice(numeric_idx)] = rnd.choice(["nan1", "fin", "e", "x1"])
    if kind == "blank":
        return ""
    return sep.join(t)


def _positions(rnd, cols):
    """every column (date, required, optional) at every position of the header, the first and the last included"""
    cols = list(cols)
    if rnd.random() < 0.4:
        rnd.shuffle(cols)
    opt = [x for x in cols if x in ("rad", "sund", "verd")]
    r = rnd.random()
    if opt and r < 0.3:
        x = rnd.choice(opt); cols.remove(x); cols.insert(0, x)           # an optional column is the FIRST header column (index 0)
    elif opt and r < 0.45:
        x = rnd.choice(opt); cols.remove(x); cols.append(x)
    elif r < 0.6:
        cols.remove("date"); cols.insert(rnd.randrange(0, len(cols) + 1), "date")
    return cols


def _extras(rnd, cols, names, n):
    """n further columns the reader has to ignore, named LIKE known columns (relhumid_tmin, tmax_2, xwind, TMIN2 ...), before and
    after the real ones: a header name is a column only when it EQUALS a known name"""
    cols = list(cols)
    known = [v for k, v in names.items() if k != "co2"]
    for _ in range(n):
        base = rnd.choice(known)
        variant = rnd.choice(["%s_%s" % (rnd.choice(known).strip("@"), base.strip("@")), "%s_%s" % (base.strip("@"), rnd.choice(["2", "max", "min", "sum"])),
                              base.strip("@") + "2", "x" + base.strip("@"), "extra%d" % rnd.randrange(9)])
        if variant in names.values() or ("x:" + variant) in cols:
            continue
        real = [i for i, x in enumerate(cols) if names.get(x) == base]
        r = rnd.random()
        pos = real[0] if (real and r < 0.45) else (rnd.randrange(0, len(cols) + 1) if r < 0.8 else len(cols))
        cols.insert(pos, "x:" + variant)
    return cols


def make_file(rnd, layout, idx):
    none = rnd.choice(["-99", "-99.9", "-999", "999.9"])
    year = rnd.choice([1979, 1980, 1983, 1984, 1999, 2000, 2011, 2012])
    c = {"idx": idx, "layout": layout, "none": none, "mut": None, "missing": False}
    eol = rnd.choice(["\n", "\n", "\r\n"])
    final_eol = rnd.random() < 0.8
    mutk = None
    if rnd.random() < 0.55:
        mutk = rnd.choice(MUTS_ALL)
    c["mut"] = mutk
    if layout == 0:
        n = rnd.randrange(3, 30)
        first = D(year, 1, 1) if rnd.random() < 0.85 else D(year, 1, 1) + datetime.timedelta(days=rnd.randrange(1, 40))
        ser = base_series(rnd, first, n, none)
        sep = rnd.choice([";", ";", ","])
        nh = rnd.choice([1, 2, 3, 3, 0])
        hdr = ["tavg;tmin;tmax;ET0;relhumid;vapp14;wind;sundu;globrad;precip;jday", "C_deg;C_deg;C_deg;mm;%;mm_Hg;m/s;hours;MJ m-2;mm;"]
        third = rnd.choice(["55;2;-----;-----;-----;-----", "73.5;10;-----", "12,2", "30;2.5;385;x;y", "40;3;410.5", " 55 ; 2 ;---"])
        hm = None
        if nh == 3 and rnd.random() < 0.25:
            c["bad_heights"] = True
            hm = rnd.choice(["one-token", "nonnum", "nonnum2", "empty"])
            third = {"one-token": "55", "nonnum": "abc;2;---", "nonnum2": "55;two;---", "empty": ""}[hm]
        lines = (hdr + [third])[:nh] if nh <= 3 else hdr
        if nh == 3:
            lines = hdr + [third]
        if rnd.random() < 0.06:
            lines = lines[:-1] if lines else lines          # fewer header lines than configured
            c["short_header"] = True
        body = []
        mi = rnd.randrange(0, n) if mutk else -1
        for k, (d, r) in enumerate(ser):
            toks = [r[x] for x in YEAR_COLS] + [str(doy(d))]
            if rnd.random() < 0.1:
                toks[-1] = " %s " % toks[-1]
            if k == mi:
                c["mut_date"], c["mut_rec"] = d, r
                body.append(mutate(rnd, toks, mutk, sep, list(range(0, 10))))
            elif k == mi + 1 and mutk == "jday-gap":
                body.append(sep.join(toks))
            else:
                s_ = sep.join(toks)
                if rnd.random() < 0.1:
                    s_ += sep                                # trailing separator
                if rnd.random() < 0.05:
                    s_ = s_.replace(sep, sep + sep, 1) if False else s_
                body.append(s_)
        if rnd.random() < 0.12 and n > 4:                    # a gap in the day-of-year column
            del body[rnd.randrange(1, n - 1)]
            c["gap"] = True
        if rnd.random() < 0.06:
            j = rnd.randrange(0, len(body))
            t = body[j].split(sep)
            t[-1] = rnd.choice(["1.0", "x", "", "0x1"]) if t[-1].strip() else t[-1]
            body[j] = sep.join(t)
            c["bad_jday"] = True
        text = eol.join(lines + body) + (eol if final_eol else "")
        c.update(nh=nh, year=year, nslots=1, text=text, series=ser, first=first)
        if nh == 3 and len(lines) == 3:
            c["heights"] = lines[2]
        if rnd.random() < 0.04:
            c["missing"] = True
        return c
    # multi-year layouts
    start = D(year, 1, 1)
    r0 = rnd.random()
    if r0 < 0.3:
        start = D(year, 12, 31) - datetime.timedelta(days=rnd.randrange(0, 12))      # crosses a year end
    elif r0 < 0.5:
        start = D(year - 1, 12, 20) + datetime.timedelta(days=rnd.randrange(0, 8))   # starts before the start year
    elif r0 < 0.6:
        start = D(year, rnd.randrange(2, 12), rnd.randrange(1, 28))                  # partial first year
    n = rnd.randrange(3, 40)
    ser = base_series(rnd, start, n, none)
    nslots = rnd.choice([1, 2, 2, 3])
    if layout == 1:
        cols = ["date", "tmin", "tavg", "tmax", "prec", "rad", "wind", "rh"]
        if rnd.random() < 0.3:
            rest = cols[1:]; rnd.shuffle(rest); cols = ["date"] + rest
        if rnd.random() < 0.15:
            cols.remove("rad")
        if rnd.random() < 0.2:
            cols.insert(rnd.randrange(1, len(cols) + 1), "sund")
        if rnd.random() < 0.1:
            cols.insert(rnd.randrange(1, len(cols) + 1), "verd")
        cols = _positions(rnd, cols)
        extra = rnd.choice([0, 0, 1, 3])
        cols = _extras(rnd, cols, CSV_NAMES, extra)
        sep = rnd.choice([",", ",", ";", "\t"])
        nh = rnd.choice([1, 2, 2, 3])
        names = [CSV_NAMES[x] if x in CSV_NAMES else x[2:] for x in cols]
        if rnd.random() < 0.05:
            names[rnd.choice([i for i, x in enumerate(cols) if not x.startswith("x:")])] = "unknown_name"                     # a required column is missing
            c["unknown_col"] = True
        hdr = [sep.join(names), sep.join(["-"] * len(names)), rnd.choice(["55;2;-----", "73,10,390", "40;3"]), "# more"]
        lines = hdr[:nh]
        body = []
        mi = rnd.randrange(0, n) if mutk else -1
        for k, (d, r) in enumerate(ser):
            toks = [d.isoformat() if x == "date" else (_num(rnd, 0, 99) if x.startswith("x:") else r[x]) for x in cols]
            if k == mi:
                c["mut_date"], c["mut_rec"] = d, r
                body.append(mutate(rnd, toks, mutk, sep, [i for i, x in enumerate(cols) if x != "date"]))
            else:
                body.append(sep.join(toks) + (sep if rnd.random() < 0.08 else ""))
        bd = rnd.random()
        if bd < 0.08:
            j = rnd.randrange(0, len(body))
            body[j] = body[j].replace(ser[j][0].isoformat(), rnd.choice(["1980-13-01", "1981-02-29", "1980-1-1", "80-01-01", "1980/01/01", "x"]), 1)
            c["bad_date"] = True
        elif bd < 0.16 and n > 4:
            del body[rnd.randrange(1, n - 1)]
            c["gap"] = True
        if "sund" in cols and rnd.random() < 0.2:
            j = rnd.randrange(0, len(body)); t = body[j].split(sep)
            if len(t) > cols.index("sund"):
                v = rnd.choice(["25", "-1", none])
                t[cols.index("sund")] = v; body[j] = sep.join(t); ser[j][1]["sund"] = v
                c["sun_range"] = v != none          # the sentinel (whatever its sign) is a missing value, not a range error
    else:
        cols = ["date", "tmin", "tmax", "rad", "prec", "wind", "rh"]
        if rnd.random() < 0.3:
            rest = cols[1:]; rnd.shuffle(rest); cols = ["date"] + rest
        if rnd.random() < 0.15:
            cols.remove("rad")
        if rnd.random() < 0.2:
            cols.insert(rnd.randrange(1, len(cols) + 1), "sund")
        cols = _positions(rnd, cols)
        cols = _extras(rnd, cols, CZ_NAMES, rnd.choice([0, 0, 1, 2]))
        with_co2 = rnd.random() < 0.5
        sep = rnd.choice(["  ", " ", "\t", ";"])
        nh = rnd.choice([1, 1, 2])
        names = [CZ_NAMES[x] if x in CZ_NAMES else x[2:] for x in cols] + (["CO2"] if with_co2 else [])
        hdr = [("   ".join(names)) if sep.strip() == "" else sep.join(names), "# more"]
        lines = hdr[:nh]
        body = []
        mi = rnd.randrange(0, n) if mutk else -1
        for k, (d, r) in enumerate(ser):
            toks = ["%04d%03d" % (d.year, doy(d)) if x == "date" else (_num(rnd, 0, 99) if x.startswith("x:") else r[x]) for x in cols]
            if with_co2 and (k == 0 or rnd.random() < 0.3):
                toks.append(rnd.choice(["350", "361.5", "400"]))
            if k == mi:
                c["mut_date"], c["mut_rec"] = d, r
                body.append(mutate(rnd, toks, mutk, sep, [i for i, x in enumerate(cols) if x != "date"]))
            else:
                body.append((" " if rnd.random() < 0.5 else "") + sep.join(toks))
        bd = rnd.random()
        if bd < 0.08:
            j = rnd.randrange(0, n)
            body[j] = body[j].replace("%04d%03d" % (ser[j][0].year, doy(ser[j][0])), rnd.choice(["1980367", "1981366", "1980000", "198001", "19800010", "x"]), 1)
            c["bad_date"] = True
        elif bd < 0.16 and n > 4:
            del body[rnd.randrange(1, n - 1)]
            c["gap"] = True
    text = eol.join(lines + body) + (eol if final_eol else "")
    c.update(nh=nh, year=year, nslots=nslots, text=text, series=ser, cols=cols)
    if layout == 1 and nh == 3:
        c["heights"] = lines[2]
    if rnd.random() < 0.03:
        c["missing"] = True
    return c


def gen_files(ctx):
    rnd = random.Random(ctx.seed * 6151 + 17)
    n = 900 if ctx.thorough else 72
    files = [make_file(rnd, (k % 3), k) for k in range(n)]
    # multi-year files with a sunshine (and saturation deficit) column holding the sentinel on the first, the last and an isolated
    # record, for a positive (> 24 h) and a negative sentinel: a missing value, never a range error
    for layout in (1, 2):
        for none in ("999.9", "-99.9", "-99"):
            files.append(sun_file(rnd, layout, len(files), none))
    return files


def sun_file(rnd, layout, idx, none):
    year = rnd.choice([1979, 1980, 1999, 2011])
    start = rnd.choice([D(year, 1, 1), D(year, 12, 31) - datetime.timedelta(days=rnd.randrange(3, 9))])
    n = rnd.randrange(12, 30)
    ser = base_series(rnd, start, n, none)
    for d, r in ser:
        if r["sund"] == none:
            r["sund"] = _num(rnd, 0, 14)
    mid = rnd.randrange(3, n - 3)
    for j in (0, mid, n - 1):
        ser[j][1]["sund"] = none
    if layout == 1:
        cols = ["date", "tmin", "tavg", "tmax", "prec", "rad", "wind", "rh", "sund"] + (["verd"] if rnd.random() < 0.5 else [])
        rest = cols[1:]; rnd.shuffle(rest); cols = ["date"] + rest
        names = [CSV_NAMES[x] for x in cols]
        lines = [",".join(names), ",".join(["-"] * len(names))]
        body = [",".join(d.isoformat() if x == "date" else r[x] for x in cols) for d, r in ser]
        nh = 2
    else:
        cols = ["date", "tmin", "tmax", "rad", "prec", "wind", "rh", "sund"]
        rest = cols[1:]; rnd.shuffle(rest); cols = ["date"] + rest
        lines = ["   ".join(CZ_NAMES[x] for x in cols)]
        body = [" " + "  ".join(("%04d%03d" % (d.year, doy(d))) if x == "date" else r[x] for x in cols) for d, r in ser]
        nh = 1
    return {"idx": idx, "layout": layout, "none": none, "mut": None, "missing": False, "nh": nh, "year": year, "nslots": 2,
            "text": "\n".join(lines + body) + "\n", "series": ser, "cols": cols}


# ---------------------------------------------------------------------------------------------

def run_real(ctx, root, cases, sub="tok"):
    """writes the files, runs the real readers (restarting after every log.Fatal); returns [result dict]"""
    fdir = os.path.join(root, sub)
    os.makedirs(fdir, exist_ok=True)
    cf = os.path.join(fdir, "cases.jsonl")
    with open(cf, "w") as f:
        for c in cases:
            p = os.path.join(fdir, "f%04d.txt" % c["idx"])
            if not c["missing"]:
                with open(p, "wb") as g:
                    g.write(c["text"].encode("ascii"))
            f.write(json.dumps({"Path": p, "Layout": c["layout"], "Nh": c["nh"], "None": float(c["none"]), "Year": c["year"],
                                "Nslots": c["nslots"], "Preco": c.get("preco_dir", "")}) + "\n")
    vh = ctx.harness()
    res = {}
    start = 0
    restarts = 0
    while start < len(cases):
        p = subprocess.run([vh, "c04tok", "-cases", cf, "-from", str(start)], stdout=subprocess.PIPE, stderr=subprocess.PIPE,
                           text=True, timeout=900)
        begun = None
        for ln in p.stdout.split("\n"):
            if ln.startswith("BEGIN "):
                begun = int(ln[6:])
            elif ln.startswith("{"):
                o = json.loads(ln)
                res[o["i"]] = o
                begun = None
        if begun is None:
            if p.returncode != 0:
                raise RuntimeError("c04tok ended with %d outside a case: %s" % (p.returncode, p.stderr[-500:]))
            break
        # the process died inside case `begun`: log.Fatal (exit status 1 with a log line) — anything else is a crash
        fatal = p.returncode == 1 and "panic:" not in p.stderr and "goroutine " not in p.stderr
        res[begun] = {"i": begun, "class": "fatal" if fatal else "crash", "err": p.stderr[-300:], "slots": []}
        start = begun + 1
        restarts += 1
    return [res.get(k, {"i": k, "class": "missing-result", "slots": []}) for k in range(len(cases))], restarts


def esc(text):
    out = []
    for ch in text:
        if ch == "~":
            out.append("~~")
        elif ch == '"':
            out.append("~q")
        elif ch == "\n":
            out.append("~n")
        elif ch == "\r":
            out.append("~r")
        elif ch == "\t":
            out.append("~t")
        else:
            out.append(ch)
    return "".join(out)


def _fl(s):
    return "(%s)" % s if s.startswith("-") else s


CLASS = {"ok": 0, "error": 1, "panic": 2, "fatal": 3}


def coq_case(c, o):
    from props.wxlib import hexf
    slots = []
    for s in o.get("slots", []):
        cells = "[" + "; ".join("[" + "; ".join(_fl(x) for x in row) + "]" for row in s["cells"]) + "]"
        load = "[" + "; ".join(_fl(x) for x in s.get("load", [])) + "]"
        opt = "[" + "; ".join("[" + "; ".join(_fl(x) for x in row) + "]" for row in s.get("opt", [])) + "]"
        slots.append("(mkos %d%%Z %d%%Z %s %s (%d)%%Z %s)" % (s["jar"], s["maxd"], cells, load, s.get("jtag", 0), opt))
    text = "None" if c["missing"] else 'Some "%s"%%string' % esc(c["text"])
    return "(mktc %d%%Z %d%%Z %s %d%%Z %d%%Z (%s) %d%%Z [%s])" % (
        c["layout"], c["nh"], hexf(float(c["none"])), c["year"], c["nslots"], text, CLASS[o["class"]], ";\n   ".join(slots))


def evaluate(ctx, cases, results):
    """returns [(case index, code)] with code 1 class differs, 2 arrays differ, 9 model abstains"""
    hdr = ["From Coq Require Import ZArith List Bool String Floats.", "From Hermes Require Import Num WeatherModel WeatherTokModel C04TokCorr.",
           "Import ListNotations.", "Open Scope float_scope."]
    usable = [(c, o) for c, o in zip(cases, results) if o["class"] in CLASS]
    nsh = 16
    per = (len(usable) + nsh - 1) // nsh or 1
    items = []
    for k in range(0, len(usable), per):
        part = usable[k:k + per]
        items.append(("Cases_C04_tok%d" % (k // per), "\n".join(hdr + [
            "Definition cases : list tokcase := [\n%s\n]." % ";\n".join(coq_case(c, o) for c, o in part),
            "Definition M := Eval vm_compute in tok_mismatches %d cases." % k, "Print M."]) + "\n"))
    out, broken = [], []
    for name, rc, o in ctx.coq_eval_many(items, timeout=1500):
        m = re.search(r"M\s*=\s*(.*?)\s*:\s*list \(nat \* Z\)", o, re.S)
        if rc != 0 or not m:
            broken.append({"kind": "coq-eval", "shard": name, "output": o[-1500:]})
            continue
        for i, code in re.findall(r"\((\d+)(?:%nat)?,\s*(\d+)(?:%Z)?\)", m.group(1)):
            out.append((usable[int(i)][0]["idx"], int(code)))
    return out, broken, [c["idx"] for c, o in zip(cases, results) if o["class"] not in CLASS]


# ---------------------------------------------------------------------------------------------
# the property, directly: a malformed line must not be read as a (shifted) record

MALFORMED = ("drop-last", "drop-mid", "empty-mid", "nonnum", "comma", "dash", "letters-in-float-alphabet")


def oracle_malformed(cases, results):
    """[(case, what)] for files whose malformed line was accepted (reader returned nil) and stored with values that
    are not the ones written in that line's columns"""
    bad = []
    stats = {}
    for c, o in zip(cases, results):
        k = c.get("mut")
        if k not in MALFORMED or "mut_date" not in c or c["missing"]:
            continue
        if any(c.get(x) for x in ("gap", "bad_date", "bad_jday", "short_header", "sun_range")):
            continue                      # a second defect in the same file: not attributable
        stats[(k, o["class"])] = stats.get((k, o["class"]), 0) + 1
        if o["class"] != "ok":
            continue
        d, r = c["mut_date"], c["mut_rec"]
        if d.year < c["year"] and c["layout"] != 0:
            continue                      # skipped year
        cell = None
        for s in o["slots"]:
            if s["jar"] == d.year and doy(d) - 1 < len(s["cells"]):
                cell = [float.fromhex(x) for x in s["cells"][doy(d) - 1]]
        if cell is None:
            continue                      # line not stored at all (beyond the allocated years)
        want = [float(r["tmin"]), float(r["tmax"]), float(r["rh"])]
        got = [cell[1], cell[2], cell[3]]
        if got != want:
            bad.append((c, "line of %s malformed (%s) but accepted: stored tmin/tmax/rh %r, the line's own columns say %r"
                        % (d, k, got, want)))
    return bad, stats


FLAGS = ("gap", "bad_date", "bad_jday", "short_header", "sun_range", "missing", "bad_heights", "unknown_col")


def oracle_wellformed(cases, results):
    """the property's own domain: a well-formed file (any accepted spelling, LF/CRLF, separator runs, header variants)
    is read without error and every stored line carries the values written in its own columns"""
    bad, n = [], 0
    for c, o in zip(cases, results):
        if c.get("mut") not in (None, "empty-last") or any(c.get(x) for x in FLAGS):
            continue
        if c["layout"] == 0 and c["first"] != D(c["year"], 1, 1):
            continue                      # year file not starting at day 1: F9 class, covered by the whole-run oracle
        if o["class"] != "ok":
            bad.append((c, "well-formed file not read: class %s %s" % (o["class"], o.get("err", "")[:120])))
            continue
        slots = {s["jar"]: s for s in o["slots"]}
        if c.get("heights") is not None:
            # third header line: altitude, measuring height of the wind, optional base CO2 (a text starting with '-' = none)
            h = [x for x in re.split("[,;]", c["heights"]) if x != ""]
            want = [float(h[1]), float(h[0]), float(h[2]) if len(h) > 2 and not h[2].startswith("-") else -1.0]
            hb = next((s_ for s_ in o["slots"] if s_.get("load") and [float.fromhex(x) for x in s_["load"]] != want), None)
            if hb is not None:
                bad.append((c, "header line %r: LoadYear hands over wind height/altitude/CO2 %r, written %r"
                            % (c["heights"], [float.fromhex(x) for x in hb["load"]], want)))
                continue
        kept = [d.year for d, r in c["series"] if c["layout"] == 0 or d.year >= c["year"]]
        if not kept:
            continue
        first_year = min(kept)
        by_date = dict(c["series"])

        def stored(dd):
            return (c["layout"] == 0 or (dd.year >= c["year"] and dd.year - first_year < c["nslots"])) and dd in by_date
        for d, r in c["series"]:
            if c["layout"] != 0 and (d.year < c["year"] or d.year - first_year >= c["nslots"]):
                continue
            s = slots.get(d.year)
            if s is None or doy(d) - 1 >= len(s["cells"]):
                bad.append((c, "line of %s not stored" % d)); break
            cell = [float.fromhex(x) for x in s["cells"][doy(d) - 1]]
            if [cell[1], cell[2], cell[3]] != [float(r["tmin"]), float(r["tmax"]), float(r["rh"])]:
                bad.append((c, "line of %s stored as tmin/tmax/rh %r, written %r" % (d, cell[1:4], [r["tmin"], r["tmax"], r["rh"]]))); break
            # the documented normalisations of the line's own values: wind floor 0.5 whatever the declared measuring height,
            # PAR = radiation / 2, mm -> cm; the average temperature as written (CZ: mean of tmax and tmin)
            none_ = float(c["none"])
            wants = {5: max(float(r["wind"]), 0.5)}
            if float(r["rad"]) != none_ and (c["layout"] == 0 or "rad" in c.get("cols", ())):
                wants[4] = float(r["rad"]) / 2
            if float(r["prec"]) != none_:
                wants[6] = float(r["prec"]) / 10 * 1.0
            if c["layout"] == 2:
                wants[0] = (float(r["tmax"]) + float(r["tmin"])) / 2
            elif float(r["tavg"]) != none_:
                wants[0] = float(r["tavg"])
            wrong = [(wxcol, cell[k], w) for k, w in wants.items() for wxcol in [("tavg", "tmin", "tmax", "rh", "rad", "wind", "prec")[k]] if cell[k] != w]
            if wrong:
                bad.append((c, "line of %s: %s stored as %r, the line's value normalised is %r" % ((d,) + wrong[0]))); break
            # optional columns (sunshine hours, saturation deficit, ET0): stored under their own day, unchanged unless the sentinel
            opt = [float.fromhex(x) for x in s["opt"][doy(d) - 1]]
            present = {"sund": c["layout"] == 0 or "sund" in c.get("cols", ()), "verd": c["layout"] == 0 or "verd" in c.get("cols", ()),
                       "et0": c["layout"] == 0}
            none = float(c["none"])
            msg = None
            for k, (name, val) in enumerate(zip(("sund", "verd", "et0"), opt)):
                if not present[name]:
                    continue
                w = float(r[name])
                if w != none:
                    if val != w:
                        msg = "%s of %s stored as %r, written %r" % (name, d, val, r[name])
                else:
                    a, b = by_date.get(d - ONE), by_date.get(d + ONE)
                    inside = a is not None and b is not None and (c["layout"] != 0 or (d - ONE).year == d.year == (d + ONE).year) \
                        and stored(d - ONE) and stored(d + ONE)
                    if inside and float(a[name]) != none and float(b[name]) != none and val != (float(a[name]) + float(b[name])) / 2:
                        msg = "%s sentinel on %s filled with %r, neighbours %s / %s" % (name, d, val, a[name], b[name])
            if msg is None and s.get("gload"):
                g = [float.fromhex(x) for x in s["gload"][doy(d) - 1]]
                if g[:7] != cell:
                    msg = "LoadYear hands over %r for %s, the store holds %r" % (g[:7], d, cell)
                for k, name in enumerate(("sund", "verd", "et0")):
                    if present[name] and not (g[7 + k] != g[7 + k]) and g[7 + k] != opt[k]:
                        msg = "LoadYear hands over %s = %r for %s, the store holds %r" % (name, g[7 + k], d, opt[k])
                    if present[name] and g[7 + k] != g[7 + k] and any(float(rr[name]) != none for dd, rr in c["series"] if stored(dd)):
                        msg = "LoadYear does not hand over the %s column although the file has values" % name
            if msg:
                bad.append((c, msg)); break
            n += 1
    return bad, n


# ---------------------------------------------------------------------------------------------
# precipitation correction: the whole finite domain (every day number of a 365- and a 366-day year, all three readers)

PRECO_FACTORS = ["1.01", "1.13", "0.97", "1.21", "1.07", "0.89", "1.19", "0.93", "1.03", "1.11", "0.91", "1.17"]   # pairwise different


def preco_cases(root):
    pdir = os.path.join(root, "preco")
    os.makedirs(pdir, exist_ok=True)
    with open(os.path.join(pdir, "preco.txt"), "w") as f:
        f.write("Mo corr\n" + "".join("%02d %s\n" % (m + 1, v) for m, v in enumerate(PRECO_FACTORS)))
    cases = []
    for layout in (0, 1, 2):
        for year in (1999, 2000):
            days = [D(year, 1, 1) + datetime.timedelta(days=k) for k in range(366 if year % 4 == 0 else 365)]
            if layout == 0:
                lines = ["tavg;tmin;tmax;ET0;relhumid;vapp14;wind;sundu;globrad;precip;jday"] + \
                        ["5.0;1.0;9.0;1.0;80.0;1.0;3.0;4.0;10.0;10.0;%d" % doy(d) for d in days]
                nh = 1
            elif layout == 1:
                lines = ["iso-date,tmin,tavg,tmax,precip,globrad,wind,relhumid"] + ["%s,1.0,5.0,9.0,10.0,10.0,3.0,80.0" % d.isoformat() for d in days]
                nh = 1
            else:
                lines = ["@YYYYJJJ TMIN TMAX RAD PREC WIND RH"] + ["%04d%03d 1.0 9.0 10.0 10.0 3.0 80.0" % (d.year, doy(d)) for d in days]
                nh = 1
            cases.append({"idx": len(cases), "layout": layout, "nh": nh, "none": "-99.9", "year": year, "nslots": 1, "missing": False,
                          "text": "\n".join(lines) + "\n", "preco_dir": pdir, "days": days})
    return cases


def evaluate_preco(ctx, cases, results):
    """(model/reader disagreements, property failures): factor used on every day of the year vs WeatherModel (Coq sweep) and
    vs the civil month of that day (directly)"""
    from props.wxlib import hexf
    mism, fails = [], []
    defs, names = [], []
    for c, o in zip(cases, results):
        tag = "layout%d:%d" % (c["layout"], c["year"])
        if o["class"] != "ok" or not o["slots"] or o["slots"][0]["jar"] != c["year"]:
            mism.append({"kind": "preco-sweep", "what": "reader did not load the year file of the sweep", "case": tag, "class": o["class"], "err": o.get("err", "")})
            continue
        obs = [row[6] for row in o["slots"][0]["cells"]]
        defs.append("Definition S%d := Eval vm_compute in preco_sweep corr %d%%Z [%s]." % (len(names), c["year"], "; ".join(_fl(x) for x in obs)))
        names.append(tag)
        # the property, directly: mm -> cm with the factor of the civil month of the day
        for d, x in zip(c["days"], obs):
            want = 10.0 / 10 * float(PRECO_FACTORS[d.month - 1])
            if float.fromhex(x) != want:
                fails.append(("precipitation-correction-wrong-month:%s:%s" % (tag, d),
                              "10.0 mm on %s (day %d of %d) stored as %r cm, the factor of month %d gives %r"
                              % (d, doy(d), c["year"], float.fromhex(x), d.month, want)))
                break
        if len(obs) != len(c["days"]):
            fails.append(("precipitation-correction-year-length:%s" % tag, "%d days stored, the year has %d" % (len(obs), len(c["days"]))))
    if defs:
        body = ["From Coq Require Import ZArith List Bool Floats.", "From Hermes Require Import Num WeatherModel C04TokCorr.", "Import ListNotations.",
                "Open Scope float_scope.", "Definition corr : list float := [%s]." % "; ".join(hexf(float(v)) for v in PRECO_FACTORS)] + defs + \
               ["Definition ALL := [%s]." % "; ".join("S%d" % k for k in range(len(names))), "Print ALL."]
        rc, out = ctx.coq_eval("Cases_C04_preco", "\n".join(body) + "\n")
        m = re.search(r"ALL\s*=\s*(\[.*\])\s*:\s*list \(list Z\)", out, re.S)
        if rc != 0 or not m:
            mism.append({"kind": "coq-eval", "shard": "Cases_C04_preco", "output": out[-1200:]})
        else:
            groups = re.findall(r"\[([^\[\]]*)\]", m.group(1)[1:-1])
            for tag, g in zip(names, groups):
                idx = [int(x) for x in re.findall(r"-?\d+", g)]
                if idx:
                    mism.append({"kind": "preco-sweep", "what": "factor of the reader differs from WeatherModel.corr_value on day indices (0-based; -1 = year length)",
                                 "days": idx[:12], "case": tag})
    return mism, fails
