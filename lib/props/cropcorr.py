"""shared by C13 and C18: the loaded-state correspondence of CropParamModel / OverrideModel.
Jobs run the REAL readers (harness command cropstate), the Coq models are evaluated on the same bytes
(C13Corr.mismatches) and every field is compared bit for bit."""
import json, os, re, subprocess
from core import Corr

FLOAT_FIELDS = (["MAXAMAX", "MINTMP", "WUMAXPF", "VELOC", "RGA", "RGB", "YIFAK", "PHYLLO", "VERNTAGE", "TROOTSUM", "GEHOB", "WUGEH",
                 "kcini", "tendsum"] + ["SUM[%d]" % i for i in range(10)] + ["PRO[%d][%d]" % (i, j) for i in range(10) for j in range(5)] +
                ["DEAD[%d][%d]" % (i, j) for i in range(10) for j in range(5)] + ["WORG[%d]" % i for i in range(5)] +
                ["%s[%d]" % (n, i) for n in ("MAIRT", "WDORG", "ENDBBCH", "TSUM", "BAS", "VSCHWELL", "DAYL", "DLBAS", "DRYSWELL", "LUKRIT",
                                            "LAIFKT", "WGMAX", "kc") for i in range(10)])
INT_FIELDS = (["temptyp", "NGEFKT", "SubOrgan", "YORGAN", "NRKOM", "DAUERKULT", "LEGUM", "NRENTW", "useBBCH", "DOUBLE", "ASIP", "BLUET",
               "REIF", "ENDPRO"] + ["DEV[%d]" % i for i in range(10)] + ["len(AGO)"] + ["AGO[%d]" % i for i in range(9)])


def field_name(pos):
    if pos >= 10000:
        k = pos - 10000
        return INT_FIELDS[k] if k < len(INT_FIELDS) else "int#%d" % k
    special = {99999: "float-list-length", 99998: "int-list-length", 77777: "model accepts, code rejects",
               88888: "model rejects, code accepts", 66666: "python edit differs from edit_lines", 55555: "edit_lines fails",
               44444: "unknown parameter name"}
    if pos in special:
        return special[pos]
    return FLOAT_FIELDS[pos] if pos < len(FLOAT_FIELDS) else "float#%d" % pos


def run_jobs(ctx, jobs, tag="jobs"):
    """-> {id: {"f":[..],"z":[..]} | {"err":..}} ; a Fatal of the real code = {"err":"fatal"}"""
    vh = ctx.harness()
    jf = os.path.join(ctx.work, "%s_%s.json" % (ctx.id, tag))
    json.dump(jobs, open(jf, "w"))
    out = {}
    start = 0
    while start < len(jobs):
        p = subprocess.run([vh, "cropstate", "-jobs", jf, "-from", str(start)], stdout=subprocess.PIPE, stderr=subprocess.PIPE,
                           text=True, timeout=900)
        for line in p.stdout.split("\n"):
            if line.startswith("{"):
                o = json.loads(line)
                out[o["id"]] = o
        if p.returncode == 0:
            break
        last = [int(x) for x in re.findall(r"(?m)^JOB (\d+)$", p.stderr)]
        k = last[-1] if last else start
        out[jobs[k]["id"]] = {"id": jobs[k]["id"], "err": "fatal", "stderr": p.stderr[-300:]}
        start = k + 1
    return out


def fl(s):
    return "(%s)" % s if s.startswith("-") else s


def obs_term(o):
    if o is None or "err" in o:
        return "None"
    return "(Some ([%s], [%s]%%Z))" % ("; ".join(fl(x) for x in o["f"]), "; ".join("(%d)" % z for z in o["z"]))


def args_term(args):
    if args is None:
        return "None"
    return "(Some [%s])" % "; ".join('("%s", "%s")' % (k, v) for k, v in args)


def b(x):
    return "true" if x else "false"


def rec_term(o):
    """Coq crop_rec literal from the flatRec dump of the decoded YAML record"""
    f, z = list(o["f"]), list(o["z"])
    temptyp, ngefkt, suborgan, yorgan, nrkom, nnames, dauer, legum, nrentw, nago = z[:10]
    ago = z[10:10 + nago]
    p = 10 + nago
    nworg, nmairt, nst = z[p:p + 3]
    p += 3
    sc = f[:10]
    q = 10
    worg = f[q:q + nworg]; q += nworg
    mairt = f[q:q + nmairt]; q += nmairt
    L = lambda xs: "[%s]" % "; ".join(fl(x) for x in xs)
    Z = lambda xs: "[%s]%%Z" % "; ".join("(%d)" % x for x in xs)
    sts = []
    for k in range(nst):
        bbch, npro, ndead = z[p:p + 3]; p += 3
        v = f[q:q + 10]; q += 10
        pro = f[q:q + npro]; q += npro
        dead = f[q:q + ndead]; q += ndead
        sts.append("{| st_bbch := (%d)%%Z; st_tsum := %s; st_bas := %s; st_vschwell := %s; st_dayl := %s; st_dlbas := %s; "
                   "st_dryswell := %s; st_lukrit := %s; st_laifkt := %s; st_wgmax := %s; st_pro := %s; st_dead := %s; st_kc := %s |}"
                   % ((bbch,) + tuple(fl(x) for x in v[:9]) + (L(pro), L(dead), fl(v[9]))))
    return ("{| r_maxamax := %s; r_temptyp := (%d)%%Z; r_mintmp := %s; r_wumaxpf := %s; r_veloc := %s; r_ngefkt := (%d)%%Z; r_rga := %s; "
            "r_rgb := %s; r_suborgan := (%d)%%Z; r_ago := %s; r_yorgan := (%d)%%Z; r_yifak := %s; r_initbiom := %s; r_initroot := %s; "
            "r_nrkom := (%d)%%Z; r_nnames := %d%%nat; r_dauerkult := %s; r_legum := %s; r_worg := %s; r_mairt := %s; r_kcini := %s; "
            "r_nrentw := (%d)%%Z; r_stages := [%s] |}"
            % (fl(sc[0]), temptyp, fl(sc[1]), fl(sc[2]), fl(sc[3]), ngefkt, fl(sc[4]), fl(sc[5]), suborgan, Z(ago), yorgan, fl(sc[6]),
               fl(sc[7]), fl(sc[8]), nrkom, nnames, b(dauer), b(legum), L(worg), L(mairt), fl(sc[9]), nrentw, ";\n   ".join(sts)))


def pack(data):
    """bytes -> Coq list of primitive ints: byte count, then 7 bytes per int (little endian)"""
    out = [str(len(data))]
    for k in range(0, len(data), 7):
        out.append(str(int.from_bytes(data[k:k + 7], "little")))
    return "[%s]%%uint63" % "; ".join(out)


def split_lines(data):
    ls = data.split(b"\n")
    if ls and ls[-1] == b"":
        ls.pop()
    return [l[:-1] if l.endswith(b"\r") else l for l in ls]


class CaseSet:
    """cases grouped into shards; every shard carries the files its cases refer to (an edited file as a
    one-line patch of its base file when that is what it is)"""
    def __init__(self, per_shard=60):
        self.shards = []      # [(files: [coq term], cases: [(term, description)])]
        self.per = per_shard
        self._new()

    def _new(self):
        self.files, self.index, self.cases = [], {}, []
        self.shards.append((self.files, self.cases))

    def file(self, data, base=None):
        if data in self.index:
            return self.index[data]
        term = None
        if base is not None:
            bi = self.file(base)
            a, b_ = split_lines(base), split_lines(data)
            diff = [k for k in range(min(len(a), len(b_))) if a[k] != b_[k]]
            if len(a) == len(b_) and len(diff) == 1 and data.endswith(b"\n") and b"\r" not in data:
                term = "FPatch %d%%nat %d%%nat %s" % (bi, diff[0], pack(b_[diff[0]]))
        if term is None:
            term = "FFull %s" % pack(data)
        self.index[data] = len(self.files)
        self.files.append(term)
        return self.index[data]

    def add(self, term_fn, desc):
        """term_fn(self.file) -> Coq term (so that file indices belong to the current shard)"""
        if len(self.cases) >= self.per:
            self._new()
        self.cases.append((term_fn(self.file), desc))

    def total(self):
        return sum(len(c) for _, c in self.shards)


HDR = ["From Coq Require Import ZArith List Bool String Floats Uint63.",
       "From Hermes Require Import Num DateModel CropParamModel OverrideModel C13Corr.",
       "Import ListNotations.", "Open Scope float_scope.", "Open Scope string_scope."]


def evaluate(ctx, corr, cs, name, fn="mismatches", casetype="case", extra_import="", kind="crop-state", namer=None):
    """compile the shards; append mismatches to corr"""
    namer = namer or field_name
    items = []
    for k, (files, cases) in enumerate(cs.shards):
        if not cases:
            continue
        body = HDR[:2] + ([extra_import] if extra_import else []) + HDR[2:] + [
                      "Definition files : list fsrc := [\n%s\n]." % ";\n".join(files),
                      "Definition cases : list %s := [\n%s\n]." % (casetype, ";\n".join(t for t, _ in cases)),
                      "Definition M := Eval vm_compute in %s files cases." % fn, "Print M."]
        items.append(("%s_%d" % (name, k), "\n".join(body) + "\n"))
    res = ctx.coq_eval_many(items, timeout=1500)
    shard_of = {n: k for k, (n, _) in enumerate(items)}
    live = [s for s in cs.shards if s[1]]
    for nm, rc, o in res:
        m = re.search(r"M\s*=\s*(.*?)\s*:\s*list \(nat \* list Z\)", o, re.S)
        cases = live[shard_of[nm]][1]
        if rc != 0 or not m:
            corr.mismatches.append({"kind": "coq-eval", "shard": nm, "output": o[-1500:]})
            continue
        txt = m.group(1).strip()
        if txt == "[]":
            continue
        found = re.findall(r"\((\d+)(?:%nat)?,\s*\[([^\]]*)\]\)", txt)
        if not found:
            corr.mismatches.append({"kind": "coq-eval", "shard": nm, "output": o[-1500:]})
        for idx, poss in found:
            pos = [int(x) for x in re.findall(r"-?\d+", poss)]
            corr.mismatches.append({"kind": kind, "case": cases[int(idx)][1], "differs": [namer(p) for p in pos]})
    # generated case files do not stay behind (a shard that did not evaluate to [] is kept for the replay)
    bad = {m.get("shard") for m in corr.mismatches if isinstance(m, dict) and m.get("shard")}
    keep_all = any(isinstance(m, dict) and m.get("kind") == kind for m in corr.mismatches)
    if not keep_all:
        for nm, _ in items:
            if nm in bad:
                continue
            for ext in (".v", ".vo", ".vok", ".vos", ".glob"):
                try:
                    os.remove(os.path.join(ctx.gen, nm + ext))
                except OSError:
                    pass
            try:
                os.remove(os.path.join(ctx.gen, "." + nm + ".aux"))
            except OSError:
                pass
    corr.cases += cs.total()
    return corr
