"""C17 — cluster partitioning executes every batch line exactly once.

proof:           Prop_C17.v  (cover: all L, K >= 1; count: all buffer sizes >= 2, all LF/CRLF files;
                 end-to-end composition) over BatchModel.v
correspondence:  the REAL calcHermesBatch binary (-size / -list, built from the working tree) on every
                 (L, K) of the sweep and on generated batch files (blank lines, LF/CRLF/mixed, no final
                 newline, terminators around the 32 KiB buffer edges, stray CRs), and the REAL hermes2go
                 binary (-lines a-b -logoutput) on stub batch files, compared with BatchModel evaluated in Coq
oracle:          on the real binaries only: ranges contiguous from 1 to L, their number = -size, count =
                 number of lines bufio.Scanner keeps (LF/CRLF files), and the log ids started over all ranges
                 = 0..L-1 exactly once
"""
import os, re, random, subprocess
from concurrent.futures import ThreadPoolExecutor
from core import Corr, Fail, chunked_list, BuildError

PROP_FILES = ["Prop_C17"]
RULE = ("partition: every (L, K) with L, K <= bound (exhaustive) plus random larger pairs — distinct (L, K); "
        "count: generated files, distinct byte content; dispatch: distinct (file, K, range)")
TRUSTED = ["bufio.Scanner/ScanLines as the reference of the line-reader specification (compared on every generated file)",
           "fmt %d / strconv.ParseUint / hermes.Explode on the range text (exercised on the real binaries, not modelled)",
           "os.File.Read on a regular file fills the buffer except at the end (count theorem: reads of >= 2 bytes)"]
ASSUMPTIONS = ["uint64/int arithmetic modelled on unbounded Z (line and node counts < 2^63)",
               "batch lines shorter than bufio.MaxScanTokenSize (64 KiB), else the simulator aborts",
               "K >= 1 (K = 0 is an integer-divide panic of the calculator, outside the property)"]
HUGE = "18446744073709551615"     # -size with this many nodes prints the line count itself
NO_SCAN = (1 << 62) - 1
_cache = {}


def _bins(ctx):
    if "bins" not in _cache:
        calc = ctx.repo_bin("src/calcHermesBatch", "calcHermesBatch", tags="")
        h2g = ctx.repo_bin("src/hermes2go", "hermes2go")
        _cache["bins"] = (calc, h2g)
    return _cache["bins"]


def _run(cmd, timeout=120):
    p = subprocess.run(cmd, stdout=subprocess.PIPE, stderr=subprocess.PIPE, timeout=timeout)
    return p.returncode, p.stdout.decode("latin-1"), p.stderr.decode("latin-1")


def _parse_list(text):
    """'1-3 4-5' -> [(1,3),(4,5)] or None"""
    out = []
    for tok in text.split():
        m = re.fullmatch(r"(\d+)-(\d+)", tok)
        if not m:
            return None
        out.append((int(m.group(1)), int(m.group(2))))
    return out


def _cover_defect(L, size_txt, ranges):
    """the property, on what the real tool printed; returns a description or None"""
    if ranges is None:
        return "unparsable -list output"
    if not re.fullmatch(r"\d+", size_txt or ""):
        return "unparsable -size output %r" % size_txt
    if len(ranges) != int(size_txt):
        return "-size says %s jobs, -list has %d ranges" % (size_txt, len(ranges))
    s = 0
    for a, b in ranges:
        if a != s + 1:
            return "range %d-%d does not start right after line %d" % (a, b, s)
        if a > b:
            return "empty range %d-%d" % (a, b)
        s = b
    if s != L:
        return "last range ends at %d, file has %d lines" % (s, L)
    return None


def _observe(ctx):
    """runs the real binaries once; everything both correspond() and oracle() need"""
    if "obs" in _cache:
        return _cache["obs"]
    calc, h2g = _bins(ctx)
    rnd = random.Random(ctx.seed)
    work = os.path.join(ctx.work, "c17")
    os.makedirs(work, exist_ok=True)
    obs = {"part": [], "count": [], "disp": [], "errors": []}

    # ---------- partition sweep on the real calculator ----------
    bound = 400 if ctx.thorough else 60
    jobs = {L: list(range(1, bound + 1)) for L in range(1, bound + 1)}
    for _ in range(400 if ctx.thorough else 60):
        L = rnd.choice([rnd.randint(1, 5000), rnd.randint(bound, 3 * bound)])
        ks = {rnd.randint(1, 6000), rnd.randint(1, max(1, L)), L, L + 1, max(1, L - 1), max(1, L // 2), 1}
        jobs.setdefault(L, [])
        jobs[L] = sorted(set(jobs[L]) | ks)
    obs["bound"] = bound

    def sweep(L):
        f = os.path.join(work, "p%d.txt" % L)
        with open(f, "w") as fh:
            fh.write("".join("x=%d\n" % i for i in range(L)))
        script = "for k in %s; do printf 'S %%s ' $k; '%s' -batch '%s' -size $k; printf '\\nP %%s ' $k; '%s' -batch '%s' -list $k; printf '\\n'; done" % (
            " ".join(map(str, jobs[L])), calc, f, calc, f)
        rc, out, err = _run(["sh", "-c", script], timeout=600)
        os.unlink(f)
        res, sizes = [], {}
        for line in out.split("\n"):
            if line.startswith("S "):
                p = line.split(" ", 2)
                sizes[int(p[1])] = p[2].strip() if len(p) > 2 else ""
            elif line.startswith("P "):
                p = line.split(" ", 2)
                k = int(p[1])
                res.append((L, k, sizes.get(k), _parse_list(p[2] if len(p) > 2 else ""), (p[2] if len(p) > 2 else "")[:200]))
        if len(res) != len(jobs[L]):
            obs["errors"].append("calcHermesBatch L=%d: %d of %d answers; stderr %s" % (L, len(res), len(jobs[L]), err[-300:]))
        return res

    with ThreadPoolExecutor(max_workers=16) as ex:
        for res in ex.map(sweep, sorted(jobs)):
            obs["part"] += res

    # ---------- line counter on generated files ----------
    vh = ctx.harness()
    fdir = os.path.join(work, "files")
    os.makedirs(fdir, exist_ok=True)
    n = (1500, 1500, 200) if ctx.thorough else (300, 300, 40)
    rc, out, err = _run([vh, "c17", "-seed", str(ctx.seed), "-dir", fdir, "-small", str(n[0]), "-clean", str(n[1]),
                         "-big", str(n[2])], timeout=600)
    if rc != 0:
        obs["errors"].append("vh c17 failed: " + err[-500:])
    files = []
    for line in out.split("\n"):
        if line.startswith("F "):
            p = line.split()
            files.append({"name": p[1], "kind": p[2], "clean": p[3] == "1", "scan": int(p[4]), "rle": p[5:]})

    def count(fi):
        rc, o, e = _run([calc, "-batch", os.path.join(fdir, fi["name"]), "-size", HUGE])
        fi["count"] = int(o) if rc == 0 and re.fullmatch(r"\d+", o) else None
        fi["raw"] = (o + e)[:200]
        return fi

    with ThreadPoolExecutor(max_workers=16) as ex:
        obs["count"] = list(ex.map(count, files))

    # ---------- both tools together on stub batch files (lines without project= fail fast, not fatally) ----------
    nfiles = 60 if ctx.thorough else 24
    # every generated line j is "project=p plotNr=1 CropFile=x c_Zq<j>=1": hermes.Run rejects the crop parameter name
    # "Zq<j>" with a non-fatal error BEFORE touching any file, and the error text names j — so the simulator's output
    # tells which LINE TEXT each log id executed (blank lines that get dispatched show up as "arguments required")
    FIXED = [["L", "\r\n", "", "\r\n", "L", "\r\n", "L", "\r\n", "L", "\r\n"],           # CRLF, blank in the middle
             ["", "\r\n", "L", "\r\n", "", "\r\n", "", "\r\n", "L", "\r\n", "L"],        # CRLF, leading blanks, no final newline
             ["L", "\n", "", "\n", "L", "\r\n", "", "\r\n", "L", "\n", "L", "\r\n", "", "\r\n"],   # mixed
             ["L", "\n", "", "\n", "", "\n", "L", "\n", "L"]]                                  # LF

    def stub(i):
        r = random.Random(ctx.seed * 1000003 + i)
        parts, expect = [], 0
        if i < len(FIXED):
            for tok in FIXED[i]:
                if tok == "L":
                    parts.append("project=p plotNr=1 CropFile=x c_Zq%d=1" % expect)
                    expect += 1
                else:
                    parts.append(tok)
        else:
            nl = r.randint(1, 14)
            mode = r.randint(0, 2)
            for j in range(nl):
                blank = r.random() < 0.3
                parts.append("" if blank else "project=p plotNr=1 CropFile=x c_Zq%d=1" % expect)
                expect += 0 if blank else 1
                if j == nl - 1 and r.random() < 0.3:
                    break
                parts.append("\r\n" if mode == 1 or (mode == 2 and r.random() < 0.5) else "\n")
        data = "".join(parts)
        f = os.path.join(work, "stub%d.txt" % i)
        with open(f, "wb") as fh:
            fh.write(data.encode())
        out = []
        for K in sorted({1, r.randint(1, 4), r.randint(2, 16), max(1, expect), expect + 1}):
            rc, o, e = _run([calc, "-batch", f, "-list", str(K)])
            rc2, sz, e2 = _run([calc, "-batch", f, "-size", str(K)])
            ranges = _parse_list(o)
            runs = []
            tasks = [(a, b, 0, False) for (a, b) in (ranges or [])]
            if ranges:      # the other forms the -lines parser accepts: "a-end" and "N" (not part of the cover, checked per task)
                a0, b0 = ranges[r.randrange(len(ranges))]
                tasks += [(a0, 0, 1, True), (0, b0, 2, True)]
            for ti, (a, b, form, extra) in enumerate(tasks):
                spec = "%d-%d" % (a, b) if form == 0 else ("%d-end" % a if form == 1 else "%d" % b)
                # the options in a different order on every command line (0 -batch 1 -lines 2 -concurrent 3 -logoutput 4 -module 5 -workingdir)
                groups = {0: ["-batch", f], 1: ["-lines", spec], 2: ["-concurrent", "2"], 3: ["-logoutput"], 4: ["-module", "batch"], 5: ["-workingdir", work]}
                order = [0, 1, 2, 3, 4] + ([5] if r.random() < 0.3 else [])
                r.shuffle(order)
                if (ti + i + K) % 3 == 0 and order.index(1) > order.index(0):      # at least a third with -lines before -batch
                    x, y = order.index(0), order.index(1)
                    order[x], order[y] = order[y], order[x]
                cmdline = [h2g] + [t for g in order for t in groups[g]]
                rc3, o3, e3 = _run(cmdline)
                head, _, summary = o3.partition("Error Summary:")
                ids = [int(m) for m in re.findall(r"(?m)^\[(\d+)\]$", head)]
                which = {int(m.group(1)): int(m.group(2)) for m in re.finditer(r"(?m)^\[(\d+)\] Error: invalid crop parameter name: Zq(\d+)\s*$", summary)}
                runs.append({"a": a, "b": b, "form": form, "extra": extra, "spec": spec, "order": order, "cmd": " ".join(cmdline[1:]).replace(f, "f").replace(work, "w"),
                             "ids": ids, "lines": [which.get(x) for x in ids], "rc": rc3, "tail": (o3 + e3)[-200:] if rc3 else ""})
            out.append({"file": data, "n": expect, "K": K, "size": sz, "list": o[:300], "ranges": ranges, "runs": runs})
        return out

    with ThreadPoolExecutor(max_workers=8) as ex:
        for res in ex.map(stub, range(nfiles)):
            obs["disp"] += res
    _cache["obs"] = obs
    return obs


def _runs(ranges):
    """contiguous-from-1 ranges -> packed (width*2^20+n) runs, or None when not of that shape"""
    s, runs = 0, []
    for a, b in ranges:
        if a != s + 1 or b < a or b - a + 1 >= (1 << 20):
            return None
        w = b - a + 1
        if runs and runs[-1][0] == w:
            runs[-1][1] += 1
        else:
            runs.append([w, 1])
        s = b
    return ["%d" % (w * (1 << 20) + n) for w, n in runs]


def correspond(ctx):
    c = Corr()
    obs = _observe(ctx)
    for e in obs["errors"]:
        c.mismatches.append({"kind": "harness", "what": e})
    hdr = ["From Coq Require Import ZArith List Uint63.", "From Hermes Require Import BatchModel C17Corr.",
           "Import ListNotations.", "Open Scope uint63_scope."]
    items, index = [], {}
    # partition cases
    pcs = []
    for (L, K, size, ranges, raw) in obs["part"]:
        runs = _runs(ranges) if ranges is not None else None
        if runs is None or not re.fullmatch(r"\d{1,15}", size or "") or L >= (1 << 20) or K >= (1 << 20):
            # not the shape any model output has (non-contiguous / unparsable): certainly a disagreement
            c.mismatches.append({"kind": "partition", "L": L, "K": K, "size": size, "list": raw})
            continue
        pcs.append(("(%d, %s, [%s])" % (L * (1 << 20) + K, size, "; ".join(runs)), (L, K)))
        c.bump("L<K" if L < K else ("L%K=0" if L % K == 0 else "L%K>0"))
    NSH = 16 if ctx.thorough else 4
    per = (len(pcs) + NSH - 1) // NSH or 1
    for k in range(NSH):
        part = pcs[k * per:(k + 1) * per]
        if part:
            name = "Cases_C17_part%d" % k
            index[name] = [p[1] for p in part]
            items.append((name, "\n".join(hdr + [
                "Definition cases : list (int * int * list int) := %s." % chunked_list([p[0] for p in part], "(int * int * list int)"),
                "Definition MM := Eval vm_compute in mismatches part_case_ok 0%Z cases.", "Print MM."]) + "\n"))
    # count cases
    ccs = []
    for fi in obs["count"]:
        if fi["count"] is None or fi["count"] >= NO_SCAN:
            c.mismatches.append({"kind": "count", "file": fi["name"], "what": "calculator printed " + fi["raw"]})
            continue
        scan = NO_SCAN if fi["scan"] < 0 else fi["scan"]
        ccs.append(("([%s], %d, %d)" % ("; ".join(fi["rle"]), fi["count"], scan), fi))
        c.bump("file:" + fi["kind"])
    CSH = 8
    per = (len(ccs) + CSH - 1) // CSH or 1
    order = sorted(range(len(ccs)), key=lambda i: i % CSH)       # spread the big files over the shards
    ccs = [ccs[i] for i in order]
    for k in range(CSH):
        part = ccs[k * per:(k + 1) * per]
        if part:
            name = "Cases_C17_count%d" % k
            index[name] = [p[1]["name"] + " " + p[1]["kind"] for p in part]
            items.append((name, "\n".join(hdr + [
                "Definition cases : list (list int * int * int) := %s." % chunked_list([p[0] for p in part], "(list int * int * int)", chunk=50),
                "Definition MM := Eval vm_compute in mismatches count_case_ok 0%Z cases.", "Print MM."]) + "\n"))
    # dispatch cases
    dcs = []
    for d in obs["disp"]:
        for r in d["runs"]:
            if r["rc"] != 0:
                c.mismatches.append({"kind": "dispatch", "what": "hermes2go -lines %d-%d exited %d: %s" % (r["a"], r["b"], r["rc"], r["tail"])})
                continue
            NOLINE = (1 << 20) - 1      # the log id executed something that is none of the generated lines (e.g. a blank line)
            pairs = ["%d" % ((i << 20) + (NOLINE if j is None or j >= NOLINE else j)) for i, j in zip(r["ids"], r["lines"])]
            dcs.append(("(%d, %d, [%s], [%s])" % ((d["n"] << 40) + (r["a"] << 20) + r["b"], r["form"], "; ".join(map(str, r["order"])), "; ".join(pairs)),
                        "n=%d %s -> ids %s lines %s" % (d["n"], r["cmd"], r["ids"], r["lines"])))
            c.bump("lines-before-batch" if r["order"].index(1) < r["order"].index(0) else "batch-before-lines")
    if dcs:
        index["Cases_C17_disp"] = [x[1] for x in dcs]
        items.append(("Cases_C17_disp", "\n".join(hdr + [
            "Definition cases : list (int * int * list int * list int) := %s." % chunked_list([x[0] for x in dcs], "(int * int * list int * list int)"),
            "Definition MM := Eval vm_compute in mismatches disp_case_ok 0%Z cases.", "Print MM."]) + "\n"))
    c.cases = len(pcs) + len(ccs) + len(dcs)
    c.nontrivial = len({p[1] for p in pcs}) + len({p[0] for p in ccs}) + len({x[1] for x in dcs})
    c.dist["dispatch"] = len(dcs)
    c.samples = ["-list L=7 K=3 -> 1-3 4-5 6-7"] + [x[1] for x in dcs[:3]] + \
                ["%s kind=%s count=%s scanner=%s" % (p[1]["name"], p[1]["kind"], p[1]["count"], p[1]["scan"]) for p in ccs[:3]]
    c.notes.append("partition sweep exhaustive for L, K <= %d" % obs["bound"])
    for name, rc, o in ctx.coq_eval_many(items, timeout=1500):
        m = re.search(r"MM\s*=\s*(.*?)\s*:\s*list Z", o, re.S)
        if rc != 0 or not m:
            c.mismatches.append({"kind": "coq-eval", "shard": name, "output": o[-1500:]})
        elif m.group(1).strip() != "[]":
            idx = [int(x) for x in re.findall(r"\d+", m.group(1))]
            c.mismatches.append({"kind": name, "what": "BatchModel and the real tool differ",
                                 "cases": [index[name][i] for i in idx[:20]]})
    return c


def oracle(ctx, search):
    obs = _observe(ctx)
    fails = []
    for (L, K, size, ranges, raw) in obs["part"]:
        d = _cover_defect(L, size, ranges)
        if d:
            fails.append(Fail(key="cover L=%d K=%d" % (L, K), what=d, replay="file of %d lines 'x=i\\n'; calcHermesBatch -batch f -size %d ; -list %d" % (L, K, K),
                              size=size, list=raw))
    for fi in obs["count"]:
        if fi["clean"] and fi["scan"] >= 0 and fi["count"] != fi["scan"]:
            fails.append(Fail(key="count %s" % fi["kind"], what="calculator counts %s lines, the simulator's reader keeps %d" % (fi["count"], fi["scan"]),
                              file_rle=" ".join(fi["rle"][:60]),
                              file=repr(b"".join(bytes([int(x) % 256]) * (int(x) // 256) for x in fi["rle"])[:120]),
                              replay="write the bytes to f; calcHermesBatch -batch f -size %s prints the count" % HUGE))
    outside = unexplained = 0
    for fi in obs["count"]:
        if not fi["clean"] and fi["scan"] >= 0 and fi["count"] != fi["scan"]:
            data = b"".join(bytes([int(x) % 256]) * (int(x) // 256) for x in fi["rle"])
            if fi["count"] == fi["scan"] + 1 and data.split(b"\n")[-1] == b"\r":
                outside += 1
            else:
                unexplained += 1
    for d in obs["disp"]:
        defect = _cover_defect(d["n"], d["size"], d["ranges"]) if d["n"] >= 1 else None
        cover = [r for r in d["runs"] if not r["extra"]]
        ids = [i for r in cover for i in r["ids"]]
        texts = [j for r in cover for j in r["lines"]]
        if defect is None and d["n"] >= 1 and ids != list(range(d["n"])):
            defect = "log ids started over all ranges: %s, expected each of 0..%d once" % (ids, d["n"] - 1)
        if defect is None and d["n"] >= 1 and texts != list(range(d["n"])):
            times = {j: texts.count(j) for j in range(d["n"])}
            defect = ("batch lines executed over all ranges: %s (None = a run that is none of the non-empty lines); every non-empty line "
                      "0..%d must be executed exactly once, counts %s" % (texts, d["n"] - 1, times))
        # every single task executes exactly its range, wherever -lines stands on the command line
        for r in d["runs"]:
            if r["rc"] != 0:
                continue
            lo, hi = {0: (r["a"] - 1, min(r["b"], d["n"])), 1: (r["a"] - 1, d["n"]), 2: (0, min(r["b"], d["n"]))}[r["form"]]
            want = list(range(lo, hi))
            if r["ids"] != want or r["lines"] != want:
                fails.append(Fail(key="task -lines %s %s" % ("a-b a-end N".split()[r["form"]], "before -batch" if r["order"].index(1) < r["order"].index(0) else "after -batch"),
                                  what="hermes2go %s on a batch file with %d non-empty lines executed lines %s (log ids %s); the range is lines %s"
                                       % (r["cmd"], d["n"], r["lines"], r["ids"], want), batch_file=d["file"]))
        if defect is None and any(r["rc"] != 0 for r in d["runs"]):
            defect = "hermes2go aborted on a printed range"
        if defect:
            fails.append(Fail(key="execute n=%d K=%d" % (d["n"], d["K"]), what=defect, batch_file=d["file"], list=d["list"],
                              replay="calcHermesBatch -batch f -list %d; for each a-b: hermes2go -module batch -logoutput -batch f -lines a-b" % d["K"]))
    ctx.extra["oracle_partition_pairs"] = len(obs["part"])
    ctx.extra["oracle_count_files"] = len(obs["count"])
    ctx.extra["oracle_end_to_end_runs"] = sum(len(d["runs"]) for d in obs["disp"])
    ctx.extra["count_differs_outside_property"] = ("%d generated files with a stray CR (not LF/CRLF endings) where calculator and reader "
                                                   "differ by the lone-CR last line of Example C17_count_lone_cr; %d other differences" % (outside, unexplained))
    return fails[:50]


LEVEL_TEXT = ("Machine-checked proof (Coq), unbounded: for every L >= 1 and K >= 1 the printed ranges are as many as the reported "
              "job-array size, contiguous from 1 to L, and through the -lines filter start every line exactly once; for every "
              "buffer size >= 2 and every LF/CRLF file the calculator's count equals the number of lines the simulator keeps. "
              "The model is compared on every run with the real calcHermesBatch and hermes2go binaries (exhaustive L, K <= 60 quick / "
              "400 thorough, generated files around the 32 KiB buffer edges).")
LEVEL_NOTE = ("Trusted: Coq kernel + vm_compute; bufio.ScanLines as reference of the reader specification (checked on every generated "
              "file); text rendering/parsing of ranges (exercised end to end); os.File.Read filling its buffer. Excluded by "
              "hypothesis: a file whose unterminated last line is a single CR (calculator counts it, reader drops it).")
TECHNIQUE = "Coq proof (induction + lia, carry-over invariant of the chunked scanner) + exhaustive-to-bound correspondence on the real binaries"
